// vischeck decides structural clauses of the go-vise properties C01..C20 from /repo's current
// source (type-checked packages, SSA, CFG, call graph). It never executes go-vise.
package main

import (
	"flag"
	"fmt"
	"os"
	"path/filepath"
	"runtime/debug"
	"sort"
	"strconv"
	"strings"
	"time"

	"vischeck/internal/core"
	"vischeck/internal/rules"
)

func main() {
	prop := flag.String("p", "", "property id (C01..C20)")
	tier := flag.String("tier", "quick", "quick | thorough")
	repo := flag.String("repo", "/repo", "repository root")
	verif := flag.String("verif", "", "verification directory (default: directory above the binary, else /verif)")
	list := flag.Bool("list", false, "list properties and rules")
	doc := flag.Bool("doc", false, "print the rule sets as markdown (runs every property once on -repo)")
	replay := flag.String("replay", "", "re-evaluate the obligation recorded in a violation file")
	verbose := flag.Bool("v", false, "print every obligation")
	noSelf := flag.Bool("noselftest", false, "thorough tier without the seeded-variant self-validation")
	matrix := flag.Bool("matrix", false, "run the quick tier of every property on one load of -repo; prints '##PROP <id>' before and '##EXIT <id> <code>' after each report (used by the catalogue scripts)")
	flag.Parse()

	vdir := *verif
	if vdir == "" {
		vdir = "/verif"
		if exe, err := os.Executable(); err == nil {
			d := filepath.Dir(filepath.Dir(exe))
			if _, err := os.Stat(filepath.Join(d, "MANIFEST.json")); err == nil {
				vdir = d
			}
		}
	}
	if *list {
		var ids []string
		for id := range rules.Registry {
			ids = append(ids, id)
		}
		sort.Strings(ids)
		for _, id := range ids {
			fmt.Printf("%s  %s\n", id, rules.Registry[id].Title)
		}
		return
	}
	if *doc {
		w, err := core.Load(*repo, core.BuildConfig{})
		if err != nil {
			fmt.Fprintln(os.Stderr, err)
			os.Exit(2)
		}
		var ids []string
		for id := range rules.Registry {
			ids = append(ids, id)
		}
		sort.Strings(ids)
		for _, id := range ids {
			pc := rules.Registry[id]
			r := core.NewReport(id, w)
			pc.Run(w, r)
			cnt := map[string][3]int{}
			for _, o := range r.Obls {
				c := cnt[o.Rule]
				switch o.Verdict {
				case core.VOK:
					c[0]++
				case core.VViolated:
					c[1]++
				default:
					c[2]++
				}
				cnt[o.Rule] = c
			}
			fmt.Printf("### %s %s\n\n", id, pc.Title)
			fmt.Printf("*Decided.* %s\n\n", pc.Explain)
			var rids []string
			for k := range r.RuleDocs {
				rids = append(rids, k)
			}
			sort.Strings(rids)
			fmt.Println("| rule | statement | obligations on the current tree (discharged / violated = findings / other) |")
			fmt.Println("|---|---|---|")
			for _, k := range rids {
				c := cnt[k]
				fmt.Printf("| %s | %s | %d / %d / %d |\n", k, r.RuleDocs[k], c[0], c[1], c[2])
			}
			fmt.Printf("\n*Not decided.* %s\n\n", pc.NotDecided)
			if len(pc.Assume) > 0 {
				fmt.Printf("*Assumptions.* %s\n\n", strings.Join(pc.Assume, "; "))
			}
		}
		return
	}
	if *replay != "" {
		os.Exit(doReplay(*replay, *repo, vdir))
	}
	if *matrix {
		os.Exit(doMatrix(*repo, vdir))
	}
	pc, ok := rules.Registry[*prop]
	if !ok {
		fmt.Fprintf(os.Stderr, "unknown property %q\n", *prop)
		os.Exit(2)
	}
	seed := 0
	if s := os.Getenv("VERIF_SEED"); s != "" {
		seed, _ = strconv.Atoi(s)
	}
	if t := os.Getenv("VERIF_TIER"); t != "" && (t == "quick" || t == "thorough") {
		// the command line wins; VERIF_TIER is recorded only
		_ = t
	}
	out := &core.Outcome{Prop: *prop, Tier: *tier, Seed: seed, Start: time.Now(), VerifDir: vdir,
		Explain: pc.Explain, NotDecided: pc.NotDecided, Assume: pc.Assume,
		Callgraph: "CHA over P_L (SSA program rooted at the 14 library packages and their dependencies)"}

	configs := []core.BuildConfig{{}}
	if *tier == "thorough" {
		configs = nil
		for _, arch := range []string{"amd64", "386"} {
			for _, tags := range []string{"", "logerror", "logwarn", "loginfo", "logdebug", "logtrace"} {
				configs = append(configs, core.BuildConfig{Tags: tags, GOARCH: arch})
			}
		}
	}
	for _, bc := range configs {
		runOne(pc, *prop, *repo, bc, out)
		if out.Fatal != "" {
			break
		}
		debug.FreeOSMemory()
	}
	if *tier == "thorough" && !*noSelf && out.Fatal == "" {
		rules.SelfTest(*prop, *repo, vdir, out)
	}
	findings, err := core.LoadFindings(filepath.Join(vdir, "known_findings.json"))
	if err != nil && !os.IsNotExist(err) {
		out.Fatal = "known_findings.json: " + err.Error()
	}
	out.Verbose = *verbose
	os.Exit(out.Finish(findings))
}

func runOne(pc rules.PropCheck, prop, repo string, bc core.BuildConfig, out *core.Outcome) {
	defer func() {
		if e := recover(); e != nil {
			out.Fatal = fmt.Sprintf("internal panic under %s: %v\n%s", bc, e, strings.Join(strings.Split(string(debug.Stack()), "\n")[:20], "\n"))
		}
	}()
	w, err := core.Load(repo, bc)
	if err != nil {
		out.Fatal = err.Error()
		return
	}
	r := core.NewReport(prop, w)
	pc.Run(w, r)
	out.Merge(r)
}

func doReplay(path, repo, vdir string) int {
	ob, prop, err := core.ReadViolation(path)
	if err != nil {
		fmt.Fprintln(os.Stderr, err)
		return 2
	}
	pc, ok := rules.Registry[prop]
	if !ok {
		fmt.Fprintln(os.Stderr, "unknown property in replay file: "+prop)
		return 2
	}
	w, err := core.Load(repo, core.BuildConfig{})
	if err != nil {
		fmt.Println("ERROR " + err.Error())
		return 2
	}
	r := core.NewReport(prop, w)
	pc.Run(w, r)
	for _, o := range r.Obls {
		if o.Key() == ob.Key() {
			fmt.Printf("replay %s: %s %s [%s] -> %s %s\n", prop, o.Rule, o.Construct, o.Pos, o.Verdict, o.Detail)
			for _, wl := range o.Witness {
				fmt.Println("   " + wl)
			}
			if o.Verdict == core.VViolated {
				fmt.Printf("VIOLATION property=%s replay=%s\n", prop, path)
				return 1
			}
			return 0
		}
	}
	fmt.Printf("replay %s: obligation %q no longer produced on this tree\n", prop, ob.Key())
	return 0
}

// doMatrix runs every property's quick tier on one loaded World (the verdict logic is the same as
// for a single property: Outcome.Finish against the known findings of vdir).
func doMatrix(repo, vdir string) int {
	findings, err := core.LoadFindings(filepath.Join(vdir, "known_findings.json"))
	if err != nil && !os.IsNotExist(err) {
		fmt.Println("ERROR known_findings.json: " + err.Error())
		return 2
	}
	var ids []string
	for id := range rules.Registry {
		ids = append(ids, id)
	}
	sort.Strings(ids)
	w, lerr := core.Load(repo, core.BuildConfig{})
	worst := 0
	for _, id := range ids {
		pc := rules.Registry[id]
		out := &core.Outcome{Prop: id, Tier: "quick", Start: time.Now(), VerifDir: vdir,
			Explain: pc.Explain, NotDecided: pc.NotDecided, Assume: pc.Assume,
			Callgraph: "CHA over P_L (SSA program rooted at the 14 library packages and their dependencies)"}
		fmt.Printf("##PROP %s\n", id)
		if lerr != nil {
			out.Fatal = lerr.Error()
		} else {
			func() {
				defer func() {
					if e := recover(); e != nil {
						out.Fatal = fmt.Sprintf("internal panic: %v", e)
					}
				}()
				r := core.NewReport(id, w)
				pc.Run(w, r)
				out.Merge(r)
			}()
		}
		code := out.Finish(findings)
		fmt.Printf("##EXIT %s %d\n", id, code)
		if code > worst {
			worst = code
		}
	}
	return worst
}
