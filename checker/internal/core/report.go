package core

import (
	"encoding/json"
	"fmt"
	"go/token"
	"os"
	"path/filepath"
	"sort"
	"strings"
	"time"
)

// Verdicts of an obligation.
const (
	VOK        = "discharged"
	VViolated  = "violated"
	VUndecided = "undecided"
	VInfo      = "info"
)

// Obligation is one thing a rule had to establish about one construct.
type Obligation struct {
	Rule      string   `json:"rule"`
	Construct string   `json:"construct"`
	Verdict   string   `json:"verdict"`
	Pos       string   `json:"pos,omitempty"`
	Detail    string   `json:"detail,omitempty"`
	Witness   []string `json:"witness,omitempty"`
	Known     bool     `json:"known_finding,omitempty"`
	Config    string   `json:"build_config,omitempty"`
}

// Key identifies an obligation independently of line numbers.
func (o Obligation) Key() string { return o.Rule + " | " + o.Construct }

// Report collects the obligations of one property under one build configuration.
type Report struct {
	Prop     string
	W        *World
	Obls     []Obligation
	RuleDocs map[string]string
	seen     map[string]int
	Vacuous  []string
	// counters for evidence
	FuncsAnalysed map[string]bool
	CallSites     int
}

func NewReport(prop string, w *World) *Report {
	return &Report{Prop: prop, W: w, RuleDocs: map[string]string{}, seen: map[string]int{}, FuncsAnalysed: map[string]bool{}}
}

// Rule registers the one-line statement of a rule (printed and put into the evidence).
func (r *Report) Rule(id, doc string) { r.RuleDocs[id] = doc }

func (r *Report) add(o Obligation) {
	// make construct keys unique and stable: ordinal among equals in report order
	k := o.Key()
	r.seen[k]++
	if n := r.seen[k]; n > 1 {
		o.Construct = fmt.Sprintf("%s #%d", o.Construct, n)
	}
	if r.W != nil {
		o.Config = r.W.Config.String()
	}
	r.Obls = append(r.Obls, o)
}

func (r *Report) pos(p token.Pos) string {
	if r.W == nil {
		return ""
	}
	return r.W.Pos(p)
}

func (r *Report) OK(rule, construct string, p token.Pos, detail string) {
	r.add(Obligation{Rule: rule, Construct: construct, Verdict: VOK, Pos: r.pos(p), Detail: detail})
}

func (r *Report) Bad(rule, construct string, p token.Pos, detail string, witness ...string) {
	r.add(Obligation{Rule: rule, Construct: construct, Verdict: VViolated, Pos: r.pos(p), Detail: detail, Witness: witness})
}

func (r *Report) Undecided(rule, construct string, p token.Pos, detail string) {
	r.add(Obligation{Rule: rule, Construct: construct, Verdict: VUndecided, Pos: r.pos(p), Detail: detail})
}

func (r *Report) Info(rule, construct string, p token.Pos, detail string) {
	r.add(Obligation{Rule: rule, Construct: construct, Verdict: VInfo, Pos: r.pos(p), Detail: detail})
}

// Check records OK or Bad depending on cond.
func (r *Report) Check(cond bool, rule, construct string, p token.Pos, okDetail, badDetail string, witness ...string) bool {
	if cond {
		r.OK(rule, construct, p, okDetail)
	} else {
		r.Bad(rule, construct, p, badDetail, witness...)
	}
	return cond
}

// Floor fails the check as vacuous when a rule matched fewer instances than confirmed by hand.
func (r *Report) Floor(rule, what string, got, want int) {
	if got < want {
		r.Vacuous = append(r.Vacuous, fmt.Sprintf("%s: matched %d %s, floor is %d", rule, got, what, want))
	}
}

// Touch records that a function was analysed (for the evidence counts).
func (r *Report) Touch(fn string) { r.FuncsAnalysed[fn] = true }

// ---------------------------------------------------------------------------------------------
// Known findings

type Finding struct {
	Property       string `json:"property"`
	Rule           string `json:"rule"`
	Construct      string `json:"construct"`
	Status         string `json:"status"` // open | fixed
	Commit         string `json:"commit,omitempty"`
	WhatFails      string `json:"what_fails"`
	DemonstratedBy string `json:"demonstrated_by,omitempty"`
}

type FindingsFile struct {
	Comment  string    `json:"_comment,omitempty"`
	Findings []Finding `json:"findings"`
}

func LoadFindings(path string) ([]Finding, error) {
	b, err := os.ReadFile(path)
	if err != nil {
		return nil, err
	}
	var ff FindingsFile
	if err := json.Unmarshal(b, &ff); err != nil {
		return nil, err
	}
	return ff.Findings, nil
}

// ---------------------------------------------------------------------------------------------
// Outcome, printing, evidence

type Outcome struct {
	Prop       string
	Tier       string
	Seed       int
	Obls       []Obligation // merged over build configurations
	Vacuous    []string
	Fatal      string
	Configs    []string
	RuleDocs   map[string]string
	Funcs      map[string]bool
	CallSites  int
	PkgsOK     []string
	PkgsNot    []string
	Callgraph  string
	SelfTest   []string
	SelfFail   []string
	Explain    string
	NotDecided string
	Assume     []string
	Start      time.Time
	VerifDir   string
	Verbose    bool
}

// Merge adds the obligations of one report (one build configuration).
func (o *Outcome) Merge(r *Report) {
	if o.RuleDocs == nil {
		o.RuleDocs = map[string]string{}
		o.Funcs = map[string]bool{}
	}
	for k, v := range r.RuleDocs {
		o.RuleDocs[k] = v
	}
	for k := range r.FuncsAnalysed {
		o.Funcs[k] = true
	}
	o.CallSites += r.CallSites
	o.Obls = append(o.Obls, r.Obls...)
	o.Vacuous = append(o.Vacuous, r.Vacuous...)
	if r.W != nil {
		o.Configs = append(o.Configs, r.W.Config.String())
		o.PkgsOK = r.W.PackagesAnalysed
		o.PkgsNot = r.W.PackagesNotAnalysed
	}
}

// Finish applies the known findings, prints the report, writes evidence and violation files and
// returns the process exit code.
func (o *Outcome) Finish(findings []Finding) int {
	open := map[string]Finding{}
	for _, f := range findings {
		if f.Property == o.Prop && f.Status == "open" {
			open[f.Rule+" | "+f.Construct] = f
		}
	}
	// de-duplicate across build configurations: one line per (key, verdict)
	idx := map[string]*agg{}
	var order []string
	for _, ob := range o.Obls {
		k := ob.Key() + " | " + ob.Verdict
		if a, ok := idx[k]; ok {
			a.cfgs = append(a.cfgs, ob.Config)
			continue
		}
		idx[k] = &agg{o: ob, cfgs: []string{ob.Config}}
		order = append(order, k)
	}
	var viol, known, undec, okc, info int
	var violations []Obligation
	var lines []string
	distinct := map[string]bool{}
	for _, k := range order {
		a := idx[k]
		ob := a.o
		switch ob.Verdict {
		case VOK:
			okc++
			distinct[ob.Key()] = true
			if o.Verbose {
				lines = append(lines, fmt.Sprintf("ok        %s %s [%s] %s", ob.Rule, ob.Construct, ob.Pos, ob.Detail))
			}
		case VInfo:
			info++
			lines = append(lines, fmt.Sprintf("info      %s %s [%s] %s", ob.Rule, ob.Construct, ob.Pos, ob.Detail))
		case VUndecided:
			undec++
			distinct[ob.Key()] = true
			lines = append(lines, fmt.Sprintf("UNDECIDED %s %s [%s] %s", ob.Rule, ob.Construct, ob.Pos, ob.Detail))
		case VViolated:
			distinct[ob.Key()] = true
			if f, ok := open[ob.Key()]; ok {
				known++
				a.o.Known = true
				fmt.Printf("KNOWN-FINDING: property=%s %s %s: %s\n", o.Prop, ob.Rule, ob.Construct, f.WhatFails)
			} else {
				viol++
				violations = append(violations, ob)
				lines = append(lines, fmt.Sprintf("VIOLATED  %s %s [%s] %s", ob.Rule, ob.Construct, ob.Pos, ob.Detail))
				for _, wl := range ob.Witness {
					lines = append(lines, "            "+wl)
				}
			}
		}
	}
	// findings listed as open but not reproduced on this tree are reported (not an error)
	for k, f := range open {
		found := false
		for _, kk := range order {
			if strings.HasPrefix(kk, k+" | "+VViolated) {
				found = true
			}
		}
		if !found {
			lines = append(lines, fmt.Sprintf("note      known finding no longer reproduced: %s %s", f.Rule, f.Construct))
		}
	}
	fmt.Printf("== %s tier=%s configs=%d obligations=%d discharged=%d violated=%d known=%d undecided=%d info=%d functions=%d\n",
		o.Prop, o.Tier, len(o.Configs), okc+viol+known+undec, okc, viol, known, undec, info, len(o.Funcs))
	var rids []string
	for id := range o.RuleDocs {
		rids = append(rids, id)
	}
	sort.Strings(rids)
	for _, id := range rids {
		fmt.Printf("   rule %s: %s\n", id, o.RuleDocs[id])
	}
	for _, l := range lines {
		fmt.Println(l)
	}
	for _, v := range o.Vacuous {
		fmt.Println("VACUOUS   " + v)
	}
	for _, s := range o.SelfFail {
		fmt.Println("SELFTEST-FAIL " + s)
	}
	exit := 0
	outDir := filepath.Join(o.VerifDir, "out", "violations")
	if viol > 0 {
		os.MkdirAll(outDir, 0o755)
		for i, v := range violations {
			p := filepath.Join(outDir, fmt.Sprintf("%s-%d.json", o.Prop, i+1))
			b, _ := json.MarshalIndent(map[string]any{"property": o.Prop, "obligation": v}, "", " ")
			os.WriteFile(p, b, 0o644)
			fmt.Printf("VIOLATION property=%s replay=%s\n", o.Prop, p)
		}
		exit = 1
	} else if o.Fatal != "" || undec > 0 || len(o.Vacuous) > 0 || len(o.SelfFail) > 0 {
		if o.Fatal != "" {
			fmt.Println("ERROR " + o.Fatal)
		}
		exit = 2
	}
	o.writeEvidence(okc, viol, known, undec, info, len(distinct), idx, order)
	return exit
}

type agg struct {
	o    Obligation
	cfgs []string
}

func (o *Outcome) writeEvidence(okc, viol, known, undec, info, distinct int, idx map[string]*agg, order []string) {
	// samples: every non-discharged obligation plus up to three discharged ones per rule
	var samples []any
	perRule := map[string]int{}
	for _, k := range order {
		a := idx[k]
		ob := a.o
		if ob.Verdict == VOK {
			if perRule[ob.Rule] >= 3 {
				continue
			}
			perRule[ob.Rule]++
		}
		ob.Config = ""
		samples = append(samples, map[string]any{"obligation": ob, "build_configs_with_this_verdict": len(a.cfgs)})
	}
	var rules []string
	var rids []string
	for id := range o.RuleDocs {
		rids = append(rids, id)
	}
	sort.Strings(rids)
	for _, id := range rids {
		rules = append(rules, id+": "+o.RuleDocs[id])
	}
	var fns []string
	for f := range o.Funcs {
		fns = append(fns, f)
	}
	sort.Strings(fns)
	total := okc + viol + known + undec
	nn := func(a []string) []string {
		if a == nil {
			return []string{}
		}
		return a
	}
	o.Assume = append(nn(o.Assume), "go/types, go/ssa and the CHA call graph of x/tools v0.29.0 model the Go semantics of /repo's source correctly", "the analysed build configurations are the ones listed in coverage.build_configs; packages listed in coverage.packages_not_analysed are outside the verdict")
	o.SelfTest, o.Vacuous, o.PkgsOK, o.PkgsNot, o.Configs = nn(o.SelfTest), nn(o.Vacuous), nn(o.PkgsOK), nn(o.PkgsNot), nn(o.Configs)
	if samples == nil {
		samples = []any{}
	}
	cov := map[string]any{
		"explanation":              o.Explain + " NOT DECIDED by this check: " + o.NotDecided,
		"obligations":              total,
		"discharged":               okc,
		"known_findings_reported":  known,
		"undecided":                undec,
		"info_items":               info,
		"evaluations":              len(o.Obls),
		"distinct_nontrivial":      distinct,
		"rule":                     "an obligation is one (rule, construct) pair produced by running a rule over the SSA/AST of /repo's current tree; it is distinct by its (rule, construct) key and non-trivial when the rule matched a real construct and had something to prove (info items and vacuous matches are not counted); evaluations counts obligations times build configurations. Rules: " + strings.Join(rules, " || "),
		"samples":                  samples,
		"functions_analysed":       fns,
		"functions_analysed_count": len(fns),
		"call_sites":               o.CallSites,
		"packages_analysed":        o.PkgsOK,
		"packages_not_analysed":    o.PkgsNot,
		"callgraph":                o.Callgraph,
		"build_configs":            o.Configs,
		"checker_cmd":              "bin/vischeck -p " + o.Prop + " -tier " + o.Tier,
		"trusted_base":             []string{"go/types and go/ssa of golang.org/x/tools v0.29.0 (type checking, SSA construction, CHA call graph)", "the rule implementations in /verif/checker", "third-party libraries behave as documented at their API (cbor, pgx, participle, text/template, regexp, os)"},
		"exhaustive":               true,
		"selftest":                 o.SelfTest,
		"vacuous_rules":            o.Vacuous,
	}
	ev := map[string]any{
		"property_id": o.Prop,
		"tier":        o.Tier,
		"seed":        o.Seed,
		"level":       "other",
		"coverage":    cov,
		"assumptions": o.Assume,
		"wall_s":      time.Since(o.Start).Seconds(),
		"violations":  viol,
	}
	dir := filepath.Join(o.VerifDir, "evidence")
	os.MkdirAll(dir, 0o755)
	b, _ := json.MarshalIndent(ev, "", " ")
	os.WriteFile(filepath.Join(dir, o.Prop+".json"), b, 0o644)
}

// ReadViolation reads a violation file written by Finish.
func ReadViolation(path string) (Obligation, string, error) {
	b, err := os.ReadFile(path)
	if err != nil {
		return Obligation{}, "", err
	}
	var v struct {
		Property   string     `json:"property"`
		Obligation Obligation `json:"obligation"`
	}
	if err := json.Unmarshal(b, &v); err != nil {
		return Obligation{}, "", err
	}
	// ordinal suffixes are re-created by the report; keys compare on the stored construct
	return v.Obligation, v.Property, nil
}
