package core

import (
	"fmt"
	"go/constant"
	"go/token"
	"go/types"
	"sort"
	"strings"

	"golang.org/x/tools/go/ssa"
)

// ---------------------------------------------------------------------------------------------
// Calls

// Calls returns every call-like instruction (call, go, defer) of fn in block order.
func Calls(fn *ssa.Function) []ssa.CallInstruction {
	var out []ssa.CallInstruction
	for _, b := range fn.Blocks {
		for _, in := range b.Instrs {
			if c, ok := in.(ssa.CallInstruction); ok {
				out = append(out, c)
			}
		}
	}
	return out
}

func typePkgRel(p *types.Package) string {
	if p == nil {
		return ""
	}
	pp := p.Path()
	if strings.HasPrefix(pp, ModPath) {
		return rel(pp)
	}
	return pp
}

// TypeName renders a named type as "pkg.Name" (module-relative package), pointers as "*pkg.Name".
func TypeName(t types.Type) string {
	switch tt := t.(type) {
	case *types.Pointer:
		return "*" + TypeName(tt.Elem())
	case *types.Named:
		o := tt.Obj()
		if o.Pkg() == nil {
			return o.Name()
		}
		return typePkgRel(o.Pkg()) + "." + o.Name()
	case *types.Alias:
		return TypeName(types.Unalias(tt))
	}
	return t.String()
}

// CallName gives a stable name of what a call instruction invokes:
//
//	static function/method: "pkg.Func", "pkg.(*T).M", "pkg.(T).M" (module-relative or import path)
//	interface method:       "pkg.Iface.M"
//	builtin:                "builtin.append"
//	dynamic function value: "dynamic:" + type of the value ("dynamic:resource.EntryFunc")
func CallName(c ssa.CallInstruction) string {
	cc := c.Common()
	if cc.IsInvoke() {
		return TypeName(cc.Value.Type()) + "." + cc.Method.Name()
	}
	switch v := cc.Value.(type) {
	case *ssa.Builtin:
		return "builtin." + v.Name()
	case *ssa.Function:
		return FuncQName(v)
	case *ssa.MakeClosure:
		if f, ok := v.Fn.(*ssa.Function); ok {
			return FuncQName(f)
		}
	}
	return "dynamic:" + TypeName(cc.Value.Type())
}

// FuncQName names any function, inside or outside the module.
func FuncQName(f *ssa.Function) string {
	if f == nil {
		return "<nil>"
	}
	if f.Pkg != nil {
		return typePkgRel(f.Pkg.Pkg) + "." + f.RelString(f.Pkg.Pkg)
	}
	// wrappers, bound methods, instantiations: name through the object
	if o := f.Object(); o != nil && o.Pkg() != nil {
		if sig, ok := o.Type().(*types.Signature); ok && sig.Recv() != nil {
			rt := sig.Recv().Type()
			ptr := ""
			if p, ok := rt.(*types.Pointer); ok {
				rt = p.Elem()
				ptr = "*"
			}
			if n, ok := rt.(*types.Named); ok {
				return typePkgRel(o.Pkg()) + ".(" + ptr + n.Obj().Name() + ")." + o.Name()
			}
		}
		return typePkgRel(o.Pkg()) + "." + o.Name()
	}
	return f.String()
}

// StaticCallee returns the statically known callee (function, method or closure) or nil.
func StaticCallee(c ssa.CallInstruction) *ssa.Function {
	cc := c.Common()
	if cc.IsInvoke() {
		return nil
	}
	switch v := cc.Value.(type) {
	case *ssa.Function:
		return v
	case *ssa.MakeClosure:
		f, _ := v.Fn.(*ssa.Function)
		return f
	}
	return nil
}

// IsCallTo reports whether c invokes one of the named targets (see CallName).
func IsCallTo(c ssa.CallInstruction, names ...string) bool {
	n := CallName(c)
	for _, x := range names {
		if n == x {
			return true
		}
	}
	return false
}

// CallArgs returns the arguments including the receiver as argument 0 for invoke-mode calls.
func CallArgs(c ssa.CallInstruction) []ssa.Value {
	cc := c.Common()
	if cc.IsInvoke() {
		return append([]ssa.Value{cc.Value}, cc.Args...)
	}
	return cc.Args
}

// CallsTo returns the call instructions in fn whose CallName is one of names.
func CallsTo(fn *ssa.Function, names ...string) []ssa.CallInstruction {
	var out []ssa.CallInstruction
	for _, c := range Calls(fn) {
		if IsCallTo(c, names...) {
			out = append(out, c)
		}
	}
	return out
}

// CallValue returns the value produced by a call instruction (nil for go/defer).
func CallValue(c ssa.CallInstruction) ssa.Value {
	v, _ := c.(*ssa.Call)
	if v == nil {
		return nil
	}
	return v
}

// ---------------------------------------------------------------------------------------------
// Points, cuts and reachability inside one function

// Point is a position in a function: before instruction I of block B.
type Point struct {
	B *ssa.BasicBlock
	I int
}

// At returns the point of an instruction.
func At(in ssa.Instruction) Point {
	b := in.Block()
	for i, x := range b.Instrs {
		if x == in {
			return Point{b, i}
		}
	}
	return Point{b, 0}
}

// After returns the point just after an instruction.
func After(in ssa.Instruction) Point {
	p := At(in)
	p.I++
	return p
}

// Entry is the entry point of fn.
func Entry(fn *ssa.Function) Point { return Point{fn.Blocks[0], 0} }

// Edge is a CFG edge: successor number Succ of block From.
type Edge struct {
	From *ssa.BasicBlock
	Succ int
}

func (e Edge) To() *ssa.BasicBlock { return e.From.Succs[e.Succ] }

// Cut is a set of instructions and edges that a path may not cross.
type Cut struct {
	Instrs map[ssa.Instruction]bool
	Edges  map[Edge]bool
}

func NewCut() *Cut { return &Cut{Instrs: map[ssa.Instruction]bool{}, Edges: map[Edge]bool{}} }

func (c *Cut) AddInstr(in ...ssa.Instruction) *Cut {
	for _, i := range in {
		c.Instrs[i] = true
	}
	return c
}

func (c *Cut) AddEdge(e ...Edge) *Cut {
	for _, x := range e {
		c.Edges[x] = true
	}
	return c
}

// normCond strips negations from a branch condition: it returns the underlying value and whether
// the condition is its negation.
func normCond(v ssa.Value) (ssa.Value, bool) {
	neg := false
	for {
		u, ok := v.(*ssa.UnOp)
		if !ok || u.Op != token.NOT {
			return v, neg
		}
		v, neg = u.X, !neg
	}
}

// onCycle reports whether block b can reach itself.
func onCycle(b *ssa.BasicBlock) bool {
	seen := map[*ssa.BasicBlock]bool{}
	stack := append([]*ssa.BasicBlock{}, b.Succs...)
	for len(stack) > 0 {
		x := stack[len(stack)-1]
		stack = stack[:len(stack)-1]
		if x == b {
			return true
		}
		if seen[x] {
			continue
		}
		seen[x] = true
		stack = append(stack, x.Succs...)
	}
	return false
}

// onceEvaluated: the value is fixed for the activation (parameter, free variable) or its defining
// block lies on no cycle.
func onceEvaluated(v ssa.Value) bool {
	in, ok := v.(ssa.Instruction)
	if !ok {
		return true
	}
	return !onCycle(in.Block())
}

// correlatedConds returns the branch conditions of fn that are tested by more than one `if` and
// are evaluated at most once per activation (their defining block lies on no cycle). An SSA value
// is immutable, so a path that takes the true side of one such test and the false side of
// another is infeasible; Reach prunes it.
func correlatedConds(fn *ssa.Function) map[ssa.Value]bool {
	uses := map[ssa.Value]int{}
	for _, b := range fn.Blocks {
		if ifi, ok := b.Instrs[len(b.Instrs)-1].(*ssa.If); ok {
			base, _ := normCond(ifi.Cond)
			if _, isConst := base.(*ssa.Const); !isConst {
				uses[base]++
			}
		}
	}
	out := map[ssa.Value]bool{}
	for v, n := range uses {
		if n >= 2 && onceEvaluated(v) {
			out[v] = true
		}
	}
	return out
}

// Known is what a path has established about boolean SSA values.
type Known map[ssa.Value]bool

// Reach searches forward from a point for an instruction satisfying target without crossing
// the cut. It returns the instruction found and the block path to it, or nil.
// A cut instruction blocks the path *at* that instruction (a target that is itself cut is not reached).
// Paths that test the same once-evaluated SSA condition with contradictory outcomes are pruned, and
// boolean phis (the lowering of && and ||) carry the constant or the tested value they receive on
// the path.
func Reach(from Point, target func(ssa.Instruction) bool, cut *Cut) (ssa.Instruction, []*ssa.BasicBlock) {
	return ReachK(from, func(in ssa.Instruction, _ Known) bool { return target(in) }, cut, nil, nil)
}

// ReachEdge is Reach from the target of a CFG edge, with the outcome of the edge's own branch
// condition known (so that a later test of the same value is followed on the same side only).
func ReachEdge(e Edge, target func(ssa.Instruction) bool, cut *Cut) (ssa.Instruction, []*ssa.BasicBlock) {
	var known Known
	if ifi, ok := e.From.Instrs[len(e.From.Instrs)-1].(*ssa.If); ok {
		if base, neg := normCond(ifi.Cond); correlatedConds(e.From.Parent())[base] {
			known = Known{base: (e.Succ == 0) != neg}
		}
	}
	return ReachK(Point{e.To(), 0}, func(in ssa.Instruction, _ Known) bool { return target(in) }, cut, known, nil)
}

// ReachK is Reach with a target that also sees what the path has established about the tracked
// boolean values: every once-evaluated condition tested more than once, the values in track (which
// must be once-evaluated; others are ignored), and boolean phis.
func ReachK(from Point, target func(ssa.Instruction, Known) bool, cut *Cut, seed Known, track []ssa.Value) (ssa.Instruction, []*ssa.BasicBlock) {
	type alias struct {
		base ssa.Value
		neg  bool
	}
	type item struct {
		p     Point
		path  []*ssa.BasicBlock
		known Known
		al    map[ssa.Value]alias
	}
	corr := correlatedConds(from.B.Parent())
	for _, v := range track {
		if base, _ := normCond(v); onceEvaluated(base) {
			corr[base] = true
		}
	}
	// nil tests: `x == nil` / `x != nil` per tested value. An error (or pointer) variable that is
	// assigned on some paths and tested afterwards is a phi; the outcome of the test on the phi is
	// known on an edge whose incoming value was itself tested for nil earlier on the path
	// (`if err == nil { err = next() }; if err != nil { ... }`).
	nilTests := map[ssa.Value][]*ssa.BinOp{}
	for _, b := range from.B.Parent().Blocks {
		for _, in := range b.Instrs {
			bo, ok := in.(*ssa.BinOp)
			if !ok || (bo.Op != token.EQL && bo.Op != token.NEQ) {
				continue
			}
			if IsNilConst(bo.Y) {
				nilTests[bo.X] = append(nilTests[bo.X], bo)
			} else if IsNilConst(bo.X) {
				nilTests[bo.Y] = append(nilTests[bo.Y], bo)
			}
		}
	}
	for v := range nilTests {
		phi, ok := v.(*ssa.Phi)
		if !ok {
			continue
		}
		for _, e := range phi.Edges {
			for _, bo := range nilTests[e] {
				if onceEvaluated(bo) {
					corr[bo] = true
				}
			}
		}
	}
	sig := func(b *ssa.BasicBlock, known Known, al map[ssa.Value]alias) string {
		if len(known) == 0 && len(al) == 0 {
			return fmt.Sprint(b.Index)
		}
		var ks []string
		for v, val := range known {
			ks = append(ks, fmt.Sprintf("%s=%v", v.Name(), val))
		}
		for v, a := range al {
			ks = append(ks, fmt.Sprintf("%s~%s%v", v.Name(), a.base.Name(), a.neg))
		}
		sort.Strings(ks)
		return fmt.Sprint(b.Index, ks)
	}
	visited := map[string]bool{}
	queue := []item{{from, []*ssa.BasicBlock{from.B}, seed, nil}}
	first := true
	for len(queue) > 0 {
		if len(visited) > 40000 {
			// state space too large for value tracking: fall back to the plain (coarser, still sound) search
			return reachPlain(from, func(in ssa.Instruction) bool { return target(in, nil) }, cut)
		}
		it := queue[0]
		queue = queue[1:]
		if it.p.I == 0 && !first {
			k := sig(it.p.B, it.known, it.al)
			if visited[k] {
				continue
			}
			visited[k] = true
		} else if it.p.I == 0 && first {
			visited[sig(it.p.B, it.known, it.al)] = true
		}
		first = false
		blocked := false
		for i := it.p.I; i < len(it.p.B.Instrs); i++ {
			in := it.p.B.Instrs[i]
			if cut != nil && cut.Instrs[in] {
				blocked = true
				break
			}
			if target(in, it.known) {
				return in, it.path
			}
		}
		if blocked {
			continue
		}
		var base ssa.Value
		neg := false
		if ifi, ok := it.p.B.Instrs[len(it.p.B.Instrs)-1].(*ssa.If); ok {
			bv, n := normCond(ifi.Cond)
			_, isPhi := bv.(*ssa.Phi)
			_, have := it.known[bv]
			if corr[bv] || have || (isPhi && bv.(*ssa.Phi).Block() == it.p.B) {
				base, neg = bv, n
			}
		}
		for si, s := range it.p.B.Succs {
			if cut != nil && cut.Edges[Edge{it.p.B, si}] {
				continue
			}
			if infeasibleEdge(it.p.B, si) {
				continue
			}
			known := it.known
			al := it.al
			copied := false
			cp := func() {
				if copied {
					return
				}
				copied = true
				nk := Known{}
				for k, v := range known {
					nk[k] = v
				}
				known = nk
				na := map[ssa.Value]alias{}
				for k, v := range al {
					na[k] = v
				}
				al = na
			}
			if base != nil {
				val := (si == 0) != neg
				if old, ok := it.known[base]; ok {
					if old != val {
						continue // contradicts what the path established
					}
				} else {
					cp()
					known[base] = val
				}
				if a, ok := it.al[base]; ok {
					av := val != a.neg
					if old, ok := known[a.base]; ok {
						if old != av {
							continue
						}
					} else if corr[a.base] {
						cp()
						known[a.base] = av
					}
				}
			}
			// a phi that only feeds this block's branch carries nothing further
			for _, in := range it.p.B.Instrs {
				phi, ok := in.(*ssa.Phi)
				if !ok {
					break
				}
				if refs := phi.Referrers(); refs != nil && len(*refs) == 1 {
					if _, isIf := (*refs)[0].(*ssa.If); isIf {
						if _, ok := known[phi]; ok {
							cp()
							delete(known, phi)
						}
						if _, ok := al[phi]; ok {
							cp()
							delete(al, phi)
						}
					}
				}
			}
			// boolean phis of the successor take the value of their edge from this block
			pi := -1
			for i, p := range s.Preds {
				if p == it.p.B {
					pi = i
				}
			}
			// parallel assignment: every phi reads what was known before this edge
			oldKnown, oldAl := known, al
			type newVal struct {
				has   bool
				val   bool
				alias *alias
			}
			updates := map[*ssa.Phi]newVal{}
			for _, in := range s.Instrs {
				phi, ok := in.(*ssa.Phi)
				if !ok {
					break
				}
				bt, isB := phi.Type().Underlying().(*types.Basic)
				if !isB || bt.Kind() != types.Bool || pi < 0 {
					continue
				}
				e := phi.Edges[pi]
				if c, isC := e.(*ssa.Const); isC && c.Value != nil && c.Value.Kind() == constant.Bool {
					updates[phi] = newVal{has: true, val: constant.BoolVal(c.Value)}
					continue
				}
				eb, en := normCond(e)
				if v, ok := oldKnown[eb]; ok {
					updates[phi] = newVal{has: true, val: v != en}
				} else if a, ok := oldAl[eb]; ok {
					updates[phi] = newVal{alias: &alias{a.base, a.neg != en}}
				} else {
					updates[phi] = newVal{alias: &alias{eb, en}}
				}
			}
			if len(updates) > 0 {
				cp()
				for phi, u := range updates {
					delete(known, phi)
					delete(al, phi)
					if u.has {
						known[phi] = u.val
					} else if u.alias != nil && u.alias.base != ssa.Value(phi) {
						al[phi] = *u.alias
					}
				}
			}
			// nil tests of (non-boolean) phis of the successor
			if pi >= 0 && len(nilTests) > 0 {
				for _, in := range s.Instrs {
					phi, ok := in.(*ssa.Phi)
					if !ok {
						break
					}
					tests := nilTests[phi]
					if len(tests) == 0 {
						continue
					}
					e := phi.Edges[pi]
					determined, isNil := false, false
					if IsNilConst(e) {
						determined, isNil = true, true
					} else {
						for _, bo := range nilTests[e] {
							if v, ok := oldKnown[bo]; ok {
								determined, isNil = true, v == (bo.Op == token.EQL)
							}
						}
					}
					cp()
					for _, t := range tests {
						if determined {
							known[t] = isNil == (t.Op == token.EQL)
						} else {
							delete(known, t)
						}
					}
				}
			}
			if visited[sig(s, known, al)] {
				continue
			}
			np := append(append([]*ssa.BasicBlock{}, it.path...), s)
			queue = append(queue, item{Point{s, 0}, np, known, al})
		}
	}
	return nil, nil
}

// reachPlain is the path-insensitive search (one visit per block).
func reachPlain(from Point, target func(ssa.Instruction) bool, cut *Cut) (ssa.Instruction, []*ssa.BasicBlock) {
	type item struct {
		p    Point
		path []*ssa.BasicBlock
	}
	visited := map[*ssa.BasicBlock]bool{}
	queue := []item{{from, []*ssa.BasicBlock{from.B}}}
	first := true
	for len(queue) > 0 {
		it := queue[0]
		queue = queue[1:]
		if it.p.I == 0 && !first {
			if visited[it.p.B] {
				continue
			}
			visited[it.p.B] = true
		} else if it.p.I == 0 && first {
			visited[it.p.B] = true
		}
		first = false
		blocked := false
		for i := it.p.I; i < len(it.p.B.Instrs); i++ {
			in := it.p.B.Instrs[i]
			if cut != nil && cut.Instrs[in] {
				blocked = true
				break
			}
			if target(in) {
				return in, it.path
			}
		}
		if blocked {
			continue
		}
		for si, s := range it.p.B.Succs {
			if cut != nil && cut.Edges[Edge{it.p.B, si}] {
				continue
			}
			if infeasibleEdge(it.p.B, si) || visited[s] {
				continue
			}
			np := append(append([]*ssa.BasicBlock{}, it.path...), s)
			queue = append(queue, item{Point{s, 0}, np})
		}
	}
	return nil, nil
}

// IsInstr returns a target predicate matching one instruction.
func IsInstr(x ssa.Instruction) func(ssa.Instruction) bool {
	return func(in ssa.Instruction) bool { return in == x }
}

// MustPass reports whether every path from the entry of x's function to x crosses the cut.
// When not, it returns a witness path.
func MustPass(x ssa.Instruction, cut *Cut) (bool, []*ssa.BasicBlock) {
	fn := x.Parent()
	in, path := Reach(Entry(fn), IsInstr(x), cut)
	return in == nil, path
}

// IsReturn matches return instructions.
func IsReturn(in ssa.Instruction) bool { _, ok := in.(*ssa.Return); return ok }

// PathString renders a block path with source lines.
func (w *World) PathString(path []*ssa.BasicBlock) string {
	var parts []string
	for _, b := range path {
		p := token.NoPos
		for _, in := range b.Instrs {
			if in.Pos().IsValid() {
				p = in.Pos()
				break
			}
		}
		parts = append(parts, fmt.Sprintf("b%d(%s)", b.Index, w.Pos(p)))
	}
	return strings.Join(parts, " -> ")
}

// InstrDominates reports whether a executes before b on every path to b.
func InstrDominates(a, b ssa.Instruction) bool {
	if a.Parent() != b.Parent() {
		return false
	}
	if a.Block() == b.Block() {
		return At(a).I < At(b).I
	}
	return a.Block().Dominates(b.Block())
}

// ---------------------------------------------------------------------------------------------
// Conditions

// CondEdge says: on edge E the boolean value of interest is Val.
type CondEdge struct {
	E   Edge
	Val bool
}

// BoolEdges finds the CFG edges on which boolean value v is known, following negation,
// comparison with boolean constants, and short-circuit conjunction/disjunction as compiled by
// go/ssa (an `if a && b` tests a and b in separate blocks, so each gets its own If).
func BoolEdges(v ssa.Value) []CondEdge {
	var out []CondEdge
	seen := map[ssa.Value]bool{}
	var walk func(x ssa.Value, pol bool)
	walk = func(x ssa.Value, pol bool) {
		if seen[x] {
			return
		}
		seen[x] = true
		refs := x.Referrers()
		if refs == nil {
			return
		}
		for _, r := range *refs {
			switch rr := r.(type) {
			case *ssa.If:
				// succ 0 is taken when cond true
				out = append(out, CondEdge{Edge{rr.Block(), 0}, pol}, CondEdge{Edge{rr.Block(), 1}, !pol})
			case *ssa.UnOp:
				if rr.Op == token.NOT {
					walk(rr, !pol)
				}
			case *ssa.Phi:
				// loop / merge variable: phi(const..., x). If every other incoming value is the constant
				// false, "phi is true" implies "x is true" (and dually for true constants); only that
				// direction is recorded.
				allFalse, allTrue, okc := true, true, true
				for _, e := range rr.Edges {
					if e == x {
						continue
					}
					c, isC := e.(*ssa.Const)
					if !isC || c.Value == nil || c.Value.Kind() != constant.Bool {
						okc = false
						break
					}
					if constant.BoolVal(c.Value) {
						allFalse = false
					} else {
						allTrue = false
					}
				}
				if okc && (allFalse || allTrue) && !seen[rr] {
					seen[rr] = true
					for _, ce := range BoolEdges(rr) {
						// ce.Val is the phi's value on that edge
						if allFalse && ce.Val {
							if pol {
								out = append(out, CondEdge{ce.E, true})
							} else {
								out = append(out, CondEdge{ce.E, false})
							}
						}
						if allTrue && !ce.Val {
							if pol {
								out = append(out, CondEdge{ce.E, false})
							} else {
								out = append(out, CondEdge{ce.E, true})
							}
						}
					}
				}
			case *ssa.BinOp:
				if rr.Op == token.EQL || rr.Op == token.NEQ {
					other := rr.Y
					if other == x {
						other = rr.X
					}
					if c, ok := other.(*ssa.Const); ok && c.Value != nil && c.Value.Kind() == constant.Bool {
						cv := constant.BoolVal(c.Value)
						same := (rr.Op == token.EQL) == cv // rr true <=> x true
						if same {
							walk(rr, pol)
						} else {
							walk(rr, !pol)
						}
					}
				}
			}
		}
	}
	walk(v, true)
	return out
}

// EdgesWhere returns the edges on which v has the value want.
func EdgesWhere(v ssa.Value, want bool) []Edge {
	var out []Edge
	for _, ce := range BoolEdges(v) {
		if ce.Val == want {
			out = append(out, ce.E)
		}
	}
	return out
}

// EdgesExcept returns the edges on which v has the value !want - i.e. the cut that forces v == want.
func EdgesExcept(v ssa.Value, want bool) []Edge { return EdgesWhere(v, !want) }

// IsNilConst reports whether v is the nil constant.
func IsNilConst(v ssa.Value) bool {
	c, ok := v.(*ssa.Const)
	return ok && c.Value == nil
}

// NilTestEdges finds, for a value x (error, pointer, interface ...), the edges on which
// x == nil is known: Val true means "x is nil on this edge".
func NilTestEdges(x ssa.Value) []CondEdge {
	var out []CondEdge
	refs := x.Referrers()
	if refs == nil {
		return nil
	}
	for _, r := range *refs {
		b, ok := r.(*ssa.BinOp)
		if !ok || (b.Op != token.EQL && b.Op != token.NEQ) {
			continue
		}
		other := b.Y
		if other == x {
			other = b.X
		}
		if !IsNilConst(other) {
			continue
		}
		for _, ce := range BoolEdges(b) {
			isNil := ce.Val == (b.Op == token.EQL)
			out = append(out, CondEdge{ce.E, isNil})
		}
	}
	return out
}

// ConstInt returns the integer value of a constant.
func ConstInt(v ssa.Value) (int64, bool) {
	c, ok := v.(*ssa.Const)
	if !ok || c.Value == nil {
		return 0, false
	}
	if c.Value.Kind() != constant.Int {
		return 0, false
	}
	i, ok := constant.Int64Val(c.Value)
	return i, ok
}

// ConstString returns the string value of a constant.
func ConstString(v ssa.Value) (string, bool) {
	c, ok := v.(*ssa.Const)
	if !ok || c.Value == nil || c.Value.Kind() != constant.String {
		return "", false
	}
	return constant.StringVal(c.Value), true
}

// ---------------------------------------------------------------------------------------------
// Value flow

// Strip removes value-preserving wrappers (conversions between same-kind types, interface boxing,
// type changes) from v.
func Strip(v ssa.Value) ssa.Value {
	for {
		switch x := v.(type) {
		case *ssa.ChangeType:
			v = x.X
		case *ssa.ChangeInterface:
			v = x.X
		case *ssa.MakeInterface:
			v = x.X
		default:
			return v
		}
	}
}

// Sources computes the set of "root" values v may be derived from, walking backwards through
// phis, conversions, slicing, extraction, and loads from local allocations (through their stores).
// Roots are calls, parameters, constants, field/global loads, allocations, etc.
func Sources(v ssa.Value) []ssa.Value {
	seen := map[ssa.Value]bool{}
	var roots []ssa.Value
	var walk func(x ssa.Value)
	walk = func(x ssa.Value) {
		if x == nil || seen[x] {
			return
		}
		seen[x] = true
		switch t := x.(type) {
		case *ssa.Phi:
			for _, e := range t.Edges {
				walk(e)
			}
		case *ssa.ChangeType:
			walk(t.X)
		case *ssa.ChangeInterface:
			walk(t.X)
		case *ssa.MakeInterface:
			walk(t.X)
		case *ssa.Convert:
			walk(t.X)
		case *ssa.Slice:
			walk(t.X)
		case *ssa.TypeAssert:
			walk(t.X)
		case *ssa.UnOp:
			if t.Op == token.MUL {
				if a, ok := t.X.(*ssa.Alloc); ok {
					// local spill: union of everything stored
					stored := false
					if refs := a.Referrers(); refs != nil {
						for _, r := range *refs {
							if st, ok := r.(*ssa.Store); ok && st.Addr == a {
								stored = true
								walk(st.Val)
							}
						}
					}
					if !stored {
						roots = append(roots, x)
					}
					return
				}
			}
			roots = append(roots, x)
		default:
			roots = append(roots, x)
		}
	}
	walk(v)
	return roots
}

// ExtractOf returns (call, index) when v is result index of a multi-result call, or (call, 0)
// when v is the single result of a call.
func ExtractOf(v ssa.Value) (*ssa.Call, int, bool) {
	switch t := v.(type) {
	case *ssa.Extract:
		if c, ok := t.Tuple.(*ssa.Call); ok {
			return c, t.Index, true
		}
	case *ssa.Call:
		return t, 0, true
	}
	return nil, 0, false
}

// ResultOf returns the value of result idx of call c (the Extract, or the call itself for
// single-result calls); nil if that result is unused.
func ResultOf(c *ssa.Call, idx int) ssa.Value {
	sig := c.Common().Signature()
	if sig.Results().Len() == 1 {
		if idx == 0 {
			return c
		}
		return nil
	}
	if refs := c.Referrers(); refs != nil {
		for _, r := range *refs {
			if e, ok := r.(*ssa.Extract); ok && e.Index == idx {
				return e
			}
		}
	}
	return nil
}

// Forward computes the values reachable from src by forward data flow inside one function:
// phi, conversions, slicing, extraction, string/byte concatenation, append, interface boxing,
// and store/load through local allocations. through(c) decides whether flow continues from an
// argument of call c to its result (nil: never).
func Forward(src ssa.Value, through func(c *ssa.Call, argIdx int) bool) map[ssa.Value]bool {
	seen := map[ssa.Value]bool{}
	var work []ssa.Value
	push := func(v ssa.Value) {
		if v != nil && !seen[v] {
			seen[v] = true
			work = append(work, v)
		}
	}
	push(src)
	for len(work) > 0 {
		v := work[len(work)-1]
		work = work[:len(work)-1]
		refs := v.Referrers()
		if refs == nil {
			continue
		}
		for _, r := range *refs {
			switch t := r.(type) {
			case *ssa.Phi, *ssa.ChangeType, *ssa.ChangeInterface, *ssa.MakeInterface, *ssa.Convert, *ssa.Slice, *ssa.Extract, *ssa.TypeAssert:
				push(t.(ssa.Value))
			case *ssa.BinOp:
				if t.Op == token.ADD {
					push(t)
				}
			case *ssa.Store:
				if t.Val == v {
					if a, ok := t.Addr.(*ssa.Alloc); ok {
						// loads of the alloc
						if ar := a.Referrers(); ar != nil {
							for _, rr := range *ar {
								if u, ok := rr.(*ssa.UnOp); ok && u.Op == token.MUL && u.X == a {
									push(u)
								}
							}
						}
					}
				}
			case *ssa.Call:
				if through != nil {
					for i, a := range CallArgs(t) {
						if a == v && through(t, i) {
							push(t)
						}
					}
				}
				if IsCallTo(t, "builtin.append") {
					push(t)
				}
			}
		}
	}
	return seen
}

// FieldOfAddr describes an address v as a field of a named struct type: ("state.State", "Flags").
func FieldOfAddr(v ssa.Value) (string, string, bool) {
	fa, ok := v.(*ssa.FieldAddr)
	if !ok {
		return "", "", false
	}
	pt, ok := fa.X.Type().Underlying().(*types.Pointer)
	if !ok {
		return "", "", false
	}
	st, ok := pt.Elem().Underlying().(*types.Struct)
	if !ok {
		return "", "", false
	}
	return TypeName(pt.Elem()), st.Field(fa.Field).Name(), true
}

// LoadedField describes a value v loaded from a struct field: *(&x.f) or x.f.
func LoadedField(v ssa.Value) (string, string, bool) {
	switch t := v.(type) {
	case *ssa.UnOp:
		if t.Op == token.MUL {
			return FieldOfAddr(t.X)
		}
	case *ssa.Field:
		if st, ok := t.X.Type().Underlying().(*types.Struct); ok {
			return TypeName(t.X.Type()), st.Field(t.Field).Name(), true
		}
	}
	return "", "", false
}

// GlobalOf returns the package-level variable an address or a load refers to.
func GlobalOf(v ssa.Value) *ssa.Global {
	switch t := v.(type) {
	case *ssa.Global:
		return t
	case *ssa.UnOp:
		if t.Op == token.MUL {
			g, _ := t.X.(*ssa.Global)
			return g
		}
	}
	return nil
}

// infeasibleEdge: successor si of a block ending in `if <constant>` that the constant excludes
// (go/ssa keeps `for true {}` as `if true goto body else done`).
func infeasibleEdge(b *ssa.BasicBlock, si int) bool {
	ifi, ok := b.Instrs[len(b.Instrs)-1].(*ssa.If)
	if !ok {
		return false
	}
	c, ok := ifi.Cond.(*ssa.Const)
	if !ok || c.Value == nil || c.Value.Kind() != constant.Bool {
		return false
	}
	if constant.BoolVal(c.Value) {
		return si == 1
	}
	return si == 0
}

// DeepSources walks backwards like Sources but additionally through array/slice literals (a load
// of an element of a locally built array sees every value stored into it, also via range and
// variadic slices), string concatenation, field loads of local struct variables, and calls for
// which through(c) returns the argument indices that flow into the result. It returns the root
// values and the calls passed through.
func DeepSources(v ssa.Value, through func(*ssa.Call) []int) (roots []ssa.Value, passed []*ssa.Call) {
	seen := map[ssa.Value]bool{}
	var walk func(x ssa.Value)
	allocStores := func(a *ssa.Alloc) bool {
		found := false
		refs := a.Referrers()
		if refs == nil {
			return false
		}
		for _, r := range *refs {
			switch t := r.(type) {
			case *ssa.Store:
				if t.Addr == ssa.Value(a) {
					found = true
					walk(t.Val)
				}
			case *ssa.IndexAddr:
				if ir := t.Referrers(); ir != nil {
					for _, s := range *ir {
						if st, ok := s.(*ssa.Store); ok && st.Addr == ssa.Value(t) {
							found = true
							walk(st.Val)
						}
					}
				}
			case *ssa.FieldAddr:
				if ir := t.Referrers(); ir != nil {
					for _, s := range *ir {
						if st, ok := s.(*ssa.Store); ok && st.Addr == ssa.Value(t) {
							found = true
							walk(st.Val)
						}
					}
				}
			}
		}
		return found
	}
	// containerAlloc finds the local array behind a slice/array value
	var containerAlloc func(x ssa.Value, d int) *ssa.Alloc
	containerAlloc = func(x ssa.Value, d int) *ssa.Alloc {
		if d > 6 {
			return nil
		}
		switch t := x.(type) {
		case *ssa.Alloc:
			return t
		case *ssa.Slice:
			return containerAlloc(t.X, d+1)
		case *ssa.ChangeType:
			return containerAlloc(t.X, d+1)
		case *ssa.Phi:
			for _, e := range t.Edges {
				if a := containerAlloc(e, d+1); a != nil {
					return a
				}
			}
		}
		return nil
	}
	walk = func(x ssa.Value) {
		if x == nil || seen[x] {
			return
		}
		seen[x] = true
		switch t := x.(type) {
		case *ssa.Phi:
			for _, e := range t.Edges {
				walk(e)
			}
		case *ssa.ChangeType:
			walk(t.X)
		case *ssa.ChangeInterface:
			walk(t.X)
		case *ssa.MakeInterface:
			walk(t.X)
		case *ssa.Convert:
			walk(t.X)
		case *ssa.Slice:
			if a := containerAlloc(t.X, 0); a != nil {
				if allocStores(a) {
					return
				}
			}
			walk(t.X)
		case *ssa.TypeAssert:
			walk(t.X)
		case *ssa.BinOp:
			if t.Op == token.ADD {
				walk(t.X)
				walk(t.Y)
				return
			}
			roots = append(roots, x)
		case *ssa.Extract:
			if nx, ok := t.Tuple.(*ssa.Next); ok {
				if rg, ok := nx.Iter.(*ssa.Range); ok {
					walk(rg.X)
					return
				}
			}
			if c, ok := t.Tuple.(*ssa.Call); ok && through != nil {
				if idx := through(c); idx != nil {
					passed = append(passed, c)
					args := CallArgs(c)
					for _, i := range idx {
						if i < len(args) {
							walk(args[i])
						}
					}
					return
				}
			}
			roots = append(roots, x)
		case *ssa.Call:
			if through != nil {
				if idx := through(t); idx != nil {
					passed = append(passed, t)
					args := CallArgs(t)
					for _, i := range idx {
						if i < len(args) {
							walk(args[i])
						}
					}
					return
				}
			}
			roots = append(roots, x)
		case *ssa.Field:
			// field of a struct value: if the struct is a load of a local, look at stores to that field
			if u, ok := t.X.(*ssa.UnOp); ok && u.Op == token.MUL {
				if a, ok := u.X.(*ssa.Alloc); ok {
					found := false
					if refs := a.Referrers(); refs != nil {
						for _, r := range *refs {
							if fa, ok := r.(*ssa.FieldAddr); ok && fa.Field == t.Field {
								if fr := fa.Referrers(); fr != nil {
									for _, s := range *fr {
										if st, ok := s.(*ssa.Store); ok && st.Addr == ssa.Value(fa) {
											found = true
											walk(st.Val)
										}
									}
								}
							}
						}
					}
					if found {
						return
					}
				}
			}
			roots = append(roots, x)
		case *ssa.UnOp:
			if t.Op == token.MUL {
				switch a := t.X.(type) {
				case *ssa.Alloc:
					if allocStores(a) {
						return
					}
				case *ssa.IndexAddr:
					if al := containerAlloc(a.X, 0); al != nil {
						if allocStores(al) {
							return
						}
					}
				case *ssa.FieldAddr:
					// field of a local struct variable
					if al, ok := a.X.(*ssa.Alloc); ok {
						found := false
						if refs := al.Referrers(); refs != nil {
							for _, r := range *refs {
								if fa, ok := r.(*ssa.FieldAddr); ok && fa.Field == a.Field {
									if fr := fa.Referrers(); fr != nil {
										for _, s := range *fr {
											if st, ok := s.(*ssa.Store); ok && st.Addr == ssa.Value(fa) {
												found = true
												walk(st.Val)
											}
										}
									}
								}
							}
						}
						if found {
							return
						}
					}
				}
			}
			roots = append(roots, x)
		default:
			roots = append(roots, x)
		}
	}
	walk(v)
	return
}

// ReturnValue returns operand idx of a return, looking through the result spill that go/ssa
// introduces in functions with defer: `*res = v; rundefers; t = *res; return t` yields v.
func ReturnValue(ret *ssa.Return, idx int) ssa.Value {
	v := ret.Results[idx]
	u, ok := v.(*ssa.UnOp)
	if !ok || u.Op != token.MUL {
		return v
	}
	a, ok := u.X.(*ssa.Alloc)
	if !ok {
		return v
	}
	// latest store to a: walk backwards in this block, then up single-predecessor chains
	b := ret.Block()
	start := len(b.Instrs) - 1
	for depth := 0; depth < 8 && b != nil; depth++ {
		for i := start; i >= 0; i-- {
			if st, ok := b.Instrs[i].(*ssa.Store); ok && st.Addr == ssa.Value(a) {
				return st.Val
			}
		}
		if len(b.Preds) != 1 {
			break
		}
		b = b.Preds[0]
		start = len(b.Instrs) - 1
	}
	return v
}

// ReturnError returns the (unspilled) last operand of a return if it is of type error.
func ReturnError(ret *ssa.Return) ssa.Value {
	if len(ret.Results) == 0 {
		return nil
	}
	v := ReturnValue(ret, len(ret.Results)-1)
	if v.Type().String() != "error" {
		return nil
	}
	return v
}

// CmpConst normalises a comparison with one constant integer operand to `x op c` (constant on the
// right), flipping the operator when the constant was on the left.
func CmpConst(bo *ssa.BinOp) (x ssa.Value, op token.Token, c int64, ok bool) {
	switch bo.Op {
	case token.LSS, token.LEQ, token.GTR, token.GEQ, token.EQL, token.NEQ:
	default:
		return nil, 0, 0, false
	}
	if k, isC := ConstInt(bo.Y); isC {
		// integers: x < 1 is x <= 0, x >= 1 is x > 0 (one normal form for "compared with zero")
		if k == 1 && bo.Op == token.LSS && isIntegerValue(bo.X) {
			return bo.X, token.LEQ, 0, true
		}
		if k == 1 && bo.Op == token.GEQ && isIntegerValue(bo.X) {
			return bo.X, token.GTR, 0, true
		}
		return bo.X, bo.Op, k, true
	}
	if k, isC := ConstInt(bo.X); isC {
		op := bo.Op
		switch op {
		case token.LSS:
			op = token.GTR
		case token.GTR:
			op = token.LSS
		case token.LEQ:
			op = token.GEQ
		case token.GEQ:
			op = token.LEQ
		}
		if k == 1 && op == token.LSS && isIntegerValue(bo.Y) {
			return bo.Y, token.LEQ, 0, true
		}
		if k == 1 && op == token.GEQ && isIntegerValue(bo.Y) {
			return bo.Y, token.GTR, 0, true
		}
		return bo.Y, op, k, true
	}
	return nil, 0, 0, false
}

func isIntegerValue(v ssa.Value) bool {
	b, ok := v.Type().Underlying().(*types.Basic)
	return ok && b.Info()&types.IsInteger != 0
}
