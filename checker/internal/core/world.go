// Package core loads /repo (type-checked packages, SSA, call graph) and provides the
// obligation/report machinery shared by all property rules.
package core

import (
	"fmt"
	"go/ast"
	"go/token"
	"go/types"
	"os"
	"sort"
	"strings"

	"golang.org/x/tools/go/packages"
	"golang.org/x/tools/go/ssa"
	"golang.org/x/tools/go/ssa/ssautil"
)

// ModPath is the module path of nolash/go-vise.
const ModPath = "git.defalsify.org/vise.git"

// LibPkgs is the frozen table of library packages (class L of DESIGN.md section 2): all rules
// apply to them and any type error in one of them aborts the check.
var LibPkgs = []string{"asm", "cache", "db", "db/fs", "db/mem", "db/postgres", "engine", "lang",
	"logging", "persist", "render", "resource", "state", "vm"}

// NotAnalysable lists packages that cannot be type-checked in this sandbox (cgo header missing)
// and the packages that fail only because of them.
var NotAnalysable = map[string]string{
	"db/gdbm":       "cgo: gdbm.h is not installed in this sandbox",
	"dev/dbconvert": "imports db/gdbm",
	"examples/gdbm": "imports db/gdbm",
}

// BuildConfig selects the build tags and GOARCH used to load the repository.
type BuildConfig struct {
	Tags   string
	GOARCH string
}

func (b BuildConfig) String() string {
	t := b.Tags
	if t == "" {
		t = "(none)"
	}
	a := b.GOARCH
	if a == "" {
		a = "amd64"
	}
	return "tags=" + t + ",GOARCH=" + a
}

// World is everything a rule may inspect.
type World struct {
	Repo   string
	Config BuildConfig
	Fset   *token.FileSet
	All    []*packages.Package
	Pkgs   map[string]*packages.Package // by path relative to the module ("vm", "db/fs", ...)
	Prog   *ssa.Program                 // P_L: SSA rooted at the library packages only
	SSA    map[string]*ssa.Package      // library packages of P_L by relative path
	// LibFuncs are all SSA functions (incl. methods and closures) whose source is in a library package.
	LibFuncs []*ssa.Function
	funcIdx  map[string]*ssa.Function
	allFuncs map[*ssa.Function]bool
	cidx     *callIndex

	PackagesAnalysed    []string
	PackagesNotAnalysed []string
}

// Fatal is a condition under which the check cannot decide anything (exit 2).
type Fatal struct{ Msg string }

func (f Fatal) Error() string { return f.Msg }

func rel(pkgPath string) string {
	if pkgPath == ModPath {
		return "."
	}
	return strings.TrimPrefix(pkgPath, ModPath+"/")
}

// Rel returns the module-relative path of a package path.
func Rel(pkgPath string) string { return rel(pkgPath) }

// Load type-checks ./... in repo and builds P_L.
func Load(repo string, bc BuildConfig) (*World, error) {
	env := append(os.Environ(), "GOFLAGS=-mod=mod", "GOPROXY=off", "GOSUMDB=off", "GOTOOLCHAIN=local", "GOWORK=off", "CGO_ENABLED=1")
	if bc.GOARCH != "" {
		env = append(env, "GOARCH="+bc.GOARCH)
		if bc.GOARCH != "amd64" {
			// cross-compiling disables cgo; the only cgo package (db/gdbm) is not analysable anyway
			env = append(env, "CGO_ENABLED=0")
		}
	}
	cfg := &packages.Config{Mode: packages.LoadAllSyntax, Dir: repo, Tests: false, Env: env}
	if bc.Tags != "" {
		cfg.BuildFlags = []string{"-tags=" + bc.Tags}
	}
	pkgs, err := packages.Load(cfg, "./...")
	if err != nil {
		return nil, Fatal{"packages.Load: " + err.Error()}
	}
	if len(pkgs) == 0 {
		return nil, Fatal{"no packages loaded from " + repo}
	}
	w := &World{Repo: repo, Config: bc, All: pkgs, Pkgs: map[string]*packages.Package{}, SSA: map[string]*ssa.Package{}, funcIdx: map[string]*ssa.Function{}}
	for _, p := range pkgs {
		w.Pkgs[rel(p.PkgPath)] = p
		if w.Fset == nil {
			w.Fset = p.Fset
		}
	}
	var lib []*packages.Package
	for _, lp := range LibPkgs {
		p := w.Pkgs[lp]
		if p == nil {
			return nil, Fatal{"library package missing: " + lp}
		}
		if len(p.Errors) > 0 {
			return nil, Fatal{fmt.Sprintf("library package %s does not type-check: %v", lp, p.Errors[0])}
		}
		if p.Types == nil || p.TypesInfo == nil || len(p.Syntax) == 0 {
			return nil, Fatal{"library package without syntax/types: " + lp}
		}
		lib = append(lib, p)
	}
	for _, p := range pkgs {
		r := rel(p.PkgPath)
		if len(p.Errors) > 0 || p.IllTyped {
			why := NotAnalysable[r]
			if why == "" {
				why = fmt.Sprintf("type errors: %v", firstErr(p))
			}
			w.PackagesNotAnalysed = append(w.PackagesNotAnalysed, r+" ("+why+")")
		} else {
			w.PackagesAnalysed = append(w.PackagesAnalysed, r)
		}
	}
	sort.Strings(w.PackagesAnalysed)
	sort.Strings(w.PackagesNotAnalysed)

	prog, spkgs := ssautil.AllPackages(lib, ssa.InstantiateGenerics)
	prog.Build()
	w.Prog = prog
	for i, sp := range spkgs {
		if sp == nil {
			return nil, Fatal{"no SSA for library package " + lib[i].PkgPath}
		}
		w.SSA[rel(lib[i].PkgPath)] = sp
	}
	w.allFuncs = ssautil.AllFunctions(prog)
	// add every method of every named type of the library packages (ssautil.AllFunctions only
	// visits exported types and types boxed into interfaces) and the closures inside them
	var addFn func(fn *ssa.Function)
	addFn = func(fn *ssa.Function) {
		if fn == nil || w.allFuncs[fn] {
			return
		}
		w.allFuncs[fn] = true
		for _, a := range fn.AnonFuncs {
			addFn(a)
		}
	}
	for _, sp := range w.SSA {
		for _, m := range sp.Members {
			t, ok := m.(*ssa.Type)
			if !ok {
				continue
			}
			named, ok := t.Type().(*types.Named)
			if !ok || named.TypeParams() != nil || types.IsInterface(named) {
				continue
			}
			for _, T := range []types.Type{named, types.NewPointer(named)} {
				ms := prog.MethodSets.MethodSet(T)
				for i := 0; i < ms.Len(); i++ {
					addFn(prog.MethodValue(ms.At(i)))
				}
			}
		}
	}
	for fn := range w.allFuncs {
		if fn.Pkg == nil || fn.Synthetic != "" {
			continue
		}
		r := rel(fn.Pkg.Pkg.Path())
		if _, ok := w.SSA[r]; !ok || !strings.HasPrefix(fn.Pkg.Pkg.Path(), ModPath) {
			continue
		}
		w.LibFuncs = append(w.LibFuncs, fn)
		w.funcIdx[r+"."+FuncName(fn)] = fn
	}
	sort.Slice(w.LibFuncs, func(i, j int) bool { return w.LibFuncs[i].Pos() < w.LibFuncs[j].Pos() })
	return w, nil
}

func firstErr(p *packages.Package) string {
	if len(p.Errors) > 0 {
		return p.Errors[0].Error()
	}
	return "ill-typed dependency"
}

// FuncName is the package-relative name of a function: "applyTarget", "(*Vm).Run", "Run$1".
func FuncName(fn *ssa.Function) string {
	if fn.Pkg == nil {
		return fn.String()
	}
	return fn.RelString(fn.Pkg.Pkg)
}

// QName is "pkg.Name" with module-relative package path.
func QName(fn *ssa.Function) string {
	if fn == nil {
		return "<nil>"
	}
	if fn.Pkg == nil {
		return fn.String()
	}
	p := fn.Pkg.Pkg.Path()
	if strings.HasPrefix(p, ModPath) {
		p = rel(p)
	}
	return p + "." + FuncName(fn)
}

// Func finds a library function by module-relative package and name; nil if absent.
func (w *World) Func(pkg, name string) *ssa.Function { return w.funcIdx[pkg+"."+name] }

// FuncsIn returns the library functions of a package (incl. closures), sorted by position.
func (w *World) FuncsIn(pkg string) []*ssa.Function {
	var out []*ssa.Function
	for _, f := range w.LibFuncs {
		if rel(f.Pkg.Pkg.Path()) == pkg {
			out = append(out, f)
		}
	}
	return out
}

// Pos renders a position relative to the repository root.
func (w *World) Pos(p token.Pos) string {
	if !p.IsValid() {
		return "-"
	}
	pp := w.Fset.Position(p)
	f := strings.TrimPrefix(pp.Filename, w.Repo+"/")
	return fmt.Sprintf("%s:%d", f, pp.Line)
}

// Type looks up a named type in a library package.
func (w *World) Type(pkg, name string) *types.TypeName {
	p := w.Pkgs[pkg]
	if p == nil || p.Types == nil {
		return nil
	}
	o := p.Types.Scope().Lookup(name)
	tn, _ := o.(*types.TypeName)
	return tn
}

// Object looks up a package-level object.
func (w *World) Object(pkg, name string) types.Object {
	p := w.Pkgs[pkg]
	if p == nil || p.Types == nil {
		return nil
	}
	return p.Types.Scope().Lookup(name)
}

// FileOf returns the syntax file containing pos in the given package.
func (w *World) FileOf(pkg string, pos token.Pos) *ast.File {
	p := w.Pkgs[pkg]
	if p == nil {
		return nil
	}
	for _, f := range p.Syntax {
		if f.Pos() <= pos && pos <= f.End() {
			return f
		}
	}
	return nil
}

// InLib reports whether fn's source is in a library package of the module.
func (w *World) InLib(fn *ssa.Function) bool {
	if fn == nil || fn.Pkg == nil {
		return false
	}
	_, ok := w.SSA[rel(fn.Pkg.Pkg.Path())]
	return ok && strings.HasPrefix(fn.Pkg.Pkg.Path(), ModPath)
}

// PkgOf returns the module-relative package of fn ("" outside the module).
func PkgOf(fn *ssa.Function) string {
	if fn == nil || fn.Pkg == nil {
		// methods of instantiated/synthetic wrappers
		if fn != nil && fn.Object() != nil && fn.Object().Pkg() != nil {
			p := fn.Object().Pkg().Path()
			if strings.HasPrefix(p, ModPath) {
				return rel(p)
			}
		}
		return ""
	}
	p := fn.Pkg.Pkg.Path()
	if !strings.HasPrefix(p, ModPath) {
		return ""
	}
	return rel(p)
}
