package core

import (
	"go/types"

	"golang.org/x/tools/go/ssa"
	"golang.org/x/tools/go/types/typeutil"
)

// Own class-hierarchy call graph. x/tools' cha.CallGraph only knows the functions of
// ssautil.AllFunctions, which leaves out the methods of unexported types that are never boxed
// into an interface inside the program (memDb, fsDb, pgDb ...). The universe here is
// AllFunctions plus every method of every named type of the library packages (and their closures).

// CGEdge is one call edge.
type CGEdge struct {
	Caller *ssa.Function
	Site   ssa.CallInstruction
	Callee *ssa.Function
}

type callIndex struct {
	byName map[string][]*ssa.Function // methods by name
	bySig  typeutil.Map               // types.Signature (without receiver) -> []*ssa.Function
	impl   map[implKey]bool
}

type implKey struct {
	recv  types.Type
	iface *types.Interface
}

func (w *World) buildCallIndex() {
	if w.cidx != nil {
		return
	}
	ci := &callIndex{byName: map[string][]*ssa.Function{}, impl: map[implKey]bool{}}
	for fn := range w.allFuncs {
		if fn.Signature.Recv() != nil {
			ci.byName[fn.Name()] = append(ci.byName[fn.Name()], fn)
		}
		// candidates of dynamic calls: any function or closure by signature (receiver dropped for bound methods)
		sig := fn.Signature
		if sig.Recv() == nil {
			var prev []*ssa.Function
			if v := ci.bySig.At(sig); v != nil {
				prev = v.([]*ssa.Function)
			}
			ci.bySig.Set(sig, append(prev, fn))
		}
	}
	w.cidx = ci
}

// Callees resolves a call site: static callee, or (CHA) every method of a type implementing the
// interface, or every function whose signature matches the called function value.
func (w *World) Callees(site ssa.CallInstruction) []*ssa.Function {
	w.buildCallIndex()
	cc := site.Common()
	if f := StaticCallee(site); f != nil {
		return []*ssa.Function{f}
	}
	if _, isBuiltin := cc.Value.(*ssa.Builtin); isBuiltin {
		return nil
	}
	if cc.IsInvoke() {
		iface, ok := cc.Value.Type().Underlying().(*types.Interface)
		if !ok {
			return nil
		}
		var out []*ssa.Function
		for _, m := range w.cidx.byName[cc.Method.Name()] {
			recv := m.Signature.Recv().Type()
			k := implKey{recv, iface}
			ok, seen := w.cidx.impl[k]
			if !seen {
				ok = types.Implements(recv, iface)
				w.cidx.impl[k] = ok
			}
			if ok {
				out = append(out, m)
			}
		}
		return out
	}
	// dynamic call of a function value
	sig, ok := cc.Value.Type().Underlying().(*types.Signature)
	if !ok {
		return nil
	}
	if v := w.cidx.bySig.At(sig); v != nil {
		return v.([]*ssa.Function)
	}
	return nil
}

// Reachable computes the functions reachable from roots and one predecessor edge for each.
func (w *World) Reachable(roots []*ssa.Function) (map[*ssa.Function]bool, map[*ssa.Function]*CGEdge) {
	seen := map[*ssa.Function]bool{}
	pred := map[*ssa.Function]*CGEdge{}
	var work []*ssa.Function
	for _, f := range roots {
		if f != nil && !seen[f] {
			seen[f] = true
			work = append(work, f)
		}
	}
	for len(work) > 0 {
		f := work[0]
		work = work[1:]
		for _, b := range f.Blocks {
			for _, in := range b.Instrs {
				site, ok := in.(ssa.CallInstruction)
				if !ok {
					// closures created here may be called later
					if mc, ok := in.(*ssa.MakeClosure); ok {
						if g, ok := mc.Fn.(*ssa.Function); ok && !seen[g] {
							seen[g] = true
							pred[g] = &CGEdge{Caller: f, Callee: g}
							work = append(work, g)
						}
					}
					continue
				}
				for _, g := range w.Callees(site) {
					if !seen[g] {
						seen[g] = true
						pred[g] = &CGEdge{Caller: f, Site: site, Callee: g}
						work = append(work, g)
					}
				}
			}
		}
	}
	return seen, pred
}
