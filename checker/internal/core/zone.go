package core

// Engine E4: length facts. A small zone (difference-constraint) domain with interval refinement,
// used to prove index and slice expressions in bounds from dominating guards.
//
// Facts are "x - y <= c" over terms: integer SSA values, len(v) of slice/string SSA values, and
// the constant ZERO. Sources of facts at a program point:
//   - types (uint8 in [0,255], len >= 0, ...), constants, len() calls, slice derivations,
//     value-preserving conversions, +/- arithmetic that provably does not wrap in its type,
//     induction variables (phi of a constant and itself plus a non-negative constant);
//   - conditions of dominating branches (edge dominance: the successor has a single predecessor);
//   - a frozen table of library post-conditions (strings.Index etc.).
// The closure is Floyd-Warshall (exact for difference logic); three-term definitions
// (t = x + y, t = c - x, conversions that depend on sign) are refined iteratively from the
// bounds the closure yields. Nothing is executed.

import (
	"fmt"
	"go/token"
	"go/types"
	"math"
	"strings"

	"golang.org/x/tools/go/ssa"
)

const inf = math.MaxInt64 / 4

// Term is a node of the constraint graph.
type Term struct {
	V   ssa.Value // nil: the constant zero
	Len bool      // the term is len(V)
}

func (t Term) String() string {
	if t.V == nil {
		return "0"
	}
	n := t.V.Name()
	if c, ok := t.V.(*ssa.Const); ok {
		n = c.String()
	}
	if t.Len {
		return "len(" + n + ")"
	}
	return n
}

var zero = Term{}

// Zone is a set of difference constraints valid at one block of one function.
type Zone struct {
	idx   map[Term]int
	terms []Term
	d     [][]int64 // d[i][j] = least known c with term_i - term_j <= c
	dirty bool
}

func newZone() *Zone {
	z := &Zone{idx: map[Term]int{}}
	z.node(zero)
	return z
}

func (z *Zone) node(t Term) int {
	if i, ok := z.idx[t]; ok {
		return i
	}
	i := len(z.terms)
	z.idx[t] = i
	z.terms = append(z.terms, t)
	for k := range z.d {
		z.d[k] = append(z.d[k], inf)
	}
	row := make([]int64, i+1)
	for k := range row {
		row[k] = inf
	}
	row[i] = 0
	z.d = append(z.d, row)
	return i
}

// addLE records x - y <= c.
func (z *Zone) addLE(x, y Term, c int64) bool {
	if c >= inf {
		return false
	}
	i, j := z.node(x), z.node(y)
	if c < z.d[i][j] {
		z.d[i][j] = c
		z.dirty = true
		return true
	}
	return false
}

func (z *Zone) addEq(x, y Term, c int64) { // x - y == c
	z.addLE(x, y, c)
	z.addLE(y, x, -c)
}

func (z *Zone) close() {
	if !z.dirty {
		return
	}
	n := len(z.terms)
	for k := 0; k < n; k++ {
		dk := z.d[k]
		for i := 0; i < n; i++ {
			dik := z.d[i][k]
			if dik >= inf {
				continue
			}
			di := z.d[i]
			for j := 0; j < n; j++ {
				if dk[j] >= inf {
					continue
				}
				if s := dik + dk[j]; s < di[j] {
					di[j] = s
				}
			}
		}
	}
	z.dirty = false
}

// le reports whether x - y <= c is implied.
func (z *Zone) le(x, y Term, c int64) bool {
	z.close()
	i, ok1 := z.idx[x]
	j, ok2 := z.idx[y]
	if !ok1 || !ok2 {
		return false
	}
	return z.d[i][j] <= c
}

// bounds returns the proven interval of a term.
func (z *Zone) bounds(t Term) (lo, hi int64) {
	z.close()
	i, ok := z.idx[t]
	if !ok {
		return -inf, inf
	}
	hi = z.d[i][0]
	lo = -z.d[0][i]
	if z.d[0][i] >= inf {
		lo = -inf
	}
	return
}

// infeasible reports a negative cycle (the block is unreachable under the collected facts).
func (z *Zone) infeasible() bool {
	z.close()
	for i := range z.terms {
		if z.d[i][i] < 0 {
			return true
		}
	}
	return false
}

// ---------------------------------------------------------------------------------------------

// Bounds analyses one function.
type Bounds struct {
	Fn      *ssa.Function
	IntBits int
	zones   map[*ssa.BasicBlock]*Zone
	zonesAt map[ssa.Instruction]*Zone
	// Opaque records values whose arithmetic may wrap in a narrow type (reported by rule R2).
	Opaque map[ssa.Value]string
	stable [][]ssa.Value
	// NoForward switches off store-to-load forwarding (set by rules that prove something about a
	// stored value under a hypothesis about the loads of the same field: forwarding would let the
	// hypothesis about a later load flow back into the stored value - a circular proof).
	NoForward bool
	summ      map[*ssa.Function]map[int]int64 // predicate summaries, private to this analysis (no global state)
	// Extra, when set, adds facts that hold by a checked class invariant or callee summary (the
	// rule that sets it is responsible for checking them). It runs after the definitional facts
	// and before branch conditions and refinement.
	Extra func(b *Bounds, z *Zone, vals []ssa.Value, before ssa.Instruction)
}

// Exported handles for fact providers.
var Zero = zero

// ValTerm is the term of an integer SSA value.
func ValTerm(v ssa.Value) Term { return Term{V: v} }

// LenTerm is the term (and constant offset) of len(v) for a slice, string or array value.
func LenTerm(v ssa.Value) (Term, int64, bool) { return lenTerm(v) }

// AddLE adds the fact x - y <= c.
func (z *Zone) AddLE(x, y Term, c int64) { z.addLE(x, y, c) }

// DomCond is a branch condition that holds at an instruction (its edge dominates it).
type DomCond struct {
	Cond  ssa.Value
	Truth bool
}

// DominatingConds lists the branch conditions whose edge dominates block blk.
func DominatingConds(blk *ssa.BasicBlock) []DomCond {
	var out []DomCond
	for _, bb := range blk.Parent().Blocks {
		ifi, ok := bb.Instrs[len(bb.Instrs)-1].(*ssa.If)
		if !ok {
			continue
		}
		for k := 0; k < 2; k++ {
			tgt := bb.Succs[k]
			if len(tgt.Preds) != 1 || bb.Succs[0] == bb.Succs[1] {
				continue
			}
			if tgt != blk && !tgt.Dominates(blk) {
				continue
			}
			out = append(out, DomCond{ifi.Cond, k == 0})
		}
	}
	return out
}

// ProveIndexAt decides 0 <= idx < len(x) just before instruction in.
func (b *Bounds) ProveIndexAt(in ssa.Instruction, x, idx ssa.Value) BoundsSite {
	return b.proveIndex(in, x, idx)
}

// ProveLenGEAt decides len(v) >= k just before instruction in.
func (b *Bounds) ProveLenGEAt(in ssa.Instruction, v ssa.Value, k int64) bool {
	z := b.zoneBefore(in.Block(), in)
	if z.infeasible() {
		return true
	}
	lt, off, ok := lenTerm(v)
	if !ok {
		return false
	}
	return z.le(zero, lt, off-k)
}

func NewBounds(fn *ssa.Function, intBits int) *Bounds {
	return &Bounds{Fn: fn, IntBits: intBits, zones: map[*ssa.BasicBlock]*Zone{}, zonesAt: map[ssa.Instruction]*Zone{}, Opaque: map[ssa.Value]string{}}
}

func (b *Bounds) typeRange(t types.Type) (int64, int64, bool) {
	bt, ok := t.Underlying().(*types.Basic)
	if !ok || bt.Info()&types.IsInteger == 0 {
		return 0, 0, false
	}
	maxInt := int64(math.MaxInt64)
	minInt := int64(math.MinInt64)
	if b.IntBits == 32 {
		maxInt, minInt = math.MaxInt32, math.MinInt32
	}
	switch bt.Kind() {
	case types.Uint8:
		return 0, math.MaxUint8, true
	case types.Uint16:
		return 0, math.MaxUint16, true
	case types.Uint32:
		return 0, math.MaxUint32, true
	case types.Uint64:
		return 0, inf, true
	case types.Uint, types.Uintptr:
		if b.IntBits == 32 {
			return 0, math.MaxUint32, true
		}
		return 0, inf, true
	case types.Int8:
		return math.MinInt8, math.MaxInt8, true
	case types.Int16:
		return math.MinInt16, math.MaxInt16, true
	case types.Int32:
		return math.MinInt32, math.MaxInt32, true
	case types.Int64:
		return -inf, inf, true
	case types.Int, types.UntypedInt:
		if b.IntBits == 32 {
			return minInt, maxInt, true
		}
		return -inf, inf, true
	}
	return 0, 0, false
}

// maxLen is the assumed upper bound of any slice/string length: small enough that adding a
// small constant cannot overflow int.
func (b *Bounds) maxLen() int64 {
	if b.IntBits == 32 {
		return math.MaxInt32 - (1 << 16)
	}
	return inf / 2
}

func isIntVal(v ssa.Value) bool {
	bt, ok := v.Type().Underlying().(*types.Basic)
	return ok && bt.Info()&types.IsInteger != 0
}

// lin expresses an integer value as term + offset (constants fold into the offset).
func lin(v ssa.Value) (Term, int64, bool) {
	if c, ok := ConstInt(v); ok {
		return zero, c, true
	}
	if !isIntVal(v) {
		return zero, 0, false
	}
	return Term{V: v}, 0, true
}

// lenTerm returns the term (and constant offset) standing for the length of x.
func lenTerm(x ssa.Value) (Term, int64, bool) {
	switch t := x.Type().Underlying().(type) {
	case *types.Slice:
		return Term{V: x, Len: true}, 0, true
	case *types.Basic:
		if t.Info()&types.IsString != 0 {
			if s, ok := ConstString(x); ok {
				return zero, int64(len(s)), true
			}
			return Term{V: x, Len: true}, 0, true
		}
	case *types.Array:
		return zero, t.Len(), true
	case *types.Pointer:
		if a, ok := t.Elem().Underlying().(*types.Array); ok {
			return zero, a.Len(), true
		}
	}
	return zero, 0, false
}

// zoneAt builds the facts valid throughout block blk (used for whole-block queries: every
// partial-operation fact of the block's own instructions is left out).
func (b *Bounds) zoneAt(blk *ssa.BasicBlock) *Zone {
	return b.zoneBefore(blk, blk.Instrs[0])
}

// zoneBefore builds (and caches) the facts valid just before instruction `before` of block blk.
// Facts that hold only because a partial operation succeeded (the length relation of a slice
// expression) are used only when that operation strictly dominates `before` - never to prove the
// operation's own precondition.
func (b *Bounds) zoneBefore(blk *ssa.BasicBlock, before ssa.Instruction) *Zone {
	if z, ok := b.zonesAt[before]; ok {
		return z
	}
	// keep only the most recent zone: a zone is an n*n matrix and a function can have hundreds of
	// obligation points
	for k := range b.zonesAt {
		delete(b.zonesAt, k)
	}
	z := newZone()
	fn := b.Fn
	var vals []ssa.Value
	for _, p := range fn.Params {
		vals = append(vals, p)
	}
	for _, fv := range fn.FreeVars {
		vals = append(vals, fv)
	}
	for _, bb := range fn.Blocks {
		for _, in := range bb.Instrs {
			if v, ok := in.(ssa.Value); ok {
				vals = append(vals, v)
			}
		}
	}
	// 1. unconditional facts from definitions
	for _, v := range vals {
		if lt, off, ok := lenTerm(v); ok && lt != zero {
			_ = off
			z.addLE(zero, lt, 0)          // len >= 0
			z.addLE(lt, zero, b.maxLen()) // len <= maxLen
		}
		if isIntVal(v) {
			if lo, hi, ok := b.typeRange(v.Type()); ok {
				if hi < inf {
					z.addLE(Term{V: v}, zero, hi)
				}
				if lo > -inf {
					z.addLE(zero, Term{V: v}, -lo)
				}
			}
		}
		switch t := v.(type) {
		case *ssa.Call:
			if bi, ok := t.Call.Value.(*ssa.Builtin); ok {
				switch bi.Name() {
				case "len":
					if lt, off, ok := lenTerm(t.Call.Args[0]); ok {
						z.addEq(Term{V: t}, lt, off)
					}
				case "append":
					// the result is at least as long as the slice appended to
					if lt, off, ok := lenTerm(t); ok && lt != zero && len(t.Call.Args) > 0 {
						if lx, offx, ok := lenTerm(t.Call.Args[0]); ok {
							z.addLE(lx, lt, off-offx)
						}
					}
				case "copy":
					z.addLE(zero, Term{V: t}, 0)
					for _, a := range t.Call.Args {
						if lt, off, ok := lenTerm(a); ok {
							z.addLE(Term{V: t}, lt, off)
						}
					}
				}
			} else {
				switch CallName(t) {
				case "strings.Index", "strings.IndexByte", "strings.LastIndex", "bytes.Index", "bytes.IndexByte", "strings.IndexRune", "strings.IndexAny":
					z.addLE(zero, Term{V: t}, 1) // >= -1
					if lt, off, ok := lenTerm(t.Call.Args[0]); ok {
						z.addLE(Term{V: t}, lt, off-1) // <= len-1
					}
				}
			}
		case *ssa.Slice:
			if InstrDominates(t, before) {
				b.sliceFacts(z, t)
			}
		case *ssa.Convert:
			if isIntVal(t) && isIntVal(t.X) {
				alo, ahi, ok1 := b.typeRange(t.X.Type())
				blo, bhi, ok2 := b.typeRange(t.Type())
				if ok1 && ok2 && blo <= alo && ahi <= bhi {
					if xt, off, ok := lin(t.X); ok {
						z.addEq(Term{V: t}, xt, off)
					}
				}
			}
			// []byte(string) / string([]byte): same length. []rune(string) has at most as many
			// elements as the string has bytes (every rune takes at least one byte) - not the same
			// number (seeded change C08-M sliced []rune(s) by a bound tested on len(s)); string([]rune)
			// gives no upper bound here.
			if lt, off, ok := lenTerm(t); ok && lt != zero {
				if lx, offx, ok := lenTerm(t.X); ok {
					_ = off
					switch {
					case ByteLike(t.Type()) && ByteLike(t.X.Type()):
						z.addEq(lt, lx, offx)
					case isRuneSlice(t.Type()) && ByteLike(t.X.Type()):
						z.addLE(lt, lx, offx)
					}
				}
			}
		case *ssa.ChangeType:
			if isIntVal(t) && isIntVal(t.X) {
				if xt, off, ok := lin(t.X); ok {
					z.addEq(Term{V: t}, xt, off)
				}
			}
			if lt, _, ok := lenTerm(t); ok && lt != zero {
				if lx, offx, ok := lenTerm(t.X); ok {
					z.addEq(lt, lx, offx)
				}
			}
		case *ssa.MakeSlice:
			if lt, _, ok := lenTerm(t); ok {
				if xt, off, ok := lin(t.Len); ok {
					z.addEq(lt, xt, off)
				}
			}
		}
	}
	// 1b. go/ssa does no CSE: two loads of the same field of the same object are different values.
	// They are unified when the field is stable in this function (see stableFieldLoads).
	for _, grp := range b.stableFieldLoads() {
		for i := 1; i < len(grp); i++ {
			if lt, _, ok := lenTerm(grp[0]); ok && lt != zero {
				l2, _, _ := lenTerm(grp[i])
				z.addEq(lt, l2, 0)
			} else if isIntVal(grp[0]) {
				z.addEq(Term{V: grp[0]}, Term{V: grp[i]}, 0)
			}
		}
	}
	if b.Extra != nil {
		b.Extra(b, z, vals, before)
	}
	// 2. dominating branch conditions
	for _, bb := range fn.Blocks {
		ifi, ok := bb.Instrs[len(bb.Instrs)-1].(*ssa.If)
		if !ok {
			continue
		}
		for k := 0; k < 2; k++ {
			tgt := bb.Succs[k]
			if len(tgt.Preds) != 1 || bb.Succs[0] == bb.Succs[1] {
				continue
			}
			if tgt != blk && !tgt.Dominates(blk) {
				continue
			}
			b.condFacts(z, ifi.Cond, k == 0)
		}
	}
	// 3. iterative refinement of three-term definitions, conversions, phis, != tests
	for round := 0; round < 8; round++ {
		changed := false
		for _, v := range vals {
			switch t := v.(type) {
			case *ssa.BinOp:
				if b.binopFacts(z, t) {
					changed = true
				}
			case *ssa.Convert:
				if b.convertFacts(z, t) {
					changed = true
				}
			case *ssa.Phi:
				if b.phiFacts(z, t) {
					changed = true
				}
			case *ssa.Call:
				// append(x, ys...): the result is at least len(x) plus the least length of ys
				if bi, ok := t.Call.Value.(*ssa.Builtin); ok && bi.Name() == "append" && len(t.Call.Args) == 2 {
					lr, offr, ok1 := lenTerm(t)
					lx, offx, ok2 := lenTerm(t.Call.Args[0])
					ly, offy, ok3 := lenTerm(t.Call.Args[1])
					if ok1 && ok2 && ok3 && lr != zero {
						ylo := offy
						if ly != zero {
							lo, _ := z.bounds(ly)
							if lo <= -inf {
								lo = 0
							}
							ylo = satAdd(lo, offy)
						}
						if ylo > 0 {
							// (lx+offx) + ylo <= (lr+offr)  =>  lx - lr <= offr - offx - ylo
							if z.addLE(lx, lr, offr-offx-ylo) {
								changed = true
							}
						}
					}
				}
			}
		}
		// re-apply != conditions (they need current bounds)
		for _, bb := range fn.Blocks {
			ifi, ok := bb.Instrs[len(bb.Instrs)-1].(*ssa.If)
			if !ok {
				continue
			}
			for k := 0; k < 2; k++ {
				tgt := bb.Succs[k]
				if len(tgt.Preds) != 1 || bb.Succs[0] == bb.Succs[1] {
					continue
				}
				if tgt != blk && !tgt.Dominates(blk) {
					continue
				}
				if b.neqFacts(z, ifi.Cond, k == 0) {
					changed = true
				}
			}
		}
		if !changed {
			break
		}
	}
	z.close()
	b.zonesAt[before] = z
	return z
}

func (b *Bounds) sliceFacts(z *Zone, s *ssa.Slice) {
	lt, _, ok := lenTerm(s)
	if !ok || lt == zero {
		return
	}
	lx, offx, okx := lenTerm(s.X)
	// hi defaults to len(x)
	var hiT Term
	var hiOff int64
	hiOK := false
	if s.High != nil {
		hiT, hiOff, hiOK = lin(s.High)
	} else if okx {
		hiT, hiOff, hiOK = lx, offx, true
	}
	if !hiOK {
		return
	}
	if s.Low == nil {
		z.addEq(lt, hiT, hiOff) // len(y) = hi
		return
	}
	if c, ok := ConstInt(s.Low); ok {
		z.addEq(lt, hiT, hiOff-c) // len(y) = hi - c
		return
	}
	// variable low: len(y) = hi - lo; as difference facts only  len(y) <= hi - lo_min
	if lo, _, ok := lin(s.Low); ok {
		l, h := z.bounds(lo)
		if l > -inf {
			z.addLE(lt, hiT, hiOff-l)
		}
		if h < inf {
			z.addLE(hiT, lt, h-hiOff)
		}
	}
}

func negate(op token.Token) token.Token {
	switch op {
	case token.LSS:
		return token.GEQ
	case token.LEQ:
		return token.GTR
	case token.GTR:
		return token.LEQ
	case token.GEQ:
		return token.LSS
	case token.EQL:
		return token.NEQ
	case token.NEQ:
		return token.EQL
	}
	return token.ILLEGAL
}

// cmpOf decomposes a boolean value into an integer comparison, following negation.
func cmpOf(cond ssa.Value, truth bool) (op token.Token, x, y ssa.Value, ok bool) {
	for {
		switch t := cond.(type) {
		case *ssa.UnOp:
			if t.Op == token.NOT {
				cond = t.X
				truth = !truth
				continue
			}
			return
		case *ssa.BinOp:
			op = t.Op
			if negate(op) == token.ILLEGAL {
				return
			}
			if !truth {
				op = negate(op)
			}
			return op, t.X, t.Y, true
		default:
			return
		}
	}
}

func (b *Bounds) condFacts(z *Zone, cond ssa.Value, truth bool) {
	op, x, y, ok := cmpOf(cond, truth)
	if !ok {
		b.predicateFacts(z, cond, truth)
		return
	}
	tx, cx, ok1 := lin(x)
	ty, cy, ok2 := lin(y)
	if !ok1 || !ok2 {
		return
	}
	// x + cx  op  y + cy
	switch op {
	case token.LSS:
		z.addLE(tx, ty, cy-cx-1)
	case token.LEQ:
		z.addLE(tx, ty, cy-cx)
	case token.GTR:
		z.addLE(ty, tx, cx-cy-1)
	case token.GEQ:
		z.addLE(ty, tx, cx-cy)
	case token.EQL:
		z.addLE(tx, ty, cy-cx)
		z.addLE(ty, tx, cx-cy)
	}
}

// neqFacts: x != y tightens a bound that currently equals the excluded value.
func (b *Bounds) neqFacts(z *Zone, cond ssa.Value, truth bool) bool {
	op, x, y, ok := cmpOf(cond, truth)
	if !ok || op != token.NEQ {
		return false
	}
	tx, cx, ok1 := lin(x)
	ty, cy, ok2 := lin(y)
	if !ok1 || !ok2 {
		return false
	}
	// d = (tx - ty) != cy - cx
	c := cy - cx
	z.close()
	changed := false
	i, j := z.node(tx), z.node(ty)
	z.close()
	if z.d[i][j] == c { // tx - ty <= c and != c  => <= c-1
		changed = z.addLE(tx, ty, c-1) || changed
	}
	if z.d[j][i] == -c { // tx - ty >= c and != c => >= c+1
		changed = z.addLE(ty, tx, -c-1) || changed
	}
	return changed
}

func (b *Bounds) binopFacts(z *Zone, t *ssa.BinOp) bool {
	if !isIntVal(t) || (t.Op != token.ADD && t.Op != token.SUB) {
		return false
	}
	tlo, thi, ok := b.typeRange(t.Type())
	if !ok {
		return false
	}
	tx, cx, ok1 := lin(t.X)
	ty, cy, ok2 := lin(t.Y)
	if !ok1 || !ok2 {
		return false
	}
	xlo, xhi := z.bounds(tx)
	ylo, yhi := z.bounds(ty)
	if tx == zero {
		xlo, xhi = 0, 0
	}
	if ty == zero {
		ylo, yhi = 0, 0
	}
	xlo, xhi = sat(xlo, cx), sat(xhi, cx)
	ylo, yhi = sat(ylo, cy), sat(yhi, cy)
	var rlo, rhi int64
	if t.Op == token.ADD {
		rlo, rhi = satAdd(xlo, ylo), satAdd(xhi, yhi)
	} else {
		rlo, rhi = satAdd(xlo, -yhi), satAdd(xhi, -ylo)
	}
	if rlo < tlo || rhi > thi {
		// may wrap in its type: the result is opaque (only its type range is known)
		if thi < inf {
			b.Opaque[t] = fmt.Sprintf("%s computed in %s may wrap: operands allow [%s, %s]", t.Op, t.Type(), fmtB(rlo), fmtB(rhi))
		}
		return false
	}
	delete(b.Opaque, t)
	tt := Term{V: t}
	ch := false
	ch = z.addLE(tt, zero, rhi) || ch
	ch = z.addLE(zero, tt, -rlo) || ch
	if t.Op == token.ADD {
		// t - x = y  => t - tx <= cx + yhi ; tx - t <= -(cx + ylo)
		if tx != zero {
			ch = z.addLE(tt, tx, satAdd(cx, yhi)) || ch
			ch = z.addLE(tx, tt, -satAdd(cx, ylo)) || ch
		}
		if ty != zero {
			ch = z.addLE(tt, ty, satAdd(cy, xhi)) || ch
			ch = z.addLE(ty, tt, -satAdd(cy, xlo)) || ch
		}
	} else {
		// t = x - y: t - tx <= cx - ylo ; tx - t <= yhi - cx
		if tx != zero {
			ch = z.addLE(tt, tx, satAdd(cx, -ylo)) || ch
			ch = z.addLE(tx, tt, satAdd(yhi, -cx)) || ch
		}
		// t + ty = x + cx - cy ... (sum constraint, not expressible) - skip
	}
	return ch
}

func sat(v, c int64) int64 {
	if v >= inf || v <= -inf {
		return v
	}
	return v + c
}

func satAdd(a, b int64) int64 {
	if a >= inf || b >= inf {
		if a <= -inf || b <= -inf {
			return 0
		}
		return inf
	}
	if a <= -inf || b <= -inf {
		return -inf
	}
	s := a + b
	if s > inf {
		return inf
	}
	if s < -inf {
		return -inf
	}
	return s
}

func fmtB(v int64) string {
	if v >= inf {
		return "+inf"
	}
	if v <= -inf {
		return "-inf"
	}
	return fmt.Sprint(v)
}

// convertFacts handles conversions whose value preservation depends on proven bounds.
func (b *Bounds) convertFacts(z *Zone, t *ssa.Convert) bool {
	if !isIntVal(t) || !isIntVal(t.X) {
		return false
	}
	blo, bhi, ok := b.typeRange(t.Type())
	if !ok {
		return false
	}
	xt, off, ok := lin(t.X)
	if !ok {
		return false
	}
	lo, hi := z.bounds(xt)
	if xt == zero {
		lo, hi = 0, 0
	}
	lo, hi = sat(lo, off), sat(hi, off)
	tt := Term{V: t}
	ch := false
	if lo >= blo && hi <= bhi {
		ch = z.addLE(tt, xt, off) || ch
		ch = z.addLE(xt, tt, -off) || ch
		return ch
	}
	if lo >= 0 && blo == 0 {
		// narrowing a non-negative value to an unsigned type never increases it
		ch = z.addLE(tt, xt, off) || ch
	}
	return ch
}

// phiFacts: interval join, plus induction lemmas for monotone self-updates.
func (b *Bounds) phiFacts(z *Zone, p *ssa.Phi) bool {
	if !isIntVal(p) {
		// length of a phi of slices: join of lengths relative to zero
		if lt, _, ok := lenTerm(p); ok && lt != zero {
			lo, hi := int64(inf), int64(-inf)
			for _, e := range p.Edges {
				le, off, ok := lenTerm(e)
				if !ok {
					return false
				}
				l, h := z.bounds(le)
				if le == zero {
					l, h = 0, 0
				}
				l, h = sat(l, off), sat(h, off)
				if l < lo {
					lo = l
				}
				if h > hi {
					hi = h
				}
			}
			ch := false
			if hi < inf {
				ch = z.addLE(lt, zero, hi) || ch
			}
			if lo > -inf && lo > 0 {
				ch = z.addLE(zero, lt, -lo) || ch
			}
			return ch
		}
		return false
	}
	tt := Term{V: p}
	lo, hi := int64(inf), int64(-inf)
	incLo, decHi := true, true // all non-constant edges are p + c (c>=0) / p - c
	for _, e := range p.Edges {
		if c, ok := ConstInt(e); ok {
			if c < lo {
				lo = c
			}
			if c > hi {
				hi = c
			}
			continue
		}
		step, ok := selfStep(e, p, 0)
		if ok && step >= 0 {
			decHi = false
		} else if ok && step <= 0 {
			incLo = false
		} else {
			incLo, decHi = false, false
		}
		et, off, ok2 := lin(e)
		if !ok2 {
			return false
		}
		l, h := z.bounds(et)
		l, h = sat(l, off), sat(h, off)
		if !(ok && step >= 0) && l < lo {
			lo = l
		}
		if !(ok && step <= 0) && h > hi {
			hi = h
		}
	}
	ch := false
	_ = incLo
	_ = decHi
	if lo < inf && lo > -inf {
		ch = z.addLE(zero, tt, -lo) || ch
	}
	if hi > -inf && hi < inf {
		ch = z.addLE(tt, zero, hi) || ch
	}
	return ch
}

// selfStep recognises e = p + c (through a chain of +const and single-input phis), returning c.
func selfStep(e ssa.Value, p *ssa.Phi, depth int) (int64, bool) {
	if depth > 4 {
		return 0, false
	}
	if e == p {
		return 0, true
	}
	switch t := e.(type) {
	case *ssa.BinOp:
		if t.Op == token.ADD {
			if c, ok := ConstInt(t.Y); ok {
				if s, ok := selfStep(t.X, p, depth+1); ok {
					return s + c, true
				}
			}
			if c, ok := ConstInt(t.X); ok {
				if s, ok := selfStep(t.Y, p, depth+1); ok {
					return s + c, true
				}
			}
		}
		if t.Op == token.SUB {
			if c, ok := ConstInt(t.Y); ok {
				if s, ok := selfStep(t.X, p, depth+1); ok {
					return s - c, true
				}
			}
		}
	case *ssa.Phi:
		// merge of "incremented" and "not incremented": all edges must be steps of the same sign
		var lo, hi int64
		first := true
		for _, x := range t.Edges {
			s, ok := selfStep(x, p, depth+1)
			if !ok {
				return 0, false
			}
			if first || s < lo {
				lo = s
			}
			if first || s > hi {
				hi = s
			}
			first = false
		}
		if lo >= 0 {
			return lo, true
		}
		if hi <= 0 {
			return hi, true
		}
	}
	return 0, false
}

// ---------------------------------------------------------------------------------------------
// Obligations

// BoundsSite is one index/slice/precondition obligation.
type BoundsSite struct {
	Instr   ssa.Instruction
	Kind    string // index | slice | call
	Expr    string
	OK      bool
	Missing string
}

// ElemFilter decides whether an indexed/sliced container is of interest.
type ElemFilter func(container types.Type) bool

// ByteLike accepts []byte, string, [N]byte and *[N]byte.
func ByteLike(t types.Type) bool {
	isByte := func(e types.Type) bool {
		b, ok := e.Underlying().(*types.Basic)
		return ok && (b.Kind() == types.Uint8 || b.Kind() == types.Byte)
	}
	switch u := t.Underlying().(type) {
	case *types.Slice:
		return isByte(u.Elem())
	case *types.Basic:
		return u.Info()&types.IsString != 0
	case *types.Array:
		return isByte(u.Elem())
	case *types.Pointer:
		if a, ok := u.Elem().Underlying().(*types.Array); ok {
			return isByte(a.Elem())
		}
	}
	return false
}

// Sites enumerates and decides the bounds obligations of the function.
func (b *Bounds) Sites(filter ElemFilter) []BoundsSite {
	var out []BoundsSite
	for _, blk := range b.Fn.Blocks {
		for _, in := range blk.Instrs {
			switch t := in.(type) {
			case *ssa.IndexAddr:
				if filter(t.X.Type()) {
					out = append(out, b.proveIndex(in, t.X, t.Index))
				}
			case *ssa.Index:
				if filter(t.X.Type()) {
					out = append(out, b.proveIndex(in, t.X, t.Index))
				}
			case *ssa.Lookup:
				if _, isMap := t.X.Type().Underlying().(*types.Map); !isMap && filter(t.X.Type()) {
					out = append(out, b.proveIndex(in, t.X, t.Index))
				}
			case *ssa.Slice:
				if filter(t.X.Type()) {
					out = append(out, b.proveSlice(t))
				}
			case *ssa.Call:
				need := int64(0)
				var arg ssa.Value
				switch CallName(t) {
				case "encoding/binary.(bigEndian).Uint16", "encoding/binary.(littleEndian).Uint16":
					need, arg = 2, t.Call.Args[1]
				case "encoding/binary.(bigEndian).Uint32", "encoding/binary.(littleEndian).Uint32":
					need, arg = 4, t.Call.Args[1]
				case "encoding/binary.(bigEndian).Uint64", "encoding/binary.(littleEndian).Uint64":
					need, arg = 8, t.Call.Args[1]
				case "encoding/binary.(bigEndian).PutUint16", "encoding/binary.(littleEndian).PutUint16":
					need, arg = 2, t.Call.Args[1]
				case "encoding/binary.(bigEndian).PutUint32", "encoding/binary.(littleEndian).PutUint32":
					need, arg = 4, t.Call.Args[1]
				case "encoding/binary.(bigEndian).PutUint64", "encoding/binary.(littleEndian).PutUint64":
					need, arg = 8, t.Call.Args[1]
				}
				if need > 0 {
					z := b.zoneBefore(blk, in)
					lt, off, ok := lenTerm(arg)
					s := BoundsSite{Instr: in, Kind: "call", Expr: fmt.Sprintf("%s needs len(%s) >= %d", CallName(t), arg.Name(), need)}
					if z.infeasible() {
						s.OK = true
					} else if ok && z.le(zero, lt, off-need) { // need - len <= 0  <=> 0 - lt <= off - need
						s.OK = true
					} else {
						s.Missing = fmt.Sprintf("cannot prove len(%s) >= %d", arg.Name(), need)
					}
					out = append(out, s)
				}
			}
		}
	}
	return out
}

func (b *Bounds) proveIndex(in ssa.Instruction, x, idx ssa.Value) BoundsSite {
	z := b.zoneBefore(in.Block(), in)
	s := BoundsSite{Instr: in, Kind: "index", Expr: fmt.Sprintf("%s[%s]", x.Name(), valName(idx))}
	if z.infeasible() {
		s.OK = true
		return s
	}
	it, ioff, ok := lin(idx)
	lt, loff, ok2 := lenTerm(x)
	if !ok || !ok2 {
		s.Missing = "index or container not understood"
		return s
	}
	// 0 <= idx : 0 - it <= ioff
	if !z.le(zero, it, ioff) {
		s.Missing = fmt.Sprintf("cannot prove %s >= 0", valName(idx))
		if why, op := b.Opaque[idx]; op {
			s.Missing += " (" + why + ")"
		}
		return s
	}
	// idx < len : it + ioff - (lt + loff) <= -1
	if !z.le(it, lt, loff-ioff-1) {
		s.Missing = fmt.Sprintf("cannot prove %s < len(%s)", valName(idx), x.Name())
		if why, op := b.Opaque[idx]; op {
			s.Missing += " (" + why + ")"
		}
		return s
	}
	s.OK = true
	return s
}

func valName(v ssa.Value) string {
	if c, ok := v.(*ssa.Const); ok {
		return c.Value.String()
	}
	return v.Name()
}

func (b *Bounds) proveSlice(t *ssa.Slice) BoundsSite {
	z := b.zoneBefore(t.Block(), t)
	lo, hi := "", ""
	if t.Low != nil {
		lo = valName(t.Low)
	}
	if t.High != nil {
		hi = valName(t.High)
	}
	s := BoundsSite{Instr: t, Kind: "slice", Expr: fmt.Sprintf("%s[%s:%s]", t.X.Name(), lo, hi)}
	if z.infeasible() {
		s.OK = true
		return s
	}
	lt, loff, ok := lenTerm(t.X)
	if !ok {
		s.Missing = "container not understood"
		return s
	}
	loT, loOff := zero, int64(0)
	if t.Low != nil {
		var ok bool
		loT, loOff, ok = lin(t.Low)
		if !ok {
			s.Missing = "low bound not understood"
			return s
		}
	}
	hiT, hiOff := lt, loff
	if t.High != nil {
		var ok bool
		hiT, hiOff, ok = lin(t.High)
		if !ok {
			s.Missing = "high bound not understood"
			return s
		}
	}
	note := func(v ssa.Value) string {
		if v == nil {
			return ""
		}
		if why, op := b.Opaque[v]; op {
			return " (" + why + ")"
		}
		return ""
	}
	// 0 <= lo
	if !z.le(zero, loT, loOff) {
		s.Missing = fmt.Sprintf("cannot prove %s >= 0", lo) + note(t.Low)
		return s
	}
	// lo <= hi : loT + loOff - hiT - hiOff <= 0
	if !z.le(loT, hiT, hiOff-loOff) {
		h := hi
		if h == "" {
			h = "len(" + t.X.Name() + ")"
		}
		s.Missing = fmt.Sprintf("cannot prove %s <= %s", lo, h) + note(t.Low) + note(t.High)
		return s
	}
	// hi <= len
	if t.High != nil && !z.le(hiT, lt, loff-hiOff) {
		s.Missing = fmt.Sprintf("cannot prove %s <= len(%s)", hi, t.X.Name()) + note(t.High)
		return s
	}
	s.OK = true
	return s
}

// RangeAt returns the interval the integer value v is known to lie in just before instruction in.
func (b *Bounds) RangeAt(in ssa.Instruction, v ssa.Value) (lo, hi int64, ok bool) {
	z := b.zoneBefore(in.Block(), in)
	if z.infeasible() {
		return 0, 0, true
	}
	t, off, okl := lin(v)
	if !okl {
		return 0, 0, false
	}
	lo, hi = z.bounds(t)
	return satAdd(lo, off), satAdd(hi, off), true
}

// TypeRange exposes the value range of an integer type.
func (b *Bounds) TypeRange(t types.Type) (int64, int64, bool) { return b.typeRange(t) }

// ProveLEConst reports whether v <= c holds throughout block blk.
func (b *Bounds) ProveLEConst(blk *ssa.BasicBlock, v ssa.Value, c int64) bool {
	z := b.zoneAt(blk)
	if z.infeasible() {
		return true
	}
	t, off, ok := lin(v)
	if !ok {
		return false
	}
	// also accept a widening conversion of v that was the compared value
	if z.le(t, zero, c-off) {
		return true
	}
	if refs := v.Referrers(); refs != nil {
		for _, r := range *refs {
			if cv, ok := r.(*ssa.Convert); ok {
				if z.le(Term{V: cv}, zero, c) {
					return true
				}
			}
		}
	}
	return false
}

// ---------------------------------------------------------------------------------------------
// Predicate summaries: for a module function f(..., p []byte|string, ...) bool, the least length
// of p on every return that may yield true ("f(p) true implies len(p) >= k").

func predicateSummary(f *ssa.Function, intBits int, depth int, cache map[*ssa.Function]map[int]int64) map[int]int64 {
	if s, ok := cache[f]; ok {
		return s
	}
	cache[f] = nil // recursion guard
	if f == nil || len(f.Blocks) == 0 || depth > 2 || f.Signature.Results().Len() != 1 {
		return nil
	}
	if bt, ok := f.Signature.Results().At(0).Type().Underlying().(*types.Basic); !ok || bt.Kind() != types.Bool {
		return nil
	}
	bd := NewBounds(f, intBits)
	bd.summ = cache
	out := map[int]int64{}
	for pi, p := range f.Params {
		lt, _, ok := lenTerm(p)
		if !ok || lt == zero {
			continue
		}
		min := int64(inf)
		for _, blk := range f.Blocks {
			ret, ok := blk.Instrs[len(blk.Instrs)-1].(*ssa.Return)
			if !ok {
				continue
			}
			if c, ok := ret.Results[0].(*ssa.Const); ok && c.Value != nil && c.Value.String() == "false" {
				continue
			}
			z := bd.zoneAt(blk)
			if z.infeasible() {
				continue
			}
			lo, _ := z.bounds(lt)
			if lo < min {
				min = lo
			}
		}
		if min > 0 && min < inf {
			out[pi] = min
		}
	}
	cache[f] = out
	return out
}

// predicateFacts: on the true edge of a call f(x) add len(x) >= k from f's summary.
func (b *Bounds) predicateFacts(z *Zone, cond ssa.Value, truth bool) {
	for {
		u, ok := cond.(*ssa.UnOp)
		if !ok || u.Op != token.NOT {
			break
		}
		cond = u.X
		truth = !truth
	}
	if !truth {
		return
	}
	c, ok := cond.(*ssa.Call)
	if !ok {
		return
	}
	f := StaticCallee(c)
	if f == nil || f == b.Fn {
		return
	}
	if b.summ == nil {
		b.summ = map[*ssa.Function]map[int]int64{}
	}
	sum := predicateSummary(f, b.IntBits, 0, b.summ)
	for pi, k := range sum {
		if pi < len(c.Call.Args) {
			if lt, off, ok := lenTerm(c.Call.Args[pi]); ok {
				z.addLE(zero, lt, off-k)
			}
		}
	}
}

// ProveLenGE reports whether len(v) >= k holds throughout block blk.
func (b *Bounds) ProveLenGE(blk *ssa.BasicBlock, v ssa.Value, k int64) bool {
	z := b.zoneAt(blk)
	if z.infeasible() {
		return true
	}
	lt, off, ok := lenTerm(v)
	if !ok {
		return false
	}
	return z.le(zero, lt, off-k)
}

// stableFieldLoads returns pairs (as 2-element groups) of loads `*(&x.f)` of fn on the same object
// and field that must yield the same value: the first dominates the second and no writer of the
// field can execute between them. Writers are stores to a field f of that struct type in fn, and
// static calls to module functions that (transitively, depth 3) contain such a store. Calls through
// interfaces and function values are assumed not to write the fields of the object being read
// (logging, formatting, library calls); the rules that rely on this state it in their evidence.
func (b *Bounds) stableFieldLoads() [][]ssa.Value {
	if b.stable != nil {
		return b.stable
	}
	type key struct {
		x ssa.Value
		f int
	}
	writesMemo := map[*ssa.Function]map[string]bool{}
	var writesOf func(fn *ssa.Function, depth int) map[string]bool
	writesOf = func(fn *ssa.Function, depth int) map[string]bool {
		if m, ok := writesMemo[fn]; ok {
			return m
		}
		m := map[string]bool{}
		writesMemo[fn] = m
		if fn == nil || depth > 3 || len(fn.Blocks) == 0 {
			return m
		}
		for _, blk := range fn.Blocks {
			for _, in := range blk.Instrs {
				switch t := in.(type) {
				case *ssa.Store:
					if tn, f, ok := FieldOfAddr(t.Addr); ok {
						m[tn+"."+f] = true
					}
				case ssa.CallInstruction:
					if c := StaticCallee(t); c != nil && c.Pkg != nil && strings.HasPrefix(c.Pkg.Pkg.Path(), ModPath) {
						for k := range writesOf(c, depth+1) {
							m[k] = true
						}
					}
				}
			}
		}
		return m
	}
	// writers in fn per field key
	writers := map[string][]ssa.Instruction{}
	for _, blk := range b.Fn.Blocks {
		for _, in := range blk.Instrs {
			switch t := in.(type) {
			case *ssa.Store:
				if tn, f, ok := FieldOfAddr(t.Addr); ok {
					writers[tn+"."+f] = append(writers[tn+"."+f], in)
				}
			case ssa.CallInstruction:
				if c := StaticCallee(t); c != nil && c != b.Fn && c.Pkg != nil && strings.HasPrefix(c.Pkg.Pkg.Path(), ModPath) {
					for k := range writesOf(c, 1) {
						writers[k] = append(writers[k], in)
					}
				}
			}
		}
	}
	groups := map[key][]*ssa.UnOp{}
	fkey := map[key]string{}
	var order []key
	for _, blk := range b.Fn.Blocks {
		for _, in := range blk.Instrs {
			u, ok := in.(*ssa.UnOp)
			if !ok || u.Op != token.MUL {
				continue
			}
			fa, ok := u.X.(*ssa.FieldAddr)
			if !ok {
				continue
			}
			tn, f, ok := FieldOfAddr(fa)
			if !ok {
				continue
			}
			k := key{fa.X, fa.Field}
			if _, seen := groups[k]; !seen {
				order = append(order, k)
			}
			groups[k] = append(groups[k], u)
			fkey[k] = tn + "." + f
		}
	}
	b.stable = [][]ssa.Value{}
	for _, k := range order {
		g := groups[k]
		if len(g) < 2 {
			continue
		}
		ws := writers[fkey[k]]
		for i := 0; i < len(g); i++ {
			for j := 0; j < len(g); j++ {
				if i == j || !InstrDominates(g[i], g[j]) {
					continue
				}
				clean := true
				for _, wi := range ws {
					if in, _ := Reach(After(g[i]), IsInstr(wi), nil); in == nil {
						continue
					}
					if in, _ := Reach(After(wi), IsInstr(g[j]), nil); in != nil {
						clean = false
						break
					}
				}
				if clean {
					b.stable = append(b.stable, []ssa.Value{g[i], g[j]})
				}
			}
		}
	}
	// store-to-load forwarding: a load that a store to the same object and field dominates, with no
	// other writer of the field (and no re-evaluation of the stored value) in between, yields the
	// stored value.
	for _, blk := range b.Fn.Blocks {
		if b.NoForward {
			break
		}
		for _, in := range blk.Instrs {
			st, ok := in.(*ssa.Store)
			if !ok {
				continue
			}
			fa, ok := st.Addr.(*ssa.FieldAddr)
			if !ok {
				continue
			}
			k := key{fa.X, fa.Field}
			loads := groups[k]
			if len(loads) == 0 {
				continue
			}
			if _, _, isLen := lenTerm(st.Val); !isLen && !isIntVal(st.Val) {
				continue
			}
			def, _ := st.Val.(ssa.Instruction)
			for _, ld := range loads {
				if !InstrDominates(st, ld) {
					continue
				}
				clean := true
				for _, wi := range writers[fkey[k]] {
					if wi == ssa.Instruction(st) {
						continue
					}
					if in2, _ := Reach(After(st), IsInstr(wi), nil); in2 == nil {
						continue
					}
					if in2, _ := Reach(After(wi), IsInstr(ld), nil); in2 != nil {
						clean = false
						break
					}
				}
				if clean && def != nil {
					if in2, _ := Reach(After(st), IsInstr(def), nil); in2 != nil {
						if in3, _ := Reach(After(def), IsInstr(ld), nil); in3 != nil {
							clean = false
						}
					}
				}
				if clean {
					b.stable = append(b.stable, []ssa.Value{st.Val, ld})
				}
			}
		}
	}
	return b.stable
}

// Debug prints the zone of a block.
func (b *Bounds) Debug(blk *ssa.BasicBlock) {
	z := b.zoneAt(blk)
	fmt.Println("infeasible:", z.infeasible())
	for i, t := range z.terms {
		lo, hi := z.bounds(t)
		fmt.Printf("%d %s [%s,%s]\n", i, t, fmtB(lo), fmtB(hi))
	}
	for i := range z.terms {
		for j := range z.terms {
			if i != j && z.d[i][j] < inf && i != 0 && j != 0 {
				fmt.Printf("  %s - %s <= %d\n", z.terms[i], z.terms[j], z.d[i][j])
			}
		}
	}
}

func isRuneSlice(t types.Type) bool {
	sl, ok := t.Underlying().(*types.Slice)
	if !ok {
		return false
	}
	b, ok := sl.Elem().Underlying().(*types.Basic)
	return ok && (b.Kind() == types.Int32 || b.Kind() == types.Rune)
}
