package rules

import (
	"fmt"
	"go/token"
	"go/types"
	"strings"

	"golang.org/x/tools/go/ssa"

	"vischeck/internal/core"
)

func init() {
	register("C01", PropCheck{
		Title:      "Every rendered page fits the configured output size",
		Explain:    "The bound itself (not the arithmetic that tries to make content fit) is decided for all inputs: (R1) the page string returned by the page assembler, Page.Render and Vm.Render is, on every non-error return, the very value that passed Sizer.Check on its ok edge (or the result of such a function), unless no sizer is configured - nothing is concatenated after the audit; (R2) everything DefaultEngine.Flush writes to the client's writer is such an audited page; (R3) the limit is wired: Sizer.outputSize is only set by NewSizer from its argument, the engine passes NewSizer(cfg.OutputSize) to NewVm exactly when OutputSize > 0, Vm.sizer is only set by NewVm, Vm.Reset re-attaches it to the page whenever it is non-nil, Page.sizer is only set by WithSizer; (R4) Sizer.Check returns false exactly on the edge len(s) > outputSize under outputSize > 0, comparing the byte length of its argument with the configured field itself; (R5) sink rows reach their page unmodified: the string the row grouping appends is the element of the row list itself, never a slice or other derivative - content that does not fit is an error, not a silent cut (shared with C02 R3; added after seeded change C01-F). R3 also requires that no library code stores to Config.OutputSize (a minimum or rounding applied by the engine changes the limit the audit uses; added after seeded change C01-K). (R6) in the function of package engine that builds the Sizer, every path to a return or to vm.NewVm passes render.NewSizer or the edge on which Config.OutputSize was tested zero: no other configuration value decides that a size-limited engine renders unaudited (added after seeded change C01-Q, a helper that skipped the Sizer for CacheSize <= OutputSize).",
		NotDecided: "that content which could fit is not refused needlessly; 'instead of silently truncating' beyond the existence of the error edge; pages of 4 GiB and more (uint32 length).",
		Assume:     []string{"page strings are shorter than 2^32 bytes"},
		Run:        runC01,
	})
}

// audited decides membership of AUD (see DESIGN.md C01 R1) for fn, recording why not.
type audCtx struct {
	w    *core.World
	memo map[*ssa.Function]int // 0 unknown, 1 in progress, 2 yes, 3 no
	why  map[*ssa.Function]string
}

func (a *audCtx) audited(fn *ssa.Function) bool {
	switch a.memo[fn] {
	case 2:
		return true
	case 3:
		return false
	case 1:
		return true // recursion: assume (co-inductive), the other returns decide
	}
	a.memo[fn] = 1
	res := fn.Signature.Results()
	if res.Len() != 2 || len(fn.Blocks) == 0 {
		a.memo[fn] = 3
		a.why[fn] = "not a (string, error) function with a body"
		return false
	}
	if bt, ok := res.At(0).Type().Underlying().(*types.Basic); !ok || bt.Info()&types.IsString == 0 {
		a.memo[fn] = 3
		a.why[fn] = "first result is not a string"
		return false
	}
	ok := true
	for _, b := range fn.Blocks {
		ret, isRet := b.Instrs[len(b.Instrs)-1].(*ssa.Return)
		if !isRet {
			continue
		}
		if good, why := a.auditedValue(fn, ret, ret.Results[0], 0); !good {
			ok = false
			a.why[fn] = fmt.Sprintf("return at %s: %s", a.w.Pos(ret.Pos()), why)
		}
	}
	if ok {
		a.memo[fn] = 2
	} else {
		a.memo[fn] = 3
	}
	return ok
}

func (a *audCtx) auditedValue(fn *ssa.Function, ret *ssa.Return, v ssa.Value, depth int) (bool, string) {
	if s, ok := core.ConstString(v); ok && s == "" {
		return true, ""
	}
	if depth > 6 {
		return false, "value chain too deep"
	}
	// (b) the value itself passed Sizer.Check on the ok edge (or there is no sizer)
	for _, c := range core.CallsTo(fn, "render.(*Sizer).Check") {
		args := core.CallArgs(c)
		if len(args) != 2 || args[1] != v {
			continue
		}
		call, isCall := c.(*ssa.Call)
		if !isCall {
			continue
		}
		cut := core.NewCut()
		if okv := core.ResultOf(call, 1); okv != nil {
			cut.AddEdge(core.EdgesWhere(okv, true)...)
		}
		// sizer == nil edges
		for _, s := range core.Sources(args[0]) {
			if _, f, isF := core.LoadedField(s); isF && f == "sizer" {
				for _, b := range fn.Blocks {
					for _, in := range b.Instrs {
						if bo, isBo := in.(*ssa.BinOp); isBo && (bo.Op == token.EQL || bo.Op == token.NEQ) && core.IsNilConst(bo.Y) {
							if _, f2, ok := core.LoadedField(bo.X); ok && f2 == f {
								cut.AddEdge(core.EdgesWhere(bo, bo.Op == token.EQL)...)
							}
						}
					}
				}
			}
		}
		if okp, path := core.MustPass(ret, cut); okp {
			return true, ""
		} else {
			return false, "the audited value can be returned without passing the audit's ok edge: " + a.w.PathString(path)
		}
	}
	switch t := v.(type) {
	case *ssa.Phi:
		for _, e := range t.Edges {
			if ok, why := a.auditedValue(fn, ret, e, depth+1); !ok {
				return false, why
			}
		}
		return true, ""
	case *ssa.Extract:
		if c, ok := t.Tuple.(*ssa.Call); ok && t.Index == 0 {
			if f := core.StaticCallee(c); f != nil && a.w.InLib(f) {
				if a.audited(f) {
					return true, ""
				}
				return false, "result of " + core.QName(f) + " which is not size-audited (" + a.why[f] + ")"
			}
			return false, "result of " + core.CallName(c) + " (not an audited function)"
		}
	case *ssa.UnOp:
		// defer-spilled result variable: every store must be audited
		if al, ok := t.X.(*ssa.Alloc); ok && t.Op == token.MUL {
			if refs := al.Referrers(); refs != nil {
				n := 0
				for _, r := range *refs {
					if st, ok := r.(*ssa.Store); ok && st.Addr == al {
						n++
						if ok, why := a.auditedValue(fn, ret, st.Val, depth+1); !ok {
							return false, why
						}
					}
				}
				if n > 0 {
					return true, ""
				}
			}
		}
	case *ssa.BinOp:
		return false, "string built by concatenation after the size audit (" + t.String() + ")"
	case *ssa.Call:
		return false, "result of " + core.CallName(t) + " (not the audited value)"
	}
	return false, "value " + v.String() + " did not pass Sizer.Check"
}

func runC01(w *core.World, r *core.Report) {
	r.Rule("R1", "page strings returned by the assembler, Page.Render and Vm.Render are the value that passed Sizer.Check (ok edge) or come from such a function")
	r.Rule("R2", "DefaultEngine.Flush writes only audited pages to the client")
	r.Rule("R3", "limit wiring: NewSizer(cfg.OutputSize) -> NewVm -> Vm.sizer -> Page.WithSizer on every reset; single writers")
	r.Rule("R6", "a Sizer is built whenever Config.OutputSize is set: no other configuration value decides that a size-limited engine renders unaudited")
	r.Rule("R5", "sink rows are appended to their page unmodified: content that does not fit is an error, never silently cut")
	r.Rule("R4", "Sizer.Check: false exactly on len(s) > outputSize (byte length, the field itself) under outputSize > 0")

	ac := &audCtx{w: w, memo: map[*ssa.Function]int{}, why: map[*ssa.Function]string{}}
	// ---- R1 -----------------------------------------------------------------------------------
	n1 := 0
	for _, an := range [][2]string{{"render", "(*Page).Render"}, {"vm", "(*Vm).Render"}} {
		fn := anchor(w, r, an[0], an[1])
		if fn == nil {
			continue
		}
		n1++
		r.Check(ac.audited(fn), "R1", core.QName(fn)+": returns audited pages", fn.Pos(), "every non-error return is audited", "an unaudited string can be handed out as the page: "+ac.why[fn])
	}
	// the assembler(s): functions of render that call Sizer.Check and return (string, error)
	for _, fn := range w.FuncsIn("render") {
		if len(core.CallsTo(fn, "render.(*Sizer).Check")) == 0 || fn.Signature.Results().Len() != 2 {
			continue
		}
		if bt, ok := fn.Signature.Results().At(0).Type().Underlying().(*types.Basic); !ok || bt.Info()&types.IsString == 0 {
			continue
		}
		n1++
		r.Touch(core.QName(fn))
		r.Check(ac.audited(fn), "R1", core.QName(fn)+": returns audited pages", fn.Pos(), "every non-error return is audited", "the page assembler can return a string that did not pass the size audit: "+ac.why[fn])
	}
	r.Floor("R1", "audited functions", n1, 3)

	// ---- R2 -----------------------------------------------------------------------------------
	if fl := anchor(w, r, "engine", "(*DefaultEngine).Flush"); fl != nil {
		var wparam ssa.Value
		for _, p := range fl.Params {
			if core.TypeName(p.Type()) == "io.Writer" {
				wparam = p
			}
		}
		nw := 0
		for _, c := range core.Calls(fl) {
			args := core.CallArgs(c)
			var data ssa.Value
			isWrite := false
			switch {
			case core.IsCallTo(c, "io.WriteString") && len(args) == 2 && args[0] == wparam:
				data, isWrite = args[1], true
			case core.IsCallTo(c, "io.Writer.Write") && len(args) == 2 && args[0] == wparam:
				data, isWrite = args[1], true
			case strings.HasPrefix(core.CallName(c), "fmt.Fprint") && len(args) >= 1 && args[0] == wparam:
				data, isWrite = args[len(args)-1], true
			}
			if !isWrite {
				continue
			}
			nw++
			ok, why := false, ""
			srcs := core.Sources(data)
			for _, s := range srcs {
				if cc, i, isX := core.ExtractOf(s); isX && i == 0 {
					if f := core.StaticCallee(cc); f != nil && ac.audited(f) {
						ok = true
						continue
					}
				}
				ok = false
				why = describeSource(s)
				break
			}
			key := "engine.(*DefaultEngine).Flush: client write of " + describeSource(srcs[0])
			r.Check(ok, "R2", key, c.Pos(), "audited page", "Flush writes "+why+" to the client without any size audit (in addition to / instead of the audited page)")
		}
		r.Floor("R2", "client writes in Flush", nw, 1)
	}

	// ---- R3 -----------------------------------------------------------------------------------
	singleWriter := func(typ, field string, allowed map[string]bool, valueOK func(fn *ssa.Function, st *ssa.Store) bool) {
		n := 0
		for _, fn := range w.LibFuncs {
			for _, b := range fn.Blocks {
				for _, in := range b.Instrs {
					st, ok := in.(*ssa.Store)
					if !ok {
						continue
					}
					tn, f, ok := core.FieldOfAddr(st.Addr)
					if !ok || tn != typ || f != field {
						continue
					}
					n++
					good := allowed[core.QName(fn)] && valueOK(fn, st)
					r.Check(good, "R3", fmt.Sprintf("%s: store %s.%s", core.QName(fn), typ, field), st.Pos(), "designated writer, value from its parameter",
						"the size limit wiring is changed here: only "+fmt.Sprint(keysOf(allowed))+" may set this field, from its parameter")
				}
			}
		}
		r.Floor("R3", "writers of "+typ+"."+field, n, 1)
	}
	fromParam := func(fn *ssa.Function, st *ssa.Store) bool {
		for _, s := range core.Sources(st.Val) {
			if paramIndex(s) < 0 {
				return false
			}
		}
		return true
	}
	singleWriter("render.Sizer", "outputSize", map[string]bool{"render.NewSizer": true}, fromParam)
	// the configured limit itself is never rewritten by the library
	{
		bad := ""
		var badPos token.Pos
		for _, fn := range w.LibFuncs {
			for _, in := range allInstrs(fn) {
				if st, ok := in.(*ssa.Store); ok {
					if tn, f, ok := core.FieldOfAddr(st.Addr); ok && strings.HasSuffix(tn, "engine.Config") && f == "OutputSize" {
						bad = fmt.Sprintf("%s stores Config.OutputSize at %s", core.QName(fn), w.Pos(st.Pos()))
						badPos = st.Pos()
					}
				}
			}
		}
		r.Check(bad == "", "R3", "engine.Config.OutputSize is never rewritten by the library", badPos, "no store to the field",
			"the library changes the configured output size (a minimum, a rounding): the audit then runs against another limit than the one the application configured: "+bad)
	}
	singleWriter("vm.Vm", "sizer", map[string]bool{"vm.NewVm": true}, fromParam)
	singleWriter("render.Page", "sizer", map[string]bool{"render.(*Page).WithSizer": true}, fromParam)
	// engine passes NewSizer(cfg.OutputSize) to NewVm when OutputSize > 0
	nvm := 0
	for _, fn := range w.FuncsIn("engine") {
		for _, c := range core.CallsTo(fn, "vm.NewVm") {
			args := core.CallArgs(c)
			if len(args) != 4 {
				continue
			}
			// the pre-VM hook deliberately renders nothing: it passes a nil sizer and never renders
			if core.IsNilConst(args[3]) {
				renders := len(core.CallsTo(fn, "vm.(*Vm).Render")) > 0
				r.Check(!renders, "R3", core.QName(fn)+": NewVm without sizer", c.Pos(), "this VM never renders", "a VM without size limit is used for rendering")
				continue
			}
			nvm++
			okSz, okGuard := sizerFromConfig(fn, args[3], 0)
			r.Check(okSz && okGuard, "R3", core.QName(fn)+": NewVm(NewSizer(cfg.OutputSize))", c.Pos(), "sizer built from cfg.OutputSize when > 0", "the VM's sizer is not built from Config.OutputSize on the OutputSize > 0 path")
		}
	}
	r.Floor("R3", "engine VM constructions with a sizer", nvm, 1)
	// Vm.Reset re-attaches
	if rs := anchor(w, r, "vm", "(*Vm).Reset"); rs != nil {
		ok := false
		for _, c := range core.CallsTo(rs, "render.(*Page).WithSizer") {
			args := core.CallArgs(c)
			if len(args) != 2 {
				continue
			}
			if _, f, isF := core.LoadedField(args[1]); !isF || f != "sizer" {
				continue
			}
			// every path to a return passes this call or the sizer == nil edge
			cut := core.NewCut().AddInstr(c.(ssa.Instruction))
			for _, b := range rs.Blocks {
				for _, in := range b.Instrs {
					if bo, isBo := in.(*ssa.BinOp); isBo && (bo.Op == token.EQL || bo.Op == token.NEQ) && core.IsNilConst(bo.Y) {
						if _, f2, ok := core.LoadedField(bo.X); ok && f2 == "sizer" {
							cut.AddEdge(core.EdgesWhere(bo, bo.Op == token.EQL)...)
						}
					}
				}
			}
			if in, _ := core.Reach(core.Entry(rs), core.IsReturn, cut); in == nil {
				ok = true
			}
		}
		r.Check(ok, "R3", "vm.(*Vm).Reset: re-attaches the sizer", rs.Pos(), "WithSizer(vm.sizer) on every path where it is non-nil", "after a reset the page can be left without the configured size limit")
	}

	// ---- R4 -----------------------------------------------------------------------------------
	if ck := anchor(w, r, "render", "(*Sizer).Check"); ck != nil {
		var cmp *ssa.BinOp
		exceedTrue := true
		for _, b := range ck.Blocks {
			for _, in := range b.Instrs {
				bo, ok := in.(*ssa.BinOp)
				if !ok {
					continue
				}
				isLen := func(v ssa.Value) bool {
					for _, a := range lenArgs(v, nil) {
						if paramIndex(a) == 1 {
							return true
						}
					}
					return false
				}
				isLimit := func(v ssa.Value) bool {
					_, f, ok := core.LoadedField(v)
					return ok && f == "outputSize"
				}
				switch {
				case bo.Op == token.GTR && isLen(bo.X) && isLimit(bo.Y), bo.Op == token.LSS && isLimit(bo.X) && isLen(bo.Y):
					cmp, exceedTrue = bo, true
				case bo.Op == token.LEQ && isLen(bo.X) && isLimit(bo.Y), bo.Op == token.GEQ && isLimit(bo.X) && isLen(bo.Y):
					cmp, exceedTrue = bo, false
				}
			}
		}
		if cmp == nil {
			r.Bad("R4", "render.(*Sizer).Check: audit comparison", ck.Pos(), "Check does not compare the byte length len(s) of its argument with the outputSize field itself (operands changed, loosened or measured differently)")
		} else {
			bad := ""
			for _, b := range ck.Blocks {
				ret, ok := b.Instrs[len(b.Instrs)-1].(*ssa.Return)
				if !ok {
					continue
				}
				okc, isC := ret.Results[1].(*ssa.Const)
				if !isC {
					bad = "non-constant verdict"
					continue
				}
				verdict := okc.Value.String() == "true"
				if !verdict {
					if okp, _ := core.MustPass(ret, core.NewCut().AddEdge(core.EdgesWhere(cmp, exceedTrue)...)); !okp {
						bad = "returns false without the exceeding comparison"
					}
				} else {
					// a true verdict must not lie behind the exceeding edge
					if okp, _ := core.MustPass(ret, core.NewCut().AddEdge(core.EdgesWhere(cmp, exceedTrue)...)); okp {
						bad = "returns true on the exceeding edge"
					}
					// and must pass either the fits edge or the outputSize==0 (no limit) edge
					cut := core.NewCut().AddEdge(core.EdgesWhere(cmp, !exceedTrue)...)
					for _, bb := range ck.Blocks {
						for _, in := range bb.Instrs {
							if bo, ok := in.(*ssa.BinOp); ok {
								x0, op0, k0, okc := core.CmpConst(bo)
								if !okc {
									continue
								}
								if _, f, ok := core.LoadedField(x0); ok && f == "outputSize" {
									if k0 == 0 {
										switch op0 {
										case token.GTR, token.NEQ:
											cut.AddEdge(core.EdgesWhere(bo, false)...)
										case token.EQL:
											cut.AddEdge(core.EdgesWhere(bo, true)...)
										}
									}
								}
							}
						}
					}
					if in, _ := core.Reach(core.Entry(ck), core.IsInstr(ret), cut); in != nil {
						bad = "returns true without passing the comparison"
					}
				}
			}
			r.Check(bad == "", "R4", "render.(*Sizer).Check: audit comparison", cmp.Pos(), "false exactly on len(s) > outputSize", bad)
		}
	}
	// ---- R5 -----------------------------------------------------------------------------------
	checkRowsUnmodified(w, r, "R5")
	checkSizerWheneverOutputSizeSet(w, r, "R6")
}

func keysOf(m map[string]bool) []string {
	var out []string
	for k := range m {
		out = append(out, k)
	}
	return out
}

func describeSource(s ssa.Value) string {
	if t, f, ok := core.LoadedField(s); ok {
		return "field " + t + "." + f
	}
	if c, _, ok := core.ExtractOf(s); ok {
		return "result of " + core.CallName(c)
	}
	return s.String()
}

// sizerFromConfig: v (the sizer handed to NewVm) is render.NewSizer(cfg.OutputSize) or nil - built
// in scope or in a helper of the engine that returns it - and the function that builds it
// compares Config.OutputSize with 0 (the nil alternative belongs to OutputSize == 0).
func sizerFromConfig(scope *ssa.Function, v ssa.Value, depth int) (okSz, okGuard bool) {
	okSz = false
	bad := false
	for _, s := range core.Sources(v) {
		sc, isCall := s.(*ssa.Call)
		switch {
		case isCall && core.IsCallTo(sc, "render.NewSizer"):
			if _, f, ok := core.LoadedField(sc.Call.Args[0]); ok && f == "OutputSize" {
				okSz = true
			} else {
				bad = true
			}
		case core.IsNilConst(s):
		case isCall && depth < 2 && core.StaticCallee(sc) != nil && core.PkgOf(core.StaticCallee(sc)) == "engine" && len(core.StaticCallee(sc).Blocks) > 0:
			g := core.StaticCallee(sc)
			for _, in := range allInstrs(g) {
				if ret, ok := in.(*ssa.Return); ok && len(ret.Results) == 1 {
					sz, gd := sizerFromConfig(g, ret.Results[0], depth+1)
					if sz {
						okSz = true
					}
					if gd {
						okGuard = true
					}
				}
			}
		default:
			bad = true
		}
	}
	if bad {
		okSz = false
	}
	for _, in := range allInstrs(scope) {
		if bo, ok := in.(*ssa.BinOp); ok {
			if x, op, k, ok := core.CmpConst(bo); ok && k == 0 && (op == token.GTR || op == token.NEQ || op == token.EQL || op == token.LEQ) {
				if _, f, ok := core.LoadedField(x); ok && f == "OutputSize" {
					okGuard = true
				}
			}
		}
	}
	return okSz, okGuard
}
