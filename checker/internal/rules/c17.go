package rules

import (
	"fmt"
	"go/token"
	"regexp/syntax"
	"strings"

	"golang.org/x/tools/go/ssa"

	"vischeck/internal/core"
)

func init() {
	register("C17", PropCheck{
		Title:      "Rejected input has no effect on the session",
		Explain:    "Decided on every path of DefaultEngine.Exec: (R1) acceptance dominates every effect - each call other than building the context, logging, formatting and the validators themselves, and each store to an object field, is only reachable after BOTH refusal points were passed on their success side: the format test (vm.ValidInput(input) without error, or the empty-input edge) and the length test (a comparison of the byte length len(input) with the input limit, or State.SetInput(input) without error) - applied in Exec itself or in a value-building helper called with the parameter that enforces the test on every one of its own success returns; in particular the pre-VM hook, the persister and the VM are not reached with refused bytes, and the refused bytes flow nowhere but into the validators and log calls; (R2) the validators are applied to the Exec parameter itself; (R4) in Flush the render and every client write are behind the execd==true edge and the refusal returns ErrFlushNoExec; (R5) Finish saves only behind the initd==true edge, and initd is only set by the initialisation that Exec runs after acceptance - so a refused request cannot cause a save; (R6) the refusal set itself: the constant pattern of the regular expression vm.ValidInput applies first is parsed with regexp/syntax (nothing is executed) and must be anchored at the beginning and at the end of the text with a wildcard that excludes line breaks (added after seeded change C17-E, which dropped the anchored tail); (R7) the validator is a function of its argument alone: neither vm.ValidInput nor the functions of package vm it calls store to package-level variables or maps (added after seeded change C17-G, a memo of the last accepted input that aliased the caller's buffer). (R8) every return of engine.Loop passes Engine.Finish or the registration of its deferred call (added after seeded change C17-J). (R9) where Loop reads with bufio's ReadLine the continuation flag is used; (R10) the argument of every pattern match in ValidInput (and the vm functions it calls) is the parameter itself, not a trimmed or normalised copy (added after seeded changes C17-K and C17-L).",
		NotDecided: "equality of the two transcripts (history with and without the refused input) as such; non-idempotent re-initialisation after failures that are not input refusals (a failing `first` function).",
		Run:        runC17,
	})
}

func runC17(w *core.World, r *core.Report) {
	r.Rule("R1", "Exec: every effect (call outside the pure set, field store) only after format AND length acceptance")
	r.Rule("R2", "the validators are applied to the Exec parameter")
	r.Rule("R4", "Flush: render and client writes only behind execd==true; refusal is ErrFlushNoExec")
	r.Rule("R5", "Finish saves only behind initd==true; initd set only by the post-acceptance initialisation")
	r.Rule("R10", "vm.ValidInput matches the bytes it was given, not a modified copy")
	r.Rule("R9", "where Loop reads with bufio's ReadLine, the continuation flag is used")
	r.Rule("R8", "engine.Loop finishes (saves) the engine on every exit, also after a refused input")
	r.Rule("R7", "vm.ValidInput is a function of its argument alone: no store to package-level state in it or the vm functions it calls")
	r.Rule("R6", "the built-in input pattern is anchored at both ends and its wildcard excludes line breaks (regexp/syntax on the constant)")

	ex := anchor(w, r, "engine", "(*DefaultEngine).Exec")
	if ex == nil {
		return
	}
	var input *ssa.Parameter
	for _, p := range ex.Params {
		if core.ByteLike(p.Type()) && p.Type().String() == "[]byte" {
			input = p
		}
	}
	if input == nil {
		r.Undecided("R1", "engine.(*DefaultEngine).Exec: input parameter", ex.Pos(), "no []byte parameter")
		return
	}
	limit, okL := constOf(w, r, "state", "INPUT_LIMIT")
	if !okL {
		return
	}
	accFmt, accLen, nfmt, _ := acceptanceEdges(w, r, ex, input, limit, 0)
	if nfmt == 0 {
		r.Bad("R1", "engine.(*DefaultEngine).Exec: format refusal point", ex.Pos(), "Exec does not apply vm.ValidInput to its input")
	}
	if len(accLen) == 0 {
		r.Bad("R1", "engine.(*DefaultEngine).Exec: length refusal point", ex.Pos(), "Exec has no length test on its input (neither len(input) against the limit nor SetInput)")
	}
	cutF := core.NewCut().AddEdge(accFmt...)
	cutL := core.NewCut().AddEdge(accLen...)
	pure := func(c ssa.CallInstruction) bool {
		n := core.CallName(c)
		switch {
		case n == "context.WithValue", strings.HasPrefix(n, "logging."), strings.HasPrefix(n, "fmt."), n == "errors.New", strings.HasPrefix(n, "builtin."), n == "vm.ValidInput",
			strings.HasPrefix(n, "unicode/utf8."), strings.HasPrefix(n, "bytes."), strings.HasPrefix(n, "strings."), strings.HasPrefix(n, "strconv."):
			return true // pure functions of the standard library
		}
		if g := core.StaticCallee(c); g != nil && pureHelper(g, 0, map[*ssa.Function]bool{}) {
			return true // module helper that only builds values (e.g. derives a context)
		}
		return false
	}
	neff := 0
	for _, b := range ex.Blocks {
		for _, in := range b.Instrs {
			what := ""
			switch t := in.(type) {
			case ssa.CallInstruction:
				if pure(t) {
					continue
				}
				what = "call of " + core.CallName(t)
			case *ssa.Store:
				if _, f, ok := core.FieldOfAddr(t.Addr); ok {
					what = "store to field " + f
				} else if g := core.GlobalOf(t.Addr); g != nil {
					what = "store to global " + g.Name()
				} else {
					continue
				}
			default:
				continue
			}
			neff++
			inF, pathF := core.Reach(core.Entry(ex), core.IsInstr(in), cutF)
			inL, pathL := core.Reach(core.Entry(ex), core.IsInstr(in), cutL)
			bad := ""
			if inF != nil {
				bad = "reachable without the format test having succeeded: " + w.PathString(pathF)
			} else if inL != nil {
				bad = "reachable without a byte-length test of the input having succeeded: " + w.PathString(pathL)
			}
			r.Check(bad == "", "R1", fmt.Sprintf("engine.(*DefaultEngine).Exec: %s after acceptance", what), in.Pos(), "behind both acceptance edges",
				"something with effects happens before the input is accepted - a refused input is not without effect (application hook, persister, engine state or VM see it): "+bad)
		}
	}
	r.Floor("R1", "effectful sites in Exec", neff, 3)

	// ---- R4 -----------------------------------------------------------------------------------
	roles := resolveEngineRoles(w)
	if fl := anchor(w, r, "engine", "(*DefaultEngine).Flush"); fl != nil {
		var execdTrue []core.Edge
		for _, b := range fl.Blocks {
			for _, in := range b.Instrs {
				if v, ok := in.(ssa.Value); ok {
					if _, f, ok := core.LoadedField(v); ok && f == "execd" {
						execdTrue = append(execdTrue, core.EdgesWhere(v, true)...)
					}
				}
			}
		}
		n := 0
		for _, c := range core.Calls(fl) {
			nm := core.CallName(c)
			if !(nm == "vm.(*Vm).Render" || nm == "io.WriteString" || nm == "io.Writer.Write" || strings.HasPrefix(nm, "fmt.Fprint") || (roles.ResetFn != nil && core.StaticCallee(c) == roles.ResetFn)) {
				continue
			}
			n++
			ok, path := core.MustPass(c.(ssa.Instruction), core.NewCut().AddEdge(execdTrue...))
			r.Check(ok && len(execdTrue) > 0, "R4", "engine.(*DefaultEngine).Flush: "+nm+" needs a prior Exec", c.Pos(), "behind execd==true",
				"output can be requested (render, write, reset) before anything was executed: "+w.PathString(path))
		}
		r.Floor("R4", "render/write sites in Flush", n, 2)
	}

	// ---- R5 -----------------------------------------------------------------------------------
	checkFinishSavesOnlyInitialised(w, r, "R5")
	ninit := 0
	for _, fn := range w.FuncsIn("engine") {
		for _, b := range fn.Blocks {
			for _, in := range b.Instrs {
				st, ok := in.(*ssa.Store)
				if !ok {
					continue
				}
				if _, f, ok := core.FieldOfAddr(st.Addr); !ok || f != "initd" {
					continue
				}
				if c, isC := st.Val.(*ssa.Const); !isC || c.Value.String() != "true" {
					continue
				}
				ninit++
				// the writer is reached from Exec only (statically), and Exec calls it after acceptance (R1)
				okCallers := true
				for _, cs := range libCallers(w, fn) {
					if cs.Parent() != ex {
						okCallers = false
					}
				}
				r.Check(okCallers && len(libCallers(w, fn)) > 0, "R5", core.QName(fn)+": initd=true only on the Exec path", st.Pos(), "set by the initialisation Exec runs after acceptance", "the engine is marked initialised outside the accepted-input path")
			}
		}
	}
	r.Floor("R5", "initd=true stores", ninit, 1)

	// ---- R6 -----------------------------------------------------------------------------------
	{
		// the pattern constant: the string handed to regexp.MustCompile for the value that
		// vm.ValidInput matches the input with
		var pat string
		found := false
		if vi := w.Func("vm", "ValidInput"); vi != nil {
			if sp := w.SSA["vm"]; sp != nil {
				if initFn := sp.Func("init"); initFn != nil {
					// the global matched first in ValidInput
					var g *ssa.Global
					// ValidInput itself, then the functions of package vm it calls
					searchFns := []*ssa.Function{vi}
					for _, c := range core.Calls(vi) {
						if h := core.StaticCallee(c); h != nil && core.PkgOf(h) == "vm" && len(h.Blocks) > 0 {
							searchFns = append(searchFns, h)
						}
					}
					var allCalls []ssa.CallInstruction
					for _, sf := range searchFns {
						allCalls = append(allCalls, core.Calls(sf)...)
					}
					for _, c := range allCalls {
						if cc, ok := c.(*ssa.Call); ok && strings.HasSuffix(core.CallName(cc), "(*Regexp).Match") && g == nil {
							for _, src := range core.Sources(core.CallArgs(cc)[0]) {
								if gg := core.GlobalOf(src); gg != nil {
									g = gg
								}
							}
						}
					}
					for _, in := range allInstrs(initFn) {
						st, ok := in.(*ssa.Store)
						if !ok || g == nil || st.Addr != ssa.Value(g) {
							continue
						}
						if mc, ok := st.Val.(*ssa.Call); ok && core.IsCallTo(mc, "regexp.MustCompile") {
							if s, ok := core.ConstString(mc.Call.Args[0]); ok {
								pat, found = s, true
							} else if g2 := core.GlobalOf(mc.Call.Args[0]); g2 != nil {
								// a package-level string initialised with a constant and stored nowhere else
								nst := 0
								for _, fn2 := range append([]*ssa.Function{initFn}, w.FuncsIn("vm")...) {
									for _, in2 := range allInstrs(fn2) {
										if st2, ok := in2.(*ssa.Store); ok && st2.Addr == ssa.Value(g2) {
											nst++
											if s2, ok := core.ConstString(st2.Val); ok {
												pat = s2
											} else {
												nst += 10
											}
										}
									}
								}
								found = nst == 1
							}
						}
					}
				}
			}
		}
		if !found {
			r.Undecided("R6", "vm.ValidInput: built-in pattern", token.NoPos, "cannot find the constant pattern of the first regular expression ValidInput applies")
		} else {
			re, err := syntax.Parse(pat, syntax.Perl)
			bad := ""
			if err != nil {
				bad = "pattern does not parse: " + err.Error()
			} else {
				re = re.Simplify()
				subs := []*syntax.Regexp{re}
				if re.Op == syntax.OpConcat {
					subs = re.Sub
				}
				first, last := subs[0], subs[len(subs)-1]
				if first.Op != syntax.OpBeginText && first.Op != syntax.OpBeginLine {
					bad = "not anchored at the beginning"
				}
				if last.Op != syntax.OpEndText {
					bad = "not anchored at the end of the text: anything may follow the part that is checked (line breaks, control bytes)"
				}
				var walk func(x *syntax.Regexp)
				walk = func(x *syntax.Regexp) {
					if x.Op == syntax.OpAnyChar {
						bad = "the wildcard matches line breaks"
					}
					for _, s := range x.Sub {
						walk(s)
					}
				}
				walk(re)
			}
			r.Check(bad == "", "R6", "vm.ValidInput: built-in pattern", token.NoPos, fmt.Sprintf("%q is anchored at both ends, wildcard excludes line breaks", pat),
				fmt.Sprintf("the built-in input pattern %q accepts input that the documented format refuses (%s): such input reaches the VM and changes the session", pat, bad))
		}
	}
	// ---- R7 -----------------------------------------------------------------------------------
	checkValidInputPure(w, r, "R7")
	checkLoopAlwaysFinishes(w, r, "R8")
	checkReadLinePrefixUsed(w, r, "R9")
	checkValidatedBytesAreInput(w, r, "R10")
}

// pureHelper: a module function without stores to fields/globals, map updates, or calls other than
// context.WithValue, logging, formatting, pure standard-library functions and other pure helpers.
func pureHelper(g *ssa.Function, depth int, seen map[*ssa.Function]bool) bool {
	if g == nil || g.Pkg == nil || !strings.HasPrefix(g.Pkg.Pkg.Path(), core.ModPath) || len(g.Blocks) == 0 || depth > 2 {
		return false
	}
	if seen[g] {
		return true
	}
	seen[g] = true
	for _, b := range g.Blocks {
		for _, in := range b.Instrs {
			switch t := in.(type) {
			case *ssa.Store:
				if _, isAlloc := t.Addr.(*ssa.Alloc); !isAlloc {
					if ia, ok := t.Addr.(*ssa.IndexAddr); ok {
						if _, isA := ia.X.(*ssa.Alloc); isA {
							continue
						}
					}
					if fa, ok := t.Addr.(*ssa.FieldAddr); ok {
						if _, isA := fa.X.(*ssa.Alloc); isA {
							continue
						}
					}
					return false
				}
			case *ssa.MapUpdate, *ssa.Send, *ssa.Go, *ssa.Defer, *ssa.Panic:
				return false
			case *ssa.Call:
				n := core.CallName(t)
				switch {
				case n == "context.WithValue", strings.HasPrefix(n, "logging."), strings.HasPrefix(n, "fmt.Sprint"), n == "fmt.Errorf", n == "errors.New", n == "vm.ValidInput", strings.HasPrefix(n, "builtin."),
					strings.HasPrefix(n, "unicode/utf8."), strings.HasPrefix(n, "bytes."), strings.HasPrefix(n, "strings."), strings.HasPrefix(n, "strconv."):
				default:
					if h := core.StaticCallee(t); h == nil || !pureHelper(h, depth+1, seen) {
						return false
					}
				}
			}
		}
	}
	return true
}

// acceptanceEdges lists the CFG edges of fn on which the input value `input` is known to have
// passed the format test (vm.ValidInput without error, or the empty input) and the length test
// (len(input) against the limit, or State.SetInput without error). A call of a value-building
// helper of the module with `input` as argument counts on its error==nil edges for whichever of
// the two tests the helper itself enforces on every one of its success returns (depth 2).
func acceptanceEdges(w *core.World, r *core.Report, fn *ssa.Function, input ssa.Value, limit int64, depth int) (accFmt, accLen []core.Edge, nfmt, nlen int) {
	isInput := func(v ssa.Value) bool { return core.Strip(v) == input }
	isLenInput := func(v ssa.Value) bool {
		for _, s := range core.Sources(v) {
			if c, ok := s.(*ssa.Call); ok && core.IsCallTo(c, "builtin.len") && isInput(c.Call.Args[0]) {
				return true
			}
		}
		return false
	}
	for _, b := range fn.Blocks {
		for _, in := range b.Instrs {
			switch t := in.(type) {
			case *ssa.Call:
				if core.IsCallTo(t, "vm.ValidInput") {
					okArg := isInput(t.Call.Args[0])
					if depth == 0 {
						r.Check(okArg, "R2", core.QName(fn)+": ValidInput operand", t.Pos(), "the Exec parameter", "the format test is applied to something other than the request's input")
					}
					if okArg {
						nfmt++
						for _, ce := range core.NilTestEdges(callErr(t)) {
							if ce.Val {
								accFmt = append(accFmt, ce.E)
							}
						}
					}
					continue
				}
				if core.IsCallTo(t, "state.(*State).SetInput") && isInput(core.CallArgs(t)[1]) {
					for _, ce := range core.NilTestEdges(callErr(t)) {
						if ce.Val {
							accLen = append(accLen, ce.E)
						}
					}
					continue
				}
				// validating helper
				g := core.StaticCallee(t)
				if g == nil || depth >= 2 || len(g.Blocks) == 0 || callErr(t) == nil || !pureHelper(g, 0, map[*ssa.Function]bool{}) {
					continue
				}
				for i, a := range core.CallArgs(t) {
					if !isInput(a) || i >= len(g.Params) {
						continue
					}
					gf, gl, gnf, gnl := acceptanceEdges(w, r, g, g.Params[i], limit, depth+1)
					okEdges := func() []core.Edge {
						var out []core.Edge
						for _, ce := range core.NilTestEdges(callErr(t)) {
							if ce.Val {
								out = append(out, ce.E)
							}
						}
						return out
					}
					enforces := func(edges []core.Edge) bool {
						if len(edges) == 0 {
							return false
						}
						cut := core.NewCut().AddEdge(edges...)
						hit, _ := core.Reach(core.Entry(g), isSuccessReturnPred(g), cut)
						return hit == nil
					}
					if enforces(gf) {
						nfmt += gnf
						accFmt = append(accFmt, okEdges()...)
					}
					if enforces(gl) {
						nlen += gnl
						accLen = append(accLen, okEdges()...)
					}
				}
			case *ssa.BinOp:
				x, op, c, isC := core.CmpConst(t)
				if !isC || !isLenInput(x) {
					continue
				}
				switch {
				case c == 0 && (op == token.GTR || op == token.NEQ):
					accFmt = append(accFmt, core.EdgesWhere(t, false)...) // empty input needs no format test
				case c == 0 && op == token.EQL:
					accFmt = append(accFmt, core.EdgesWhere(t, true)...)
				case c == limit && op == token.GTR, c == limit+1 && op == token.GEQ:
					nlen++
					accLen = append(accLen, core.EdgesWhere(t, false)...)
				case c == limit && op == token.LEQ, c == limit+1 && op == token.LSS:
					nlen++
					accLen = append(accLen, core.EdgesWhere(t, true)...)
				}
			}
		}
	}
	return
}

// checkFinishSavesOnlyInitialised: every Persister.Save that Finish performs (itself or through a
// helper of the engine) lies behind the initd==true edge: an engine that accepted nothing - a
// refused input, or a request the pre-VM hook stopped - stores nothing.
func checkFinishSavesOnlyInitialised(w *core.World, r *core.Report, rule string) {
	fi := anchor(w, r, "engine", "(*DefaultEngine).Finish")
	if fi == nil {
		return
	}
	var initdTrue []core.Edge
	for _, in := range allInstrs(fi) {
		if v, ok := in.(ssa.Value); ok {
			if _, f, ok := core.LoadedField(v); ok && f == "initd" {
				initdTrue = append(initdTrue, core.EdgesWhere(v, true)...)
			}
		}
	}
	var sites []ssa.CallInstruction
	sites = append(sites, core.CallsTo(fi, "persist.(*Persister).Save")...)
	for _, c := range core.Calls(fi) {
		if g := core.StaticCallee(c); g != nil && core.PkgOf(g) == "engine" && g != fi && len(core.CallsTo(g, "persist.(*Persister).Save")) > 0 {
			sites = append(sites, c)
		}
	}
	for _, c := range sites {
		ok, path := core.MustPass(c.(ssa.Instruction), core.NewCut().AddEdge(initdTrue...))
		r.Check(ok && len(initdTrue) > 0, rule, "engine.(*DefaultEngine).Finish: Save only for an initialised engine", c.Pos(), "behind initd==true",
			"Finish can save although no input was ever accepted by this engine: after a refused request (or one the pre-VM hook stopped, whose deferred clean-up has already cleared TERMINATE) a blank or altered state overwrites the stored session: "+w.PathString(path))
	}
}
