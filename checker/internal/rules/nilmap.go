package rules

import (
	"fmt"
	"go/token"
	"go/types"

	"golang.org/x/tools/go/ssa"

	"vischeck/internal/core"
)

// checkMapWrites (C08 R8): an assignment to an entry of a nil map panics. Every map that is
// written in a function reachable from the entry points is one of
//
//	fresh     made (make / literal) in the same function, or the result of a library function whose
//	          every return is such a map or one of its own parameters that the caller binds to a
//	          non-nil map
//	frame     an element of the cache's frame list (every value stored into the list is a made map)
//	field     a struct field that is never nil: every allocation of the struct in the library is
//	          followed, before the allocating function returns, by a store of a made map to the field,
//	          and every other store to the field in the library stores a made map
//	connect   memDb.store: nil until Connect, which the Db interface requires before use (assumed)
func checkMapWrites(w *core.World, r *core.Report, rule string, reach map[*ssa.Function]bool) {
	var isMadeD func(v ssa.Value, d int) bool
	isMadeD = func(v ssa.Value, d int) bool {
		switch t := core.Strip(v).(type) {
		case *ssa.MakeMap:
			return true
		case *ssa.Call:
			// a helper of the library whose every return is a freshly made map
			g := core.StaticCallee(t)
			if g == nil || d > 2 || len(g.Blocks) == 0 || !w.InLib(g) || g.Signature.Results().Len() != 1 {
				return false
			}
			n := 0
			for _, in := range allInstrs(g) {
				if ret, ok := in.(*ssa.Return); ok {
					n++
					for _, src := range core.Sources(ret.Results[0]) {
						if !isMadeD(src, d+1) {
							return false
						}
					}
				}
			}
			return n > 0
		}
		return false
	}
	isMade := func(v ssa.Value) bool { return isMadeD(v, 0) }
	// field invariants, computed on demand
	fieldOK := map[string]string{} // key -> "" (ok) or reason
	checkField := func(tn, f string) string {
		k := fkey(tn, f)
		if v, ok := fieldOK[k]; ok {
			return v
		}
		bad := ""
		nAlloc, nStore := 0, 0
		for _, fn := range w.LibFuncs {
			for _, in := range allInstrs(fn) {
				switch t := in.(type) {
				case *ssa.Store:
					if t2, f2, ok := core.FieldOfAddr(t.Addr); ok && t2 == tn && f2 == f {
						nStore++
						made := false
						for _, src := range core.Sources(t.Val) {
							if isMade(src) {
								made = true
							} else {
								made = false
								break
							}
						}
						if !made {
							bad = fmt.Sprintf("%s stores a value that is not a freshly made map at %s", core.QName(fn), w.Pos(t.Pos()))
						}
					}
				case *ssa.Alloc:
					pt, ok := t.Type().(*types.Pointer)
					if !ok || core.TypeName(pt.Elem()) != tn {
						continue
					}
					nAlloc++
					// a store of a made map to this allocation's field on every path to a return
					cut := core.NewCut()
					for _, in2 := range allInstrs(fn) {
						if st, ok := in2.(*ssa.Store); ok {
							if fa, ok := st.Addr.(*ssa.FieldAddr); ok && fa.X == ssa.Value(t) {
								if t2, f2, ok := core.FieldOfAddr(st.Addr); ok && t2 == tn && f2 == f && isMade(st.Val) {
									cut.AddInstr(st)
								}
							}
						}
					}
					if hit, _ := core.Reach(core.After(t), core.IsReturn, cut); hit != nil {
						bad = fmt.Sprintf("%s allocates a %s and can return without making the map", core.QName(fn), tn)
					}
				}
			}
		}
		if bad == "" && nStore == 0 {
			bad = "no store of a made map found"
		}
		fieldOK[k] = bad
		return bad
	}
	// frames: every value stored into Cache.Cache is a literal of made maps or an append of a made map
	framesOK := ""
	for _, fn := range w.LibFuncs {
		for _, in := range allInstrs(fn) {
			st, ok := in.(*ssa.Store)
			if !ok {
				continue
			}
			if tn, f, ok := core.FieldOfAddr(st.Addr); !ok || tn != "cache.Cache" || f != "Cache" {
				continue
			}
			switch v := core.Strip(st.Val).(type) {
			case *ssa.Call:
				if core.IsCallTo(v, "builtin.append") {
					// appended elements: a variadic slice of an array whose stores are made maps
					roots, _ := core.DeepSources(v.Call.Args[1], nil)
					for _, rt := range roots {
						if _, isAlloc := rt.(*ssa.Alloc); isAlloc {
							continue
						}
						if !isMade(rt) {
							framesOK = fmt.Sprintf("%s appends a frame that is not a freshly made map at %s", core.QName(fn), w.Pos(st.Pos()))
						}
					}
					continue
				}
			case *ssa.Slice:
				// a re-slice of the list itself, or a literal
				selfOrLit := false
				for _, src := range core.Sources(v.X) {
					if t2, f2, ok := core.LoadedField(src); ok && t2 == "cache.Cache" && f2 == "Cache" {
						selfOrLit = true
					}
					if _, ok := src.(*ssa.Alloc); ok {
						selfOrLit = true
						roots, _ := core.DeepSources(st.Val, nil)
						for _, rt := range roots {
							if _, isAlloc := rt.(*ssa.Alloc); isAlloc {
								continue
							}
							if !isMade(rt) {
								framesOK = fmt.Sprintf("%s builds the frame list from something that is not a freshly made map at %s", core.QName(fn), w.Pos(st.Pos()))
							}
						}
					}
				}
				if selfOrLit {
					continue
				}
			}
			framesOK = fmt.Sprintf("%s stores an unrecognised value to the frame list at %s", core.QName(fn), w.Pos(st.Pos()))
		}
	}
	var classify func(fn *ssa.Function, at ssa.Instruction, m ssa.Value, depth int) (string, bool)
	classify = func(fn *ssa.Function, at ssa.Instruction, m ssa.Value, depth int) (string, bool) {
		if depth > 3 {
			return "", false
		}
		srcs := core.Sources(m)
		if len(srcs) == 0 {
			return "", false
		}
		why := ""
		for _, src := range srcs {
			switch t := src.(type) {
			case *ssa.MakeMap:
				why = "fresh"
				continue
			case *ssa.Parameter:
				// every library caller passes a non-nil map
				pi := paramIndex(t)
				n := 0
				for _, caller := range w.LibFuncs {
					for _, c := range callsToSet(caller, map[*ssa.Function]bool{fn: true}) {
						n++
						args := core.CallArgs(c)
						if pi >= len(args) {
							return "", false
						}
						if _, ok := classify(caller, c.(ssa.Instruction), args[pi], depth+1); !ok {
							return "", false
						}
					}
				}
				if n == 0 {
					return "", false
				}
				why = "parameter bound to a non-nil map at every library call site"
				continue
			}
			if tn, f, ok := core.LoadedField(src); ok {
				if tn == "db/mem.memDb" && f == "store" {
					why = "connect: memDb.store is made by Connect, which the Db interface requires before use (assumed)"
					continue
				}
				// lazily made: every path to the write passes the non-nil edge of a test of the field or
				// a store of a made map to it
				if at != nil {
					cut := core.NewCut()
					for _, in := range allInstrs(fn) {
						switch x := in.(type) {
						case *ssa.Store:
							if t2, f2, ok := core.FieldOfAddr(x.Addr); ok && t2 == tn && f2 == f && isMade(x.Val) {
								cut.AddInstr(x)
							}
						case *ssa.BinOp:
							if (x.Op == token.EQL || x.Op == token.NEQ) && core.IsNilConst(x.Y) {
								if t2, f2, ok := core.LoadedField(x.X); ok && t2 == tn && f2 == f {
									cut.AddEdge(core.EdgesWhere(x, x.Op == token.NEQ)...)
								}
							}
						}
					}
					if len(cut.Instrs)+len(cut.Edges) > 0 {
						if ok, _ := core.MustPass(at, cut); ok {
							why = "field " + tn + "." + f + " is tested for nil and made before the write"
							continue
						}
					}
				}
				if bad := checkField(tn, f); bad != "" {
					return "field " + tn + "." + f + " can be nil: " + bad, false
				}
				why = "field " + tn + "." + f + " is made by every constructor and every writer"
				continue
			}
			// element of the frame list
			if u, ok := src.(*ssa.UnOp); ok && u.Op == token.MUL {
				if ia, ok := u.X.(*ssa.IndexAddr); ok {
					if tn, f, ok := core.LoadedField(ia.X); ok && tn == "cache.Cache" && f == "Cache" {
						if framesOK != "" {
							return framesOK, false
						}
						why = "frame of the cache (every frame is a made map)"
						continue
					}
				}
			}
			// result of a library function
			if c, idx, ok := core.ExtractOf(src); ok {
				if g := core.StaticCallee(c); g != nil && len(g.Blocks) > 0 && w.InLib(g) {
					all := true
					for _, in := range allInstrs(g) {
						if ret, ok := in.(*ssa.Return); ok && idx < len(ret.Results) {
							if core.IsNilConst(ret.Results[idx]) {
								continue // returned together with an error
							}
							if _, ok := classify(g, ret, ret.Results[idx], depth+1); !ok {
								all = false
							}
						}
					}
					if all {
						why = "result of " + core.QName(g) + ": every return is a non-nil map"
						continue
					}
				}
			}
			if c, ok := src.(*ssa.Call); ok {
				if g := core.StaticCallee(c); g != nil && len(g.Blocks) > 0 && w.InLib(g) {
					all := true
					for _, in := range allInstrs(g) {
						if ret, ok := in.(*ssa.Return); ok && len(ret.Results) > 0 {
							if core.IsNilConst(ret.Results[0]) {
								continue
							}
							if _, ok := classify(g, ret, ret.Results[0], depth+1); !ok {
								all = false
							}
						}
					}
					if all {
						why = "result of " + core.QName(g) + ": every return is a non-nil map"
						continue
					}
				}
			}
			return fmt.Sprintf("map of unknown origin (%T)", src), false
		}
		return why, true
	}
	n := 0
	for _, fn := range w.LibFuncs {
		if !reach[fn] {
			continue
		}
		k := 0
		for _, in := range allInstrs(fn) {
			mu, ok := in.(*ssa.MapUpdate)
			if !ok {
				continue
			}
			if _, isMap := mu.Map.Type().Underlying().(*types.Map); !isMap {
				continue
			}
			n++
			k++
			r.Touch(core.QName(fn))
			key := fmt.Sprintf("%s: map write #%d", core.QName(fn), k)
			why, ok := classify(fn, mu, mu.Map, 0)
			r.Check(ok, rule, key, mu.Pos(), why, "an entry is assigned in a map that can be nil on the request path (run-time panic): "+why)
		}
	}
	r.Floor(rule, "map writes on the request path", n, 6)
}
