package rules

// Clauses added in round 9.

import (
	"fmt"
	"go/ast"
	"go/constant"
	"go/token"
	"go/types"
	"sort"
	"strings"

	"golang.org/x/tools/go/packages"

	"vischeck/internal/core"
)

// checkPreprocessorFlagPositions (C16 R11): the flag-name preprocessor of dev/asm replaces a word
// of the source by a number. That is only what the author wrote when the word stands in the flag
// operand of an instruction that takes a flag (CATCH: second operand, CROAK: first operand - read
// from the result lists of vm.ParseCatch / vm.ParseCroak). A symbol, node name or label that
// happens to equal a flag name must reach the assembler as written. The rule works on the
// type-checked syntax of package dev/asm: every call of a lookup method of asm.FlagParser must lie
// behind a comparison of the line's mnemonic with one of those opcodes (switch case or if), directly
// or in a helper all of whose callers are, and the word looked up must be the operand in the flag
// position of that opcode.
func checkPreprocessorFlagPositions(w *core.World, r *core.Report, rule string) {
	p := w.Pkgs["dev/asm"]
	if p == nil || p.TypesInfo == nil || len(p.Errors) > 0 {
		r.Undecided(rule, "dev/asm", token.NoPos, "package dev/asm not loaded or not type-checked")
		return
	}
	flagPos := map[string]int{}
	for op, fn := range map[string]string{"CATCH": "ParseCatch", "CROAK": "ParseCroak"} {
		f := w.Func("vm", fn)
		if f == nil {
			r.Undecided(rule, "vm."+fn, token.NoPos, "anchor not found")
			return
		}
		res := f.Signature.Results()
		idx := -1
		for i := 0; i < res.Len(); i++ {
			if b, ok := res.At(i).Type().Underlying().(*types.Basic); ok && b.Info()&types.IsUnsigned != 0 {
				idx = i
				break
			}
		}
		if idx < 0 {
			r.Undecided(rule, "vm."+fn, f.Pos(), "no unsigned (flag) result in the decoder's signature")
			return
		}
		flagPos[op] = idx
	}
	pp := &ppAnalysis{p: p, w: w, decls: map[types.Object]*ast.FuncDecl{}, callers: map[types.Object][]ppSite{}}
	pp.index()
	n := 0
	for _, s := range pp.lookups {
		n++
		desc := fmt.Sprintf("dev/asm.%s: flag-name lookup #%d", s.fn.Name.Name, s.ord)
		r.Touch("dev/asm." + s.fn.Name.Name)
		ctxs := pp.contexts(s, 0)
		if len(ctxs) == 0 {
			r.Undecided(rule, desc, s.call.Pos(), "the lookup's callers could not be enumerated")
			continue
		}
		bad := ""
		und := ""
		for _, c := range ctxs {
			if !c.guarded {
				bad = "reached from " + w.Pos(c.at) + " with no comparison of the mnemonic with an opcode that takes a flag"
				break
			}
			for _, op := range c.ops {
				want, ok := flagPos[op]
				if !ok {
					bad = fmt.Sprintf("applied to operands of %s, which has no flag operand (at %s)", op, w.Pos(c.at))
					break
				}
				if c.operand < 0 {
					und = fmt.Sprintf("operand position of the looked-up word not resolved at %s", w.Pos(c.at))
					continue
				}
				if c.operand != want {
					bad = fmt.Sprintf("%s: operand %d is looked up, the flag is operand %d (at %s)", op, c.operand+1, want+1, w.Pos(c.at))
				}
			}
			if bad != "" {
				break
			}
		}
		switch {
		case bad != "":
			r.Bad(rule, desc, s.call.Pos(), "a word that is not in the flag position of CATCH/CROAK is replaced by a flag number when it equals a flag name: the instruction assembled carries another symbol than the one written: "+bad)
		case und != "":
			r.Undecided(rule, desc, s.call.Pos(), und)
		default:
			r.OK(rule, desc, s.call.Pos(), fmt.Sprintf("%d calling context(s), all behind CATCH/CROAK and on the flag operand", len(ctxs)))
		}
	}
	r.Floor(rule, "flag-name lookups in the preprocessor", n, 1)
}

type ppSite struct {
	fn    *ast.FuncDecl
	call  *ast.CallExpr
	stack []ast.Node
	ord   int
}

type ppCtx struct {
	guarded bool
	ops     []string
	operand int // index of the operand looked up, -1 unknown
	at      token.Pos
}

type ppAnalysis struct {
	p       *packages.Package
	w       *core.World
	decls   map[types.Object]*ast.FuncDecl
	callers map[types.Object][]ppSite
	lookups []ppSite
}

func (pp *ppAnalysis) index() {
	info := pp.p.TypesInfo
	for _, f := range pp.p.Syntax {
		for _, d := range f.Decls {
			fd, ok := d.(*ast.FuncDecl)
			if !ok || fd.Body == nil {
				continue
			}
			if o := info.Defs[fd.Name]; o != nil {
				pp.decls[o] = fd
			}
		}
	}
	for _, f := range pp.p.Syntax {
		for _, d := range f.Decls {
			fd, ok := d.(*ast.FuncDecl)
			if !ok || fd.Body == nil {
				continue
			}
			var stack []ast.Node
			ord := 0
			ast.Inspect(fd.Body, func(n ast.Node) bool {
				if n == nil {
					stack = stack[:len(stack)-1]
					return true
				}
				stack = append(stack, n)
				ce, ok := n.(*ast.CallExpr)
				if !ok {
					return true
				}
				var obj types.Object
				switch fun := ast.Unparen(ce.Fun).(type) {
				case *ast.Ident:
					obj = info.Uses[fun]
				case *ast.SelectorExpr:
					obj = info.Uses[fun.Sel]
				}
				fo, ok := obj.(*types.Func)
				if !ok {
					return true
				}
				st := append([]ast.Node(nil), stack...)
				if isFlagParserLookup(fo) {
					ord++
					pp.lookups = append(pp.lookups, ppSite{fn: fd, call: ce, stack: st, ord: ord})
				} else if _, own := pp.decls[fo]; own {
					pp.callers[fo] = append(pp.callers[fo], ppSite{fn: fd, call: ce, stack: st})
				}
				return true
			})
		}
	}
}

// isFlagParserLookup: a method of asm.FlagParser that takes a string and returns something (the
// name-to-number / name-to-description lookups), i.e. not the loader.
func isFlagParserLookup(fo *types.Func) bool {
	sig, ok := fo.Type().(*types.Signature)
	if !ok || sig.Recv() == nil {
		return false
	}
	t := sig.Recv().Type()
	if pt, ok := t.(*types.Pointer); ok {
		t = pt.Elem()
	}
	nt, ok := t.(*types.Named)
	if !ok || nt.Obj().Pkg() == nil || core.Rel(nt.Obj().Pkg().Path()) != "asm" || nt.Obj().Name() != "FlagParser" {
		return false
	}
	if sig.Params().Len() != 1 || sig.Results().Len() == 0 {
		return false
	}
	b, ok := sig.Params().At(0).Type().Underlying().(*types.Basic)
	if !ok || b.Kind() != types.String {
		return false
	}
	// a lookup yields a string or a number first; the loader yields a count and reads a file
	return fo.Name() != "Load"
}

// contexts enumerates the calling contexts of a site: the innermost opcode guard around it, or,
// if there is none, the contexts of every caller of the enclosing function (depth 3).
func (pp *ppAnalysis) contexts(s ppSite, depth int) []ppCtx {
	info := pp.p.TypesInfo
	var arg ast.Expr
	if len(s.call.Args) > 0 {
		arg = s.call.Args[0]
	}
	return pp.ctxOf(s, arg, depth, info)
}

func (pp *ppAnalysis) ctxOf(s ppSite, word ast.Expr, depth int, info *types.Info) []ppCtx {
	ops, guarded := opcodeGuard(s.stack, info)
	if guarded {
		sort.Strings(ops)
		return []ppCtx{{guarded: true, ops: ops, operand: pp.operandIndex(word, info), at: s.call.Pos()}}
	}
	fo := info.Defs[s.fn.Name]
	cs := pp.callers[fo]
	if len(cs) == 0 || depth >= 3 {
		return []ppCtx{{guarded: false, at: s.call.Pos()}}
	}
	// which parameter of the enclosing function is the word?
	pidx := -1
	if word != nil {
		if id, ok := stripDeref(word).(*ast.Ident); ok {
			if o := info.Uses[id]; o != nil {
				i := 0
				for _, fl := range s.fn.Type.Params.List {
					for _, nm := range fl.Names {
						if info.Defs[nm] == o {
							pidx = i
						}
						i++
					}
				}
			}
		}
	}
	var out []ppCtx
	for _, c := range cs {
		var w2 ast.Expr
		if pidx >= 0 && pidx < len(c.call.Args) {
			w2 = c.call.Args[pidx]
		} else if pidx < 0 && word != nil {
			// the word is not a parameter: it may be an operand field itself
			w2 = nil
			if pp.operandIndex(word, info) >= 0 {
				sub := pp.ctxOf(c, nil, depth+1, info)
				for i := range sub {
					sub[i].operand = pp.operandIndex(word, info)
				}
				out = append(out, sub...)
				continue
			}
		}
		out = append(out, pp.ctxOf(c, w2, depth+1, info)...)
	}
	return out
}

func stripDeref(e ast.Expr) ast.Expr {
	for {
		switch x := e.(type) {
		case *ast.ParenExpr:
			e = x.X
		case *ast.StarExpr:
			e = x.X
		default:
			return e
		}
	}
}

// operandIndex: the word is a field of the preprocessor's operand struct (the grammar struct whose
// fields are all *string captures); its index is the operand position.
func (pp *ppAnalysis) operandIndex(word ast.Expr, info *types.Info) int {
	if word == nil {
		return -1
	}
	se, ok := stripDeref(word).(*ast.SelectorExpr)
	if !ok {
		return -1
	}
	sel := info.Selections[se]
	if sel == nil || sel.Kind() != types.FieldVal {
		return -1
	}
	fv, ok := sel.Obj().(*types.Var)
	if !ok {
		return -1
	}
	rt := sel.Recv()
	if pt, ok := rt.(*types.Pointer); ok {
		rt = pt.Elem()
	}
	st, ok := rt.Underlying().(*types.Struct)
	if !ok {
		return -1
	}
	for i := 0; i < st.NumFields(); i++ {
		if _, ok := st.Field(i).Type().(*types.Pointer); !ok {
			return -1 // not the operand struct
		}
	}
	for i := 0; i < st.NumFields(); i++ {
		if st.Field(i) == fv {
			return i
		}
	}
	return -1
}

// opcodeGuard finds the innermost enclosing comparison of a string with constant opcodes: a case
// clause of a switch over a string (not the default clause), or the body of an if whose condition
// is a disjunction of `x == "K"`.
func opcodeGuard(stack []ast.Node, info *types.Info) ([]string, bool) {
	for i := len(stack) - 1; i > 0; i-- {
		switch n := stack[i].(type) {
		case *ast.CaseClause:
			// parent: BlockStmt of a SwitchStmt
			var sw *ast.SwitchStmt
			for j := i - 1; j >= 0; j-- {
				if s, ok := stack[j].(*ast.SwitchStmt); ok {
					sw = s
					break
				}
				if _, ok := stack[j].(*ast.BlockStmt); !ok {
					break
				}
			}
			if sw == nil || sw.Tag == nil || !isStringExpr(sw.Tag, info) {
				continue
			}
			if n.List == nil {
				return nil, false // default clause: every other opcode
			}
			var ops []string
			all := true
			for _, e := range n.List {
				if s, ok := constString(e, info); ok {
					ops = append(ops, s)
				} else {
					all = false
				}
			}
			if all && len(ops) > 0 {
				return ops, true
			}
		case *ast.IfStmt:
			if i+1 < len(stack) && stack[i+1] == ast.Node(n.Body) {
				if ops, ok := eqDisjunction(n.Cond, info); ok {
					return ops, true
				}
			}
		}
	}
	return nil, false
}

func isStringExpr(e ast.Expr, info *types.Info) bool {
	tv, ok := info.Types[e]
	if !ok {
		return false
	}
	b, ok := tv.Type.Underlying().(*types.Basic)
	return ok && b.Info()&types.IsString != 0
}

func constString(e ast.Expr, info *types.Info) (string, bool) {
	tv, ok := info.Types[e]
	if !ok || tv.Value == nil || tv.Value.Kind() != constant.String {
		return "", false
	}
	return constant.StringVal(tv.Value), true
}

func eqDisjunction(e ast.Expr, info *types.Info) ([]string, bool) {
	switch x := ast.Unparen(e).(type) {
	case *ast.BinaryExpr:
		if x.Op == token.LOR {
			a, ok1 := eqDisjunction(x.X, info)
			b, ok2 := eqDisjunction(x.Y, info)
			return append(a, b...), ok1 && ok2
		}
		if x.Op == token.EQL {
			if s, ok := constString(x.Y, info); ok && isStringExpr(x.X, info) {
				return []string{s}, true
			}
			if s, ok := constString(x.X, info); ok && isStringExpr(x.Y, info) {
				return []string{s}, true
			}
		}
	}
	return nil, false
}

var _ = strings.Join
