package rules

// Clauses added in round 9.

import (
	"fmt"
	"go/ast"
	"go/constant"
	"go/token"
	"go/types"
	"regexp"
	"sort"
	"strings"

	"golang.org/x/tools/go/packages"
	"golang.org/x/tools/go/ssa"

	"vischeck/internal/core"
)

// checkPreprocessorFlagPositions (C16 R11): the flag-name preprocessor of dev/asm replaces a word
// of the source by a number. That is only what the author wrote when the word stands in the flag
// operand of an instruction that takes a flag (CATCH: second operand, CROAK: first operand - read
// from the result lists of vm.ParseCatch / vm.ParseCroak). A symbol, node name or label that
// happens to equal a flag name must reach the assembler as written. The rule works on the
// type-checked syntax of package dev/asm: every call of a lookup method of asm.FlagParser must lie
// behind a comparison of the line's mnemonic with one of those opcodes (switch case or if), directly
// or in a helper all of whose callers are, and the word looked up must be the operand in the flag
// position of that opcode.
func checkPreprocessorFlagPositions(w *core.World, r *core.Report, rule string) {
	p := w.Pkgs["dev/asm"]
	if p == nil || p.TypesInfo == nil || len(p.Errors) > 0 {
		r.Undecided(rule, "dev/asm", token.NoPos, "package dev/asm not loaded or not type-checked")
		return
	}
	flagPos := map[string]int{}
	for op, fn := range map[string]string{"CATCH": "ParseCatch", "CROAK": "ParseCroak"} {
		f := w.Func("vm", fn)
		if f == nil {
			r.Undecided(rule, "vm."+fn, token.NoPos, "anchor not found")
			return
		}
		res := f.Signature.Results()
		idx := -1
		for i := 0; i < res.Len(); i++ {
			if b, ok := res.At(i).Type().Underlying().(*types.Basic); ok && b.Info()&types.IsUnsigned != 0 {
				idx = i
				break
			}
		}
		if idx < 0 {
			r.Undecided(rule, "vm."+fn, f.Pos(), "no unsigned (flag) result in the decoder's signature")
			return
		}
		flagPos[op] = idx
	}
	pp := &ppAnalysis{p: p, w: w, decls: map[types.Object]*ast.FuncDecl{}, callers: map[types.Object][]ppSite{}}
	pp.index()
	n := 0
	for _, s := range pp.lookups {
		n++
		desc := fmt.Sprintf("dev/asm.%s: flag-name lookup #%d", s.fn.Name.Name, s.ord)
		r.Touch("dev/asm." + s.fn.Name.Name)
		ctxs := pp.contexts(s, 0)
		if len(ctxs) == 0 {
			r.Undecided(rule, desc, s.call.Pos(), "the lookup's callers could not be enumerated")
			continue
		}
		bad := ""
		und := ""
		for _, c := range ctxs {
			if !c.guarded {
				bad = "reached from " + w.Pos(c.at) + " with no comparison of the mnemonic with an opcode that takes a flag"
				break
			}
			for _, op := range c.ops {
				want, ok := flagPos[op]
				if !ok {
					bad = fmt.Sprintf("applied to operands of %s, which has no flag operand (at %s)", op, w.Pos(c.at))
					break
				}
				if c.operand < 0 {
					und = fmt.Sprintf("operand position of the looked-up word not resolved at %s", w.Pos(c.at))
					continue
				}
				if c.operand != want {
					bad = fmt.Sprintf("%s: operand %d is looked up, the flag is operand %d (at %s)", op, c.operand+1, want+1, w.Pos(c.at))
				}
			}
			if bad != "" {
				break
			}
		}
		switch {
		case bad != "":
			r.Bad(rule, desc, s.call.Pos(), "a word that is not in the flag position of CATCH/CROAK is replaced by a flag number when it equals a flag name: the instruction assembled carries another symbol than the one written: "+bad)
		case und != "":
			r.Undecided(rule, desc, s.call.Pos(), und)
		default:
			r.OK(rule, desc, s.call.Pos(), fmt.Sprintf("%d calling context(s), all behind CATCH/CROAK and on the flag operand", len(ctxs)))
		}
	}
	r.Floor(rule, "flag-name lookups in the preprocessor", n, 1)
}

type ppSite struct {
	fn    *ast.FuncDecl
	call  *ast.CallExpr
	stack []ast.Node
	ord   int
}

type ppCtx struct {
	guarded bool
	ops     []string
	operand int // index of the operand looked up, -1 unknown
	at      token.Pos
}

type ppAnalysis struct {
	p       *packages.Package
	w       *core.World
	decls   map[types.Object]*ast.FuncDecl
	callers map[types.Object][]ppSite
	lookups []ppSite
}

func (pp *ppAnalysis) index() {
	info := pp.p.TypesInfo
	for _, f := range pp.p.Syntax {
		for _, d := range f.Decls {
			fd, ok := d.(*ast.FuncDecl)
			if !ok || fd.Body == nil {
				continue
			}
			if o := info.Defs[fd.Name]; o != nil {
				pp.decls[o] = fd
			}
		}
	}
	for _, f := range pp.p.Syntax {
		for _, d := range f.Decls {
			fd, ok := d.(*ast.FuncDecl)
			if !ok || fd.Body == nil {
				continue
			}
			var stack []ast.Node
			ord := 0
			ast.Inspect(fd.Body, func(n ast.Node) bool {
				if n == nil {
					stack = stack[:len(stack)-1]
					return true
				}
				stack = append(stack, n)
				ce, ok := n.(*ast.CallExpr)
				if !ok {
					return true
				}
				var obj types.Object
				switch fun := ast.Unparen(ce.Fun).(type) {
				case *ast.Ident:
					obj = info.Uses[fun]
				case *ast.SelectorExpr:
					obj = info.Uses[fun.Sel]
				}
				fo, ok := obj.(*types.Func)
				if !ok {
					return true
				}
				st := append([]ast.Node(nil), stack...)
				if isFlagParserLookup(fo) {
					ord++
					pp.lookups = append(pp.lookups, ppSite{fn: fd, call: ce, stack: st, ord: ord})
				} else if _, own := pp.decls[fo]; own {
					pp.callers[fo] = append(pp.callers[fo], ppSite{fn: fd, call: ce, stack: st})
				}
				return true
			})
		}
	}
}

// isFlagParserLookup: a method of asm.FlagParser that takes a string and returns something (the
// name-to-number / name-to-description lookups), i.e. not the loader.
func isFlagParserLookup(fo *types.Func) bool {
	sig, ok := fo.Type().(*types.Signature)
	if !ok || sig.Recv() == nil {
		return false
	}
	t := sig.Recv().Type()
	if pt, ok := t.(*types.Pointer); ok {
		t = pt.Elem()
	}
	nt, ok := t.(*types.Named)
	if !ok || nt.Obj().Pkg() == nil || core.Rel(nt.Obj().Pkg().Path()) != "asm" || nt.Obj().Name() != "FlagParser" {
		return false
	}
	if sig.Params().Len() != 1 || sig.Results().Len() == 0 {
		return false
	}
	b, ok := sig.Params().At(0).Type().Underlying().(*types.Basic)
	if !ok || b.Kind() != types.String {
		return false
	}
	// a lookup yields a string or a number first; the loader yields a count and reads a file
	return fo.Name() != "Load"
}

// contexts enumerates the calling contexts of a site: the innermost opcode guard around it, or,
// if there is none, the contexts of every caller of the enclosing function (depth 3).
func (pp *ppAnalysis) contexts(s ppSite, depth int) []ppCtx {
	info := pp.p.TypesInfo
	var arg ast.Expr
	if len(s.call.Args) > 0 {
		arg = s.call.Args[0]
	}
	return pp.ctxOf(s, arg, depth, info)
}

func (pp *ppAnalysis) ctxOf(s ppSite, word ast.Expr, depth int, info *types.Info) []ppCtx {
	ops, guarded := opcodeGuard(s.stack, info)
	if guarded {
		sort.Strings(ops)
		return []ppCtx{{guarded: true, ops: ops, operand: pp.operandIndex(word, info), at: s.call.Pos()}}
	}
	fo := info.Defs[s.fn.Name]
	cs := pp.callers[fo]
	if len(cs) == 0 || depth >= 3 {
		return []ppCtx{{guarded: false, at: s.call.Pos()}}
	}
	// which parameter of the enclosing function is the word?
	pidx := -1
	if word != nil {
		if id, ok := stripDeref(word).(*ast.Ident); ok {
			if o := info.Uses[id]; o != nil {
				i := 0
				for _, fl := range s.fn.Type.Params.List {
					for _, nm := range fl.Names {
						if info.Defs[nm] == o {
							pidx = i
						}
						i++
					}
				}
			}
		}
	}
	var out []ppCtx
	for _, c := range cs {
		var w2 ast.Expr
		if pidx >= 0 && pidx < len(c.call.Args) {
			w2 = c.call.Args[pidx]
		} else if pidx < 0 && word != nil {
			// the word is not a parameter: it may be an operand field itself
			w2 = nil
			if pp.operandIndex(word, info) >= 0 {
				sub := pp.ctxOf(c, nil, depth+1, info)
				for i := range sub {
					sub[i].operand = pp.operandIndex(word, info)
				}
				out = append(out, sub...)
				continue
			}
		}
		out = append(out, pp.ctxOf(c, w2, depth+1, info)...)
	}
	return out
}

func stripDeref(e ast.Expr) ast.Expr {
	for {
		switch x := e.(type) {
		case *ast.ParenExpr:
			e = x.X
		case *ast.StarExpr:
			e = x.X
		default:
			return e
		}
	}
}

// operandIndex: the word is a field of the preprocessor's operand struct (the grammar struct whose
// fields are all *string captures); its index is the operand position.
func (pp *ppAnalysis) operandIndex(word ast.Expr, info *types.Info) int {
	if word == nil {
		return -1
	}
	se, ok := stripDeref(word).(*ast.SelectorExpr)
	if !ok {
		return -1
	}
	sel := info.Selections[se]
	if sel == nil || sel.Kind() != types.FieldVal {
		return -1
	}
	fv, ok := sel.Obj().(*types.Var)
	if !ok {
		return -1
	}
	rt := sel.Recv()
	if pt, ok := rt.(*types.Pointer); ok {
		rt = pt.Elem()
	}
	st, ok := rt.Underlying().(*types.Struct)
	if !ok {
		return -1
	}
	for i := 0; i < st.NumFields(); i++ {
		if _, ok := st.Field(i).Type().(*types.Pointer); !ok {
			return -1 // not the operand struct
		}
	}
	for i := 0; i < st.NumFields(); i++ {
		if st.Field(i) == fv {
			return i
		}
	}
	return -1
}

// opcodeGuard finds the innermost enclosing comparison of a string with constant opcodes: a case
// clause of a switch over a string (not the default clause), or the body of an if whose condition
// is a disjunction of `x == "K"`.
func opcodeGuard(stack []ast.Node, info *types.Info) ([]string, bool) {
	for i := len(stack) - 1; i > 0; i-- {
		switch n := stack[i].(type) {
		case *ast.CaseClause:
			// parent: BlockStmt of a SwitchStmt
			var sw *ast.SwitchStmt
			for j := i - 1; j >= 0; j-- {
				if s, ok := stack[j].(*ast.SwitchStmt); ok {
					sw = s
					break
				}
				if _, ok := stack[j].(*ast.BlockStmt); !ok {
					break
				}
			}
			if sw == nil || sw.Tag == nil || !isStringExpr(sw.Tag, info) {
				continue
			}
			if n.List == nil {
				return nil, false // default clause: every other opcode
			}
			var ops []string
			all := true
			for _, e := range n.List {
				if s, ok := constString(e, info); ok {
					ops = append(ops, s)
				} else {
					all = false
				}
			}
			if all && len(ops) > 0 {
				return ops, true
			}
		case *ast.IfStmt:
			if i+1 < len(stack) && stack[i+1] == ast.Node(n.Body) {
				if ops, ok := eqDisjunction(n.Cond, info); ok {
					return ops, true
				}
			}
		}
	}
	return nil, false
}

func isStringExpr(e ast.Expr, info *types.Info) bool {
	tv, ok := info.Types[e]
	if !ok {
		return false
	}
	b, ok := tv.Type.Underlying().(*types.Basic)
	return ok && b.Info()&types.IsString != 0
}

func constString(e ast.Expr, info *types.Info) (string, bool) {
	tv, ok := info.Types[e]
	if !ok || tv.Value == nil || tv.Value.Kind() != constant.String {
		return "", false
	}
	return constant.StringVal(tv.Value), true
}

func eqDisjunction(e ast.Expr, info *types.Info) ([]string, bool) {
	switch x := ast.Unparen(e).(type) {
	case *ast.BinaryExpr:
		if x.Op == token.LOR {
			a, ok1 := eqDisjunction(x.X, info)
			b, ok2 := eqDisjunction(x.Y, info)
			return append(a, b...), ok1 && ok2
		}
		if x.Op == token.EQL {
			if s, ok := constString(x.Y, info); ok && isStringExpr(x.X, info) {
				return []string{s}, true
			}
			if s, ok := constString(x.X, info); ok && isStringExpr(x.Y, info) {
				return []string{s}, true
			}
		}
	}
	return nil, false
}

var _ = strings.Join

// checkResultFlagOrder (C06 R11): external code answers with two lists, flags to reset and flags to
// set. The library applies the resets first and the sets second, so a flag named in both ends up
// set - the "clear the group, raise one" idiom the repository's own examples use
// (examples/preprocessor), and the only way a handler can both wipe its writable flags and raise
// TERMINATE. The order is visible in the shape of the code: in no library function is a consuming
// read of Result.FlagReset reachable from a consuming read of Result.FlagSet. A read that only
// feeds a logging call (boxed into an interface) is not a consumer.
func checkResultFlagOrder(w *core.World, r *core.Report, rule string) {
	n := 0
	for _, fn := range w.LibFuncs {
		var sets, resets []ssa.Instruction
		for _, in := range allInstrs(fn) {
			v, ok := in.(ssa.Value)
			if !ok {
				continue
			}
			tn, f, ok := core.LoadedField(v)
			if !ok || tn != "resource.Result" {
				continue
			}
			if !consumedValue(v) {
				continue
			}
			switch f {
			case "FlagSet":
				sets = append(sets, in)
			case "FlagReset":
				resets = append(resets, in)
			}
		}
		if len(sets) == 0 || len(resets) == 0 {
			continue
		}
		n++
		r.Touch(core.QName(fn))
		bad := ""
		var badPos token.Pos
		for _, s := range sets {
			isReset := func(in ssa.Instruction) bool {
				for _, x := range resets {
					if x == in {
						return true
					}
				}
				return false
			}
			if hit, _ := core.Reach(core.After(s), isReset, nil); hit != nil {
				bad = fmt.Sprintf("the reset list is read at %s after the set list was read at %s", w.Pos(hit.Pos()), w.Pos(s.Pos()))
				badPos = hit.Pos()
			}
		}
		r.Check(bad == "", rule, core.QName(fn)+": result flags, resets before sets", badPos, fmt.Sprintf("%d read(s) of FlagReset, none reachable from the %d read(s) of FlagSet", len(resets), len(sets)),
			"the flags external code asks to set are applied before the ones it asks to reset: a flag named in both lists ends up cleared - a handler that wipes its writable flags and raises one (or TERMINATE) loses it, the CATCH on it does not move and a session that should be blocked keeps running: "+bad)
	}
	r.Floor(rule, "library functions applying both result flag lists", n, 1)
}

// consumedValue: the value is used by something other than a conversion to an interface (logging).
func consumedValue(v ssa.Value) bool {
	refs := v.Referrers()
	if refs == nil {
		return false
	}
	for _, u := range *refs {
		switch u.(type) {
		case *ssa.MakeInterface, *ssa.DebugRef:
			continue
		}
		return true
	}
	return false
}

// checkPendingCodeConsumed (C06 R12, C20 R11): the engine fetches the pending bytecode of a session
// with State.GetCode before it runs the VM and records new code only after a run that neither
// failed nor left TERMINATE set. "CROAK abandons the pending bytecode" and "a terminated session
// stays blocked and restarts cleanly" therefore depend on the fetch being a consuming read: the
// lines fetched must not stay in the state that is saved on the early returns. Decided
// structurally: at every call of State.GetCode in the library, State.Code is stored again before
// the calling function returns, on every path - either GetCode itself stores the field on every
// path to its returns, or every path from the call to a return of the caller passes a store to
// the field (directly or through a function of package state that stores it).
func checkPendingCodeConsumed(w *core.World, r *core.Report, rule string) {
	gc := w.Func("state", "(*State).GetCode")
	if gc == nil {
		r.Undecided(rule, "state.(*State).GetCode", token.NoPos, "anchor not found")
		return
	}
	r.Touch(core.QName(gc))
	isCodeStore := func(in ssa.Instruction) bool {
		if st, ok := in.(*ssa.Store); ok {
			if tn, f, ok := core.FieldOfAddr(st.Addr); ok && tn == "state.State" && f == "Code" {
				return true
			}
		}
		if c, ok := in.(ssa.CallInstruction); ok {
			if g := core.StaticCallee(c); g != nil && g != gc && core.PkgOf(g) == "state" {
				for _, gi := range allInstrs(g) {
					if st, ok := gi.(*ssa.Store); ok {
						if tn, f, ok := core.FieldOfAddr(st.Addr); ok && tn == "state.State" && f == "Code" {
							return true
						}
					}
				}
			}
		}
		return false
	}
	cutOf := func(fn *ssa.Function) *core.Cut {
		cut := core.NewCut()
		for _, in := range allInstrs(fn) {
			if isCodeStore(in) {
				cut.AddInstr(in)
			}
		}
		return cut
	}
	self, _ := core.Reach(core.Entry(gc), core.IsReturn, cutOf(gc))
	consuming := self == nil
	n := 0
	for _, fn := range w.LibFuncs {
		for _, c := range core.CallsTo(fn, "state.(*State).GetCode") {
			n++
			r.Touch(core.QName(fn))
			desc := fmt.Sprintf("%s: pending code fetched with State.GetCode", core.QName(fn))
			if n > 1 {
				desc = fmt.Sprintf("%s #%d", desc, n)
			}
			if consuming {
				r.OK(rule, desc, c.Pos(), "GetCode stores State.Code on every path to its returns (a consuming read)")
				continue
			}
			hit, path := core.Reach(core.After(c.(ssa.Instruction)), core.IsReturn, cutOf(fn))
			witness := ""
			if hit != nil {
				witness = "return at " + w.Pos(hit.Pos()) + " via " + w.PathString(path)
			}
			r.Check(hit == nil, rule, desc, c.Pos(), "every path from the fetch to a return stores State.Code again",
				"the fetch leaves the pending code in the state and a return of the caller is reached without storing State.Code: the lines of the node the session was thrown out of survive a failed or terminated run, are saved, and take the next input once the block is lifted - the pending bytecode is not abandoned", witness)
		}
	}
	r.Floor(rule, "State.GetCode call sites", n, 1)
}

// checkListingStateReinitialised (C10 R14): the filesystem listing keeps its progress on the store
// handle (the directory cursor, the prefix to match, and whatever else the listing functions store
// there). A listing must not depend on how the previous one on the same handle ended - a dumper
// that was not drained, a read that failed half-way. Decided structurally: the listing family is
// every function of package db/fs that reads or writes the cursor field, plus the package functions
// they call; the listing state is every field of the handle that a family function stores; and in
// Dump every such field is stored on every path from the entry to the first read of it (in Dump or
// in a family function Dump calls) and to every return that hands out a dumper.
func checkListingStateReinitialised(w *core.World, r *core.Report, rule string) {
	const handle = "db/fs.fsDb"
	dump := w.Func("db/fs", "(*fsDb).Dump")
	if dump == nil {
		r.Undecided(rule, "db/fs Dump", token.NoPos, "anchor not found")
		return
	}
	fieldOf := func(in ssa.Instruction) (string, bool, bool) { // field, isStore, ok
		switch t := in.(type) {
		case *ssa.Store:
			if tn, f, ok := core.FieldOfAddr(t.Addr); ok && tn == handle {
				return f, true, true
			}
		case *ssa.UnOp:
			if t.Op == token.MUL {
				if tn, f, ok := core.FieldOfAddr(t.X); ok && tn == handle {
					return f, false, true
				}
			}
		}
		return "", false, false
	}
	// cursor field: the handle's field of a slice-of-DirEntry type
	cursor := ""
	if tn := w.Type("db/fs", "fsDb"); tn != nil {
		if st, ok := tn.Type().Underlying().(*types.Struct); ok {
			for i := 0; i < st.NumFields(); i++ {
				if sl, ok := st.Field(i).Type().Underlying().(*types.Slice); ok && strings.HasSuffix(sl.Elem().String(), "DirEntry") {
					cursor = st.Field(i).Name()
				}
			}
		}
	}
	if cursor == "" {
		r.Undecided(rule, "db/fs listing cursor", dump.Pos(), "the handle has no field of directory entries")
		return
	}
	family := map[*ssa.Function]bool{}
	for _, fn := range w.FuncsIn("db/fs") {
		for _, in := range allInstrs(fn) {
			if f, _, ok := fieldOf(in); ok && f == cursor {
				family[fn] = true
			}
		}
	}
	// package callees of the family (helpers), excluding the map operations Get/Put which have their own rules
	for changed := true; changed; {
		changed = false
		for fn := range family {
			for _, c := range core.Calls(fn) {
				g := core.StaticCallee(c)
				if g == nil || family[g] || core.PkgOf(g) != "db/fs" || len(g.Blocks) == 0 {
					continue
				}
				switch g.Name() {
				case "Get", "Put", "Connect", "Close":
					continue
				}
				family[g] = true
				changed = true
			}
		}
	}
	reads := map[*ssa.Function]map[string]bool{}
	state := map[string]bool{}
	for fn := range family {
		reads[fn] = map[string]bool{}
		for _, in := range allInstrs(fn) {
			if f, isStore, ok := fieldOf(in); ok {
				if isStore {
					state[f] = true
				} else {
					reads[fn][f] = true
				}
			}
		}
	}
	// transitive reads through family calls
	for changed := true; changed; {
		changed = false
		for fn := range family {
			for _, c := range core.Calls(fn) {
				if g := core.StaticCallee(c); g != nil && family[g] && g != fn {
					for f := range reads[g] {
						if !reads[fn][f] {
							reads[fn][f] = true
							changed = true
						}
					}
				}
			}
		}
	}
	var fields []string
	for f := range state {
		fields = append(fields, f)
	}
	sort.Strings(fields)
	r.Touch(core.QName(dump))
	for _, f := range fields {
		cut := core.NewCut()
		for _, in := range allInstrs(dump) {
			if ff, isStore, ok := fieldOf(in); ok && isStore && ff == f {
				cut.AddInstr(in)
			}
		}
		target := func(in ssa.Instruction) bool {
			if ff, isStore, ok := fieldOf(in); ok && !isStore && ff == f {
				return true
			}
			if c, ok := in.(ssa.CallInstruction); ok {
				if g := core.StaticCallee(c); g != nil && family[g] && reads[g][f] {
					return true
				}
			}
			if ret, ok := in.(*ssa.Return); ok && len(ret.Results) > 0 {
				v := core.ReturnValue(ret, 0)
				return v != nil && !core.IsNilConst(v)
			}
			return false
		}
		hit, path := core.Reach(core.Entry(dump), target, cut)
		witness := ""
		var pos token.Pos
		if hit != nil {
			pos = hit.Pos()
			witness = "reached at " + w.Pos(hit.Pos()) + " via " + w.PathString(path)
		}
		r.Check(hit == nil, rule, "db/fs Dump: listing state "+f+" re-initialised", pos, "stored on every path before it is read or a dumper is handed out",
			"a listing starts with what the previous listing on this handle left in "+handle+"."+f+": after a dumper that was not drained (or a read that failed half-way) the next listing skips or stops before keys that are stored", witness)
	}
	r.Floor(rule, "listing state fields", len(fields), 2)
}

// checkFrameLookupReadsFramesOnly (C09 R11): "a symbol is defined in exactly one scope" and "the
// limit of a live symbol is kept" rest on the frame lookup (the function of package cache whose
// integer result Add compares with -1) answering from the frames alone. A shortcut through the
// accounting fields is wrong for some history: the used size is 0 while symbols with empty values
// are live, a size limit of 0 is recorded for unlimited symbols. Decided structurally: the lookup
// and the package functions it calls read no field of Cache other than the frame list.
func checkFrameLookupReadsFramesOnly(w *core.World, r *core.Report, rule string, add *ssa.Function) {
	var lookups []*ssa.Function
	seen := map[*ssa.Function]bool{}
	var sites []ssa.CallInstruction
	for _, g := range append([]*ssa.Function{add}, cachePkgCallees(add)...) {
		sites = append(sites, core.Calls(g)...) // the duplicate test may sit in a helper of Add
	}
	for _, c := range sites {
		call, ok := c.(*ssa.Call)
		f := core.StaticCallee(c)
		if !ok || f == nil || seen[f] || core.PkgOf(f) != "cache" || f.Signature.Results().Len() != 1 || len(f.Blocks) == 0 {
			continue
		}
		if bt, ok := f.Signature.Results().At(0).Type().Underlying().(*types.Basic); !ok || bt.Kind() != types.Int {
			continue
		}
		cmp := false
		if refs := call.Referrers(); refs != nil {
			for _, u := range *refs {
				if bo, ok := u.(*ssa.BinOp); ok {
					if x, _, k, ok := core.CmpConst(bo); ok && x == ssa.Value(call) && (k == -1 || k == 0) {
						cmp = true
					}
				}
			}
		}
		if cmp {
			seen[f] = true
			lookups = append(lookups, f)
		}
	}
	n := 0
	for _, l := range lookups {
		n++
		r.Touch(core.QName(l))
		bad := ""
		var badPos token.Pos
		for _, g := range append([]*ssa.Function{l}, cachePkgCallees(l)...) {
			for _, in := range allInstrs(g) {
				u, ok := in.(*ssa.UnOp)
				if !ok || u.Op != token.MUL {
					continue
				}
				if tn, f, ok := core.FieldOfAddr(u.X); ok && tn == "cache.Cache" && f != "Cache" {
					bad = fmt.Sprintf("%s reads Cache.%s at %s", core.QName(g), f, w.Pos(u.Pos()))
					badPos = u.Pos()
				}
			}
		}
		r.Check(bad == "", rule, "cache frame lookup ("+core.QName(l)+"): answers from the frames alone", badPos, "reads only the frame list",
			"whether a symbol is defined is answered from the accounting (used size, size limits) instead of the frames: for some history - every live value empty, a symbol without a limit - a defined symbol is reported undefined, so it can be added a second time in another scope and its limit is replaced or dropped: "+bad)
	}
	r.Floor(rule, "frame lookups used by Add", n, 1)
}

// checkCacheErrorsOmitValue (C05 R10): "a result larger than its limit is never stored or shown".
// The refusal is an error, and error texts are shown: the VM hands every error to Page.WithError
// and the catch node is rendered with it in front. So no error built in the cache's Add/Update may
// carry the value it refuses. Decided structurally: no argument of an error or string formatting
// call in those methods (and the package functions they call) derives from the value parameter
// itself; its length (a call of len) is fine.
func checkCacheErrorsOmitValue(w *core.World, r *core.Report, rule string, methods ...*ssa.Function) {
	n := 0
	for _, m := range methods {
		if m == nil {
			continue
		}
		vp := valueParamOf(m)
		if vp == nil {
			// the store may have moved into a helper: take the string parameters other than the key (first)
			for i, p := range m.Params {
				if b, ok := p.Type().Underlying().(*types.Basic); ok && b.Kind() == types.String && i >= 2 {
					vp = p
				}
			}
		}
		if vp == nil {
			r.Undecided(rule, core.QName(m)+": value parameter", m.Pos(), "cannot identify the value parameter")
			continue
		}
		r.Touch(core.QName(m))
		bad := ""
		var badPos token.Pos
		for _, c := range core.Calls(m) {
			name := core.CallName(c)
			if !(strings.HasPrefix(name, "fmt.") || strings.HasPrefix(name, "errors.")) {
				continue
			}
			n++
			for _, a := range core.CallArgs(c) {
				roots, _ := core.DeepSources(a, nil)
				for _, rt := range roots {
					if rt == ssa.Value(vp) {
						bad = fmt.Sprintf("%s at %s takes the value parameter %s", name, w.Pos(c.Pos()), vp.Name())
						badPos = c.Pos()
					}
				}
			}
		}
		r.Check(bad == "", rule, core.QName(m)+": errors do not carry the value", badPos, "no formatting call takes the value itself",
			"the error that refuses a value quotes it: the VM puts the error text in front of the catch node's page, so a result larger than its limit is shown to the client although it was never stored: "+bad)
	}
	r.Floor(rule, "error/formatting calls in Add and Update", n, 4)
}

// checkStopAcknowledgesOnlyCommits (C13 R10): an explicit transaction whose statement failed has been
// rolled back by the library itself (every failing Put/Get goes through Abort), together with the
// writes acknowledged before the failure. The only way the application learns that is the error of
// Stop. So Stop may report success only after it committed: every success return of the back end's
// Stop passes a Commit on the stored handle - directly, or in a helper in which every success
// return passes one.
func checkStopAcknowledgesOnlyCommits(w *core.World, r *core.Report, rule string) {
	stop := w.Func("db/postgres", "(*pgDb).Stop")
	if stop == nil {
		r.Undecided(rule, "db/postgres Stop", token.NoPos, "anchor not found")
		return
	}
	ncommit := 0
	var ackWithout func(fn *ssa.Function, depth int) (ssa.Instruction, []*ssa.BasicBlock)
	ackWithout = func(fn *ssa.Function, depth int) (ssa.Instruction, []*ssa.BasicBlock) {
		cut := core.NewCut()
		for _, c := range core.Calls(fn) {
			if strings.HasSuffix(core.CallName(c), ".Commit") {
				cut.AddInstr(c.(ssa.Instruction))
				ncommit++
				continue
			}
			if _, ok := c.(*ssa.Call); !ok || depth <= 0 {
				continue
			}
			g := core.StaticCallee(c)
			if g == nil || g == fn || core.PkgOf(g) != "db/postgres" || len(g.Blocks) == 0 {
				continue
			}
			if hit, _ := ackWithout(g, depth-1); hit == nil {
				cut.AddInstr(c.(ssa.Instruction))
			}
		}
		return core.Reach(core.Entry(fn), isSuccessReturnPred(fn), cut)
	}
	r.Touch(core.QName(stop))
	hit, path := ackWithout(stop, 2)
	var pos token.Pos
	if hit != nil {
		pos = hit.Pos()
	}
	r.Check(hit == nil && ncommit > 0, rule, "db/postgres Stop: success only after a commit", pos, "every success return passes Tx.Commit",
		"Stop can report success without committing anything: after a statement failed inside an explicit transaction the library has rolled the whole transaction back, and the application is told its acknowledged writes are stored: "+w.PathString(path))
}

// checkModeFlagNotChangedByOperations (C13 R11): whether statements commit one by one or with the
// explicit transaction is decided by Start/Stop - the application's bracket. The functions every
// failing Put/Get runs through (the internal rollback, the lazy opener, the single-statement commit)
// must leave that mode alone: if a failure inside the bracket silently drops the store out of it,
// the retry is committed at once and the Abort that follows cannot take it back. Decided
// structurally: no function reachable from the back end's Put or Get through static calls inside the
// package stores the mode field.
func checkModeFlagNotChangedByOperations(w *core.World, r *core.Report, rule string) {
	n := 0
	for _, name := range []string{"(*pgDb).Put", "(*pgDb).Get"} {
		op := w.Func("db/postgres", name)
		if op == nil {
			r.Undecided(rule, "db/postgres "+name, token.NoPos, "anchor not found")
			continue
		}
		r.Touch(core.QName(op))
		seen := map[*ssa.Function]bool{op: true}
		work := []*ssa.Function{op}
		bad := ""
		var badPos token.Pos
		for len(work) > 0 {
			fn := work[0]
			work = work[1:]
			for _, in := range allInstrs(fn) {
				if st, ok := in.(*ssa.Store); ok {
					if tn, f, ok := core.FieldOfAddr(st.Addr); ok && tn == "db/postgres.pgDb" && f == "multi" {
						bad = fmt.Sprintf("%s stores pgDb.multi at %s", core.QName(fn), w.Pos(st.Pos()))
						badPos = st.Pos()
					}
				}
				if c, ok := in.(ssa.CallInstruction); ok {
					if g := core.StaticCallee(c); g != nil && !seen[g] && core.PkgOf(g) == "db/postgres" && len(g.Blocks) > 0 {
						seen[g] = true
						work = append(work, g)
					}
				}
			}
		}
		n += len(seen)
		r.Check(bad == "", rule, "db/postgres "+name+": leaves the transaction mode alone", badPos, fmt.Sprintf("%d function(s) reachable, none stores the mode flag", len(seen)),
			"an operation (or the rollback it runs when a statement fails) changes whether later statements belong to the explicit transaction: after a fault inside Start ... Stop/Abort the retry is committed on its own and stays visible after Abort: "+bad)
	}
	r.Floor(rule, "functions reachable from Put/Get in the back end", n, 6)
}

// checkLoadOnce (C02 R5; the load-once clause of C05 R1 under its pagination reading): a lateral
// move ('>' / '<') re-executes the node's bytecode, LOADs included. Pages stay stable - and the
// offered next/previous leads to the neighbouring page - only because a LOAD of a symbol that is
// already loaded does nothing: the external function would otherwise run again with the browse
// selector as its input. In the LOAD handler (or the stage of it that calls the external code)
// the external-code invoker is reached only on the error edge of Memory.Get(decoded symbol).
func checkLoadOnce(w *core.World, r *core.Report, rule, consequence string) {
	inv := externalInvokers(w)
	h := handlerByName(w, r, "LOAD")
	if h == nil || len(inv) == 0 {
		r.Undecided(rule, "LOAD handler", token.NoPos, "no handler for LOAD or no external-code invoker")
		return
	}
	ic := callsToSet(h, inv)
	if len(ic) == 0 {
		for _, c := range core.Calls(h) {
			g := core.StaticCallee(c)
			if g == nil || core.PkgOf(g) != "vm" || len(g.Blocks) == 0 || len(callsToSet(g, inv)) == 0 {
				continue
			}
			sites, escapes := staticCallSites(w, g)
			if escapes || len(sites) != 1 {
				continue
			}
			h = g
			ic = callsToSet(h, inv)
		}
	}
	r.Touch(core.QName(h))
	gets := core.CallsTo(h, memGet, "cache.(*Cache).Get")
	if len(ic) == 0 {
		r.Bad(rule, "LOAD handler: invoker call", h.Pos(), "the LOAD handler does not call the external-code invoker")
	}
	for _, c := range ic {
		cut := core.NewCut()
		okKey := false
		for _, g := range gets {
			a := core.CallArgs(g)
			if len(a) >= 2 && fromResultVia(w, h, a[1], 0, "vm.ParseLoad") {
				okKey = true
				cut.AddEdge(errNonNilEdges(callErr(g))...)
			}
		}
		in, path := core.Reach(core.Entry(h), core.IsInstr(c.(ssa.Instruction)), cut)
		r.Check(okKey && in == nil, rule, "LOAD handler: load once", c.Pos(), "invoker only behind Get(sym) failing", consequence+w.PathString(path))
	}
}

// checkIncmpComplete (C03 R16): "the first INCMP whose selector equals the input decides the move"
// also needs the handler never to skip an INCMP for any other reason than the two the property
// names: a match is already recorded, or the selector differs from the input. Every success return
// of the INCMP handler that is not behind the move passes the INMATCH-set edge or the mismatch edge
// of the deciding comparison (decoded selector against State.GetInput()).
func checkIncmpComplete(w *core.World, r *core.Report, rule string, h *ssa.Function, fIn int64, disp map[*ssa.Function]bool) {
	cut := core.NewCut()
	for _, mv := range callsToSet(h, disp) {
		cut.AddInstr(mv.(ssa.Instruction))
	}
	set, _ := flagTestEdges(h, fIn, true)
	cut.AddEdge(set...)
	ncmp := 0
	for _, x := range allInstrs(h) {
		bo, ok := x.(*ssa.BinOp)
		if !ok || (bo.Op != token.EQL && bo.Op != token.NEQ) {
			continue
		}
		selX := fromResult(bo.X, 1, "vm.ParseInCmp")
		selY := fromResult(bo.Y, 1, "vm.ParseInCmp")
		inpX := fromResult(bo.X, 0, "state.(*State).GetInput")
		inpY := fromResult(bo.Y, 0, "state.(*State).GetInput")
		if (selX && inpY) || (selY && inpX) {
			ncmp++
			cut.AddEdge(core.EdgesWhere(bo, bo.Op != token.EQL)...)
		}
	}
	if ncmp == 0 {
		return // C03 R4 reports the missing comparison
	}
	hit, path := core.Reach(core.Entry(h), isSuccessReturnPred(h), cut)
	var pos token.Pos
	if hit != nil {
		pos = hit.Pos()
	}
	r.Check(hit == nil, rule, "INCMP handler: an INCMP is skipped only for a recorded match or a mismatch", pos, "every success return passes the move, the INMATCH-set edge or the mismatch edge",
		"the handler can return without comparing although no match is recorded: an INCMP whose selector equals the input is passed over (a selector the built-in input pattern would not accept, say, while a custom validator lets the input in), and a later wildcard or the catch node takes the input: "+w.PathString(path))
}

// checkRenderKeepsErrorPrefix (C03 R17): unmatched input reaches the client as the catch node's page
// with the invalid-input message in front. The message is the error the dead-code check put on the
// Page (WithError); with an output size configured the template is rendered more than once per page
// (a measuring pass before the real one), so nothing on the render path may consume it. No function
// reachable from Page.Render stores Page.err.
func checkRenderKeepsErrorPrefix(w *core.World, r *core.Report, rule string) {
	render := w.Func("render", "(*Page).Render")
	if render == nil {
		r.Undecided(rule, "render.(*Page).Render", token.NoPos, "anchor not found")
		return
	}
	reach, _ := reachable(w, []*ssa.Function{render})
	bad := ""
	var badPos token.Pos
	n := 0
	for fn := range reach {
		if core.PkgOf(fn) != "render" {
			continue
		}
		n++
		for _, in := range allInstrs(fn) {
			if st, ok := in.(*ssa.Store); ok {
				if tn, f, ok := core.FieldOfAddr(st.Addr); ok && tn == "render.Page" && f == "err" {
					bad = fmt.Sprintf("%s stores Page.err at %s", core.QName(fn), w.Pos(st.Pos()))
					badPos = st.Pos()
				}
			}
		}
	}
	r.Touch(core.QName(render))
	r.Check(bad == "" && n > 0, rule, "render path: the error prefix is not consumed by rendering", badPos, fmt.Sprintf("%d functions of package render reachable from Page.Render, none stores Page.err", n),
		"a render clears the error it shows: with an output size the measuring pass consumes it and the catch page is delivered without the invalid-input message: "+bad)
}

// checkPrimitiveDecodersJudgeFramingOnly (C14 R15): the encoders (vm.NewLine, the assembler's
// writers, the batch menu processor) write any string of 1..255 bytes as a symbol and any 32-bit
// number as an integer operand. "Decoding yields what was encoded" therefore needs the primitive
// decoders to accept every content: they may refuse an instruction for its framing (lengths), never
// for what the bytes say. Decided structurally: a primitive decoder of package vm calls nothing but
// builtins, the error constructors, encoding/binary and logging - no predicate over the operand
// bytes (a UTF-8 or pattern test, a table lookup) can stand between well-framed bytes and their
// decoded value.
func checkPrimitiveDecodersJudgeFramingOnly(w *core.World, r *core.Report, rule string) {
	n := 0
	for _, kind := range []string{"S", "I"} {
		d := primitiveDecoder(w, kind)
		if d == nil {
			r.Undecided(rule, "primitive decoder ("+kind+")", token.NoPos, "role not resolved")
			continue
		}
		n++
		r.Touch(core.QName(d))
		bad := ""
		var badPos token.Pos
		for _, c := range core.Calls(d) {
			if _, ok := c.Common().Value.(*ssa.Builtin); ok {
				continue
			}
			name := core.CallName(c)
			switch {
			case strings.HasPrefix(name, "fmt."), strings.HasPrefix(name, "errors."), strings.HasPrefix(name, "encoding/binary."),
				strings.HasPrefix(name, "logging."), strings.Contains(name, "logging.Logger"), strings.HasPrefix(name, "dynamic:logging"):
				continue
			}
			if g := core.StaticCallee(c); g != nil && core.PkgOf(g) == "vm" && (primitiveKind(g) != "" || framingOnlyHelper(g, 2)) {
				continue
			}
			bad = fmt.Sprintf("calls %s at %s", name, w.Pos(c.Pos()))
			badPos = c.Pos()
		}
		r.Check(bad == "", rule, "primitive decoder ("+kind+"): refuses for framing only", badPos, "calls only builtins, error constructors, encoding/binary and logging",
			"the decoder judges the content of an operand: bytes the encoder writes (a label that is not well-formed UTF-8, a binary selector, a symbol cut at the 255-byte limit) are refused by every Parse* function, the VM and the disassembler - encoder and decoder no longer agree on the operand domain: "+bad)
	}
	r.Floor(rule, "primitive decoders", n, 2)
}

// checkNoNestedLockAcquisition (C19 R8): "independent sessions can be served concurrently" also fails
// when sessions block each other for good. The library holds no locks today; where a change guards
// shared state with a mutex, the classic way to wedge every session is to acquire the same lock
// again while it is held - sync.Mutex deadlocks at once, and a second RLock of a sync.RWMutex
// deadlocks as soon as another goroutine asks for the write lock in between (Go's RWMutex is not
// re-entrant). Decided on the call graph: for every Lock/RLock of a package-level sync.Mutex /
// sync.RWMutex (or a field of a package-level variable) in a library function, no call made while
// the lock is held - up to the first non-deferred Unlock/RUnlock of it, or the function's return
// when the release is deferred - reaches (static and interface calls inside the library) another
// acquisition of the same lock.
func checkNoNestedLockAcquisition(w *core.World, r *core.Report, rule string) {
	lockOf := func(c ssa.CallInstruction) (*ssa.Global, string) {
		name := core.CallName(c)
		var kind string
		switch name {
		case "sync.(*Mutex).Lock", "sync.(*RWMutex).Lock", "sync.(*RWMutex).RLock":
			kind = "acquire"
		case "sync.(*Mutex).Unlock", "sync.(*RWMutex).Unlock", "sync.(*RWMutex).RUnlock":
			kind = "release"
		default:
			return nil, ""
		}
		args := core.CallArgs(c)
		if len(args) == 0 {
			return nil, ""
		}
		return core.GlobalOf(args[0]), kind
	}
	acquires := map[*ssa.Function]map[*ssa.Global]bool{}
	nlocks := 0
	for _, fn := range w.LibFuncs {
		for _, c := range core.Calls(fn) {
			if g, kind := lockOf(c); g != nil && kind == "acquire" {
				if acquires[fn] == nil {
					acquires[fn] = map[*ssa.Global]bool{}
				}
				acquires[fn][g] = true
				nlocks++
			}
		}
	}
	nbad := 0
	for fn, gs := range acquires {
		for _, c := range core.Calls(fn) {
			g, kind := lockOf(c)
			if g == nil || kind != "acquire" || !gs[g] {
				continue
			}
			if _, isDefer := c.(*ssa.Defer); isDefer {
				continue
			}
			release := core.NewCut()
			for _, c2 := range core.Calls(fn) {
				if g2, k2 := lockOf(c2); g2 == g && k2 == "release" {
					if _, isDefer := c2.(*ssa.Defer); !isDefer {
						release.AddInstr(c2.(ssa.Instruction))
					}
				}
			}
			bad := ""
			var badPos token.Pos
			core.Reach(core.After(c.(ssa.Instruction)), func(in ssa.Instruction) bool {
				c3, ok := in.(ssa.CallInstruction)
				if !ok || bad != "" {
					return false
				}
				if _, isDefer := c3.(*ssa.Defer); isDefer {
					return false
				}
				if g3, k3 := lockOf(c3); g3 == g && k3 == "acquire" {
					bad = fmt.Sprintf("acquired again at %s", w.Pos(c3.Pos()))
					badPos = c3.Pos()
					return false
				}
				var roots []*ssa.Function
				for _, callee := range w.Callees(c3) {
					if w.InLib(callee) {
						roots = append(roots, callee)
					}
				}
				if len(roots) == 0 {
					return false
				}
				sub, _ := reachable(w, roots)
				for f2 := range sub {
					if acquires[f2][g] {
						bad = fmt.Sprintf("the call at %s reaches %s, which acquires it again", w.Pos(c3.Pos()), core.QName(f2))
						badPos = c3.Pos()
						return false
					}
				}
				return false
			}, release)
			r.Touch(core.QName(fn))
			if bad != "" {
				nbad++
			}
			r.Check(bad == "", rule, fmt.Sprintf("%s: %s held", core.QName(fn), g.Name()), badPos, "no call made while the lock is held reaches another acquisition of it",
				"a lock on process-wide state is acquired again while it is held: a sync.Mutex deadlocks at once, a read lock taken twice deadlocks as soon as another session asks for the write lock in between - from then on every session that needs the lock hangs: "+g.Name()+" "+bad)
		}
	}
	r.OK(rule, "locks on package-level state in the library", token.NoPos, fmt.Sprintf("%d acquisition site(s) examined, %d nested", nlocks, nbad))
}

// framingOnlyHelper: a helper of package vm that itself calls nothing but builtins, error
// constructors, encoding/binary, logging and helpers of the same kind (a length test moved out of
// the decoder).
func framingOnlyHelper(g *ssa.Function, depth int) bool {
	if len(g.Blocks) == 0 || depth < 0 {
		return false
	}
	for _, c := range core.Calls(g) {
		if _, ok := c.Common().Value.(*ssa.Builtin); ok {
			continue
		}
		name := core.CallName(c)
		switch {
		case strings.HasPrefix(name, "fmt."), strings.HasPrefix(name, "errors."), strings.HasPrefix(name, "encoding/binary."),
			strings.HasPrefix(name, "logging."), strings.Contains(name, "logging.Logger"), strings.HasPrefix(name, "dynamic:logging"):
			continue
		}
		if h := core.StaticCallee(c); h != nil && core.PkgOf(h) == "vm" && framingOnlyHelper(h, depth-1) {
			continue
		}
		return false
	}
	return true
}

// checkDecodersWriteNoGlobals (C15 R13): decoding is a pure function of the bytes. A decoder that
// writes process-wide state (an interning table, a statistics counter, a memo) can be crashed by
// bytes alone once two sessions decode at the same time - "fatal error: concurrent map writes" is
// not recoverable - and a memo keyed by content makes the verdict on one byte string depend on
// what was decoded before. No function reachable from the Parse* functions of package vm stores to
// a package-level variable of the library or updates a map or element reached through one.
func checkDecodersWriteNoGlobals(w *core.World, r *core.Report, rule string) {
	var roots []*ssa.Function
	for _, fn := range w.FuncsIn("vm") {
		if fn.Signature.Recv() == nil && strings.HasPrefix(fn.Name(), "Parse") && fn.Object() != nil && fn.Object().Exported() {
			roots = append(roots, fn)
		}
	}
	if ph := w.Func("vm", "(*ParseHandler).ParseAll"); ph != nil {
		roots = append(roots, ph)
	}
	reach, pred := reachable(w, roots)
	bad := ""
	var badPos token.Pos
	n := 0
	for fn := range reach {
		if !w.InLib(fn) {
			continue
		}
		n++
		for _, in := range allInstrs(fn) {
			var g *ssa.Global
			switch t := in.(type) {
			case *ssa.Store:
				g = core.GlobalOf(t.Addr)
				if g == nil {
					if ia, ok := t.Addr.(*ssa.IndexAddr); ok {
						g = core.GlobalOf(ia.X)
					}
					if fa, ok := t.Addr.(*ssa.FieldAddr); ok {
						g = core.GlobalOf(fa.X)
					}
				}
			case *ssa.MapUpdate:
				g = core.GlobalOf(t.Map)
			}
			if g != nil && g.Pkg != nil && w.InLib(fn) && strings.HasPrefix(g.Pkg.Pkg.Path(), core.ModPath) && fn.Name() != "init" {
				bad = fmt.Sprintf("%s writes %s at %s (%s)", core.QName(fn), g.Name(), w.Pos(in.Pos()), callPath(w, pred, fn))
				badPos = in.Pos()
			}
		}
	}
	r.Check(bad == "", rule, "bytecode decoders write no package-level state", badPos, fmt.Sprintf("%d library functions reachable from %d decoder entry points, none writes a package-level variable", n, len(roots)),
		"decoding writes process-wide state: two sessions decoding at the same time can abort the process on bytes alone (concurrent map write), and what one byte string decodes to can depend on what was decoded before: "+bad)
	r.Floor(rule, "decoder entry points", len(roots), 10)
}

// checkHookContinuesOnlyUnblocked (C20 R12, C06 R13): the pre-VM hook cleans up after itself with a
// deferred ResetFlag(TERMINATE) (an open finding of its own). A terminated session nevertheless
// stays blocked across a request because the hook then answers "do not continue": the engine is not
// marked initialised and Finish stores nothing. So once that deferred reset is registered, the hook
// may answer "continue" only where TERMINATE was tested unset: every place where true becomes the
// hook's first result is, on every path from the registration, behind the TERMINATE-unset edge.
func checkHookContinuesOnlyUnblocked(w *core.World, r *core.Report, rule string, fTerm int64) {
	er := resolveEngineRoles(w)
	hook := er.PreVmHook
	if hook == nil {
		r.Undecided(rule, "engine pre-VM hook", token.NoPos, "role not resolved")
		return
	}
	r.Touch(core.QName(hook))
	var defers []ssa.Instruction
	for _, c := range flagConstCalls(hook, fTerm, stResetFlag) {
		if d, ok := c.(*ssa.Defer); ok {
			defers = append(defers, d)
		}
	}
	if len(defers) == 0 {
		r.OK(rule, "engine pre-VM hook: no deferred reset of TERMINATE", hook.Pos(), "nothing to guard")
		return
	}
	// the points where true becomes the first result
	points := map[ssa.Instruction]bool{}
	isTrue := func(v ssa.Value) bool {
		c, ok := v.(*ssa.Const)
		return ok && c.Value != nil && c.Value.String() == "true"
	}
	seen := map[ssa.Value]bool{}
	var collect func(v ssa.Value, at ssa.Instruction)
	collect = func(v ssa.Value, at ssa.Instruction) {
		if v == nil || seen[v] && !isTrue(v) {
			return
		}
		seen[v] = true
		switch t := v.(type) {
		case *ssa.Const:
			if isTrue(t) && at != nil {
				points[at] = true
			}
		case *ssa.Phi:
			for i, e := range t.Edges {
				pb := t.Block().Preds[i]
				collect(e, pb.Instrs[len(pb.Instrs)-1])
			}
		case *ssa.UnOp:
			if a, ok := t.X.(*ssa.Alloc); ok && t.Op == token.MUL {
				if refs := a.Referrers(); refs != nil {
					for _, u := range *refs {
						if st, ok := u.(*ssa.Store); ok && st.Addr == ssa.Value(a) {
							collect(st.Val, st)
						}
					}
				}
			}
		}
	}
	for _, in := range allInstrs(hook) {
		if ret, ok := in.(*ssa.Return); ok && len(ret.Results) > 0 {
			collect(core.ReturnValue(ret, 0), ret)
		}
	}
	unset, tests := flagTestEdges(hook, fTerm, false)
	cut := core.NewCut().AddEdge(unset...)
	bad := ""
	var badPos token.Pos
	for _, d := range defers {
		hit, path := core.Reach(core.After(d), func(in ssa.Instruction) bool { return points[in] }, cut)
		if hit != nil {
			bad = fmt.Sprintf("'continue' at %s is reached from the deferred reset at %s without passing a TERMINATE-unset edge: %s", w.Pos(hit.Pos()), w.Pos(d.Pos()), w.PathString(path))
			badPos = hit.Pos()
		}
	}
	r.Check(bad == "" && len(tests) > 0 && len(points) > 0, rule, "engine pre-VM hook: answers 'continue' only where TERMINATE was tested unset", badPos,
		fmt.Sprintf("%d place(s) set the result true, all behind the TERMINATE-unset edge once the deferred reset is registered", len(points)),
		"the hook clears TERMINATE on its way out and still tells the engine to go on: a terminated session is initialised, run and saved without the flag - the block is lifted by the library, not by client code: "+bad)
}

// checkRenderConsumesDirty (C20 R13): a terminated session is silent - "no output, nothing runs" -
// because the request that terminated it consumed DIRTY when it was flushed and Vm.Run refuses to
// raise it again while TERMINATE is set. That only holds if Vm.Render consumes DIRTY whether or not
// the render succeeds: a render that fails on the terminating request would otherwise leave DIRTY
// in the saved state, and every later blocked request renders again. Every return of Vm.Render,
// error returns included, passes a constant ResetFlag(FLAG_DIRTY).
func checkRenderConsumesDirty(w *core.World, r *core.Report, rule string, fDirty int64) {
	render := anchor(w, r, "vm", "(*Vm).Render")
	if render == nil {
		return
	}
	cut := cutWithHelpers(w, render, func(fn *ssa.Function, cut *core.Cut) {
		for _, c := range flagConstCalls(fn, fDirty, stResetFlag) {
			if _, isDefer := c.(*ssa.Defer); !isDefer {
				cut.AddInstr(c.(ssa.Instruction))
			}
		}
	}, 1)
	deferred := false
	for _, c := range flagConstCalls(render, fDirty, stResetFlag) {
		if _, isDefer := c.(*ssa.Defer); isDefer {
			deferred = true
		}
	}
	unsetEdges, _ := flagTestEdges(render, fDirty, false)
	cut.AddEdge(unsetEdges...) // nothing to consume where DIRTY was tested unset
	hit, path := core.Reach(core.Entry(render), core.IsReturn, cut)
	if deferred {
		hit = nil
	}
	var pos token.Pos
	if hit != nil {
		pos = hit.Pos()
	}
	r.Check(hit == nil, rule, "vm.(*Vm).Render: DIRTY is consumed on every path", pos, "every return passes ResetFlag(FLAG_DIRTY)",
		"a render that fails leaves DIRTY set: when that happens on the request that terminated the session the flag is saved with TERMINATE, and every later blocked request renders the node again - output although nothing ran: "+w.PathString(path))
}

// checkInjectionDependsOnSessionLanguageOnly (C18 R11): the engine puts the session's language on
// the context it hands to the VM and the renderer whenever the session has one. Nothing else may
// decide: in particular not whether the caller's context already carries a language (a host
// default) - the selected language has to replace it. In every function of package engine that
// injects (context.WithValue with key "Language"), from the 'State.Language is set' edge every path
// reaches the injection before it reaches any call other than logging, or a return.
func checkInjectionDependsOnSessionLanguageOnly(w *core.World, r *core.Report, rule string) {
	n := 0
	for _, fn := range w.FuncsIn("engine") {
		var inj []ssa.Instruction
		for _, c := range core.CallsTo(fn, "context.WithValue") {
			args := core.CallArgs(c)
			if len(args) == 3 {
				if mi, ok := args[1].(*ssa.MakeInterface); ok {
					if s, ok := core.ConstString(mi.X); ok && s == "Language" {
						inj = append(inj, c.(ssa.Instruction))
					}
				}
			}
		}
		if len(inj) == 0 {
			continue
		}
		r.Touch(core.QName(fn))
		cut := core.NewCut().AddInstr(inj...)
		for _, in := range allInstrs(fn) {
			v, ok := in.(ssa.Value)
			if !ok {
				continue
			}
			if tn, f, ok := core.LoadedField(v); !ok || tn != "state.State" || f != "Language" {
				continue
			}
			for _, ce := range core.NilTestEdges(v) {
				if ce.Val {
					continue // the 'no language' edge
				}
				n++
				hit, path := core.ReachEdge(ce.E, func(x ssa.Instruction) bool {
					if _, ok := x.(*ssa.Return); ok {
						return true
					}
					c, ok := x.(ssa.CallInstruction)
					if !ok {
						return false
					}
					if _, isB := c.Common().Value.(*ssa.Builtin); isB {
						return false
					}
					name := core.CallName(c)
					return !strings.Contains(name, "logging")
				}, cut)
				var pos token.Pos
				detail := ""
				if hit != nil {
					pos = hit.Pos()
					detail = fmt.Sprintf("%s at %s is reached first: %s", instrDesc(hit), w.Pos(hit.Pos()), w.PathString(path))
				}
				key := fmt.Sprintf("%s: injection follows the 'language set' edge", core.QName(fn))
				if n > 1 {
					key = fmt.Sprintf("%s #%d", key, n)
				}
				r.Check(hit == nil, rule, key, pos, "nothing but logging between the test and context.WithValue",
					"something other than the session's language decides whether it is put on the context: where the caller's context already carries a language (a host default) the selected language does not replace it, and templates, menus and external code are looked up in the wrong language: "+detail)
			}
		}
	}
	r.Floor(rule, "'language set' edges in injecting functions of package engine", n, 1)
}

func instrDesc(in ssa.Instruction) string {
	if c, ok := in.(ssa.CallInstruction); ok {
		return "the call of " + core.CallName(c)
	}
	if _, ok := in.(*ssa.Return); ok {
		return "a return"
	}
	return fmt.Sprintf("%T", in)
}

// checkSetLanguageAlwaysSets (C18 R12): a language switch the application asked for (LANG flag and a
// code as content) must take effect or be refused - never be acknowledged and dropped. Every success
// return of State.SetLanguage passes a store to State.Language: no shortcut ("looks like the current
// language already") answers for the resolution of the code.
func checkSetLanguageAlwaysSets(w *core.World, r *core.Report, rule string) {
	fn := anchor(w, r, "state", "(*State).SetLanguage")
	if fn == nil {
		return
	}
	cut := core.NewCut()
	n := 0
	for _, in := range allInstrs(fn) {
		if st, ok := in.(*ssa.Store); ok {
			if tn, f, ok := core.FieldOfAddr(st.Addr); ok && tn == "state.State" && f == "Language" {
				cut.AddInstr(st)
				n++
			}
		}
	}
	hit, path := core.Reach(core.Entry(fn), isSuccessReturnPred(fn), cut)
	var pos token.Pos
	if hit != nil {
		pos = hit.Pos()
	}
	r.Check(hit == nil && n > 0, rule, "state.(*State).SetLanguage: success means the language was stored", pos, fmt.Sprintf("every success return passes one of %d store(s) to State.Language", n),
		"SetLanguage can report success without storing a language: a switch is acknowledged and dropped (a two-letter code that is a prefix of the current three-letter code, say), and every later lookup and the saved session stay in the old language: "+w.PathString(path))
}

// checkListedKeysPassDecodeKey (C11 R14): "data written under one session id is never listed for a
// different session id". In a listing the rows come from a range or prefix query (Postgres) or a
// directory scan (filesystem) that can deliver foreign rows - a session id with a pattern
// character, a sibling session whose id extends this one. The one place that refuses them is
// DbBase.DecodeKey, which checks the session prefix (C11 R10). Every key a back end's listing hands
// out - the first entry given to Dumper.WithFirst and every non-nil key returned by its iterator
// function - is the result of DecodeKey.
func checkListedKeysPassDecodeKey(w *core.World, r *core.Report, rule string) {
	n := 0
	for _, pkg := range []string{"db/fs", "db/postgres"} {
		for _, fn := range w.FuncsIn(pkg) {
			sig := fn.Signature
			isIter := sig.Recv() != nil && sig.Params().Len() == 1 && sig.Results().Len() == 2 &&
				core.ByteLike(sig.Results().At(0).Type()) && core.ByteLike(sig.Results().At(1).Type()) &&
				strings.HasSuffix(sig.Params().At(0).Type().String(), "context.Context")
			var keys []ssa.Value
			var poss []token.Pos
			for _, c := range core.Calls(fn) {
				if strings.HasSuffix(core.CallName(c), "Dumper).WithFirst") {
					if a := core.CallArgs(c); len(a) >= 2 {
						keys = append(keys, a[1])
						poss = append(poss, c.Pos())
					}
				}
			}
			if isIter {
				for _, in := range allInstrs(fn) {
					if ret, ok := in.(*ssa.Return); ok && len(ret.Results) == 2 {
						if v := core.ReturnValue(ret, 0); v != nil && !core.IsNilConst(v) {
							keys = append(keys, v)
							poss = append(poss, ret.Pos())
						}
					}
				}
			}
			for i, k := range keys {
				n++
				r.Touch(core.QName(fn))
				ok, what := keyPassedDecode(k, 2)
				r.Check(ok, rule, fmt.Sprintf("%s listing (%s): key handed out #%d passed DecodeKey", pkg, fn.Name(), i+1), poss[i], "result of DbBase.DecodeKey",
					"a listing hands out a key that did not pass DecodeKey's session check: rows of another session that the range/prefix query or the directory scan delivers (a session id with a pattern character, a sibling id) are listed with their values: the key derives from "+what)
			}
		}
	}
	r.Floor(rule, "keys handed out by listings", n, 4)
}

// isSessionCheckingDecode: a call of DbBase.DecodeKey, or of a back end's own DecodeKey in which
// every success return lies behind a call of DbBase.DecodeKey (the filesystem back end wraps it to
// undo its base64 encoding).
func isSessionCheckingDecode(c *ssa.Call) bool {
	if strings.HasSuffix(core.CallName(c), "DbBase).DecodeKey") {
		return true
	}
	g := core.StaticCallee(c)
	if g == nil || g.Name() != "DecodeKey" || len(g.Blocks) == 0 {
		return false
	}
	cut := core.NewCut()
	n := 0
	for _, cc := range core.Calls(g) {
		if strings.HasSuffix(core.CallName(cc), "DbBase).DecodeKey") {
			cut.AddInstr(cc.(ssa.Instruction))
			n++
		}
	}
	if n == 0 {
		return false
	}
	hit, _ := core.Reach(core.Entry(g), isSuccessReturnPred(g), cut)
	return hit == nil
}

// keyPassedDecode: every source of v is nil or result 0 of a session-checking DecodeKey, looking
// through results of static helpers (two levels).
func keyPassedDecode(v ssa.Value, depth int) (bool, string) {
	for _, src := range core.Sources(v) {
		if cst, isC := src.(*ssa.Const); isC && cst.IsNil() {
			continue
		}
		c, idx, isX := core.ExtractOf(src)
		if !isX {
			return false, valueDesc(src)
		}
		if idx == 0 && isSessionCheckingDecode(c) {
			continue
		}
		g := core.StaticCallee(c)
		if g == nil || len(g.Blocks) == 0 || depth <= 0 || g.Name() == "DecodeKey" {
			return false, fmt.Sprintf("result %d of %s", idx, core.CallName(c))
		}
		for _, in := range allInstrs(g) {
			ret, ok := in.(*ssa.Return)
			if !ok || idx >= len(ret.Results) {
				continue
			}
			rv := core.ReturnValue(ret, idx)
			if rv == nil || core.IsNilConst(rv) {
				continue
			}
			if ok2, what := keyPassedDecode(rv, depth-1); !ok2 {
				return false, what + " (through " + core.QName(g) + ")"
			}
		}
	}
	return true, ""
}

// checkCommentTokenClass (C16 R12): a '#' starts a comment, and a comment is not assembled. The
// lexer's constant rule table (read from the initialiser, rules tried in table order) is evaluated
// on a fixed set of comment spellings - bare '#', '#' directly followed by a word, by a digit, by a
// blank: for every one the first rule that matches at the '#' is one and the same token class and
// takes the rest of the line. If another class (a symbol class that admits '#', say) can take the
// text after a '#', a trailing comment written without a blank becomes an operand of the
// instruction before it.
func checkCommentTokenClass(w *core.World, r *core.Report, rule string) {
	var initFn *ssa.Function
	if sp := w.SSA["asm"]; sp != nil {
		initFn = sp.Func("init")
	}
	if initFn == nil {
		r.Undecided(rule, "assembler lexer rules", token.NoPos, "package initialiser of asm not found")
		return
	}
	rules := lexerRuleTable(initFn)
	if len(rules) == 0 {
		r.Undecided(rule, "assembler lexer rules", initFn.Pos(), "no constant lexer rule table found in the initialiser")
		return
	}
	type comp struct {
		name string
		re   *regexp.Regexp
	}
	var cs []comp
	for _, rl := range rules {
		re, err := regexp.Compile("^(?:" + rl.pat + ")")
		if err != nil {
			r.Undecided(rule, "assembler lexer rule "+rl.name, initFn.Pos(), "pattern does not compile: "+err.Error())
			return
		}
		cs = append(cs, comp{rl.name, re})
	}
	probes := []string{"#", "#x", "#wait here", "# a comment", "#9", "#_", "#HALT"}
	class := ""
	bad := ""
	for _, p := range probes {
		first, full := "", false
		for _, c := range cs {
			if m := c.re.FindString(p); m != "" {
				first, full = c.name, m == p
				break
			}
		}
		switch {
		case first == "":
			bad = fmt.Sprintf("no token class matches %q", p)
		case !full:
			bad = fmt.Sprintf("%q is not taken to the end of the line by class %s", p, first)
		case class == "":
			class = first
		case class != first:
			bad = fmt.Sprintf("%q is read as %s, other comments as %s", p, first, class)
		}
	}
	r.Touch("asm.init")
	r.Check(bad == "", rule, "assembler lexer: one comment token class", initFn.Pos(), fmt.Sprintf("all %d comment spellings are one %s token to the end of the line", len(probes), class),
		"a '#' does not always start a comment: the text after it can be read as an operand of the instruction before it, so the bytecode contains arguments the author wrote as a comment: "+bad)
}

// checkParsedArgsNotRewritten (C16 R13): the operands of a line are captured by the grammar into the
// fields of asm.Arg (by the parser library, through reflection) and read by the line emitters and
// the batch menu processor, each in its own layout: for UP/NEXT/PREVIOUS lines the selector is in
// Arg.Sym and the label in Arg.Selector. A rewrite of the captured fields between parsing and
// emission (a "normalisation" that swaps them when one is the wildcard) is right for one layout and
// wrong for the other. No function of package asm stores to a field of asm.Arg.
func checkParsedArgsNotRewritten(w *core.World, r *core.Report, rule string) {
	bad := ""
	var badPos token.Pos
	n := 0
	for _, fn := range w.FuncsIn("asm") {
		n++
		for _, in := range allInstrs(fn) {
			if st, ok := in.(*ssa.Store); ok {
				if tn, f, ok := core.FieldOfAddr(st.Addr); ok && tn == "asm.Arg" {
					bad = fmt.Sprintf("%s stores Arg.%s at %s", core.QName(fn), f, w.Pos(st.Pos()))
					badPos = st.Pos()
				}
			}
		}
	}
	r.Check(bad == "" && n > 0, rule, "assembler: captured operands are not rewritten before emission", badPos, fmt.Sprintf("%d functions of package asm, none stores a field of asm.Arg", n),
		"the operands the grammar captured are changed before the line is emitted: what is a legacy reordering for one instruction layout swaps selector and label in another (UP * back becomes MOUT * back ... INCMP _ back): "+bad)
}

// checkAsmWriterErrorsChecked (C16 R14): the assembler's writers refuse what cannot be encoded (a
// symbol longer than 255 bytes). A refusal that is dropped leaves the line half-written: the opcode
// without its operand. For every call, in package asm, of a function of package asm whose last
// result is an error (writers, line emitters, the batcher's steps), the error value is used: tested
// for nil, returned, or handed on. A call whose error result is never read is a violation.
func checkAsmWriterErrorsChecked(w *core.World, r *core.Report, rule string) {
	n := 0
	perFn := map[string]int{}
	for _, fn := range w.FuncsIn("asm") {
		for _, c := range core.Calls(fn) {
			call, ok := c.(*ssa.Call)
			g := core.StaticCallee(c)
			if !ok || g == nil || core.PkgOf(g) != "asm" {
				continue
			}
			res := g.Signature.Results()
			if res.Len() == 0 || res.At(res.Len()-1).Type().String() != "error" {
				continue
			}
			n++
			used := false
			if res.Len() == 1 {
				used = call.Referrers() != nil && len(*call.Referrers()) > 0
			} else if refs := call.Referrers(); refs != nil {
				for _, u := range *refs {
					if ex, ok := u.(*ssa.Extract); ok && ex.Index == res.Len()-1 {
						if er := ex.Referrers(); er != nil && len(*er) > 0 {
							used = true
						}
					}
					if _, ok := u.(*ssa.Return); ok {
						used = true // return f(...)
					}
				}
			}
			if used {
				continue
			}
			perFn[core.QName(fn)+"/"+g.Name()]++
			key := fmt.Sprintf("%s: error of %s", core.QName(fn), g.Name())
			if k := perFn[core.QName(fn)+"/"+g.Name()]; k > 1 {
				key = fmt.Sprintf("%s #%d", key, k)
			}
			r.Touch(core.QName(fn))
			r.Bad(rule, key, c.Pos(), "the error of an assembler step is dropped: when the writer refuses an operand (a symbol longer than 255 bytes) the line is flushed without it - the bytecode has the opcode but not the argument the author wrote, and Parse reports success")
		}
	}
	r.OK(rule, "assembler: errors of writers and emitters are used", token.NoPos, fmt.Sprintf("%d calls of error-returning functions of package asm examined", n))
	r.Floor(rule, "calls of error-returning assembler functions", n, 15)
}

// checkMenuItemsEmptiedAfterExpansion (C16 R15): batch menu lines are collected in the menu
// processor and expanded when the block ends. A source can hold several blocks; each must expand
// to its own lines only. In the function that expands (calls MenuProcessor.ToLines), every path
// from the expansion to a return empties the collection: a store of nil, an empty or fresh value to
// MenuProcessor.items or to the processor itself - or ToLines does so on every path to its return.
func checkMenuItemsEmptiedAfterExpansion(w *core.World, r *core.Report, rule string) {
	tl := w.Func("asm", "(*MenuProcessor).ToLines")
	if tl == nil {
		r.Undecided(rule, "asm.(*MenuProcessor).ToLines", token.NoPos, "anchor not found")
		return
	}
	empties := func(in ssa.Instruction) bool {
		st, ok := in.(*ssa.Store)
		if !ok {
			return false
		}
		if tn, f, ok := core.FieldOfAddr(st.Addr); ok {
			if tn == "asm.MenuProcessor" && f == "items" {
				if core.IsNilConst(st.Val) {
					return true
				}
				if sl, ok := core.Strip(st.Val).(*ssa.Slice); ok && sl.High != nil {
					if k, ok := core.ConstInt(sl.High); ok && k == 0 {
						return true
					}
				}
				if _, ok := core.Strip(st.Val).(*ssa.MakeSlice); ok {
					return true
				}
			}
			if tn == "asm.Batcher" && f == "menuProcessor" {
				return true // the processor is replaced as a whole
			}
		}
		return false
	}
	cutOf := func(fn *ssa.Function) *core.Cut {
		cut := core.NewCut()
		for _, in := range allInstrs(fn) {
			if empties(in) {
				cut.AddInstr(in)
			}
		}
		return cut
	}
	selfHit, _ := core.Reach(core.Entry(tl), core.IsReturn, cutOf(tl))
	n := 0
	for _, fn := range w.FuncsIn("asm") {
		for _, c := range core.CallsTo(fn, "asm.(*MenuProcessor).ToLines") {
			n++
			r.Touch(core.QName(fn))
			if selfHit == nil {
				r.OK(rule, core.QName(fn)+": items emptied after expansion", c.Pos(), "ToLines empties the collection itself")
				continue
			}
			hit, path := core.Reach(core.After(c.(ssa.Instruction)), core.IsReturn, cutOf(fn))
			r.Check(hit == nil, rule, core.QName(fn)+": items emptied after expansion", c.Pos(), "every path from the expansion to a return empties the menu processor",
				"the collected batch lines stay in the menu processor after they were expanded: a second menu block in the same source expands to the lines of the first block again plus its own - instructions the author did not write: "+w.PathString(path))
		}
	}
	r.Floor(rule, "expansion sites (calls of ToLines in package asm)", n, 1)
}

// checkLookupKeysShareNoMemory (C10 R15): ToKey hands every back end two byte strings, the default
// key and the translation key. The filesystem back end rewrites the first byte of each in place
// when it maps them to file names; the others use them as they are. The back ends only agree if
// the two keys share no memory: no value stored to LookupKey.Translation is the result of an
// append whose destination derives from the value of LookupKey.Default (spare capacity makes the
// two alias), and vice versa.
func checkLookupKeysShareNoMemory(w *core.World, r *core.Report, rule string) {
	n := 0
	bad := ""
	var badPos token.Pos
	for _, fn := range w.FuncsIn("db") {
		var defVals []ssa.Value
		var stores []*ssa.Store
		for _, in := range allInstrs(fn) {
			if st, ok := in.(*ssa.Store); ok {
				if tn, f, ok := core.FieldOfAddr(st.Addr); ok && tn == "db.LookupKey" && (f == "Default" || f == "Translation") {
					stores = append(stores, st)
					defVals = append(defVals, st.Val)
				}
			}
		}
		for _, st := range stores {
			n++
			r.Touch(core.QName(fn))
			_, f, _ := core.FieldOfAddr(st.Addr)
			for _, src := range core.Sources(st.Val) {
				c, ok := src.(*ssa.Call)
				if !ok || !core.IsCallTo(c, "builtin.append") || len(c.Call.Args) == 0 {
					continue
				}
				for _, d := range core.Sources(c.Call.Args[0]) {
					if _, f2, ok := core.LoadedField(d); ok && (f2 == "Default" || f2 == "Translation") && f2 != f {
						bad = fmt.Sprintf("%s: LookupKey.%s is append(LookupKey.%s, ...) at %s", core.QName(fn), f, f2, w.Pos(st.Pos()))
						badPos = st.Pos()
					}
					for _, dv := range defVals {
						if d == dv && dv != st.Val {
							bad = fmt.Sprintf("%s: LookupKey.%s is appended to the value stored as the other key at %s", core.QName(fn), f, w.Pos(st.Pos()))
							badPos = st.Pos()
						}
					}
				}
			}
		}
	}
	r.Check(bad == "" && n >= 2, rule, "db: the default and the translation key share no memory", badPos, fmt.Sprintf("%d stores to LookupKey.Default/Translation, none appends to the other key", n),
		"the translation key is built in the spare capacity of the default key: a back end that rewrites a key in place (the filesystem back end shifts the type byte of each) changes both, so the same write lands under another name than the other back ends and the documented layout use: "+bad)
}

// checkInitIgnoresRequestInput (C07 R14): the engine's initialisation runs once per engine object -
// at every request when an engine is made per request, once in a lifetime when it is long-lived.
// Whatever it decides on the request's input is therefore decided at different requests in the two
// set-ups (seeded change C07-O moved "empty input restarts the session" there). In the init role no
// branch condition derives from the input parameter: the input is only recorded and restored.
func checkInitIgnoresRequestInput(w *core.World, r *core.Report, rule string) {
	er := resolveEngineRoles(w)
	ini := er.Init
	if ini == nil {
		r.Undecided(rule, "engine init", token.NoPos, "role not resolved")
		return
	}
	r.Touch(core.QName(ini))
	var inputs []*ssa.Parameter
	for _, p := range ini.Params {
		if core.ByteLike(p.Type()) {
			inputs = append(inputs, p)
		}
	}
	bad := ""
	var badPos token.Pos
	n := 0
	for _, b := range ini.Blocks {
		iff, ok := b.Instrs[len(b.Instrs)-1].(*ssa.If)
		if !ok {
			continue
		}
		n++
		roots, _ := core.DeepSources(iff.Cond, nil)
		seen := map[ssa.Value]bool{}
		var walk func(v ssa.Value, d int)
		walk = func(v ssa.Value, d int) {
			if v == nil || seen[v] || d > 6 {
				return
			}
			seen[v] = true
			for _, p := range inputs {
				if v == ssa.Value(p) {
					bad = fmt.Sprintf("the branch at %s depends on the request input", w.Pos(iff.Pos()))
					badPos = iff.Cond.Pos()
				}
			}
			switch t := v.(type) {
			case *ssa.BinOp:
				walk(t.X, d+1)
				walk(t.Y, d+1)
			case *ssa.UnOp:
				walk(t.X, d+1)
			case *ssa.Call:
				if _, isB := t.Call.Value.(*ssa.Builtin); isB {
					for _, a := range t.Call.Args {
						walk(a, d+1)
					}
				}
			case *ssa.Phi:
				for _, e := range t.Edges {
					walk(e, d+1)
				}
			case *ssa.Convert:
				walk(t.X, d+1)
			case *ssa.Slice:
				walk(t.X, d+1)
			}
		}
		walk(iff.Cond, 0)
		for _, rt := range roots {
			walk(rt, 0)
		}
	}
	r.Check(bad == "" && n > 0, rule, "engine init: no decision on the request input", badPos, fmt.Sprintf("%d branch conditions, none derives from the input parameter", n),
		"the once-per-engine initialisation decides something on the request's input: a per-request engine decides it at every request, a long-lived engine only at its first - the two then stand at different nodes for the same history: "+bad)
}

// checkResultFlagsAlwaysApplied (C20 R15, C06 R13): external code blocks a session by returning
// TERMINATE in Result.FlagSet. The request must end blocked whatever else happens to the result -
// also when the cache refuses the content it came with. In the function that applies the flag
// lists (consuming reads of Result.FlagSet), every path from the entry to a return passes that
// read, or the failure edge of the external call itself (a failed call has no result to apply).
func checkResultFlagsAlwaysApplied(w *core.World, r *core.Report, rule string) {
	n := 0
	for _, fn := range w.LibFuncs {
		var reads []ssa.Instruction
		for _, in := range allInstrs(fn) {
			v, ok := in.(ssa.Value)
			if !ok {
				continue
			}
			if tn, f, ok := core.LoadedField(v); ok && tn == "resource.Result" && f == "FlagSet" && consumedValue(v) {
				reads = append(reads, in)
			}
		}
		if len(reads) == 0 {
			continue
		}
		n++
		r.Touch(core.QName(fn))
		cut := core.NewCut().AddInstr(reads...)
		for _, c := range core.Calls(fn) {
			if core.CallName(c) == "dynamic:resource.EntryFunc" {
				cut.AddEdge(errNonNilEdges(callErr(c))...)
			}
		}
		// a helper that is handed the list itself (applyFlags(r.FlagSet, ...)) is covered by the read.
		// Start behind the external call where the function makes it (returns before it have no
		// result to apply), at the entry where the result comes in as a parameter.
		starts := []core.Point{}
		for _, c := range core.Calls(fn) {
			if core.CallName(c) == "dynamic:resource.EntryFunc" {
				starts = append(starts, core.After(c.(ssa.Instruction)))
			}
		}
		if len(starts) == 0 {
			starts = append(starts, core.Entry(fn))
		}
		var hit ssa.Instruction
		var path []*ssa.BasicBlock
		for _, st := range starts {
			if h, p := core.Reach(st, core.IsReturn, cut); h != nil {
				hit, path = h, p
			}
		}
		var pos token.Pos
		if hit != nil {
			pos = hit.Pos()
		}
		r.Check(hit == nil, rule, core.QName(fn)+": requested flags applied on every path", pos, "every return passes the application of Result.FlagSet or the failure edge of the external call",
			"the flags external code asked for can be dropped: a return is reached without applying them although the call succeeded (the cache refused the content, say) - a requested TERMINATE is lost and the session keeps running: "+w.PathString(path))
	}
	r.Floor(rule, "functions applying Result.FlagSet", n, 1)
}

// checkLanguageDerefGuarded (C08 R14): State.Language is a pointer that stays nil until a language
// is selected, and SetLanguage leaves it alone for an unknown code - which is client-controlled
// content. On the request path every dereference of a value loaded from that field lies behind the
// non-nil edge of a nil test of the field in the same function.
func checkLanguageDerefGuarded(w *core.World, r *core.Report, rule string, reach map[*ssa.Function]bool) {
	n := 0
	for _, fn := range w.LibFuncs {
		if !reach[fn] || len(fn.Blocks) == 0 {
			continue
		}
		var loads []ssa.Value
		for _, in := range allInstrs(fn) {
			if v, ok := in.(ssa.Value); ok {
				if tn, f, ok := core.LoadedField(v); ok && tn == "state.State" && f == "Language" {
					loads = append(loads, v)
				}
			}
		}
		if len(loads) == 0 {
			continue
		}
		cut := core.NewCut()
		for _, l := range loads {
			for _, ce := range core.NilTestEdges(l) {
				if !ce.Val {
					cut.AddEdge(ce.E)
				}
			}
		}
		k := 0
		for _, l := range loads {
			refs := l.Referrers()
			if refs == nil {
				continue
			}
			for _, u := range *refs {
				deref := false
				switch t := u.(type) {
				case *ssa.UnOp:
					deref = t.Op == token.MUL && t.X == l
				case *ssa.FieldAddr:
					deref = t.X == l
				}
				if !deref {
					continue
				}
				n++
				k++
				r.Touch(core.QName(fn))
				hit, path := core.Reach(core.Entry(fn), core.IsInstr(u), cut)
				r.Check(hit == nil, rule, fmt.Sprintf("%s: State.Language dereferenced behind a nil test #%d", core.QName(fn), k), u.Pos(), "behind the non-nil edge",
					"State.Language is dereferenced where it can be nil (no language selected yet, or an unknown code that SetLanguage ignored): a client-chosen content crashes the request: "+w.PathString(path))
			}
		}
	}
	r.Floor(rule, "dereferences of State.Language on the request path", n, 3)
}

// checkHandleLanguageIsTheApplications (C18 R13): the session's language reaches a lookup through
// the context; the language set on a store handle belongs to the application (ToKey prefers it over
// the context). The library never sets it: outside package db and its back ends no library function
// calls SetLanguage on a db.Db or DbBase - a handle shared by sessions would otherwise stay pinned
// to the language of whoever looked something up last.
func checkHandleLanguageIsTheApplications(w *core.World, r *core.Report, rule string) {
	bad := ""
	var badPos token.Pos
	n := 0
	for _, fn := range w.LibFuncs {
		pk := core.PkgOf(fn)
		if pk == "db" || strings.HasPrefix(pk, "db/") {
			continue
		}
		n++
		for _, c := range core.Calls(fn) {
			name := core.CallName(c)
			if name == "db.Db.SetLanguage" || name == "db.(*DbBase).SetLanguage" || (strings.HasPrefix(name, "db/") && strings.HasSuffix(name, ").SetLanguage")) {
				bad = fmt.Sprintf("%s calls %s at %s", core.QName(fn), name, w.Pos(c.Pos()))
				badPos = c.Pos()
			}
		}
	}
	r.Check(bad == "" && n > 0, rule, "the library never sets the language of a store handle", badPos, fmt.Sprintf("%d library functions outside package db, none calls Db.SetLanguage", n),
		"the library sets the language on a store handle: ToKey prefers it over the context, so lookups made later through that handle - by the same session after a switch, or by another session sharing the resource - are answered in that language: "+bad)
}

// checkLabelsResolvedAfterBrowseEntries (C18 R14): menu labels are looked up through the resource
// (in the session's language) by the menu's resolver - the method of Menu that calls
// Resource.GetMenu. The lateral 'next'/'previous' entries are added to the menu by the browse step
// of Menu.Render (the method of Menu that Render calls and that puts the browse entries). Their
// labels are only translated if the resolver runs after that step: in Menu.Render every call of
// the resolver is reachable only through the browse step.
func checkLabelsResolvedAfterBrowseEntries(w *core.World, r *core.Report, rule string) {
	render := anchor(w, r, "render", "(*Menu).Render")
	if render == nil {
		return
	}
	var resolver, browse *ssa.Function
	for _, fn := range w.FuncsIn("render") {
		if fn.Signature.Recv() == nil || core.TypeName(fn.Signature.Recv().Type()) != "*render.Menu" {
			continue
		}
		if len(core.CallsTo(fn, "resource.Resource.GetMenu")) > 0 && fn != render {
			resolver = fn
		}
	}
	for _, c := range core.Calls(render) {
		g := core.StaticCallee(c)
		if g == nil || g.Signature.Recv() == nil || core.PkgOf(g) != "render" {
			continue
		}
		reads := false
		for _, in := range allInstrs(g) {
			if v, ok := in.(ssa.Value); ok {
				if _, f, ok := core.LoadedField(v); ok && (f == "canNext" || f == "canPrevious") {
					reads = true
				}
			}
		}
		if reads && len(core.CallsTo(g, "render.(*Menu).Put")) > 0 {
			browse = g
		}
	}
	if resolver == nil || browse == nil {
		r.Undecided(rule, "render.(*Menu).Render: resolver / browse step", render.Pos(), "roles not resolved")
		return
	}
	r.Touch(core.QName(render))
	cut := core.NewCut()
	for _, c := range core.Calls(render) {
		if core.StaticCallee(c) == browse {
			cut.AddInstr(c.(ssa.Instruction))
		}
	}
	n := 0
	bad := ""
	var badPos token.Pos
	for _, c := range core.Calls(render) {
		if core.StaticCallee(c) != resolver {
			continue
		}
		n++
		if hit, path := core.Reach(core.Entry(render), core.IsInstr(c.(ssa.Instruction)), cut); hit != nil {
			bad = "labels are resolved at " + w.Pos(c.Pos()) + " before the browse entries are added: " + w.PathString(path)
			badPos = c.Pos()
		}
	}
	r.Check(bad == "" && n > 0, rule, "render.(*Menu).Render: labels resolved after the browse entries were added", badPos, fmt.Sprintf("%d resolver call(s), all behind the browse step", n),
		"the 'next'/'previous' entries of a paged menu are printed with their raw symbols: their labels never reach the resource, so neither the session's language nor the default entry is used while the other items of the same menu are translated: "+bad)
}

// checkDownJudgesTopOnly (C03 R18): "the first matching INCMP decides the move" and "unmatched input
// goes to the catch node" both end in State.Down(target). A descent may be refused for the depth
// limit and for the immediate self-move only; a node that sits deeper in the stack (the catch node
// under a help page opened from it, an ancestor a menu jumps to by name) must be enterable again.
// In State.Down the only element of ExecPath that is read is the last one: every index into the
// path is len-1, and the path is neither ranged over nor handed to a searching function.
func checkDownJudgesTopOnly(w *core.World, r *core.Report, rule string) {
	down := anchor(w, r, "state", "(*State).Down")
	if down == nil {
		return
	}
	isPath := func(v ssa.Value) bool {
		for _, s := range core.Sources(v) {
			if tn, f, ok := core.LoadedField(s); ok && tn == "state.State" && f == "ExecPath" {
				return true
			}
		}
		return false
	}
	bad := ""
	var badPos token.Pos
	n := 0
	for _, in := range allInstrs(down) {
		switch t := in.(type) {
		case *ssa.IndexAddr:
			if !isPath(t.X) {
				continue
			}
			n++
			okIdx := false
			if bo, ok := core.Strip(t.Index).(*ssa.BinOp); ok && bo.Op == token.SUB {
				if k, ok := core.ConstInt(bo.Y); ok && k == 1 {
					if c, ok := core.Strip(bo.X).(*ssa.Call); ok && core.IsCallTo(c, "builtin.len") && isPath(c.Call.Args[0]) {
						okIdx = true
					}
				}
			}
			if !okIdx {
				bad = "the path is read at an index other than len-1 at " + w.Pos(t.Pos())
				badPos = t.Pos()
			}
		case *ssa.Range:
			if isPath(t.X) {
				bad = "the path is ranged over at " + w.Pos(t.Pos())
				badPos = t.Pos()
			}
		case ssa.CallInstruction:
			if _, isB := t.Common().Value.(*ssa.Builtin); isB {
				continue
			}
			name := core.CallName(t)
			if strings.HasPrefix(name, "fmt.") || strings.Contains(name, "logging") {
				continue
			}
			for _, a := range core.CallArgs(t) {
				if isPath(a) {
					bad = fmt.Sprintf("the path is handed to %s at %s", name, w.Pos(t.Pos()))
					badPos = t.Pos()
				}
			}
		}
	}
	r.Check(bad == "" && n > 0, rule, "state.(*State).Down: only the top of the stack is compared with the target", badPos, fmt.Sprintf("%d read(s) of the path, all at len-1", n),
		"a descent is refused for a node that is somewhere on the stack, not just on top: the catch node cannot be entered again from a page opened from it, a matching INCMP whose target is an ancestor no longer moves - Exec fails instead: "+bad)
}

// checkRunHasNoStepBudget (C03 R19): the property quantifies over any number of INCMP lines after a
// HALT; every one of them is an instruction Vm.Run steps through, matching or not. Vm.Run stops for
// an error of a handler, TERMINATE, WAIT and the end of the code - not for a count of instructions:
// no branch condition in Vm.Run (or the step helper only it calls) compares a counter, i.e. an
// integer phi that is incremented by a constant around the loop.
func checkRunHasNoStepBudget(w *core.World, r *core.Report, rule string) {
	run := anchor(w, r, "vm", "(*Vm).Run")
	if run == nil {
		return
	}
	bad := ""
	var badPos token.Pos
	n := 0
	for _, in := range allInstrs(run) {
		bo, ok := in.(*ssa.BinOp)
		if !ok {
			continue
		}
		switch bo.Op {
		case token.LSS, token.LEQ, token.GTR, token.GEQ, token.EQL, token.NEQ:
		default:
			continue
		}
		n++
		for _, side := range []ssa.Value{bo.X, bo.Y} {
			for _, s := range core.Sources(side) {
				if inc, ok := s.(*ssa.BinOp); ok && inc.Op == token.ADD {
					// the incremented value itself is compared: steps += 1; if steps > limit
					if _, isC := core.ConstInt(inc.Y); isC {
						s = core.Strip(inc.X)
					}
				}
				phi, ok := s.(*ssa.Phi)
				if !ok || !isIntegerType(phi.Type()) {
					continue
				}
				for _, e := range phi.Edges {
					if inc, ok := e.(*ssa.BinOp); ok && inc.Op == token.ADD {
						if _, isC := core.ConstInt(inc.Y); isC && core.Strip(inc.X) == ssa.Value(phi) {
							bad = "an instruction counter is compared at " + w.Pos(bo.Pos())
							badPos = bo.Pos()
						}
					}
				}
			}
		}
	}
	r.Touch(core.QName(run))
	r.Check(bad == "" && n > 0, rule, "vm.(*Vm).Run: no budget of instructions", badPos, fmt.Sprintf("%d comparisons, none on a loop counter", n),
		"Vm.Run gives up after a number of instructions: a node with more INCMP lines than the budget cannot be routed at all - neither the first match moves nor does unmatched input reach the catch node: "+bad)
}

func isIntegerType(t types.Type) bool {
	b, ok := t.Underlying().(*types.Basic)
	return ok && b.Info()&types.IsInteger != 0
}

// checkSizerWheneverOutputSizeSet (C01 R6): the size audit only runs when the VM has a Sizer. In the
// function of package engine that builds it (calls render.NewSizer), every path to a return - or to
// the construction of the VM - passes NewSizer or the edge on which Config.OutputSize was tested to
// be zero. No other configuration value may decide that a size-limited engine renders unaudited.
func checkSizerWheneverOutputSizeSet(w *core.World, r *core.Report, rule string) {
	n := 0
	for _, fn := range w.FuncsIn("engine") {
		mk := core.CallsTo(fn, "render.NewSizer")
		if len(mk) == 0 {
			continue
		}
		n++
		r.Touch(core.QName(fn))
		cut := core.NewCut()
		for _, c := range mk {
			cut.AddInstr(c.(ssa.Instruction))
		}
		nz := 0
		for _, in := range allInstrs(fn) {
			bo, ok := in.(*ssa.BinOp)
			if !ok {
				continue
			}
			x, op, c, ok := core.CmpConst(bo)
			if !ok || c != 0 {
				continue
			}
			isOS := false
			for _, s := range core.Sources(x) {
				if _, f, ok := core.LoadedField(s); ok && f == "OutputSize" {
					isOS = true
				}
			}
			if !isOS {
				continue
			}
			switch op {
			case token.EQL, token.LEQ:
				cut.AddEdge(core.EdgesWhere(bo, true)...)
				nz++
			case token.NEQ, token.GTR:
				cut.AddEdge(core.EdgesWhere(bo, false)...)
				nz++
			}
		}
		hit, path := core.Reach(core.Entry(fn), func(in ssa.Instruction) bool {
			if _, ok := in.(*ssa.Return); ok {
				return true
			}
			if c, ok := in.(ssa.CallInstruction); ok && core.IsCallTo(c, "vm.NewVm") {
				return true
			}
			return false
		}, cut)
		var pos token.Pos
		if hit != nil {
			pos = hit.Pos()
		}
		r.Check(hit == nil && nz > 0, rule, core.QName(fn)+": a Sizer whenever OutputSize is set", pos, "every path passes NewSizer or the OutputSize==0 edge",
			"an engine with an output size configured can be built without a Sizer: the final size audit never runs and Flush hands out pages of any length: "+w.PathString(path))
	}
	r.Floor(rule, "functions of package engine that build the Sizer", n, 1)
}

// checkLoadReadsTheStore (C11 R15, C07 R15): Persister.Load hands Deserialize the bytes that
// db.Db.Get returned in that call - nothing remembered from an earlier Save or Load. A remembered
// record is identified by the record key at best; the session selected on the store handle can have
// changed in between, so a session would be given another session's state and cache.
func checkLoadReadsTheStore(w *core.World, r *core.Report, rule, consequence string) {
	ld := anchor(w, r, "persist", "(*Persister).Load")
	if ld == nil {
		return
	}
	n := 0
	bad := ""
	var badPos token.Pos
	for _, c := range core.Calls(ld) {
		if !strings.HasSuffix(core.CallName(c), "Persister).Deserialize") {
			continue
		}
		args := core.CallArgs(c)
		if len(args) < 2 {
			continue
		}
		n++
		for _, src := range core.Sources(args[1]) {
			cc, idx, ok := core.ExtractOf(src)
			if !ok || idx != 0 || core.CallName(cc) != "db.Db.Get" {
				bad = "the bytes decoded at " + w.Pos(c.Pos()) + " derive from " + valueDesc(src)
				badPos = c.Pos()
			}
		}
	}
	r.Check(bad == "" && n > 0, rule, "persist.(*Persister).Load: decodes what the store returned in this call", badPos, fmt.Sprintf("%d Deserialize call(s) on the result of db.Db.Get", n), consequence+bad)
}
