package rules

import (
	"fmt"
	"go/token"

	"golang.org/x/tools/go/ssa"

	"vischeck/internal/core"
)

func init() {
	register("C20", PropCheck{
		Title:      "Session end restarts cleanly; termination stays blocked",
		Explain:    "Structural clauses: (R1) the dead-code check sets TERMINATE exactly on the 'not reading input' (READIN unset) edge, and Vm.Run consults it when code runs out; (R2) the engine marks a graceful end (exiting=true) only behind 'no code left' AND the DIRTY flag test, Flush runs the engine reset on every non-error path on which exiting may be set, and the reset unwinds State and cache in pairs (Up/Pop), restarts the state and clears TERMINATE and DIRTY on every success path; (R3) when no code is pending, init injects MOVE <configured root> as the code to run; (R4) blocked stays blocked: in exec the remaining code is only recorded behind the TERMINATE-unset edge after the run (a terminated run is never classified as a graceful end), Run dispatches nothing without passing the TERMINATE gate, and constant resets of TERMINATE exist only behind Run's own test and in the session-restart path, and no code outside package state stores to the flag bit field (a migration or copy of the field can drop TERMINATE; added after seeded change C20-H); (R5) the reset path writes flag bytes only as 'byte 0 := 0' or through the constant resets, so client flags (8 and up) are kept; (R6) Finish stores what the request left: every return of Finish passes Persister.Save, the initd==false edge or the no-persister edge - no other condition may skip the save, in particular not one that holds exactly after the unwind of a graceful end (added after seeded change C20-F); (R7) the destructive read of the last loaded value (Cache.Last) is not called - directly or through calls - on a path that leads to the call whose result the engine keeps as the exit value, so a debug hook or log line cannot empty the final page (added after seeded change C20-G). (R8) = C17 R5: every Save that Finish performs lies behind the initd==true edge, so what the pre-VM hook's clean-up did to a blocked session's flags is never stored (added after seeded change C20-I). (R9) = C17 R8 (Loop finishes the engine on every exit); (R10) every path to the INCMP handler's move passes the constant ResetFlag(FLAG_READIN) (added after seeded changes C20-K and C20-L). (R11) = C06 R12: the pending code is consumed when fetched. (R12) once the pre-VM hook's deferred ResetFlag(TERMINATE) is registered, every place where true becomes the hook's first result lies behind the TERMINATE-unset edge (added after seeded change C20-N). (R13) every return of Vm.Render, error returns included, passes ResetFlag(DIRTY) or the DIRTY-unset edge (added after seeded change C20-M). (R14) = C03 R10: State.Restart only from the engine's session restart (added after seeded change C20-O). (R15) the flags a successful external call asks for are applied on every path (added after seeded change C20-P, where a refused cache write returned before the flag loops).",
		NotDecided: "what later requests output over histories and back ends; that the restart point equals the application's intended entry node (it is the configured root).",
		Run:        runC20,
	})
}

func runC20(w *core.World, r *core.Report) {
	r.Rule("R1", "dead-code check: TERMINATE set exactly on the READIN-unset edge; consulted by Run")
	r.Rule("R2", "graceful end: exiting only behind no-code AND DIRTY; Flush resets whenever exiting; reset unwinds in pairs and clears TERMINATE, DIRTY")
	r.Rule("R3", "init injects MOVE <cfg.Root> when no code is pending")
	r.Rule("R4", "blocked stays blocked: TERMINATE test between run and setCode; gate in Run; who may clear TERMINATE")
	r.Rule("R6", "Finish saves whenever the engine was initialised and has a persister: every success return passes Persister.Save, the initd==false edge or the no-persister edge")
	r.Rule("R5", "the reset path keeps client flags")
	r.Rule("R15", "the flags a successful external call asks for are applied on every path (a refused cache write does not drop a requested TERMINATE)")
	r.Rule("R14", "State.Restart, which re-initialises the reserved flag byte (TERMINATE included), is called only by the engine's session restart (C03 R10)")
	r.Rule("R13", "Vm.Render consumes DIRTY on every path, failed renders included (a blocked session stays silent)")
	r.Rule("R12", "the pre-VM hook answers continue only where TERMINATE was tested unset (its deferred reset must not unblock a terminated session)")
	r.Rule("R11", "the pending code is consumed when the engine fetches it (C06 R12): a terminated or failed request does not save the lines it was given")
	r.Rule("R10", "a matched INCMP clears READIN before it moves (a later dead end then terminates instead of going to the catch node)")
	r.Rule("R9", "engine.Loop finishes (saves) the engine on every exit (C17 R8): an end inside the loop is stored")
	r.Rule("R8", "Finish saves only an initialised engine (C17 R5): what the pre-VM hook's clean-up did to a blocked session's flags is never stored")
	r.Rule("R7", "the last loaded value is not consumed before the engine takes it as the exit value")

	fTerm, ok1 := constOf(w, r, "state", "FLAG_TERMINATE")
	fRead, ok2 := constOf(w, r, "state", "FLAG_READIN")
	fDirty, ok3 := constOf(w, r, "state", "FLAG_DIRTY")
	if !(ok1 && ok2 && ok3) {
		return
	}
	checkExitValueNotConsumedEarlier(w, r, "R7")
	checkFinishSavesOnlyInitialised(w, r, "R8")
	checkLoopAlwaysFinishes(w, r, "R9")
	checkMatchClearsReadin(w, r, "R10")
	checkPendingCodeConsumed(w, r, "R11")
	checkRenderConsumesDirty(w, r, "R13", fDirty)
	checkRestartCallers(w, r, "R14")
	checkResultFlagsAlwaysApplied(w, r, "R15")
	checkHookContinuesOnlyUnblocked(w, r, "R12", fTerm)
	run := anchor(w, r, "vm", "(*Vm).Run")
	roles := resolveEngineRoles(w)
	labels := roleLabels(w, r)
	// ---- R1 -----------------------------------------------------------------------------------
	var dead *ssa.Function
	for _, fn := range w.FuncsIn("vm") {
		if fn == run || fn.Signature.Recv() == nil {
			continue
		}
		if _, tests := flagTestEdges(fn, fRead, true); len(tests) > 0 && len(flagConstCalls(fn, fTerm, stSetFlag)) > 0 {
			dead = fn
		}
	}
	if dead == nil {
		r.Bad("R1", "dead-code check: sets TERMINATE", token.NoPos, "no method of Vm sets FLAG_TERMINATE when code runs out: a session that runs out of code outside input handling is not terminated")
	} else {
		unset, tests := flagTestEdges(dead, fRead, false)
		for _, c := range flagConstCalls(dead, fTerm, stSetFlag) {
			ok, path := core.MustPass(c.(ssa.Instruction), core.NewCut().AddEdge(unset...))
			r.Check(ok && len(tests) > 0, "R1", core.QName(dead)+": TERMINATE only when not reading input", c.Pos(), "behind the READIN-unset edge", "TERMINATE is set on a path where input is being handled (the session should go to the catch node instead): "+w.PathString(path))
		}
		// and the READIN-unset edge always sets it
		for _, e := range unset {
			cut := core.NewCut()
			for _, c := range flagConstCalls(dead, fTerm, stSetFlag) {
				cut.AddInstr(c.(ssa.Instruction))
			}
			in, _ := core.Reach(core.Point{B: e.To(), I: 0}, core.IsReturn, cut)
			r.Check(in == nil, "R1", core.QName(dead)+": out of code outside input handling terminates", dead.Pos(), "every path behind READIN-unset sets TERMINATE", "running out of code outside input handling does not set TERMINATE on some path")
		}
		n := 0
		if run != nil {
			for _, c := range core.Calls(run) {
				if core.StaticCallee(c) == dead {
					n++
				}
			}
		}
		r.Check(n > 0, "R1", "vm.(*Vm).Run: consults the dead-code check", token.NoPos, "called from Run", "Run never consults the dead-code check")
	}

	// ---- R2 -----------------------------------------------------------------------------------
	nex := 0
	for _, fn := range w.FuncsIn("engine") {
		for _, b := range fn.Blocks {
			for _, in := range b.Instrs {
				st, ok := in.(*ssa.Store)
				if !ok {
					continue
				}
				if _, f, ok := core.FieldOfAddr(st.Addr); !ok || f != "exiting" {
					continue
				}
				if c, isC := st.Val.(*ssa.Const); !isC || c.Value.String() != "true" {
					continue
				}
				nex++
				r.Touch(core.QName(fn))
				dirtySet, tests := flagTestEdges(fn, fDirty, true)
				var noCode []core.Edge
				for _, bb := range fn.Blocks {
					for _, x := range bb.Instrs {
						bo, ok := x.(*ssa.BinOp)
						if !ok {
							continue
						}
						if x0, op0, k, isC := core.CmpConst(bo); isC && k == 0 {
							for _, s := range core.Sources(x0) {
								if lc, ok := s.(*ssa.Call); ok && core.IsCallTo(lc, "builtin.len") {
									switch op0 {
									case token.EQL, token.LEQ:
										noCode = append(noCode, core.EdgesWhere(bo, true)...)
									case token.GTR, token.NEQ:
										noCode = append(noCode, core.EdgesWhere(bo, false)...)
									}
								}
							}
						}
					}
				}
				ok1, _ := core.MustPass(st, core.NewCut().AddEdge(dirtySet...))
				ok2, _ := core.MustPass(st, core.NewCut().AddEdge(noCode...))
				r.Check(ok1 && ok2 && len(tests) > 0 && len(noCode) > 0, "R2", label(labels, fn)+": graceful end condition", st.Pos(), "exiting only behind len(code)==0 and DIRTY set",
					"the graceful-end marker is set under a different condition (not 'no code left and output pending'): a blocked or waiting session can be classified as ended and be reset")
			}
		}
	}
	r.Floor("R2", "exiting=true stores", nex, 1)
	_ = anchor(w, r, "engine", "(*DefaultEngine).Flush")
	resetFn := checkFlushResetsOnGracefulEnd(w, r, "R2")
	if resetFn != nil {
		r.Touch(core.QName(resetFn))
		for _, fc := range []struct {
			flag int64
			name string
		}{{fTerm, "TERMINATE"}, {fDirty, "DIRTY"}} {
			cut := core.NewCut()
			for _, c := range flagConstCalls(resetFn, fc.flag, stResetFlag) {
				cut.AddInstr(c.(ssa.Instruction))
			}
			in, path := core.Reach(core.Entry(resetFn), isSuccessReturnPred(resetFn), cut)
			r.Check(in == nil && len(cut.Instrs) > 0, "R2", core.QName(resetFn)+": clears "+fc.name, resetFn.Pos(), "on every success path", "the reset can finish without clearing "+fc.name+": "+w.PathString(path))
		}
		cut := core.NewCut()
		for _, c := range core.CallsTo(resetFn, "state.(*State).Restart") {
			cut.AddInstr(c.(ssa.Instruction))
		}
		in, _ := core.Reach(core.Entry(resetFn), isSuccessReturnPred(resetFn), cut)
		r.Check(in == nil, "R2", core.QName(resetFn)+": restarts the state", resetFn.Pos(), "State.Restart on every success path", "the reset can finish without restarting the state")
		checkRestartAfterUnwind(w, r, resetFn, "R2")
	}
	checkPairing(w, r, "R2", "engine")

	// ---- R3 -----------------------------------------------------------------------------------
	if roles.Init == nil {
		r.Undecided("R3", "engine init", token.NoPos, "no unexported method of DefaultEngine called by Exec marks the engine initialised")
	}
	if in := roles.Init; in != nil {
		moveOp, _ := constOf(w, r, "vm", "MOVE")
		ok := false
		for _, c := range core.CallsTo(in, "vm.NewLine") {
			a := core.CallArgs(c)
			if len(a) < 3 {
				continue
			}
			if op, isC := core.ConstInt(a[1]); !isC || op != moveOp {
				continue
			}
			roots, _ := core.DeepSources(a[2], nil)
			fromRoot := false
			for _, s := range roots {
				if _, f, isF := core.LoadedField(s); isF && f == "Root" {
					fromRoot = true
				}
			}
			// result reaches setCode / SetCode
			reaches := false
			for v := range core.Forward(core.CallValue(c), nil) {
				if refs := v.Referrers(); refs != nil {
					for _, u := range *refs {
						if cc, isCall := u.(ssa.CallInstruction); isCall && (core.IsCallTo(cc, "state.(*State).SetCode") || (roles.SetCode != nil && core.StaticCallee(cc) == roles.SetCode)) {
							reaches = true
						}
					}
				}
			}
			// behind len(Code)==0
			var noCode []core.Edge
			for _, bb := range in.Blocks {
				for _, x := range bb.Instrs {
					if bo, isBo := x.(*ssa.BinOp); isBo {
						if x0, op0, k, isC := core.CmpConst(bo); isC && (k == 0 || k == 1) {
							for _, s := range core.Sources(x0) {
								if lc, isL := s.(*ssa.Call); isL && core.IsCallTo(lc, "builtin.len") {
									if _, f, isF := core.LoadedField(lc.Call.Args[0]); isF && f == "Code" {
										// a length is zero exactly when: == 0, <= 0, < 1 hold; != 0, > 0, >= 1 fail
										switch {
										case k == 0 && (op0 == token.EQL || op0 == token.LEQ), k == 1 && op0 == token.LSS:
											noCode = append(noCode, core.EdgesWhere(bo, true)...)
										case k == 0 && (op0 == token.GTR || op0 == token.NEQ), k == 1 && op0 == token.GEQ:
											noCode = append(noCode, core.EdgesWhere(bo, false)...)
										}
									}
								}
							}
						}
					}
				}
			}
			guarded, _ := core.MustPass(c.(ssa.Instruction), core.NewCut().AddEdge(noCode...))
			if fromRoot && reaches && guarded && len(noCode) > 0 {
				ok = true
			}
		}
		r.Check(ok, "R3", "engine init: restart point", in.Pos(), "MOVE <cfg.Root> injected when no code is pending", "with no pending code the engine does not start at the configured entry node (or overrides pending code)")
	}

	// ---- R4 -----------------------------------------------------------------------------------
	if roles.ExecBackend == nil {
		r.Undecided("R4", "engine exec backend", token.NoPos, "no unexported method of DefaultEngine called by Exec runs the VM")
	}
	if ex := roles.ExecBackend; ex != nil {
		runCalls := core.CallsTo(ex, "vm.(*Vm).Run")
		setCalls := core.CallsTo(ex, "state.(*State).SetCode")
		if roles.SetCode != nil {
			setCalls = append(setCalls, callsToSet(ex, map[*ssa.Function]bool{roles.SetCode: true})...)
		}
		unset, tests := flagTestEdges(ex, fTerm, false)
		if len(runCalls) == 0 || len(setCalls) == 0 {
			r.Undecided("R4", "engine exec backend: Run / code recorder", ex.Pos(), "cannot find the VM run or the code store in exec")
		} else {
			isSet := func(in ssa.Instruction) bool {
				for _, s := range setCalls {
					if s.(ssa.Instruction) == in {
						return true
					}
				}
				return false
			}
			in, path := core.Reach(core.After(runCalls[0].(ssa.Instruction)), isSet, core.NewCut().AddEdge(unset...))
			r.Check(in == nil && len(tests) > 0, "R4", "engine exec backend: TERMINATE test before the code is recorded", runCalls[0].Pos(), "setCode only on the TERMINATE-unset edge",
				"a run that ended because TERMINATE is set is treated like a normal end (graceful-end detection, reset and unblocking may follow): "+w.PathString(path))
		}
	}
	checkDirtyBehindGate(w, r, "R4")
	// who may clear TERMINATE (same rule as C06 R5)
	nreset := 0
	for _, fn := range w.LibFuncs {
		for _, c := range flagConstCalls(fn, fTerm, stResetFlag) {
			nreset++
			key := label(labels, fn) + ": ResetFlag(FLAG_TERMINATE)"
			_, isDefer := c.(*ssa.Defer)
			unset, tests := flagTestEdges(fn, fTerm, false)
			if len(tests) > 0 && !isDefer {
				if ok, _ := core.MustPass(c.(ssa.Instruction), core.NewCut().AddEdge(unset...)); ok {
					r.OK("R4", key, c.Pos(), "no-op: only reached on the TERMINATE-unset edge")
					continue
				}
			}
			if !isDefer && behindFlagUnsetInCallers(w, fn, fTerm) {
				r.OK("R4", key, c.Pos(), "no-op: a helper whose every call site is only reached on the TERMINATE-unset edge")
				continue
			}
			if rs := core.CallsTo(fn, "state.(*State).Restart"); len(rs) > 0 && !isDefer {
				r.OK("R4", key, c.Pos(), "session restart")
				continue
			}
			r.Bad("R4", key, c.Pos(), "the library clears TERMINATE outside the session-restart path: a blocked session becomes unblocked without client code")
		}
	}
	r.Floor("R4", "constant TERMINATE resets", nreset, 2)
	// ... and nothing outside package state writes the bit field directly (same rule as C06 R3):
	// replacing or rewriting the field drops TERMINATE without passing ResetFlag
	for _, fn := range w.LibFuncs {
		if core.PkgOf(fn) == "state" {
			continue
		}
		for _, in := range allInstrs(fn) {
			if st, ok := in.(*ssa.Store); ok && addrIsStateFlags(st.Addr) {
				r.Bad("R4", label(labels, fn)+": store to State.Flags", st.Pos(), "the flag bit field is written outside package state: TERMINATE can be dropped without a ResetFlag call, which unblocks a terminated session")
			}
		}
	}

	// ---- R5 -----------------------------------------------------------------------------------
	if resetFn != nil {
		fns := map[*ssa.Function]bool{resetFn: true}
		for changed := true; changed; {
			changed = false
			for f := range fns {
				for _, c := range core.Calls(f) {
					if g := core.StaticCallee(c); g != nil && w.InLib(g) && !fns[g] && len(g.Blocks) > 0 && (core.PkgOf(g) == "state" || core.PkgOf(g) == "engine") {
						fns[g] = true
						changed = true
					}
				}
			}
		}
		n := 0
		for f := range fns {
			if f.Name() == "SetFlag" || f.Name() == "ResetFlag" {
				continue // reached with constant arguments only (checked by C06 R1 for dynamic ones)
			}
			for _, b := range f.Blocks {
				for _, in := range b.Instrs {
					st, ok := in.(*ssa.Store)
					if !ok || !addrIsStateFlags(st.Addr) {
						continue
					}
					n++
					okv := false
					if ia, isIA := st.Addr.(*ssa.IndexAddr); isIA {
						idx, isC := core.ConstInt(ia.Index)
						val, isV := core.ConstInt(st.Val)
						okv = isC && isV && idx == 0 && val == 0
					}
					r.Check(okv, "R5", core.QName(f)+": flag bytes written by the reset path", st.Pos(), "only byte 0 := 0", "the reset path writes flag bytes other than 'byte 0 := 0': client-defined flags (8 and up) are not kept across a session end")
				}
			}
		}
		r.OK("R5", "reset path scanned for flag-byte writes", resetFn.Pos(), fmt.Sprintf("%d functions, %d direct stores", len(fns), n))
	}
	checkFinishAlwaysSaves(w, r, "R6", "the restart written by a graceful end (or any other progress) is not stored, and the next request resumes the old position: ")
}

// checkFinishAlwaysSaves (C20 R6, C07 R11): Finish saves whenever the engine was initialised and has
// a persister - no other condition (nothing changed, no move made) may skip the save.
func checkFinishAlwaysSaves(w *core.World, r *core.Report, rule, consequence string) {
	if fin := anchor(w, r, "engine", "(*DefaultEngine).Finish"); fin != nil {
		nsave := 0
		cut := cutWithHelpers(w, fin, func(fn *ssa.Function, cut *core.Cut) {
			for _, c := range core.CallsTo(fn, "persist.(*Persister).Save") {
				cut.AddInstr(c.(ssa.Instruction))
				nsave++
			}
			for _, in := range allInstrs(fn) {
				if v, ok := in.(ssa.Value); ok && fn == fin {
					if _, f, ok := core.LoadedField(v); ok && f == "initd" {
						cut.AddEdge(core.EdgesWhere(v, false)...)
					}
				}
				if bo, ok := in.(*ssa.BinOp); ok && (bo.Op == token.EQL || bo.Op == token.NEQ) && core.IsNilConst(bo.Y) {
					if _, f, ok := core.LoadedField(bo.X); ok && f == "pe" {
						cut.AddEdge(core.EdgesWhere(bo, bo.Op == token.EQL)...)
					}
				}
			}
		}, 2)
		hit, path := core.Reach(core.Entry(fin), core.IsReturn, cut)
		r.Check(hit == nil && nsave > 0, rule, "engine.(*DefaultEngine).Finish: saves on every path of an initialised engine with a persister", fin.Pos(), "every return passes Save, initd==false or pe==nil",
			"Finish can return without saving although the engine ran and has a persister: "+consequence+w.PathString(path))
	}
}

// checkRestartAfterUnwind: State.Restart truncates the navigation stack, so in the reset it must
// come after the loop that unwinds State and cache level by level: every path to it passes the
// Top()==true exit of that loop.
func checkRestartAfterUnwind(w *core.World, r *core.Report, resetFn *ssa.Function, rule string) {
	cut := core.NewCut()
	for _, c := range core.CallsTo(resetFn, stTop) {
		if tc, ok := c.(*ssa.Call); ok {
			if tv := core.ResultOf(tc, 0); tv != nil {
				cut.AddEdge(core.EdgesWhere(tv, true)...)
			}
		}
	}
	for _, c := range core.CallsTo(resetFn, "vm.Rewind") {
		cut.AddInstr(c.(ssa.Instruction))
	}
	for _, c := range core.CallsTo(resetFn, "state.(*State).Restart") {
		ok, path := core.MustPass(c.(ssa.Instruction), cut)
		r.Check(ok && len(cut.Edges)+len(cut.Instrs) > 0, rule, core.QName(resetFn)+": Restart only after the unwind", c.Pos(), "behind the Top()==true exit of the unwinding loop",
			"the state is restarted (navigation stack truncated) before State and cache were unwound level by level: the unwinding loop then pops only one cache scope, the others leak into the next session: "+w.PathString(path))
	}
}

// checkDirtyBehindGate: in Vm.Run the DIRTY flag (output pending) is only set behind the
// TERMINATE-unset edge, so a blocked request produces no output.
func checkDirtyBehindGate(w *core.World, r *core.Report, rule string) {
	run := w.Func("vm", "(*Vm).Run")
	fTerm, ok1 := constOf(w, r, "state", "FLAG_TERMINATE")
	fDirty, ok2 := constOf(w, r, "state", "FLAG_DIRTY")
	if run == nil || !ok1 || !ok2 {
		return
	}
	unset, tests := flagTestEdges(run, fTerm, false)
	for _, c := range flagConstCalls(run, fDirty, stSetFlag) {
		ok, path := core.MustPass(c.(ssa.Instruction), core.NewCut().AddEdge(unset...))
		r.Check(ok && len(tests) > 0, rule, "vm.(*Vm).Run: DIRTY only when an instruction will run", c.Pos(), "behind the TERMINATE-unset edge",
			"output is marked pending although the session may be blocked: a terminated session then renders a page on every later request: "+w.PathString(path))
	}
}

// checkFlushResetsOnGracefulEnd: every non-error return of Flush passes the engine's reset (the
// function of the engine that restarts the state) or the exiting==false edge. Returns the reset.
func checkFlushResetsOnGracefulEnd(w *core.World, r *core.Report, rule string) *ssa.Function {
	fl := w.Func("engine", "(*DefaultEngine).Flush")
	if fl == nil {
		r.Undecided(rule, "engine.(*DefaultEngine).Flush", token.NoPos, "anchor not found")
		return nil
	}
	var resetFn *ssa.Function
	var exitingFalse []core.Edge
	for _, b := range fl.Blocks {
		for _, in := range b.Instrs {
			if v, ok := in.(ssa.Value); ok {
				if _, f, ok := core.LoadedField(v); ok && f == "exiting" {
					exitingFalse = append(exitingFalse, core.EdgesWhere(v, false)...)
				}
			}
		}
	}
	cut := core.NewCut().AddEdge(exitingFalse...)
	nreset := 0
	for _, c := range core.Calls(fl) {
		if g := core.StaticCallee(c); g != nil && core.PkgOf(g) == "engine" && len(core.CallsTo(g, "state.(*State).Restart")) > 0 {
			cut.AddInstr(c.(ssa.Instruction))
			resetFn = g
			nreset++
		}
	}
	in, path := core.Reach(core.Entry(fl), isSuccessReturnPred(fl), cut)
	r.Check(in == nil && nreset > 0 && len(exitingFalse) > 0, rule, "engine.(*DefaultEngine).Flush: reset on graceful end", fl.Pos(), "every non-error return passes the reset or the exiting==false edge",
		"Flush can deliver the final output of a gracefully ended session without resetting it: the session is persisted un-unwound and the next request starts below the old path with a stale cache: "+w.PathString(path))
	return resetFn
}
