package rules

import (
	"fmt"
	"go/token"
	"go/types"
	"strings"

	"golang.org/x/tools/go/ssa"

	"vischeck/internal/core"
)

// Class invariants and callee summaries for the library-wide bounds rule (C08 R7).
//
// The zone engine proves an index or slice from facts visible inside one function. A handful of
// accesses in the library are safe only because of something established elsewhere: the cache
// always holds at least one frame, the frame lookup returns -1 or a valid frame number, a storage
// key always starts with its type byte. Each such fact is (a) stated here, (b) CHECKED by its own
// structural rule over every place that could break it (inductive: the fact may be assumed while
// checking that every writer re-establishes it), and only then (c) handed to the zone engine as an
// extra fact through Bounds.Extra. A fact whose check fails is not handed over, so the accesses
// that depend on it are reported as unproved - and the failed check is reported itself.

type libFacts struct {
	fieldLenGE   map[string]int64         // "pkg.Type.Field" -> every load has len >= k
	nilOrLenGE   map[string]int64         // "pkg.Type.Field" -> nil, or len >= k (usable behind a non-nil test)
	idxSummary   map[*ssa.Function]string // function -> field key: result is negative or a valid index into recv.field
	idxWrapper   map[*ssa.Function]string // function (int, bool) -> field key: result 0 is such an index, result 1 says it is not negative
	lenResultGE  map[*ssa.Function]int64  // function -> every returned slice/string has len >= k
	fieldWriters map[string]map[*ssa.Function]bool
}

func fkey(tn, f string) string { return tn + "." + f }

// fieldWritersOf computes, per field, the functions that may store to it (directly or through a
// static callee of the module, depth 3).
func fieldWritersOf(w *core.World) map[string]map[*ssa.Function]bool {
	direct := map[*ssa.Function]map[string]bool{}
	for _, fn := range w.LibFuncs {
		m := map[string]bool{}
		for _, in := range allInstrs(fn) {
			if st, ok := in.(*ssa.Store); ok {
				if tn, f, ok := core.FieldOfAddr(st.Addr); ok {
					m[fkey(tn, f)] = true
				}
			}
		}
		direct[fn] = m
	}
	out := map[string]map[*ssa.Function]bool{}
	add := func(k string, fn *ssa.Function) {
		if out[k] == nil {
			out[k] = map[*ssa.Function]bool{}
		}
		out[k][fn] = true
	}
	for _, fn := range w.LibFuncs {
		seen := map[*ssa.Function]bool{}
		var walk func(g *ssa.Function, d int)
		walk = func(g *ssa.Function, d int) {
			if g == nil || seen[g] || d > 3 {
				return
			}
			seen[g] = true
			for k := range direct[g] {
				add(k, fn)
			}
			for _, c := range core.Calls(g) {
				walk(core.StaticCallee(c), d+1)
			}
			for _, a := range g.AnonFuncs {
				walk(a, d+1)
			}
		}
		walk(fn, 0)
	}
	return out
}

// installFacts makes the zone engine of one function use the checked facts.
func (lf *libFacts) install(bd *core.Bounds) {
	bd.Extra = func(b *core.Bounds, z *core.Zone, vals []ssa.Value, before ssa.Instruction) {
		fn := b.Fn
		for _, v := range vals {
			if tn, f, ok := core.LoadedField(v); ok {
				if k, ok := lf.fieldLenGE[fkey(tn, f)]; ok {
					if lt, off, ok := core.LenTerm(v); ok {
						z.AddLE(core.Zero, lt, off-k)
					}
				}
			}
			if ex, isEx := v.(*ssa.Extract); isEx && ex.Index == 0 && lf.idxWrapper != nil {
				if tc, isC := ex.Tuple.(*ssa.Call); isC {
					if g := core.StaticCallee(tc); g != nil {
						if fld, ok := lf.idxWrapper[g]; ok && len(tc.Call.Args) > 0 && !lf.fieldWriters[fld][fn] {
							z.AddLE(core.Zero, core.ValTerm(ex), 1)
							recv := tc.Call.Args[0]
							for _, l := range vals {
								u, ok := l.(*ssa.UnOp)
								if !ok || u.Op != token.MUL {
									continue
								}
								fa, ok := u.X.(*ssa.FieldAddr)
								if !ok || fa.X != recv {
									continue
								}
								if tn, f, ok := core.LoadedField(l); ok && fkey(tn, f) == fld {
									if lt, off, ok := core.LenTerm(l); ok {
										z.AddLE(core.ValTerm(ex), lt, off-1)
									}
								}
							}
							// behind the "found" result of the same call the index is not negative
							for _, dc := range core.DominatingConds(before.Block()) {
								if fx, ok := dc.Cond.(*ssa.Extract); ok && fx.Tuple == ex.Tuple && fx.Index == 1 && dc.Truth {
									z.AddLE(core.Zero, core.ValTerm(ex), 0)
								}
							}
						}
					}
				}
			}
			c, ok := v.(*ssa.Call)
			if !ok {
				continue
			}
			g := core.StaticCallee(c)
			if g == nil {
				continue
			}
			if k, ok := lf.lenResultGE[g]; ok {
				if lt, off, ok := core.LenTerm(c); ok {
					z.AddLE(core.Zero, lt, off-k)
				}
			}
			if fld, ok := lf.idxSummary[g]; ok && len(c.Call.Args) > 0 && !lf.fieldWriters[fld][fn] {
				// result >= -1, and below the length of every load of recv.field in this function
				// (the field is not written anywhere in this function or its callees)
				z.AddLE(core.Zero, core.ValTerm(c), 1)
				recv := c.Call.Args[0]
				for _, l := range vals {
					u, ok := l.(*ssa.UnOp)
					if !ok || u.Op != token.MUL {
						continue
					}
					fa, ok := u.X.(*ssa.FieldAddr)
					if !ok || fa.X != recv {
						continue
					}
					if tn, f, ok := core.LoadedField(l); ok && fkey(tn, f) == fld {
						if lt, off, ok := core.LenTerm(l); ok {
							z.AddLE(core.ValTerm(c), lt, off-1)
						}
					}
				}
			}
		}
		// nil-or-non-empty fields: usable behind a dominating non-nil test of a load of the field
		for _, dc := range core.DominatingConds(before.Block()) {
			bo, ok := dc.Cond.(*ssa.BinOp)
			if !ok || !core.IsNilConst(bo.Y) {
				continue
			}
			nonNil := (bo.Op == token.NEQ && dc.Truth) || (bo.Op == token.EQL && !dc.Truth)
			if !nonNil {
				continue
			}
			if tn, f, ok := core.LoadedField(bo.X); ok {
				if k, ok := lf.nilOrLenGE[fkey(tn, f)]; ok {
					if lt, off, ok := core.LenTerm(bo.X); ok {
						z.AddLE(core.Zero, lt, off-k)
					}
				}
			}
		}
	}
}

// buildLibFacts checks every candidate fact and keeps the ones that hold. The checks are
// obligations of the given rule.
func buildLibFacts(w *core.World, r *core.Report, rule string) *libFacts {
	lf := &libFacts{fieldLenGE: map[string]int64{}, nilOrLenGE: map[string]int64{}, idxSummary: map[*ssa.Function]string{}, lenResultGE: map[*ssa.Function]int64{}}
	lf.fieldWriters = fieldWritersOf(w)

	// (1) result-length summaries: functions of package db returning a byte slice whose every return
	// is proved to have len >= 1 (the key builder: append([]byte{typ}, ...))
	for _, fn := range w.FuncsIn("db") {
		res := fn.Signature.Results()
		if res.Len() != 1 || !core.ByteLike(res.At(0).Type()) || len(fn.Blocks) == 0 {
			continue
		}
		bd := core.NewBounds(fn, intBits(w))
		all, n := true, 0
		for _, in := range allInstrs(fn) {
			if ret, ok := in.(*ssa.Return); ok {
				n++
				if !bd.ProveLenGEAt(ret, ret.Results[0], 1) {
					all = false
				}
			}
		}
		if all && n > 0 {
			lf.lenResultGE[fn] = 1
		}
	}

	// (2) storage keys start with their type byte: LookupKey.Default is non-empty, LookupKey.Translation
	// is nil or non-empty. Every store to these fields stores a value proved non-empty.
	for _, fld := range []struct {
		tn, f string
		nilOK bool
	}{{"db.LookupKey", "Default", false}, {"db.LookupKey", "Translation", true}} {
		ok, n, bad := true, 0, ""
		for _, fn := range w.LibFuncs {
			var bd *core.Bounds
			for _, in := range allInstrs(fn) {
				st, isSt := in.(*ssa.Store)
				if !isSt {
					continue
				}
				tn, f, isF := core.FieldOfAddr(st.Addr)
				if !isF || tn != fld.tn || f != fld.f {
					continue
				}
				n++
				if bd == nil {
					bd = core.NewBounds(fn, intBits(w))
					(&libFacts{lenResultGE: lf.lenResultGE, fieldLenGE: map[string]int64{}, nilOrLenGE: map[string]int64{}, idxSummary: map[*ssa.Function]string{}, fieldWriters: lf.fieldWriters}).install(bd)
				}
				if fld.nilOK && core.IsNilConst(st.Val) {
					continue
				}
				if !bd.ProveLenGEAt(st, st.Val, 1) {
					ok = false
					bad = fmt.Sprintf("%s stores a value not proved non-empty at %s", core.QName(fn), w.Pos(st.Pos()))
				}
			}
		}
		key := fmt.Sprintf("invariant: %s.%s starts with the type byte (non-empty%s)", fld.tn, fld.f, map[bool]string{true: " or nil", false: ""}[fld.nilOK])
		if r.Check(ok && n > 0, rule, key, token.NoPos, fmt.Sprintf("all %d stores store a value proved non-empty", n), "a storage key can be empty: back ends index and re-slice it: "+bad) {
			if fld.nilOK {
				lf.nilOrLenGE[fkey(fld.tn, fld.f)] = 1
			} else {
				lf.fieldLenGE[fkey(fld.tn, fld.f)] = 1
			}
		}
	}
	// the zero LookupKey is only returned together with an error
	if tk := w.Func("db", "(*DbBase).ToKey"); tk != nil {
		cut := core.NewCut()
		for _, in := range allInstrs(tk) {
			if st, ok := in.(*ssa.Store); ok {
				if tn, f, ok := core.FieldOfAddr(st.Addr); ok && tn == "db.LookupKey" && f == "Default" {
					cut.AddInstr(st)
				}
			}
		}
		hit, path := core.Reach(core.Entry(tk), isSuccessReturnPred(tk), cut)
		if !r.Check(hit == nil && len(cut.Instrs) > 0, rule, "invariant: DbBase.ToKey sets the default key on every success path", tk.Pos(), "every success return passes the store", "ToKey can succeed with an empty key: "+w.PathString(path)) {
			delete(lf.fieldLenGE, fkey("db.LookupKey", "Default"))
		}
	}

	// (3) the cache always holds at least one frame
	if checkNonEmptyFieldInvariant(w, r, rule, lf, "cache.Cache", "Cache", 1) {
		lf.fieldLenGE[fkey("cache.Cache", "Cache")] = 1
	}

	// (4) frame lookup: an int function of package cache whose every return is a negative constant or
	// a proved index into a load of the receiver's frame list
	for _, fn := range w.FuncsIn("cache") {
		res := fn.Signature.Results()
		if fn.Signature.Recv() == nil || res.Len() != 1 || len(fn.Blocks) == 0 {
			continue
		}
		if bt, ok := res.At(0).Type().Underlying().(*types.Basic); !ok || bt.Kind() != types.Int {
			continue
		}
		if lf.fieldWriters[fkey("cache.Cache", "Cache")][fn] {
			continue
		}
		var loads []ssa.Value
		for _, in := range allInstrs(fn) {
			if v, ok := in.(ssa.Value); ok {
				if tn, f, ok := core.LoadedField(v); ok && tn == "cache.Cache" && f == "Cache" {
					if u, ok := v.(*ssa.UnOp); ok {
						if fa, ok := u.X.(*ssa.FieldAddr); ok && fa.X == ssa.Value(fn.Params[0]) {
							loads = append(loads, v)
						}
					}
				}
			}
		}
		if len(loads) == 0 {
			continue
		}
		bd := core.NewBounds(fn, intBits(w))
		all, nIdx := true, 0
		for _, in := range allInstrs(fn) {
			ret, ok := in.(*ssa.Return)
			if !ok {
				continue
			}
			if k, ok := core.ConstInt(ret.Results[0]); ok {
				if k >= 0 {
					all = false
				}
				continue
			}
			proved := false
			for _, l := range loads {
				if bd.ProveIndexAt(ret, l, ret.Results[0]).OK {
					proved = true
				}
			}
			if !proved {
				all = false
			}
			nIdx++
		}
		if all && nIdx > 0 {
			lf.idxSummary[fn] = fkey("cache.Cache", "Cache")
			r.OK(rule, "summary: "+core.QName(fn)+" returns a negative constant or a valid frame number", fn.Pos(), "every return proved")
		}
	}
	// wrappers: (index, found) where index is the result of a summarised function on the same
	// receiver and found is "index is not -1"
	lf.idxWrapper = map[*ssa.Function]string{}
	for _, fn := range w.FuncsIn("cache") {
		res := fn.Signature.Results()
		if res.Len() != 2 || len(fn.Blocks) == 0 || fn.Signature.Recv() == nil {
			continue
		}
		if bt, ok := res.At(1).Type().Underlying().(*types.Basic); !ok || bt.Kind() != types.Bool {
			continue
		}
		okAll, n := true, 0
		fld := ""
		for _, in := range allInstrs(fn) {
			ret, ok := in.(*ssa.Return)
			if !ok {
				continue
			}
			n++
			c0, ok := core.Strip(ret.Results[0]).(*ssa.Call)
			if !ok {
				okAll = false
				continue
			}
			g := core.StaticCallee(c0)
			f0, isSum := lf.idxSummary[g]
			if g == nil || !isSum || len(c0.Call.Args) == 0 || c0.Call.Args[0] != ssa.Value(fn.Params[0]) {
				okAll = false
				continue
			}
			fld = f0
			bo, ok := core.Strip(ret.Results[1]).(*ssa.BinOp)
			if !ok {
				okAll = false
				continue
			}
			x, op, k, ok := core.CmpConst(bo)
			if !ok || core.Strip(x) != ssa.Value(c0) || !((op == token.NEQ && k == -1) || (op == token.GTR && k == -1) || (op == token.GEQ && k == 0)) {
				okAll = false
			}
		}
		if okAll && n > 0 && fld != "" {
			lf.idxWrapper[fn] = fld
			r.OK(rule, "summary: "+core.QName(fn)+" returns (frame number or -1, whether it is a frame number)", fn.Pos(), "wrapper of a summarised function")
		}
	}
	return lf
}

// checkNonEmptyFieldInvariant: every store to T.F keeps len >= k, or re-establishes it before the
// function returns. Accepted stores: a literal of at least k elements; append(load T.F, ...); a
// re-slice of a load of T.F whose upper bound is proved >= k; a re-slice with an upper bound h
// after which every path to a return passes a call that appends to T.F or an edge on which h != 0
// is known while h >= 0 is proved.
func checkNonEmptyFieldInvariant(w *core.World, r *core.Report, rule string, lf *libFacts, tn, f string, k int64) bool {
	key := fmt.Sprintf("invariant: %s.%s always holds at least %d element(s)", tn, f, k)
	isSelfLoad := func(v ssa.Value) bool {
		for _, s := range core.Sources(v) {
			if t2, f2, ok := core.LoadedField(s); ok && t2 == tn && f2 == f {
				return true
			}
		}
		return false
	}
	// growers: functions in which every path to a return passes a store of append(self, ...)
	growers := map[*ssa.Function]bool{}
	isAppendSelf := func(v ssa.Value) bool {
		c, ok := core.Strip(v).(*ssa.Call)
		return ok && core.IsCallTo(c, "builtin.append") && isSelfLoad(c.Call.Args[0])
	}
	for _, fn := range w.LibFuncs {
		cut := core.NewCut()
		var gb *core.Bounds
		for _, in := range allInstrs(fn) {
			if st, ok := in.(*ssa.Store); ok {
				if t2, f2, ok := core.FieldOfAddr(st.Addr); ok && t2 == tn && f2 == f && isAppendSelf(st.Val) {
					if gb == nil {
						gb = core.NewBounds(fn, intBits(w))
					}
					// the appended part holds at least k elements (append(x) and append(x, empty...) grow nothing)
					if gb.ProveLenGEAt(st, st.Val, k) {
						cut.AddInstr(st)
					}
				}
			}
		}
		if len(cut.Instrs) > 0 && len(fn.Blocks) > 0 {
			if hit, _ := core.Reach(core.Entry(fn), core.IsReturn, cut); hit == nil {
				growers[fn] = true
			}
		}
	}
	n, bad := 0, ""
	for _, fn := range w.LibFuncs {
		var bd *core.Bounds
		for _, in := range allInstrs(fn) {
			st, ok := in.(*ssa.Store)
			if !ok {
				continue
			}
			t2, f2, ok := core.FieldOfAddr(st.Addr)
			if !ok || t2 != tn || f2 != f {
				continue
			}
			n++
			r.Touch(core.QName(fn))
			if bd == nil {
				bd = core.NewBounds(fn, intBits(w))
				bd.NoForward = true // the hypothesis below must not flow from a later load back into the stored value
				// inductive hypothesis: loads of the field have len >= k
				(&libFacts{fieldLenGE: map[string]int64{fkey(tn, f): k}, nilOrLenGE: map[string]int64{}, idxSummary: map[*ssa.Function]string{}, lenResultGE: map[*ssa.Function]int64{}, fieldWriters: lf.fieldWriters}).install(bd)
			}
			if isAppendSelf(st.Val) || bd.ProveLenGEAt(st, st.Val, k) {
				continue
			}
			// a re-slice that may be shorter: restored before return?
			sl, isSl := core.Strip(st.Val).(*ssa.Slice)
			restored := false
			if isSl && sl.High != nil && isSelfLoad(sl.X) {
				cut := core.NewCut()
				for _, c := range core.Calls(fn) {
					if g := core.StaticCallee(c); g != nil && growers[g] {
						cut.AddInstr(c.(ssa.Instruction))
					}
				}
				// ... or an append to the field written out in place (a grower inlined)
				for _, in2 := range allInstrs(fn) {
					if st2, ok := in2.(*ssa.Store); ok && st2 != st {
						if t3, f3, ok := core.FieldOfAddr(st2.Addr); ok && t3 == tn && f3 == f && isAppendSelf(st2.Val) && bd.ProveLenGEAt(st2, st2.Val, k) {
							cut.AddInstr(st2)
						}
					}
				}
				lo, _, okR := bd.RangeAt(st, sl.High)
				if okR && lo >= 0 && k == 1 {
					for _, in2 := range allInstrs(fn) {
						bo, ok := in2.(*ssa.BinOp)
						if !ok {
							continue
						}
						x, op, c, ok := core.CmpConst(bo)
						if !ok || x != sl.High {
							continue
						}
						switch {
						case op == token.EQL && c == 0, op == token.LEQ && c == 0, op == token.LSS && c == 1:
							cut.AddEdge(core.EdgesWhere(bo, false)...)
						case op == token.NEQ && c == 0, op == token.GTR && c == 0, op == token.GEQ && c == 1:
							cut.AddEdge(core.EdgesWhere(bo, true)...)
						}
					}
				}
				// a test of the field's own length after the store: len(reload) compared with 0
				if k == 1 {
					for _, in2 := range allInstrs(fn) {
						bo, ok := in2.(*ssa.BinOp)
						if !ok {
							continue
						}
						x, op, c, ok := core.CmpConst(bo)
						if !ok {
							continue
						}
						lc, isCall := core.Strip(x).(*ssa.Call)
						if !isCall || !core.IsCallTo(lc, "builtin.len") {
							continue
						}
						ld, isLoad := lc.Call.Args[0].(*ssa.UnOp)
						if !isLoad {
							continue
						}
						if t3, f3, ok := core.LoadedField(ld); !ok || t3 != tn || f3 != f || !core.InstrDominates(st, ld) {
							continue
						}
						switch {
						case op == token.EQL && c == 0, op == token.LEQ && c == 0, op == token.LSS && c == 1:
							cut.AddEdge(core.EdgesWhere(bo, false)...)
						case op == token.NEQ && c == 0, op == token.GTR && c == 0, op == token.GEQ && c == 1:
							cut.AddEdge(core.EdgesWhere(bo, true)...)
						}
					}
				}
				if hit, _ := core.Reach(core.After(st), core.IsReturn, cut); hit == nil {
					restored = true
				}
				// while the invariant is suspended nothing that may rely on it is called
				if hit, _ := core.Reach(core.After(st), func(in ssa.Instruction) bool {
					c, ok := in.(ssa.CallInstruction)
					if !ok {
						return false
					}
					g := core.StaticCallee(c)
					if g == nil {
						return c.Common().IsInvoke() && !strings.Contains(c.Common().Value.Type().String(), "logging")
					}
					if growers[g] || g.Pkg == nil || !strings.HasPrefix(g.Pkg.Pkg.Path(), core.ModPath) || core.PkgOf(g) == "logging" {
						return false
					}
					return true
				}, cut); hit != nil {
					restored = false
				}
			}
			if !restored {
				bad = fmt.Sprintf("%s stores a value that may hold fewer than %d element(s) at %s and does not restore it before returning", core.QName(fn), k, w.Pos(st.Pos()))
			}
		}
	}
	return r.Check(bad == "" && n > 0, rule, key, token.NoPos, fmt.Sprintf("all %d stores keep or restore it (inductive)", n),
		"the invariant that index expressions rely on can be broken: "+bad)
}

// checkLibraryBounds (C08 R7): every index and slice expression in every function reachable from the
// request entry points is proved in bounds by the zone engine, using the checked facts above.
// Two small classes are decided by their own structural argument instead: flag bytes indexed by
// bit/8 behind the flag-range guard, and a frame number parameter that every caller bounds by
// Levels().
func checkLibraryBounds(w *core.World, r *core.Report, rule string, reach map[*ssa.Function]bool) {
	lf := buildLibFacts(w, r, rule)
	anyC := func(t types.Type) bool { return true }
	nOK, nSites := 0, 0
	for _, fn := range w.LibFuncs {
		if !reach[fn] || len(fn.Blocks) == 0 {
			continue
		}
		bd := core.NewBounds(fn, intBits(w))
		lf.install(bd)
		perKey := map[string]int{}
		for _, s := range bd.Sites(anyC) {
			if !s.Instr.Pos().IsValid() && s.OK {
				continue // compiler-built varargs arrays
			}
			nSites++
			if s.OK {
				nOK++
				continue
			}
			if why, ok := flagIndexClass(w, fn, s, reach); ok {
				nOK++
				r.OK(rule, fmt.Sprintf("%s: %s (flag byte)", core.QName(fn), s.Kind), s.Instr.Pos(), why)
				continue
			}
			if why, ok := levelParamClass(w, fn, s); ok {
				nOK++
				r.OK(rule, fmt.Sprintf("%s: %s (frame number parameter)", core.QName(fn), s.Kind), s.Instr.Pos(), why)
				continue
			}
			if why, ok := fieldIndexParamFromCallers(w, lf, fn, s); ok {
				nOK++
				r.OK(rule, fmt.Sprintf("%s: %s (field of the receiver indexed by a parameter, proved at every call site)", core.QName(fn), s.Kind), s.Instr.Pos(), why)
				continue
			}
			if why, ok := paramLenFromCallers(w, lf, fn, s); ok {
				nOK++
				r.OK(rule, fmt.Sprintf("%s: %s (length of a parameter, proved at every call site)", core.QName(fn), s.Kind), s.Instr.Pos(), why)
				continue
			}
			base := fmt.Sprintf("%s: unproved %s", core.QName(fn), s.Kind)
			perKey[base]++
			k := base
			if perKey[base] > 1 {
				k = fmt.Sprintf("%s #%d", base, perKey[base])
			}
			r.Bad(rule, k, s.Instr.Pos(), fmt.Sprintf("%s %s: %s - an index or slice expression on the request path is not proved in bounds (a run-time panic if it is not)", s.Kind, s.Expr, s.Missing), "call path: "+callPathOf(w, reach, fn))
		}
	}
	r.OK(rule, "index and slice expressions on the request path proved in bounds", token.NoPos, fmt.Sprintf("%d of %d sites proved (zone engine with the checked invariants and summaries, plus two structural classes)", nOK, nSites))
	r.Floor(rule, "index/slice sites on the request path", nSites, 60)
}

func callPathOf(w *core.World, reach map[*ssa.Function]bool, fn *ssa.Function) string {
	return core.QName(fn)
}

// flagIndexClass: flag bytes indexed by bit/8 where the pair (byte slice, bit) is consistent: the
// slice is State.Flags and the bit is below BitSize on a dominating edge - established in the
// function itself or, for helpers that take the slice and the bit (or a bound for it) as
// parameters, at every library call site, followed through up to three levels with the bound kept
// as an affine expression (State.String passes (Flags, BitSize-8) to a loop bounded by length+8).
// In range by the constructor's relation BitSize <= 8*len(Flags) (value-level; its narrowing-free
// computation is R6).
type flagBound struct {
	isSize bool           // base is State.BitSize
	param  *ssa.Parameter // or a parameter of the function
	off    int64
}

func affFlagBound(v ssa.Value) (flagBound, bool) {
	off := int64(0)
	for d := 0; d < 5; d++ {
		v = core.Strip(v)
		if cv, ok := v.(*ssa.Convert); ok {
			v = cv.X
			continue
		}
		if bo, ok := v.(*ssa.BinOp); ok && (bo.Op == token.ADD || bo.Op == token.SUB) {
			if k, ok := core.ConstInt(bo.Y); ok {
				if bo.Op == token.ADD {
					off += k
				} else {
					off -= k
				}
				v = bo.X
				continue
			}
		}
		break
	}
	if _, ff, ok := core.LoadedField(v); ok && ff == "BitSize" {
		return flagBound{isSize: true, off: off}, true
	}
	if c, ok := v.(*ssa.Call); ok && core.IsCallTo(c, "state.(*State).FlagBitSize") {
		return flagBound{isSize: true, off: off}, true
	}
	if p, ok := v.(*ssa.Parameter); ok {
		return flagBound{param: p, off: off}, true
	}
	return flagBound{}, false
}

// bitBounds lists the bounds B such that `bit < B` holds on an edge dominating `at`.
func bitBounds(f *ssa.Function, at ssa.Instruction, bit ssa.Value, depth int) []flagBound {
	var out []flagBound
	stripAff := func(v ssa.Value) (ssa.Value, int64) {
		off := int64(0)
		for d := 0; d < 5; d++ {
			v = core.Strip(v)
			if cv, ok := v.(*ssa.Convert); ok {
				v = cv.X
				continue
			}
			if bo, ok := v.(*ssa.BinOp); ok && (bo.Op == token.ADD || bo.Op == token.SUB) {
				if k, ok := core.ConstInt(bo.Y); ok {
					if bo.Op == token.ADD {
						off += k
					} else {
						off -= k
					}
					v = bo.X
					continue
				}
			}
			break
		}
		return v, off
	}
	for _, in := range allInstrs(f) {
		bo, ok := in.(*ssa.BinOp)
		if !ok {
			continue
		}
		for _, swap := range []bool{false, true} {
			x, y, op := bo.X, bo.Y, bo.Op
			if swap {
				x, y, op = bo.Y, bo.X, flipOp(bo.Op)
			}
			bx, a := stripAff(x)
			if bx != core.Strip(bit) {
				continue
			}
			bd, ok := affFlagBound(y)
			if !ok {
				continue
			}
			// (bit + a) op (base + bd.off)  =>  bit op base + (bd.off - a)
			d := bd.off - a
			var edges []core.Edge
			strictOff := d
			switch op {
			case token.LSS: // bit < base+d
				edges = core.EdgesWhere(bo, true)
			case token.LEQ: // bit <= base+d  => bit < base+d+1
				edges = core.EdgesWhere(bo, true)
				strictOff = d + 1
			case token.GEQ: // false: bit < base+d
				edges = core.EdgesWhere(bo, false)
			case token.GTR: // false: bit <= base+d
				edges = core.EdgesWhere(bo, false)
				strictOff = d + 1
			default:
				continue
			}
			if len(edges) == 0 {
				continue
			}
			if ok, _ := core.MustPass(at, core.NewCut().AddEdge(edges...)); ok {
				nb := bd
				nb.off = strictOff
				out = append(out, nb)
			}
		}
	}
	// a guard helper: a dominating call g(..., bit, ...) of a function of the same package that only
	// returns when its parameter is below BitSize (it panics or never returns otherwise)
	if depth < 2 {
		for _, c := range core.Calls(f) {
			ci, ok := c.(*ssa.Call)
			g := core.StaticCallee(c)
			if !ok || g == nil || g == f || len(g.Blocks) == 0 || core.PkgOf(g) != core.PkgOf(f) || !core.InstrDominates(ci, at) {
				continue
			}
			for i, a := range core.CallArgs(c) {
				if core.Strip(a) != core.Strip(bit) || i >= len(g.Params) {
					continue
				}
				all, n := true, 0
				for _, in := range allInstrs(g) {
					ret, ok := in.(*ssa.Return)
					if !ok {
						continue
					}
					n++
					okRet := false
					for _, nb := range bitBounds(g, ret, g.Params[i], depth+1) {
						if nb.isSize && nb.off <= 0 {
							okRet = true
						}
					}
					if !okRet {
						all = false
					}
				}
				if all && n > 0 {
					out = append(out, flagBound{isSize: true, off: 0})
				}
			}
		}
	}
	return out
}

func isFlagsLoad(v ssa.Value) bool {
	for _, src := range core.Sources(v) {
		if tn, f, ok := core.LoadedField(src); ok && tn == "state.State" && f == "Flags" {
			return true
		}
	}
	return false
}

// flagBoundOK: at instruction `at` of f, `bytes` is the flag field and `bit < nb` implies bit < BitSize.
func flagBoundOK(w *core.World, f *ssa.Function, bytes ssa.Value, nb flagBound, depth int) bool {
	if depth > 3 {
		return false
	}
	if nb.isSize {
		return nb.off <= 0 && isFlagsLoad(bytes)
	}
	px, ok := core.Strip(bytes).(*ssa.Parameter)
	if !ok || nb.param == nil || nb.param.Parent() != f || px.Parent() != f {
		return false
	}
	ix, il := paramIndex(px), paramIndex(nb.param)
	n := 0
	for _, caller := range w.LibFuncs {
		for _, c := range callsToSet(caller, map[*ssa.Function]bool{f: true}) {
			n++
			args := core.CallArgs(c)
			if ix >= len(args) || il >= len(args) {
				return false
			}
			a, ok := affFlagBound(args[il])
			if !ok {
				return false
			}
			a.off += nb.off
			if !flagBoundOK(w, caller, args[ix], a, depth+1) {
				return false
			}
		}
	}
	return n > 0
}

// flagPairOK: at `at` in f the pair (bytes, bit) is consistent.
func flagPairOK(w *core.World, f *ssa.Function, at ssa.Instruction, bytes, bit ssa.Value, depth int) bool {
	if depth > 3 {
		return false
	}
	for _, nb := range bitBounds(f, at, bit, 0) {
		if flagBoundOK(w, f, bytes, nb, depth) {
			return true
		}
	}
	px, okx := core.Strip(bytes).(*ssa.Parameter)
	pb, okb := core.Strip(bit).(*ssa.Parameter)
	if !okx || !okb {
		return false
	}
	ix, ib := paramIndex(px), paramIndex(pb)
	n := 0
	for _, caller := range w.LibFuncs {
		for _, c := range callsToSet(caller, map[*ssa.Function]bool{f: true}) {
			n++
			args := core.CallArgs(c)
			if ix >= len(args) || ib >= len(args) || !flagPairOK(w, caller, c.(ssa.Instruction), args[ix], args[ib], depth+1) {
				return false
			}
		}
	}
	return n > 0
}

func flagIndexClass(w *core.World, fn *ssa.Function, s core.BoundsSite, reach map[*ssa.Function]bool) (string, bool) {
	if core.PkgOf(fn) != "state" {
		return "", false
	}
	var x, idx ssa.Value
	switch t := s.Instr.(type) {
	case *ssa.IndexAddr:
		x, idx = t.X, t.Index
	case *ssa.Index:
		x, idx = t.X, t.Index
	default:
		return "", false
	}
	var bit ssa.Value
	for _, src := range append(core.Sources(idx), idx) {
		if bo, ok := src.(*ssa.BinOp); ok && bo.Op == token.QUO {
			if k, ok := core.ConstInt(bo.Y); ok && k == 8 {
				bit = bo.X
			}
		}
	}
	if bit == nil {
		// the byte index is a result of a helper of the package that returns parameter/8
		for _, src := range append(core.Sources(idx), idx) {
			c, ri, ok := core.ExtractOf(src)
			if !ok {
				continue
			}
			g := core.StaticCallee(c)
			if g == nil || core.PkgOf(g) != "state" || len(g.Blocks) == 0 {
				continue
			}
			pj := -1
			all := true
			for _, in := range allInstrs(g) {
				ret, ok := in.(*ssa.Return)
				if !ok || ri >= len(ret.Results) {
					continue
				}
				found := false
				for _, rs := range append(core.Sources(ret.Results[ri]), ret.Results[ri]) {
					if bo, ok := rs.(*ssa.BinOp); ok && bo.Op == token.QUO {
						if kk, ok := core.ConstInt(bo.Y); ok && kk == 8 {
							if p, ok := core.Strip(bo.X).(*ssa.Parameter); ok {
								found = true
								pj = paramIndex(p)
							}
						}
					}
				}
				if !found {
					all = false
				}
			}
			if all && pj >= 0 && pj < len(core.CallArgs(c)) {
				bit = core.CallArgs(c)[pj]
			}
		}
	}
	if bit == nil {
		// Flags[0]: at least one flag byte (8 built-in flags)
		if k, ok := core.ConstInt(idx); ok && k == 0 && isFlagsLoad(x) {
			return "flag byte 0 exists: the state always has the 8 built-in flags (constructor relation, value-level)", true
		}
		return "", false
	}
	if flagPairOK(w, fn, s.Instr, x, bit, 0) {
		return "flag bytes indexed by bit/8 with bit < BitSize on a dominating edge (here or at every library call site)", true
	}
	return "", false
}

// levelParamClass: Cache.Cache indexed by an integer parameter, where every library caller passes a
// value behind `value < Levels()` (Levels returns the number of frames).
func levelParamClass(w *core.World, fn *ssa.Function, s core.BoundsSite) (string, bool) {
	ia, ok := s.Instr.(*ssa.IndexAddr)
	if !ok {
		return "", false
	}
	if tn, f, ok := core.LoadedField(ia.X); !ok || tn != "cache.Cache" || f != "Cache" {
		return "", false
	}
	var p *ssa.Parameter
	for _, src := range core.Sources(ia.Index) {
		if pp, ok := src.(*ssa.Parameter); ok {
			p = pp
		}
	}
	if p == nil {
		return "", false
	}
	pi := paramIndex(p)
	n := 0
	for _, caller := range w.LibFuncs {
		for _, c := range core.Calls(caller) {
			g := core.StaticCallee(c)
			isTarget := g == fn
			if !isTarget && c.Common().IsInvoke() && c.Common().Method.Name() == fn.Name() && strings.Contains(c.Common().Value.Type().String(), "Memory") {
				isTarget = true
			}
			if !isTarget {
				continue
			}
			n++
			args := core.CallArgs(c)
			if pi >= len(args) {
				return "", false
			}
			arg := args[pi]
			okSite := false
			for _, in := range allInstrs(caller) {
				bo, ok := in.(*ssa.BinOp)
				if !ok || bo.Op != token.LSS || core.Strip(bo.X) != core.Strip(arg) {
					continue
				}
				fromLevels := false
				for _, src := range core.Sources(bo.Y) {
					if cc, ok := src.(*ssa.Call); ok && cc.Common().Method != nil && cc.Common().Method.Name() == "Levels" {
						fromLevels = true
					}
					if cc, ok := src.(*ssa.Call); ok {
						if g2 := core.StaticCallee(cc); g2 != nil && g2.Name() == "Levels" {
							fromLevels = true
						}
					}
				}
				if !fromLevels {
					continue
				}
				if ok2, _ := core.MustPass(c.(ssa.Instruction), core.NewCut().AddEdge(core.EdgesWhere(bo, true)...)); ok2 {
					okSite = true
				}
			}
			if !okSite {
				return "", false
			}
		}
	}
	if n == 0 {
		return "", false
	}
	return fmt.Sprintf("all %d library call sites pass a frame number behind `< Levels()`", n), true
}

// checkFlagSizeRelation: the flag-index class above rests on BitSize <= 8*len(Flags). That relation
// is established by the constructor and must not be re-established anywhere else: State.BitSize
// and the State.Flags field are stored only on a State allocated in the same function, and there
// the byte slice is made with a length computed (by the package's rounding helper) from the very
// expression stored as BitSize. A later resize or copy of either field - a migration of a stored
// session to a larger flag count, say - is where the two get out of step: a signal below BitSize
// then indexes past the flag bytes (a crash on well-formed CATCH/CROAK operands).
func checkFlagSizeRelation(w *core.World, r *core.Report, rule string) {
	sameExpr := func(a, b ssa.Value) bool { return false }
	var same func(a, b ssa.Value, d int) bool
	same = func(a, b ssa.Value, d int) bool {
		a, b = core.Strip(a), core.Strip(b)
		if a == b {
			return true
		}
		if d > 4 {
			return false
		}
		if ca, ok := core.ConstInt(a); ok {
			cb, ok2 := core.ConstInt(b)
			return ok2 && ca == cb
		}
		ba, ok1 := a.(*ssa.BinOp)
		bb, ok2 := b.(*ssa.BinOp)
		if ok1 && ok2 && ba.Op == bb.Op {
			return same(ba.X, bb.X, d+1) && same(ba.Y, bb.Y, d+1)
		}
		return false
	}
	sameExpr = func(a, b ssa.Value) bool { return same(a, b, 0) }
	n, bad := 0, ""
	var badPos token.Pos
	var sizeVals, lenArgs []ssa.Value
	for _, fn := range w.LibFuncs {
		for _, in := range allInstrs(fn) {
			st, ok := in.(*ssa.Store)
			if !ok {
				continue
			}
			tn, f, ok := core.FieldOfAddr(st.Addr)
			if !ok || tn != "state.State" || (f != "BitSize" && f != "Flags") {
				continue
			}
			n++
			fresh := false
			if fa, ok := st.Addr.(*ssa.FieldAddr); ok {
				if al, ok := fa.X.(*ssa.Alloc); ok && al.Heap {
					fresh = true
				}
			}
			if !fresh {
				bad = fmt.Sprintf("%s stores State.%s of an existing State at %s", core.QName(fn), f, w.Pos(st.Pos()))
				badPos = st.Pos()
				continue
			}
			if f == "BitSize" {
				sizeVals = append(sizeVals, st.Val)
				continue
			}
			// Flags of the fresh object: make([]byte, helper(expr)) or an empty literal
			for _, src := range core.Sources(st.Val) {
				switch t := src.(type) {
				case *ssa.MakeSlice:
					for _, ls := range core.Sources(t.Len) {
						ls = core.Strip(ls)
						if cv, ok := ls.(*ssa.Convert); ok {
							ls = core.Strip(cv.X)
						}
						if c, ok := ls.(*ssa.Call); ok && core.StaticCallee(c) != nil && core.PkgOf(core.StaticCallee(c)) == "state" && len(c.Call.Args) == 1 {
							lenArgs = append(lenArgs, c.Call.Args[0])
						} else {
							bad = fmt.Sprintf("%s makes the flag bytes with a length that is not the rounding helper's result at %s", core.QName(fn), w.Pos(st.Pos()))
							badPos = st.Pos()
						}
					}
				case *ssa.Slice:
					// []byte{} literal: slice of a zero-length array
				case *ssa.Alloc:
					// []byte{} literal: the zero-length array itself
					if pt, ok := t.Type().Underlying().(*types.Pointer); ok {
						if at, ok := pt.Elem().Underlying().(*types.Array); ok && at.Len() == 0 {
							continue
						}
					}
					bad = fmt.Sprintf("%s sets the flag bytes from a literal at %s", core.QName(fn), w.Pos(st.Pos()))
					badPos = st.Pos()
				default:
					bad = fmt.Sprintf("%s sets the flag bytes from %s at %s", core.QName(fn), valueDesc(src), w.Pos(st.Pos()))
					badPos = st.Pos()
				}
			}
		}
	}
	for _, la := range lenArgs {
		ok := false
		for _, sv := range sizeVals {
			if sameExpr(la, sv) {
				ok = true
			}
		}
		if !ok {
			bad = "the constructor computes the number of flag bytes from an expression other than the one stored as BitSize"
		}
	}
	r.Check(bad == "" && n >= 2 && len(lenArgs) > 0, rule, "invariant: State.BitSize and the flag bytes are set together, by the constructor only", badPos,
		fmt.Sprintf("%d stores, all on a State allocated in the same function; byte count computed from the stored bit count", n),
		"the relation BitSize <= 8*len(Flags) that the flag accessors' range check relies on can be broken after construction: a signal below BitSize then indexes past the flag bytes (run-time panic on a well-formed CATCH/CROAK/flag operand): "+bad)
}

// paramLenFromCallers: a constant index or slice bound on a byte-like parameter of an unexported
// helper all of whose call sites are known; the needed length of the argument is proved at every
// call site (with the same checked invariants), e.g. a key builder's result handed to a helper
// that strips its first byte.
func paramLenFromCallers(w *core.World, lf *libFacts, fn *ssa.Function, s core.BoundsSite) (string, bool) {
	var x ssa.Value
	need := int64(-1)
	switch t := s.Instr.(type) {
	case *ssa.Slice:
		x = t.X
		if t.Low != nil {
			if k, ok := core.ConstInt(t.Low); ok && k > need {
				need = k
			} else if !ok {
				return "", false
			}
		}
		if t.High != nil {
			if k, ok := core.ConstInt(t.High); ok && k > need {
				need = k
			} else if !ok {
				return "", false
			}
		}
	case *ssa.IndexAddr:
		x = t.X
		if k, ok := core.ConstInt(t.Index); ok {
			need = k + 1
		}
	case *ssa.Index:
		x = t.X
		if k, ok := core.ConstInt(t.Index); ok {
			need = k + 1
		}
	}
	if x == nil || need <= 0 {
		return "", false
	}
	p, ok := core.Strip(x).(*ssa.Parameter)
	if !ok || !core.ByteLike(p.Type()) {
		return "", false
	}
	sites, escapes := staticCallSites(w, fn)
	if escapes || len(sites) == 0 {
		return "", false
	}
	pi := paramIndex(p)
	for _, c := range sites {
		args := core.CallArgs(c)
		if pi < 0 || pi >= len(args) {
			return "", false
		}
		bd := core.NewBounds(c.Parent(), intBits(w))
		lf.install(bd)
		if !bd.ProveLenGEAt(c.(ssa.Instruction), args[pi], need) {
			return "", false
		}
	}
	return fmt.Sprintf("len(%s) >= %d proved at all %d call site(s)", p.Name(), need, len(sites)), true
}

// fieldIndexParamFromCallers: `recv.F[p]` in an unexported method all of whose call sites are known,
// where p is an integer parameter and recv the receiver: the helper that results from moving a loop
// or a step out of a method. The index is proved at every call site against a load of the same
// field of the value passed as receiver, provided nothing can store to a field of that name between
// that load and the call (no store, no call), and the helper loads the field before it calls or
// stores anything itself. The proof at the call site uses the same checked invariants.
func fieldIndexParamFromCallers(w *core.World, lf *libFacts, fn *ssa.Function, s core.BoundsSite) (string, bool) {
	var x, idx ssa.Value
	switch t := s.Instr.(type) {
	case *ssa.IndexAddr:
		x, idx = t.X, t.Index
	case *ssa.Index:
		x, idx = t.X, t.Index
	default:
		return "", false
	}
	p, ok := idx.(*ssa.Parameter)
	if !ok || fn.Signature.Recv() == nil || len(fn.Params) == 0 {
		return "", false
	}
	ld, ok := x.(*ssa.UnOp)
	if !ok || ld.Op != token.MUL {
		return "", false
	}
	fa, ok := ld.X.(*ssa.FieldAddr)
	if !ok || fa.X != ssa.Value(fn.Params[0]) {
		return "", false
	}
	// the helper's load precedes every call and store of the helper on the way from its entry
	if hit, _ := core.Reach(core.Entry(fn), func(in ssa.Instruction) bool {
		if in == ssa.Instruction(ld) {
			return false
		}
		switch in.(type) {
		case *ssa.Store, *ssa.MapUpdate:
			return true
		case ssa.CallInstruction:
			return !pureBuiltinCall(in.(ssa.CallInstruction))
		}
		return false
	}, core.NewCut().AddInstr(ld)); hit != nil {
		return "", false
	}
	sites, escapes := staticCallSites(w, fn)
	if escapes || len(sites) == 0 {
		return "", false
	}
	pi := paramIndex(p)
	for _, c := range sites {
		args := core.CallArgs(c)
		if pi < 1 || pi >= len(args) {
			return "", false
		}
		recv := args[0]
		caller := c.Parent()
		proved := false
		for _, in := range allInstrs(caller) {
			l2, ok := in.(*ssa.UnOp)
			if !ok || l2.Op != token.MUL {
				continue
			}
			fa2, ok := l2.X.(*ssa.FieldAddr)
			if !ok || fa2.Field != fa.Field || fa2.X != recv || !core.InstrDominates(l2, c.(ssa.Instruction)) {
				continue
			}
			// nothing between the load and the call can change the field
			if hit, _ := core.Reach(core.After(l2), func(in ssa.Instruction) bool {
				danger := false
				switch t := in.(type) {
				case *ssa.Store:
					if f2, ok := t.Addr.(*ssa.FieldAddr); ok && f2.Field == fa.Field {
						danger = true
					}
				case ssa.CallInstruction:
					danger = in != c.(ssa.Instruction) && !pureBuiltinCall(t)
				}
				if !danger {
					return false
				}
				// only what lies between the load and the call matters
				back, _ := core.Reach(core.After(in), core.IsInstr(c.(ssa.Instruction)), nil)
				return back != nil
			}, core.NewCut().AddInstr(c.(ssa.Instruction))); hit != nil {
				continue
			}
			bd := core.NewBounds(caller, intBits(w))
			lf.install(bd)
			if bs := bd.ProveIndexAt(c.(ssa.Instruction), l2, args[pi]); bs.OK {
				proved = true
				break
			}
		}
		if !proved {
			return "", false
		}
	}
	return fmt.Sprintf("0 <= %s < len(receiver.%s) proved at all %d call site(s)", p.Name(), fieldNameOf(fa), len(sites)), true
}

func fieldNameOf(fa *ssa.FieldAddr) string {
	if pt, ok := fa.X.Type().Underlying().(*types.Pointer); ok {
		if st, ok := pt.Elem().Underlying().(*types.Struct); ok && fa.Field < st.NumFields() {
			return st.Field(fa.Field).Name()
		}
	}
	return fmt.Sprintf("field#%d", fa.Field)
}

// pureBuiltinCall: len, cap and the logging calls cannot store to a field of a library object.
func pureBuiltinCall(c ssa.CallInstruction) bool {
	if b, ok := c.Common().Value.(*ssa.Builtin); ok {
		switch b.Name() {
		case "len", "cap":
			return true
		}
	}
	return false
}
