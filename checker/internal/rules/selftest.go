package rules

import (
	"encoding/json"
	"fmt"
	"io"
	"os"
	"os/exec"
	"path/filepath"
	"runtime/debug"
	"sort"
	"strings"
	"sync"

	"vischeck/internal/core"
)

// Self-validation of the rules (thorough tier). For the property, every catalogued variant of
// /repo is built in a scratch directory outside /repo and /verif (removed immediately), analysed
// with the same rule set, and compared with the verdict on the unchanged tree:
//
//   breaking variants - the seeded changes under /verif/seeded that this property's check is
//     recorded to catch (MATRIX.json) and the reverses of the fix: commits
//     (/verif/selftest/reverted) - must produce at least one violated obligation that the
//     unchanged tree does not have;
//     and the single-edit mutants of /verif/selftest/own_breaking.json (written with the rules in
//     view: they test that each rule is sensitive to its clause, not that tests are evaded);
//   benign variants - the behaviour-preserving edits of /verif/selftest/benign.json (renames,
//     helper extraction, reordered independent statements, flipped comparisons, added logging,
//     changed error texts, moved functions) and the behaviour-preserving refactorings written by
//     independent sub-agents (/verif/selftest/benign_patches) - must produce no new violated or
//     undecided obligation.
//
// A variant whose patch no longer applies to the current tree is skipped and reported, never a
// failure. A rule set that fails its own catalogue makes the thorough check exit 2.

func init() { SelfTest = selfTest }

type stVariant struct {
	id      string
	kind    string // breaking | benign
	patch   string // path of a patch file, or ""
	edits   []stEdit
	expects []string
}

type stEdit struct {
	File string `json:"file"`
	Old  string `json:"old"`
	New  string `json:"new"`
}

func selfTest(prop, repo, vdir string, out *core.Outcome) {
	pc, ok := Registry[prop]
	if !ok {
		return
	}
	var vars []stVariant
	// seeded changes
	var matrix map[string]struct {
		CaughtBy map[string][]string `json:"caught_by"`
	}
	if b, err := os.ReadFile(filepath.Join(vdir, "seeded", "MATRIX.json")); err == nil && json.Unmarshal(b, &matrix) == nil {
		for sid, m := range matrix {
			if rules, ok := m.CaughtBy[prop]; ok {
				vars = append(vars, stVariant{id: "seeded/" + sid, kind: "breaking", patch: filepath.Join(vdir, "seeded", sid, "patch.diff"), expects: rules})
			}
		}
	}
	var expect map[string]map[string][]string
	if b, err := os.ReadFile(filepath.Join(vdir, "selftest", "reverted", "EXPECT.json")); err == nil && json.Unmarshal(b, &expect) == nil {
		for sid, m := range expect {
			if rules, ok := m[prop]; ok {
				vars = append(vars, stVariant{id: "reverted/" + sid, kind: "breaking", patch: filepath.Join(vdir, "selftest", "reverted", sid+".diff"), expects: rules})
			}
		}
	}
	var own []struct {
		ID       string   `json:"id"`
		Property string   `json:"property"`
		Expect   string   `json:"expect"`
		Edits    []stEdit `json:"edits"`
	}
	if b, err := os.ReadFile(filepath.Join(vdir, "selftest", "own_breaking.json")); err == nil && json.Unmarshal(b, &own) == nil {
		for _, ov := range own {
			if ov.Property == prop {
				vars = append(vars, stVariant{id: "own/" + ov.ID, kind: "breaking", edits: ov.Edits, expects: []string{ov.Expect}})
			}
		}
	}
	var benign []struct {
		ID    string   `json:"id"`
		Edits []stEdit `json:"edits"`
	}
	if b, err := os.ReadFile(filepath.Join(vdir, "selftest", "benign.json")); err == nil && json.Unmarshal(b, &benign) == nil {
		for _, bv := range benign {
			vars = append(vars, stVariant{id: "benign/" + bv.ID, kind: "benign", edits: bv.Edits})
		}
	}
	var bpatches []struct {
		ID    string `json:"id"`
		Patch string `json:"patch"`
	}
	if b, err := os.ReadFile(filepath.Join(vdir, "selftest", "benign_patches", "INDEX.json")); err == nil && json.Unmarshal(b, &bpatches) == nil {
		for _, bv := range bpatches {
			vars = append(vars, stVariant{id: "benign/" + bv.ID, kind: "benign", patch: filepath.Join(vdir, bv.Patch)})
		}
	}
	sort.Slice(vars, func(i, j int) bool { return vars[i].id < vars[j].id })
	if len(vars) == 0 {
		out.SelfTest = append(out.SelfTest, "no variant catalogue found under "+vdir)
		return
	}
	// verdict on the unchanged tree (default configuration)
	base := map[string]bool{}
	for _, o := range out.Obls {
		if o.Verdict == core.VViolated || o.Verdict == core.VUndecided {
			base[o.Key()] = true
		}
	}
	type result struct {
		line string
		fail bool
	}
	results := make([]result, len(vars))
	sem := make(chan struct{}, 4)
	var wg sync.WaitGroup
	for i, v := range vars {
		wg.Add(1)
		go func(i int, v stVariant) {
			defer wg.Done()
			sem <- struct{}{}
			defer func() { <-sem }()
			line, fail := runVariant(pc, prop, repo, v, base)
			results[i] = result{line, fail}
			debug.FreeOSMemory()
		}(i, v)
	}
	wg.Wait()
	nb, ng, nskip := 0, 0, 0
	for i, r := range results {
		out.SelfTest = append(out.SelfTest, r.line)
		if r.fail {
			out.SelfFail = append(out.SelfFail, r.line)
		}
		switch {
		case strings.Contains(r.line, "skipped"):
			nskip++
		case vars[i].kind == "breaking":
			nb++
		default:
			ng++
		}
	}
	out.SelfTest = append(out.SelfTest, fmt.Sprintf("summary: %d breaking variants reported, %d benign variants silent, %d skipped, %d failures", nb, ng, nskip, len(out.SelfFail)))
}

func runVariant(pc PropCheck, prop, repo string, v stVariant, base map[string]bool) (line string, fail bool) {
	defer func() {
		if e := recover(); e != nil {
			line, fail = fmt.Sprintf("%s %s: internal panic: %v", v.kind, v.id, e), true
		}
	}()
	tmp, err := os.MkdirTemp("", "vischeck-variant-")
	if err != nil {
		return fmt.Sprintf("%s %s: skipped (no scratch directory: %v)", v.kind, v.id, err), false
	}
	defer os.RemoveAll(tmp)
	dst := filepath.Join(tmp, "repo")
	if err := copyTree(repo, dst); err != nil {
		return fmt.Sprintf("%s %s: skipped (copy failed: %v)", v.kind, v.id, err), false
	}
	if v.patch != "" {
		cmd := exec.Command("patch", "-p1", "-s", "-i", v.patch)
		cmd.Dir = dst
		if outb, err := cmd.CombinedOutput(); err != nil {
			return fmt.Sprintf("%s %s: skipped (patch does not apply to the current tree: %s)", v.kind, v.id, firstLine(string(outb))), false
		}
	}
	for _, e := range v.edits {
		p := filepath.Join(dst, e.File)
		b, err := os.ReadFile(p)
		if err != nil || !strings.Contains(string(b), e.Old) {
			return fmt.Sprintf("%s %s: skipped (edit anchor not found in %s)", v.kind, v.id, e.File), false
		}
		if err := os.WriteFile(p, []byte(strings.Replace(string(b), e.Old, e.New, 1)), 0o644); err != nil {
			return fmt.Sprintf("%s %s: skipped (%v)", v.kind, v.id, err), false
		}
	}
	w, err := core.Load(dst, core.BuildConfig{})
	if err != nil {
		return fmt.Sprintf("%s %s: skipped (variant does not load: %s)", v.kind, v.id, firstLine(err.Error())), false
	}
	r := core.NewReport(prop, w)
	pc.Run(w, r)
	var newBad, newUndec []string
	for _, o := range r.Obls {
		if base[o.Key()] {
			continue
		}
		switch o.Verdict {
		case core.VViolated:
			newBad = append(newBad, o.Rule+" "+o.Construct)
		case core.VUndecided:
			newUndec = append(newUndec, o.Rule+" "+o.Construct)
		}
	}
	if v.kind == "breaking" {
		if len(newBad) == 0 {
			return fmt.Sprintf("breaking %s: NOT reported (expected %v)", v.id, v.expects), true
		}
		return fmt.Sprintf("breaking %s: reported %s", v.id, clip(newBad)), false
	}
	if len(newBad) > 0 || len(newUndec) > 0 || len(r.Vacuous) > 0 {
		return fmt.Sprintf("benign %s: FALSE ALARM %s %s %v", v.id, clip(newBad), clip(newUndec), r.Vacuous), true
	}
	return fmt.Sprintf("benign %s: silent", v.id), false
}

func clip(a []string) string {
	if len(a) > 3 {
		return fmt.Sprintf("%v (+%d more)", a[:3], len(a)-3)
	}
	return fmt.Sprint(a)
}

func firstLine(s string) string {
	s = strings.TrimSpace(s)
	if i := strings.IndexByte(s, '\n'); i >= 0 {
		s = s[:i]
	}
	if len(s) > 160 {
		s = s[:160]
	}
	return s
}

func copyTree(src, dst string) error {
	return filepath.Walk(src, func(p string, info os.FileInfo, err error) error {
		if err != nil {
			return err
		}
		rel, _ := filepath.Rel(src, p)
		if rel == ".git" || strings.HasPrefix(rel, ".git"+string(filepath.Separator)) {
			if info.IsDir() {
				return filepath.SkipDir
			}
			return nil
		}
		t := filepath.Join(dst, rel)
		if info.IsDir() {
			return os.MkdirAll(t, 0o755)
		}
		if !info.Mode().IsRegular() {
			return nil
		}
		in, err := os.Open(p)
		if err != nil {
			return err
		}
		defer in.Close()
		o, err := os.Create(t)
		if err != nil {
			return err
		}
		defer o.Close()
		_, err = io.Copy(o, in)
		return err
	})
}
