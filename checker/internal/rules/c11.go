package rules

import (
	"fmt"
	"go/token"
	"strings"

	"golang.org/x/tools/go/ssa"

	"vischeck/internal/core"
)

func init() {
	register("C11", PropCheck{
		Title:      "Sessions and data types never see each other's stored data",
		Explain:    "Structural necessary conditions of an injective storage-key encoding: (R1) no back end re-slices a LookupKey Default/Translation so that its leading type byte is dropped before it reaches a storage primitive; (R2) Put and Get of every back end derive their keys from DbBase.ToKey applied to the caller's key (no hand-built keys); (R3) where the key builder joins the session id and the key with a separator byte, the session id is sanitised against (or escaped for) that byte; (R4) the string the filesystem back end joins to its directory is an encoding that cannot contain path separators, or is checked for them; (R5) between ToKey's result and the storage primitive the filesystem back end applies only injective transformations (string conversion, the type-byte offset, hex/base64 encoding, path.Join with the directory) - any other function applied to key-derived data is reported, and so is a slice expression that cuts key-derived bytes at an upper bound (truncation; added after seeded change C11-I); (R6) the sticky context setters (SetSession/SetPrefix/SetLanguage) store their argument on every path, so no operation runs with a previous caller's session or type; (R8) in the filesystem back end every file opened for writing is the result of os.CreateTemp - a name unique to the write, never a fixed or shared scratch name that two stores on one directory could both write (added after seeded change C11-E); (R9) the bytes put in front of the caller's key by the session-key builder derive only from the store's own session field, through helpers and parameters at every call site - never from the request context (added after C11-F); (R10) DecodeKey strips and verifies the session prefix on every success path, whatever data type is selected (listings rely on it to stop at the session boundary; added after seeded change C11-G); (R11) the bytes Persister.Serialize returns are the encoder's own fresh result, not a view of a buffer the persister keeps - a store that keeps the caller's slice (the memory back end) would see a later session's snapshot under an earlier session's key (added after C11-H). (R12) every store lookup of the db-backed resource passes SetPrefix on every path from the entry of the exported method (directly or through a helper that calls it on every path): no remembered 'current type' (added after seeded change C11-J). (R13) the key argument of every Persister.Save/Load in the engine is the SessionId field itself (added after seeded change C11-K). (R14) every key a listing hands out (first entry given to Dumper.WithFirst, non-nil keys returned by the iterator function; fs and postgres) is the result of DecodeKey - DbBase.DecodeKey, or a back end's wrapper in which every success return passes it - looking through results of static helpers: the only place that refuses foreign rows a range/prefix query or directory scan delivers (added after seeded change C11-N). (R15) Persister.Load hands Deserialize the result of db.Db.Get made in that call - nothing remembered from an earlier Save, which a record key alone does not tie to the session selected on the store handle (added after seeded change C11-Q).",
		NotDecided: "injectivity of the encoding over all strings as such; Postgres collation and BYTEA comparison; what applications store under USERDATA.",
		Run:        runC11,
	})
}

// derivesFromLookupKey: v derives from a db.LookupKey field (Default/Translation), directly or
// through a helper parameter that is given such a value (keyParams: the parameters of back-end
// helper functions that receive key-derived values, computed per run by a fixpoint in runC11).
func derivesFromLookupKey(v ssa.Value, keyParams map[*ssa.Parameter]bool) bool {
	roots, _ := core.DeepSources(v, func(c *ssa.Call) []int {
		n := core.CallName(c)
		if strings.Contains(n, "EncodeToString") || n == "path.Join" || n == "path/filepath.Join" {
			var idx []int
			for i := range core.CallArgs(c) {
				idx = append(idx, i)
			}
			return idx
		}
		return nil
	})
	for _, s := range roots {
		if p, ok := s.(*ssa.Parameter); ok && keyParams[p] {
			return true
		}
		if tn, f, ok := core.LoadedField(s); ok && tn == "db.LookupKey" && (f == "Default" || f == "Translation") {
			return true
		}
		if fv, ok := s.(*ssa.Field); ok && core.TypeName(fv.X.Type()) == "db.LookupKey" {
			return true
		}
	}
	return false
}

func runC11(w *core.World, r *core.Report) {
	r.Rule("R1", "the type byte of a storage key is never sliced off in a back end")
	r.Rule("R2", "Put/Get derive keys from ToKey(caller's key)")
	r.Rule("R3", "session id is sanitised against the separator byte it is joined with")
	r.Rule("R4", "fs: the name joined to the directory cannot contain path separators")
	r.Rule("R5", "fs: only injective transformations between ToKey and the storage primitive")
	r.Rule("R6", "context setters store their argument on every path")
	r.Rule("R7", "the persister selects its session on the store unconditionally (WithSession, or every Save and Load)")
	r.Rule("R8", "fs: every file opened for writing is an os.CreateTemp result (a name unique to the write, never a fixed or shared scratch name)")
	r.Rule("R15", "Persister.Load decodes the bytes db.Db.Get returned in that call (nothing remembered from an earlier Save)")
	r.Rule("R14", "every key a listing (fs, postgres) hands out is the result of DecodeKey, which checks the session prefix")
	r.Rule("R13", "the engine saves and loads a session under Config.SessionId itself")
	r.Rule("R12", "every store lookup of the db-backed resource selects its own data type first, unconditionally")
	r.Rule("R11", "the snapshot bytes the persister hands to the store are freshly encoded for the call (not a view of a reused buffer)")
	r.Rule("R10", "DecodeKey verifies the session prefix on every success path")
	r.Rule("R9", "the session prefix of a storage key comes only from the store's own session field (SetSession), never from the context or another source")

	bes := dbBackends(w, r)
	r.Floor("R2", "db.Db implementations", len(bes), 3)
	// ---- R1 -----------------------------------------------------------------------------------
	n1 := 0
	for _, be := range bes {
		for _, fn := range w.FuncsIn(be.pkg) {
			for _, b := range fn.Blocks {
				for _, in := range b.Instrs {
					sl, ok := in.(*ssa.Slice)
					if !ok || sl.Low == nil {
						continue
					}
					if c, isC := core.ConstInt(sl.Low); isC && c == 0 {
						continue
					}
					if !derivesFromLookupKey(sl.X, nil) {
						continue
					}
					n1++
					fld := "key"
					for _, s := range core.Sources(sl.X) {
						if _, f, ok := core.LoadedField(s); ok {
							fld = f
						}
					}
					r.Bad("R1", fmt.Sprintf("%s back end: LookupKey.%s re-sliced without its type byte", be.pkg, fld), sl.Pos(),
						"the leading type byte of the storage key is dropped: records of different data types (and a session's state vs. another session's user data) map to the same storage name")
				}
			}
		}
		// ---- R2 ----
		for _, fn := range []*ssa.Function{be.put, be.get} {
			r.Touch(core.QName(fn))
			r.Check(keyReachesToKey(fn, 2, 0), "R2", fmt.Sprintf("%s.%s.%s: key derivation", be.pkg, be.typ, fn.Name()), fn.Pos(), "caller's key -> DbBase.ToKey",
				"the storage key is built without DbBase.ToKey (type byte and session prefix bypassed)")
		}
	}
	r.OK("R1", "back-end functions scanned for key re-slicing", token.NoPos, fmt.Sprintf("%d re-slicing sites found", n1))

	// ---- R3 -----------------------------------------------------------------------------------
	if ss := anchor(w, r, "db", "(*DbBase).SetSession"); ss != nil {
		// does it append a separator constant?
		joins := false
		for _, c := range core.CallsTo(ss, "builtin.append") {
			args := c.Common().Args
			if len(args) == 2 {
				roots, _ := core.DeepSources(args[1], nil)
				for _, s := range roots {
					if _, isC := s.(*ssa.Const); isC {
						joins = true
					}
				}
			}
		}
		if joins {
			sanitised := false
			for _, c := range core.Calls(ss) {
				n := core.CallName(c)
				if strings.HasPrefix(n, "strings.Contains") || strings.HasPrefix(n, "strings.Index") || strings.HasPrefix(n, "bytes.Contains") || strings.HasPrefix(n, "bytes.Index") ||
					strings.HasPrefix(n, "strings.Replace") || strings.Contains(n, "Escape") || strings.Contains(n, "EncodeToString") {
					sanitised = true
				}
			}
			r.Check(sanitised, "R3", "db.(*DbBase).SetSession: separator hygiene", ss.Pos(), "session id sanitised/escaped",
				"the session id is joined to the key with a separator byte but is not checked or escaped for that byte: session 'a' key 'b.c' and session 'a.b' key 'c' address the same record")
		} else {
			r.OK("R3", "db.(*DbBase).SetSession: separator hygiene", ss.Pos(), "no separator join found (length-prefixed or otherwise)")
		}
	}

	// ---- R4 / R5 (fs) --------------------------------------------------------------------------
	injective := func(n string) bool {
		switch {
		case n == "path.Join", n == "path/filepath.Join", strings.Contains(n, "EncodeToString"), strings.HasPrefix(n, "logging."), strings.HasPrefix(n, "fmt.Sprint"),
			n == "builtin.len", n == "builtin.append", n == "builtin.copy", n == "db.NewErrNotFound":
			return true
		}
		return false
	}
	// which helper parameters receive key-derived values (fixpoint)
	keyParams := map[*ssa.Parameter]bool{}
	for changed := true; changed; {
		changed = false
		for _, fn := range w.FuncsIn("db/fs") {
			for _, c := range core.Calls(fn) {
				g := core.StaticCallee(c)
				if g == nil || core.PkgOf(g) != "db/fs" {
					continue
				}
				for i, a := range core.CallArgs(c) {
					if i < len(g.Params) && !keyParams[g.Params[i]] && core.ByteLike(g.Params[i].Type()) && derivesFromLookupKey(a, keyParams) {
						keyParams[g.Params[i]] = true
						changed = true
					}
				}
			}
		}
	}
	n5 := 0
	for _, fn := range w.FuncsIn("db/fs") {
		if strings.Contains(fn.Name(), "ump") || fn.Name() == "nextElement" || fn.Name() == "DecodeKey" {
			continue // listing (Dump) decodes names; C10/C11 state it as not decided
		}
		for _, c := range core.Calls(fn) {
			args := core.CallArgs(c)
			uses := false
			for _, a := range args {
				if derivesFromLookupKey(a, keyParams) {
					uses = true
				}
			}
			if !uses {
				continue
			}
			n := core.CallName(c)
			if g := core.StaticCallee(c); g != nil && core.PkgOf(g) == "db/fs" {
				continue // helper of the back end itself: scanned on its own
			}
			n5++
			switch {
			case n == "path.Join" || n == "path/filepath.Join":
				// R4: the joined element must be separator-free: an encoding without '/', or checked
				confined := false
				for _, a := range args {
					_, passed := core.DeepSources(a, func(cc *ssa.Call) []int {
						if strings.Contains(core.CallName(cc), "hex.EncodeToString") || strings.Contains(core.CallName(cc), "URLEncoding") || strings.Contains(core.CallName(cc), "Escape") {
							return []int{len(core.CallArgs(cc)) - 1}
						}
						return nil
					})
					if len(passed) > 0 {
						confined = true
					}
				}
				for _, cc := range core.Calls(fn) {
					nn := core.CallName(cc)
					if strings.HasPrefix(nn, "strings.Contains") || strings.HasPrefix(nn, "bytes.Contains") || strings.HasPrefix(nn, "strings.Index") || strings.HasPrefix(nn, "bytes.Index") {
						confined = true
					}
				}
				r.Check(confined, "R4", "db/fs back end: name joined to the store directory", c.Pos(), "separator-free encoding or checked",
					"the raw storage key (which contains the client-chosen session id and key) is joined to the directory without excluding path separators: a key containing '/..' addresses files outside the store or another record")
			case isStoragePrimitive(c), n == "os.Open", n == "os.ReadFile", n == "io/ioutil.ReadFile", n == "os.Stat", n == "os.CreateTemp", n == "path.Dir":
				r.OK("R5", fmt.Sprintf("%s: %s(key-derived)", core.QName(fn), n), c.Pos(), "storage primitive")
			case injective(n):
				r.OK("R5", fmt.Sprintf("%s: %s(key-derived)", core.QName(fn), n), c.Pos(), "injective / diagnostic")
			default:
				r.Bad("R5", fmt.Sprintf("%s: %s(key-derived)", core.QName(fn), n), c.Pos(),
					"a storage key passes through "+n+", which is not in the table of injective transformations: distinct (type, session, key) triples may map to one file")
			}
		}
	}
	// ... and no truncation: cutting key-derived bytes at an upper bound maps all longer keys with
	// the same head to one file
	for _, fn := range w.FuncsIn("db/fs") {
		if strings.Contains(fn.Name(), "ump") || fn.Name() == "nextElement" || fn.Name() == "DecodeKey" {
			continue
		}
		for _, in := range allInstrs(fn) {
			sl, ok := in.(*ssa.Slice)
			if !ok || sl.High == nil || !core.ByteLike(sl.X.Type()) {
				continue
			}
			if derivesFromLookupKey(sl.X, keyParams) {
				r.Bad("R5", fmt.Sprintf("%s: key-derived bytes cut at an upper bound", core.QName(fn)), sl.Pos(),
					"a storage key is truncated on its way to the file name: truncation is not injective, so all keys (and session ids) that share the kept head address one file")
			}
		}
	}
	r.Floor("R5", "key-derived call arguments in db/fs", n5, 1)

	// ---- R6 -----------------------------------------------------------------------------------
	checkContextSetters(w, r, "R6")

	// ---- R7 -----------------------------------------------------------------------------------
	selects := func(fn *ssa.Function) bool {
		if fn == nil {
			return false
		}
		var sel func(f *ssa.Function, depth int) bool
		sel = func(f *ssa.Function, depth int) bool {
			if depth > 2 || len(f.Blocks) == 0 {
				return false
			}
			cut := core.NewCut()
			n := 0
			for _, c := range core.Calls(f) {
				if core.IsCallTo(c, "db.Db.SetSession") {
					cut.AddInstr(c.(ssa.Instruction))
					n++
				} else if g := core.StaticCallee(c); g != nil && core.PkgOf(g) == "persist" && g != f && sel(g, depth+1) {
					cut.AddInstr(c.(ssa.Instruction))
					n++
				}
			}
			if n == 0 {
				return false
			}
			in, _ := core.Reach(core.Entry(f), core.IsReturn, cut)
			return in == nil
		}
		return sel(fn, 0)
	}
	ws := anchor(w, r, "persist", "(*Persister).WithSession")
	sv, ld := w.Func("persist", "(*Persister).Save"), w.Func("persist", "(*Persister).Load")
	if ws != nil {
		ok := selects(ws) || (selects(sv) && selects(ld))
		r.Check(ok, "R7", "persist.(*Persister): session selected unconditionally", ws.Pos(), "db.SetSession on every path",
			"the persister applies its session id to the store only on some paths (for instance not for the empty session): on a shared handle it then loads and overwrites the state of whichever session was selected last")
	}

	// ---- R8 -----------------------------------------------------------------------------------
	checkUniqueTempFiles(w, r, "R8")
	// ---- R9 -----------------------------------------------------------------------------------
	{
		// every value appended in front of the caller's key in the session-key builder derives from
		// the field baseDb.sid only
		n, bad := 0, ""
		var badPos token.Pos
		var fromSid func(fn *ssa.Function, v ssa.Value, d int) bool
		fromSid = func(fn *ssa.Function, v ssa.Value, d int) bool {
			if d > 3 {
				return false
			}
			srcs := core.Sources(v)
			if len(srcs) == 0 {
				return false
			}
			for _, src := range srcs {
				if _, f, ok := core.LoadedField(src); ok && f == "sid" {
					continue
				}
				if p, ok := src.(*ssa.Parameter); ok {
					// a helper: every library caller passes the sid field
					pi := paramIndex(p)
					m := 0
					for _, caller := range w.LibFuncs {
						for _, c := range callsToSet(caller, map[*ssa.Function]bool{fn: true}) {
							m++
							args := core.CallArgs(c)
							if pi >= len(args) || !fromSid(caller, args[pi], d+1) {
								return false
							}
						}
					}
					if m > 0 {
						continue
					}
					return false
				}
				if c, ok := src.(*ssa.Call); ok {
					if g := core.StaticCallee(c); g != nil && w.InLib(g) && len(g.Blocks) > 0 {
						all := true
						for _, in := range allInstrs(g) {
							if ret, ok := in.(*ssa.Return); ok && len(ret.Results) > 0 {
								if !fromSid(g, ret.Results[0], d+1) {
									all = false
								}
							}
						}
						if all {
							continue
						}
					}
				}
				return false
			}
			return true
		}
		for _, fn := range w.FuncsIn("db") {
			for _, c := range core.Calls(fn) {
				cc, ok := c.(*ssa.Call)
				if !ok || !core.IsCallTo(cc, "builtin.append") || len(cc.Call.Args) != 2 {
					continue
				}
				// append(prefix, key...) where key is a parameter named by its role: the second operand is a []byte parameter
				if p, ok := core.Strip(cc.Call.Args[1]).(*ssa.Parameter); !ok || p.Type().String() != "[]byte" {
					continue
				}
				if !strings.Contains(strings.ToLower(fn.Name()), "sessionkey") {
					continue
				}
				n++
				r.Touch(core.QName(fn))
				if !fromSid(fn, cc.Call.Args[0], 0) {
					bad = fmt.Sprintf("%s prepends something that is not (only) the store's session field at %s", core.QName(fn), w.Pos(cc.Pos()))
					badPos = cc.Pos()
				}
			}
		}
		r.Check(bad == "" && n > 0, "R9", "db: session prefix comes only from the store's session field", badPos, fmt.Sprintf("%d prefixing site(s)", n),
			"the session a key belongs to can be chosen by something other than SetSession (for instance a value found on the request context): a lookup meant for the shared namespace lands in a session's, or in another session's: "+bad)
	}
	// ---- R10 / R11 ----------------------------------------------------------------------------
	checkDecodeKeySessionCheck(w, r, "R10")
	checkSerializeFresh(w, r, "R11")
	checkResourceSelectsType(w, r, "R12")
	checkPersistKeyIsSessionId(w, r, "R13")
	checkListedKeysPassDecodeKey(w, r, "R14")
	checkLoadReadsTheStore(w, r, "R15", "a session is loaded from bytes the persister kept from an earlier save instead of from the store: the record key does not identify the session selected on the store handle, so one session is handed another session's state and cache: ")
}

// checkUniqueTempFiles (C11 R8, C19 R4): in the filesystem back end every file opened for writing is
// the result of os.CreateTemp - a name unique to the write. A fixed, per-directory or per-process
// scratch name is shared by every store object on that directory (one per request is a normal
// set-up) and by every session served concurrently in the process.
func checkUniqueTempFiles(w *core.World, r *core.Report, rule string) {
	n, bad := 0, ""
	var badPos token.Pos
	for _, fn := range w.FuncsIn("db/fs") {
		for _, c := range core.Calls(fn) {
			switch core.CallName(c) {
			case "os.CreateTemp":
				n++
			case "os.WriteFile", "io/ioutil.WriteFile", "os.Create", "os.OpenFile", "io/ioutil.TempFile":
				bad = fmt.Sprintf("%s opens a file for writing with %s at %s", core.QName(fn), core.CallName(c), w.Pos(c.Pos()))
				badPos = c.Pos()
			}
		}
	}
	r.Check(bad == "" && n > 0, rule, "db/fs: files are written only through os.CreateTemp", badPos, fmt.Sprintf("%d CreateTemp site(s), no other file-creating call", n),
		"a file with a fixed or derived name is written in the store directory: two stores on one directory (one per request is a normal set-up), or two sessions served concurrently, can interleave their writes and one session's record receives another session's bytes: "+bad)
}
