package rules

import (
	"fmt"
	"go/token"
	"go/types"
	"os"
	"strings"

	"golang.org/x/tools/go/ssa"

	"vischeck/internal/core"
)

func init() {
	register("C08", PropCheck{
		Title:      "No sequence of client inputs can crash the engine or corrupt a session",
		Explain:    "Named crash and consistency mechanisms, decided structurally: (R1) every explicit panic in a library function reachable (CHA over the library) from Exec/Flush/Finish/Reset is classified by the condition that controls it, not by the function it sits in (so a guard moved into a helper keeps its class) - flag index against BitSize and self-move (excluded by the property's well-formedness assumptions), Db.Safe and Persister.Invalid (configuration misuse), infeasible (checked: guarded by a test that an earlier return already excluded), depth against MaxLevel (checked: every reachable call site of the exported state functions that reach it lies behind a comparison with state.MaxLevel) - and a reachable panic controlled by anything else is a violation; (R2) navigation depth and cache scopes move in lockstep: Down/Push and Up/Pop are paired on every path and no other frame-count change happens in vm/engine; (R3) browsing out of range is an error, not a crash: every index and slice in Sizer.GetAt and Menu.applyPage/shiftMenu is proved in bounds by the zone engine, applyPage reports *BrowseError for an index beyond the page count, and Vm.Render answers a BrowseError by moving to the catch node and rendering again; (R4) every byte index in the input-validation functions of package vm is proved in bounds (arbitrary client bytes reach them); (R5) the cache's size accounting rules (C09 R4-R6: value classes of every CacheUseSize update, rollback before every error return, scope release) hold, so accounting matches contents after every request; (R6) no lossy integer narrowing in any function reachable from the entry points (constructors included): every conversion to a type that cannot hold all values of its source type has an operand the zone engine proves within the target range at that point, or is a length (built from len() results only) converted to at least 32 bits, or the number of page cursors converted to 16 bits (both covered by stated assumptions) - a wrapped size, limit or count is how a buffer ends up shorter than its index range. (R7) every index and slice expression in every function reachable from the entry points (103 sites with source positions today, 766 counting compiler-built ones) is proved in bounds by the zone engine, using class invariants and callee summaries that are themselves checked inductively over every writer in the library before they are used: the cache always holds at least one frame (every store to Cache.Cache is a non-empty literal, an append to itself, a re-slice proved non-empty, or restored by a growing call before the function returns), the frame lookup returns a negative constant or a proved frame number, every storage key starts with its type byte (LookupKey.Default non-empty, Translation nil or non-empty, ToKey sets the default key on every success path, the key builder's result is proved non-empty); two small classes are decided by their own structural argument: flag bytes indexed by bit/8 where the bit is below BitSize on a dominating edge in the function or, for helpers, at every library call site (bounds kept as affine expressions through up to three levels), and a frame number parameter that every library caller bounds by Levels(). (R8) every map that is written in a function reachable from the entry points is non-nil: made in the same function, a frame of the cache (every value stored into the frame list is a made map), a field that is tested for nil and made before the write, a field that every allocation of its struct in the library is followed by a store of a made map before the allocating function returns and that every other store in the library sets to a made map, a parameter or library result traced to one of these at every call site / return; memDb.store is nil until Connect, which the Db interface requires before use (assumed) (R9) in the engine's exec backend the code recorded after Vm.Run is the run's own result and is recorded only behind the run's success edge - code put back after a failed run belongs to another node than the one the run left and routes the next input into State.Down's self-move panic (added after seeded change C08-G). The flag-index class of R7 rests on BitSize <= 8*len(Flags); that premise is now a checked invariant: State.BitSize and the State.Flags field are stored only on a State allocated in the same function, with the byte count computed by the rounding helper from the very expression stored as BitSize (added after seeded change C15-J, which no check reported at first). (R10) = C20 R2: every non-error return of Flush passes the reset or the exiting==false edge (added after seeded change C08-I). (R11) State/Memory.Invalidate - after which Persister.Save panics - is called only by the pre-VM hook; (R12) no Must-style helper of the standard library is applied to run-time data in a function on the request path (added after seeded changes C08-K and C08-L). (R13) = C04 R10: the engine re-attaches its state and cache after saving a new session (added after seeded change C08-O). (R14) every dereference of a value loaded from State.Language on the request path lies behind the non-nil edge of a nil test of that field in the same function (added after seeded change C08-P, a log argument that dereferenced it after an ignored SetLanguage error).",
		NotDecided: "implicit panics other than index/slice bounds and nil-map writes: nil dereference, a back end used before Connect, the one unchecked type assertion (the context's \"Language\" value, written only by the library: C18 R3); persisted snapshots are assumed to be ones the library wrote (a hand-made snapshot can break the class invariants R7 relies on); the relation BitSize <= 8*len(Flags) is the constructor's arithmetic and is assumed (its narrowing-free computation is R6); 'can still be saved, loaded and continued' as a whole-history statement; input validation preceding every effect is C17.",
		Assume:     []string{"calls through interfaces and function values (logging, formatting) do not write the fields of renderer objects being read (used to unify repeated loads of a field)", "byte strings are shorter than 2^32 bytes and a node has fewer than 65536 pages (R6 classes length32 / pages16)", "objects of the library's struct types are created by the library's constructors, and persisted snapshots are ones the library wrote (class invariants of R7/R8)", "State.BitSize <= 8*len(State.Flags): the constructor's arithmetic (R7 flag bytes; its narrowing-free computation is R6)", "Db.Connect is called before a back end is used (R8 memDb.store)"},
		Run:        runC08,
	})
}

// Classification of explicit panics (R1) by the condition that controls them, not by the name of
// the function they sit in (so that moving a guard into a helper changes nothing):
//
//	flag-range  (assumed)    package state, controlled by a comparison with the BitSize field:
//	                         excluded by the property (flags in range); bytecode-supplied indices
//	                         are range-checked (C15 R7)
//	depth       (guarded)    package state, controlled by a comparison with state.MaxLevel: every
//	                         reachable call site outside state must test the depth first
//	self-move   (assumed)    package state, controlled by equality of a parameter with an element of
//	                         ExecPath: excluded by the property (no node moves to itself)
//	unsafe-store (config)    controlled by the result of db.Db.Safe: configuration misuse
//	invalidated (config)     package persist, controlled by Persister.Invalid(): documented misuse
//	infeasible               panic(err) behind a test of an error that an earlier return excluded
type panicKind struct{ kind, class, reason string }

// controllingConds lists the conditions of the branches that must be taken to reach block b.
func controllingConds(b *ssa.BasicBlock) []ssa.Value {
	var out []ssa.Value
	for _, x := range b.Parent().Blocks {
		ifi, ok := x.Instrs[len(x.Instrs)-1].(*ssa.If)
		if !ok || !(x == b || x.Dominates(b)) || x == b {
			continue
		}
		n := 0
		for _, s := range x.Succs {
			if len(s.Preds) == 1 && (s == b || s.Dominates(b)) {
				n++
			}
		}
		if n == 1 {
			out = append(out, ifi.Cond)
		}
	}
	return out
}

// condLeaves walks the operands of a condition down to loads, parameters, globals and calls.
func condLeaves(v ssa.Value, seen map[ssa.Value]bool, out *[]ssa.Value) {
	if v == nil || seen[v] || len(seen) > 200 {
		return
	}
	seen[v] = true
	switch t := v.(type) {
	case *ssa.BinOp:
		condLeaves(t.X, seen, out)
		condLeaves(t.Y, seen, out)
	case *ssa.UnOp:
		if t.Op == token.MUL {
			*out = append(*out, t)
			if ia, ok := t.X.(*ssa.IndexAddr); ok {
				condLeaves(ia.X, seen, out)
			}
			return
		}
		condLeaves(t.X, seen, out)
	case *ssa.Convert:
		condLeaves(t.X, seen, out)
	case *ssa.ChangeType:
		condLeaves(t.X, seen, out)
	case *ssa.Phi:
		for _, e := range t.Edges {
			condLeaves(e, seen, out)
		}
	case *ssa.Call:
		*out = append(*out, t)
		if core.IsCallTo(t, "builtin.len") {
			condLeaves(t.Call.Args[0], seen, out)
		}
	case *ssa.Index:
		*out = append(*out, t)
		condLeaves(t.X, seen, out)
	default:
		*out = append(*out, v)
	}
}

func classifyPanic(p *ssa.Panic) (panicKind, bool) {
	fn := p.Parent()
	pkg := core.PkgOf(fn)
	var leaves []ssa.Value
	for _, c := range controllingConds(p.Block()) {
		condLeaves(c, map[ssa.Value]bool{}, &leaves)
	}
	hasField := func(name string) bool {
		for _, l := range leaves {
			if _, f, ok := core.LoadedField(l); ok && f == name {
				return true
			}
		}
		return false
	}
	hasGlobal := func(name string) bool {
		for _, l := range leaves {
			if g := core.GlobalOf(l); g != nil && g.Name() == name {
				return true
			}
			if u, ok := l.(*ssa.UnOp); ok {
				if g, ok := u.X.(*ssa.Global); ok && g.Name() == name {
					return true
				}
			}
		}
		return false
	}
	hasCall := func(names ...string) bool {
		for _, l := range leaves {
			if c, ok := l.(*ssa.Call); ok && core.IsCallTo(c, names...) {
				return true
			}
		}
		return false
	}
	strEqParam := false
	for _, c := range controllingConds(p.Block()) {
		if bo, ok := c.(*ssa.BinOp); ok && (bo.Op == token.EQL || bo.Op == token.NEQ) {
			_, px := core.Strip(bo.X).(*ssa.Parameter)
			_, py := core.Strip(bo.Y).(*ssa.Parameter)
			if bt, isB := bo.X.Type().Underlying().(*types.Basic); isB && bt.Info()&types.IsString != 0 && (px || py) {
				strEqParam = true
			}
		}
	}
	switch {
	case pkg == "state" && strEqParam && hasField("ExecPath"):
		return panicKind{"self-move", "assumed", "descending into the node that is already current: excluded by the property (no node moves to itself)"}, true
	case pkg == "state" && (hasField("BitSize") || hasCall("state.(*State).FlagBitSize")):
		return panicKind{"flag-range", "assumed", "flag index out of range: excluded by the property (flags in range); bytecode-supplied indices are range-checked (C15 R7)"}, true
	case pkg == "state" && hasGlobal("MaxLevel"):
		return panicKind{"depth", "guarded", "stack depth beyond MaxLevel: every reachable call site checks the depth against state.MaxLevel first"}, true
	case hasCall("db.Db.Safe"):
		return panicKind{"unsafe-store", "config", "store not locked for use with a resource: configuration misuse, independent of client input"}, true
	case pkg == "persist" && hasCall("persist.(*Persister).Invalid"):
		return panicKind{"invalidated", "config", "saving an invalidated persister: documented misuse (continuing to use an engine whose initialisation failed)"}, true
	case panicInfeasible(p):
		return panicKind{"infeasible", "infeasible", "panic(err) behind a test of the parse error that an earlier return already excluded"}, true
	}
	return panicKind{}, false
}

func runC08(w *core.World, r *core.Report) {
	r.Rule("R1", "every explicit panic reachable from Exec/Flush/Finish/Reset is classified (config / assumed / infeasible / guarded); a new one is a violation")
	r.Rule("R2", "Down/Push and Up/Pop paired on every path; no other frame-count change in vm/engine")
	r.Rule("R3", "browse out of range: GetAt/applyPage/shiftMenu in bounds, BrowseError reported and handled by Vm.Render")
	r.Rule("R4", "byte indices in vm's input validation functions are in bounds")
	r.Rule("R5", "cache size accounting rules (C09 R4-R6)")
	r.Rule("R12", "no panicking Must helper of the standard library is applied to run-time data on the request path")
	r.Rule("R11", "State/Memory.Invalidate (which makes Persister.Save panic) is called only by the pre-VM hook")
	r.Rule("R10", "a gracefully ended session is always unwound (C20 R2): every non-error return of Flush passes the reset or the exiting==false edge - an ended but un-unwound session descends into its own node on the next request")
	r.Rule("R9", "the code the engine records after a run is the run's result, recorded on the run's success edge only")
	r.Rule("R8", "every map written on the request path is non-nil: fresh, a cache frame, a field made by every constructor and writer, or memDb.store (Connect first, assumed)")
	r.Rule("R14", "State.Language, nil until a language is selected, is dereferenced only behind a nil test")
	r.Rule("R13", "the engine re-attaches its state and cache after saving a new session (C04 R10): stack and cache scopes of the stored session stay in step")
	r.Rule("R7", "every index/slice expression in functions reachable from the entry points is proved in bounds (zone engine + checked class invariants and summaries)")
	r.Rule("R6", "no lossy integer narrowing on the request path (incl. constructors): operand proved in range, or a length < 2^32 / page count < 2^16 by assumption")

	var roots []*ssa.Function
	for _, n := range []string{"(*DefaultEngine).Exec", "(*DefaultEngine).Flush", "(*DefaultEngine).Finish", "(*DefaultEngine).Reset"} {
		if f := anchor(w, r, "engine", n); f != nil {
			roots = append(roots, f)
		}
	}
	if len(roots) != 4 {
		return
	}
	reach, pred := reachable(w, roots)

	// ---- R1 -----------------------------------------------------------------------------------
	np := 0
	kinds := map[string]int{}
	for _, fn := range w.LibFuncs {
		if !reach[fn] {
			continue
		}
		ord := 0
		for _, b := range fn.Blocks {
			for _, in := range b.Instrs {
				p, ok := in.(*ssa.Panic)
				if !ok {
					continue
				}
				np++
				r.Touch(core.QName(fn))
				ord++
				key := fmt.Sprintf("%s: panic #%d", core.QName(fn), ord)
				cl, known := classifyPanic(p)
				if !known {
					r.Bad("R1", key, p.Pos(), "an explicit panic is reachable from the request path and the condition that controls it is none of the classified kinds (flag-range, depth, self-move, unsafe-store, invalidated, infeasible): client input may crash the process", "call path: "+callPath(w, pred, fn))
					continue
				}
				kinds[cl.kind]++
				switch cl.class {
				case "config", "assumed":
					r.OK("R1", key, p.Pos(), cl.class+" ("+cl.kind+"): "+cl.reason)
				case "infeasible":
					r.OK("R1", key, p.Pos(), "infeasible: "+cl.reason)
				case "guarded":
					// entry points: the exported functions of the package that reach the panic
					entries := map[*ssa.Function]bool{}
					for _, f := range w.FuncsIn(core.PkgOf(fn)) {
						if !token.IsExported(f.Name()) {
							continue
						}
						if sub, _ := reachable(w, []*ssa.Function{f}); f == fn || sub[fn] {
							entries[f] = true
						}
					}
					bad := ""
					nsites := 0
					for _, caller := range w.LibFuncs {
						if !reach[caller] || core.PkgOf(caller) == core.PkgOf(fn) {
							continue
						}
						for _, c := range callsToSet(caller, entries) {
							nsites++
							if !guardedByMaxLevel(c) {
								bad = fmt.Sprintf("call at %s in %s is not behind a depth test against state.MaxLevel", w.Pos(c.Pos()), core.QName(caller))
							}
						}
					}
					r.Check(bad == "" && nsites > 0, "R1", key, p.Pos(), fmt.Sprintf("guarded at all %d reachable call sites: %s", nsites, cl.reason),
						"a well-formed application lets a client reach this panic (descent beyond MaxLevel through nodes that move to each other across HALTs): "+bad)
				}
			}
		}
	}
	r.Floor("R1", "functions reachable from the request entry points", len(reach), 100)
	r.Floor("R1", "reachable explicit panics", np, 1)

	// ---- R6 -----------------------------------------------------------------------------------
	{
		var fns []*ssa.Function
		for _, fn := range w.LibFuncs {
			if reach[fn] && core.QName(fn) != "vm.NewLine" { // the line builder is an encoder: C14 R3
				fns = append(fns, fn)
			}
		}
		n := checkNarrowing(w, r, "R6", fns, "the wrapped value is used as a size, limit, count or index on the request path (a buffer shorter than its index range, a limit that wraps to 'unlimited')")
		r.Floor("R6", "narrowing conversions on the request path", n, 5)
	}
	// ---- R7 -----------------------------------------------------------------------------------
	checkLibraryBounds(w, r, "R7", reach)
	checkFlagSizeRelation(w, r, "R7")
	// ---- R8 -----------------------------------------------------------------------------------
	checkMapWrites(w, r, "R8", reach)
	// ---- R9 -----------------------------------------------------------------------------------
	checkCodeRecordedFromRun(w, r, "R9")
	checkFlushResetsOnGracefulEnd(w, r, "R10")
	checkReattachAfterSave(w, r, "R13")
	checkLanguageDerefGuarded(w, r, "R14", reach)
	{
		roles := resolveEngineRoles(w)
		checkWhoMayCall(w, r, "R11", "State/Memory.Invalidate is called only by the pre-VM hook",
			func(c ssa.CallInstruction) bool {
				nm := core.CallName(c)
				return nm == "state.(*State).Invalidate" || nm == "cache.(*Cache).Invalidate" || (c.Common().IsInvoke() && c.Common().Method.Name() == "Invalidate")
			},
			func(fn *ssa.Function) bool { return fn == roles.PreVmHook },
			"all in the engine's pre-VM hook",
			"state or memory is marked invalid outside the pre-VM hook: Persister.Save panics on invalidated content, so a request that merely fails to render crashes Finish (and Loop through its deferred Finish)", 1)
	}
	checkNoMustOnRequestPath(w, r, "R12", reach)
	if os.Getenv("VISCHECK_EXPLORE") == "implicit" {
		exploreImplicit(w, r, reach)
	}
	// ---- R2 -----------------------------------------------------------------------------------
	checkPairing(w, r, "R2")
	for _, fn := range w.FuncsIn("engine") {
		if len(core.CallsTo(fn, "state.(*State).Restart")) > 0 && len(core.CallsTo(fn, stUp)) > 0 {
			checkRestartAfterUnwind(w, r, fn, "R2")
		}
	}

	// ---- R3 -----------------------------------------------------------------------------------
	checkBrowseBounds(w, r, "R3")

	// ---- R4 -----------------------------------------------------------------------------------
	if vi := anchor(w, r, "vm", "ValidInput"); vi != nil {
		fns := map[*ssa.Function]bool{vi: true}
		for changed := true; changed; {
			changed = false
			for f := range fns {
				for _, c := range core.Calls(f) {
					if g := core.StaticCallee(c); g != nil && core.PkgOf(g) == "vm" && !fns[g] && len(g.Blocks) > 0 {
						fns[g] = true
						changed = true
					}
				}
			}
		}
		n := 0
		for f := range fns {
			bd := core.NewBounds(f, intBits(w))
			for _, s := range bd.Sites(core.ByteLike) {
				n++
				r.Check(s.OK, "R4", fmt.Sprintf("%s: %s %s", core.QName(f), s.Kind, s.Expr), s.Instr.Pos(), "in bounds", s.Missing+": arbitrary client bytes can make input validation panic")
			}
		}
		r.OK("R4", "vm.ValidInput and callees scanned", vi.Pos(), fmt.Sprintf("%d functions, %d byte index/slice sites", len(fns), n))
	}

	// ---- R5 -----------------------------------------------------------------------------------
	oracles := capacityOracles(w)
	add, upd, pop := w.Func("cache", "(*Cache).Add"), w.Func("cache", "(*Cache).Update"), w.Func("cache", "(*Cache).Pop")
	if add == nil || upd == nil || pop == nil {
		r.Undecided("R5", "cache.(*Cache).Add/Update/Pop", token.NoPos, "unresolved anchor")
	} else {
		checkCacheAccounting(w, r, oracles, add, upd, pop, "R5", "R5", "R5")
	}
}

func valueTypeString(v ssa.Value) string {
	if mi, ok := v.(*ssa.MakeInterface); ok {
		return mi.X.Type().String()
	}
	return ""
}

// panicInfeasible: the panic is reached only through an edge on which some value is non-nil,
// while the block testing it is dominated by an edge on which the same value is nil.
func panicInfeasible(p *ssa.Panic) bool {
	b := p.Block()
	if len(b.Preds) != 1 {
		return false
	}
	pb := b.Preds[0]
	ifi, ok := pb.Instrs[len(pb.Instrs)-1].(*ssa.If)
	if !ok {
		return false
	}
	bo, ok := ifi.Cond.(*ssa.BinOp)
	if !ok || (bo.Op != token.NEQ && bo.Op != token.EQL) || !core.IsNilConst(bo.Y) {
		return false
	}
	x := bo.X
	// the panic is on x's non-nil side
	nonNilSucc := 0
	if bo.Op == token.EQL {
		nonNilSucc = 1
	}
	if pb.Succs[nonNilSucc] != b {
		return false
	}
	// an earlier test: pb dominated by the nil side of another test of x
	for _, ce := range core.NilTestEdges(x) {
		if !ce.Val || ce.E.From == pb {
			continue
		}
		t := ce.E.To()
		if len(t.Preds) == 1 && (t == pb || t.Dominates(pb)) {
			return true
		}
	}
	return false
}

// guardedByMaxLevel: the call is only reached through an edge of a comparison with state.MaxLevel
// that implies len(ExecPath) <= MaxLevel (the negation of Down's panic condition). The compared
// expression is read as len(ExecPath)+off: State.Depth() is len-1 (checked on Depth's body),
// len(st.ExecPath) is len+0, and +/- constants shift the offset.
func guardedByMaxLevel(c ssa.CallInstruction) bool {
	fn := c.Parent()
	cut := core.NewCut()
	n := 0
	isMax := func(v ssa.Value) bool {
		for _, s := range core.Sources(v) {
			if g := core.GlobalOf(s); g != nil && g.Name() == "MaxLevel" {
				return true
			}
		}
		return false
	}
	var lenOff func(v ssa.Value, d int) (int64, bool)
	lenOff = func(v ssa.Value, d int) (int64, bool) {
		if d > 4 {
			return 0, false
		}
		v = core.Strip(v)
		switch t := v.(type) {
		case *ssa.Call:
			if core.IsCallTo(t, "state.(*State).Depth") {
				if g := core.StaticCallee(t); g != nil && depthIsLenMinusOne(g) {
					return -1, true
				}
			}
			if core.IsCallTo(t, "builtin.len") {
				if _, f, ok := core.LoadedField(t.Call.Args[0]); ok && f == "ExecPath" {
					return 0, true
				}
			}
		case *ssa.BinOp:
			if k, ok := core.ConstInt(t.Y); ok && (t.Op == token.ADD || t.Op == token.SUB) {
				if o, ok := lenOff(t.X, d+1); ok {
					if t.Op == token.ADD {
						return o + k, true
					}
					return o - k, true
				}
			}
		}
		return 0, false
	}
	for _, b := range fn.Blocks {
		for _, in := range b.Instrs {
			bo, ok := in.(*ssa.BinOp)
			if !ok {
				continue
			}
			x, m, op := bo.X, bo.Y, bo.Op
			if isMax(bo.X) && !isMax(bo.Y) {
				x, m = bo.Y, bo.X
				switch op {
				case token.LSS:
					op = token.GTR
				case token.GTR:
					op = token.LSS
				case token.LEQ:
					op = token.GEQ
				case token.GEQ:
					op = token.LEQ
				}
			}
			if !isMax(m) {
				continue
			}
			off, ok := lenOff(x, 0)
			if !ok {
				continue
			}
			// len+off  op  M ; which edge implies len <= M ?
			//   true edge of  <  : len <= M-1-off   safe iff off >= -1
			//   true edge of  <= : len <= M-off     safe iff off >= 0
			//   false edge of >= : same as <        ; false edge of > : same as <=
			switch op {
			case token.LSS:
				if off >= -1 {
					cut.AddEdge(core.EdgesWhere(bo, true)...)
					n++
				}
			case token.LEQ:
				if off >= 0 {
					cut.AddEdge(core.EdgesWhere(bo, true)...)
					n++
				}
			case token.GEQ:
				if off >= -1 {
					cut.AddEdge(core.EdgesWhere(bo, false)...)
					n++
				}
			case token.GTR:
				if off >= 0 {
					cut.AddEdge(core.EdgesWhere(bo, false)...)
					n++
				}
			}
		}
	}
	if n == 0 {
		return false
	}
	ok, _ := core.MustPass(c.(ssa.Instruction), cut)
	return ok
}

// depthIsLenMinusOne: State.Depth returns len(ExecPath) - 1.
func depthIsLenMinusOne(g *ssa.Function) bool {
	if len(g.Blocks) != 1 {
		return false
	}
	ret, ok := g.Blocks[0].Instrs[len(g.Blocks[0].Instrs)-1].(*ssa.Return)
	if !ok || len(ret.Results) != 1 {
		return false
	}
	bo, ok := ret.Results[0].(*ssa.BinOp)
	if !ok || bo.Op != token.SUB {
		return false
	}
	if k, ok := core.ConstInt(bo.Y); !ok || k != 1 {
		return false
	}
	lc, ok := bo.X.(*ssa.Call)
	if !ok || !core.IsCallTo(lc, "builtin.len") {
		return false
	}
	_, f, ok := core.LoadedField(lc.Call.Args[0])
	return ok && f == "ExecPath"
}

// checkBrowseBounds (C08 R3, C02 R1): browsing out of range is an error, not a crash or wrong
// content: every index and slice in the methods of Sizer and Menu is proved in bounds, the menu
// reports *BrowseError for an index at or beyond the page count, and Vm.Render answers a
// BrowseError by moving to the catch node and rendering again.
func checkBrowseBounds(w *core.World, r *core.Report, rule string) {
	anyContainer := func(t types.Type) bool { return true }
	nb := 0
	for _, fn := range w.FuncsIn("render") {
		if fn.Signature.Recv() == nil || len(fn.Blocks) == 0 {
			continue
		}
		rt := core.TypeName(fn.Signature.Recv().Type())
		if rt != "*render.Sizer" && rt != "*render.Menu" && rt != "render.Menu" {
			continue
		}
		r.Touch(core.QName(fn))
		bd := core.NewBounds(fn, intBits(w))
		for _, s := range bd.Sites(anyContainer) {
			// varargs arrays built by the compiler for logging calls are trivially in bounds
			nb++
			key := fmt.Sprintf("%s: %s %s", core.QName(fn), s.Kind, s.Expr)
			r.Check(s.OK, rule, key, s.Instr.Pos(), "in bounds", s.Missing+": browsing to this page can panic instead of reporting an error")
		}
	}
	r.Floor(rule, "bounds sites in the page cursor / menu functions", nb, 5)
	{
		ok := false
		var apPos token.Pos
		for _, ap := range w.FuncsIn("render") {
			if ap.Signature.Recv() == nil || !strings.Contains(core.TypeName(ap.Signature.Recv().Type()), "render.Menu") {
				continue
			}
			apPos = ap.Pos()
			for _, b := range ap.Blocks {
				for _, in := range b.Instrs {
					bo, isBo := in.(*ssa.BinOp)
					if !isBo {
						continue
					}
					idxX, idxY := paramIndex(bo.X) == 1, paramIndex(bo.Y) == 1
					_, fx, okx := core.LoadedField(bo.X)
					_, fy, oky := core.LoadedField(bo.Y)
					var beyond []core.Edge
					switch {
					case idxX && oky && fy == "pageCount" && (bo.Op == token.GEQ || bo.Op == token.LSS):
						beyond = core.EdgesWhere(bo, bo.Op == token.GEQ)
					case idxY && okx && fx == "pageCount" && (bo.Op == token.LEQ || bo.Op == token.GTR):
						beyond = core.EdgesWhere(bo, bo.Op == token.LEQ)
					}
					for _, e := range beyond {
						// every return behind this edge yields a *BrowseError
						in, _ := core.Reach(core.Point{B: e.To(), I: 0}, func(x ssa.Instruction) bool {
							ret, isRet := x.(*ssa.Return)
							if !isRet {
								return false
							}
							return !strings.Contains(ret.Results[0].Type().String()+valueTypeString(ret.Results[0]), "BrowseError")
						}, nil)
						if in == nil {
							ok = true
						}
					}
				}
			}
		}
		r.Check(ok, rule, "render.Menu: index beyond page count", apPos, "returns *BrowseError on idx >= pageCount", "a page index at or beyond the page count is not reported as *BrowseError (wrong or empty content, or a later crash)")
	}
	if vr := anchor(w, r, "vm", "(*Vm).Render"); vr != nil {
		ok := false
		var firstRender *ssa.Call
		for _, c := range core.CallsTo(vr, "render.(*Page).Render") {
			if cc, isC := c.(*ssa.Call); isC && firstRender == nil {
				firstRender = cc
			}
		}
		if firstRender != nil {
			if ev := callErr(firstRender); ev != nil {
				if refs := ev.Referrers(); refs != nil {
					for _, u := range *refs {
						okEdges := browseErrorEdgesOf(u)
						if len(okEdges) == 0 {
							continue
						}
						for _, e := range okEdges {
							// behind the edge: a VM run of MOVE _catch and a second render before any success return
							cut := core.NewCut()
							n := 0
							for _, c := range core.CallsTo(vr, "render.(*Page).Render") {
								if c.(ssa.Instruction) != ssa.Instruction(firstRender) {
									cut.AddInstr(c.(ssa.Instruction))
									n++
								}
							}
							hasRun := false
							for _, b := range dominatedRegion(e.To()) {
								for _, x := range b.Instrs {
									c, isC := x.(ssa.CallInstruction)
									if !isC {
										continue
									}
									if core.IsCallTo(c, "vm.(*Vm).Run") {
										hasRun = true
									}
									// the recovery moved into a helper of the VM: it runs and renders on every path
									if g := core.StaticCallee(c); g != nil && core.PkgOf(g) == "vm" && g != vr && len(g.Blocks) > 0 && len(core.CallsTo(g, "vm.(*Vm).Run")) > 0 {
										gc := core.NewCut()
										for _, rc := range core.CallsTo(g, "render.(*Page).Render") {
											gc.AddInstr(rc.(ssa.Instruction))
										}
										if hit, _ := core.Reach(core.Entry(g), isSuccessReturnPred(g), gc); hit == nil && len(gc.Instrs) > 0 {
											hasRun = true
											cut.AddInstr(x)
											n++
										}
									}
								}
							}
							in, _ := core.Reach(core.Point{B: e.To(), I: 0}, isSuccessReturnPred(vr), cut)
							if n > 0 && hasRun && in == nil {
								ok = true
							}
						}
					}
				}
			}
		}
		r.Check(ok, rule, "vm.(*Vm).Render: BrowseError handling", vr.Pos(), "moves to the catch node and renders again", "a browse beyond the last page is not answered by moving to the catch node and rendering again")
	}

}

// exploreImplicit (diagnostic, VISCHECK_EXPLORE=implicit): implicit panic sites in the functions
// reachable from the request entry points.
func exploreImplicit(w *core.World, r *core.Report, reach map[*ssa.Function]bool) {
	anyC := func(t types.Type) bool { return true }
	nOK, nBad, nTA, nDiv := 0, 0, 0, 0
	for _, fn := range w.LibFuncs {
		if len(fn.Blocks) == 0 {
			continue
		}
		bd := core.NewBounds(fn, intBits(w))
		if !reach[fn] {
			lfx := buildLibFacts(w, core.NewReport("X", w), "X")
			lfx.install(bd)
			for _, s := range bd.Sites(anyC) {
				if !s.OK && s.Instr.Pos().IsValid() {
					fmt.Fprintf(os.Stderr, "IMPLICIT bounds-unreached %s %s %s [%s] %s\n", core.QName(fn), s.Kind, s.Expr, w.Pos(s.Instr.Pos()), s.Missing)
				}
			}
			for _, in := range allInstrs(fn) {
				if t, ok := in.(*ssa.Convert); ok {
					slo, shi, ok1 := bd.TypeRange(t.X.Type())
					tlo, thi, ok2 := bd.TypeRange(t.Type())
					if ok1 && ok2 && (slo < tlo || shi > thi) {
						lo, hi, ok := bd.RangeAt(t, t.X)
						if !ok || lo < tlo || hi > thi {
							fmt.Fprintf(os.Stderr, "IMPLICIT narrow-unreached %s [%s] %s(%s) operand in [%d,%d]\n", core.QName(fn), w.Pos(t.Pos()), t.Type(), t.X.Type(), lo, hi)
						}
					}
				}
			}
			continue
		}
		for _, s := range bd.Sites(anyC) {
			if s.OK {
				nOK++
				continue
			}
			if !s.Instr.Pos().IsValid() {
				continue
			}
			nBad++
			fmt.Fprintf(os.Stderr, "IMPLICIT bounds %s %s %s [%s] %s\n", core.QName(fn), s.Kind, s.Expr, w.Pos(s.Instr.Pos()), s.Missing)
		}
		for _, in := range allInstrs(fn) {
			switch t := in.(type) {
			case *ssa.TypeAssert:
				if !t.CommaOk {
					nTA++
					fmt.Fprintf(os.Stderr, "IMPLICIT typeassert %s [%s] %s -> %s\n", core.QName(fn), w.Pos(t.Pos()), t.X.Type(), t.AssertedType)
				}
			case *ssa.MapUpdate:
				src := "?"
				for _, sv := range core.Sources(t.Map) {
					if tn, f, ok := core.LoadedField(sv); ok {
						src = tn + "." + f
					} else {
						src = fmt.Sprintf("%T", sv)
					}
				}
				fmt.Fprintf(os.Stderr, "IMPLICIT mapupdate %s [%s] map from %s\n", core.QName(fn), w.Pos(t.Pos()), src)
			case *ssa.Convert:
				slo, shi, ok1 := bd.TypeRange(t.X.Type())
				tlo, thi, ok2 := bd.TypeRange(t.Type())
				if ok1 && ok2 && (slo < tlo || shi > thi) {
					lo, hi, ok := bd.RangeAt(t, t.X)
					if !ok || lo < tlo || hi > thi {
						fmt.Fprintf(os.Stderr, "IMPLICIT narrow %s [%s] %s(%s) operand in [%d,%d]\n", core.QName(fn), w.Pos(t.Pos()), t.Type(), t.X.Type(), lo, hi)
					}
				}
			case *ssa.BinOp:
				if t.Op == token.QUO || t.Op == token.REM {
					if _, isC := t.Y.(*ssa.Const); !isC {
						if bt, ok := t.Y.Type().Underlying().(*types.Basic); ok && bt.Info()&types.IsInteger != 0 {
							nDiv++
							fmt.Fprintf(os.Stderr, "IMPLICIT div %s [%s]\n", core.QName(fn), w.Pos(t.Pos()))
						}
					}
				}
			}
		}
	}
	fmt.Fprintf(os.Stderr, "IMPLICIT summary: bounds proved %d, unproved %d, unchecked type assertions %d, divisions %d\n", nOK, nBad, nTA, nDiv)
}

// browseErrorEdgesOf: u uses an error value to decide "is this a *render.BrowseError": a comma-ok
// type assertion, or a call of a helper of package vm that returns the ok of such an assertion on
// its parameter. Returns the edges on which the answer is yes.
func browseErrorEdgesOf(u ssa.Instruction) []core.Edge {
	okOfAssert := func(ta *ssa.TypeAssert) []ssa.Value {
		var out []ssa.Value
		if !ta.CommaOk || !strings.Contains(ta.AssertedType.String(), "BrowseError") {
			return nil
		}
		if tr := ta.Referrers(); tr != nil {
			for _, x := range *tr {
				if ex, isEx := x.(*ssa.Extract); isEx && ex.Index == 1 {
					out = append(out, ex)
				}
			}
		}
		return out
	}
	var edges []core.Edge
	switch t := u.(type) {
	case *ssa.TypeAssert:
		for _, v := range okOfAssert(t) {
			edges = append(edges, core.EdgesWhere(v, true)...)
		}
	case *ssa.Call:
		g := core.StaticCallee(t)
		if g == nil || core.PkgOf(g) != "vm" || len(g.Blocks) == 0 || g.Signature.Results().Len() != 1 {
			return nil
		}
		all, n := true, 0
		for _, in := range allInstrs(g) {
			ret, ok := in.(*ssa.Return)
			if !ok {
				continue
			}
			for _, src := range core.Sources(ret.Results[0]) {
				n++
				ex, ok := src.(*ssa.Extract)
				if !ok || ex.Index != 1 {
					all = false
					continue
				}
				ta, ok := ex.Tuple.(*ssa.TypeAssert)
				if !ok || len(okOfAssert(ta)) == 0 {
					all = false
					continue
				}
				if _, isP := core.Strip(ta.X).(*ssa.Parameter); !isP {
					all = false
				}
			}
		}
		if all && n > 0 {
			edges = append(edges, core.EdgesWhere(t, true)...)
		}
	}
	return edges
}
