package rules

import (
	"fmt"
	"go/token"
	"go/types"
	"strings"

	"golang.org/x/tools/go/ssa"

	"vischeck/internal/core"
)

func init() {
	register("C08", PropCheck{
		Title:      "No sequence of client inputs can crash the engine or corrupt a session",
		Explain:    "Named crash and consistency mechanisms, decided structurally: (R1) every explicit panic in a library function reachable (CHA over the library) from Exec/Flush/Finish/Reset is classified in a frozen table - configuration misuse, excluded by the property's well-formedness assumptions, infeasible (checked: guarded by a test that an earlier return already excluded) or guarded at every call site (checked: State.Down is only called behind a comparison with state.MaxLevel) - and any other reachable panic site is a violation; (R2) navigation depth and cache scopes move in lockstep: Down/Push and Up/Pop are paired on every path and no other frame-count change happens in vm/engine; (R3) browsing out of range is an error, not a crash: every index and slice in Sizer.GetAt and Menu.applyPage/shiftMenu is proved in bounds by the zone engine, applyPage reports *BrowseError for an index beyond the page count, and Vm.Render answers a BrowseError by moving to the catch node and rendering again; (R4) every byte index in the input-validation functions of package vm is proved in bounds (arbitrary client bytes reach them); (R5) the cache's size accounting rules (C09 R4-R6: value classes of every CacheUseSize update, rollback before every error return, scope release) hold, so accounting matches contents after every request.",
		NotDecided: "absence of implicit panics (nil dereference, map of nil, index) in all other functions reachable from Exec - the bounds engine is applied to the decoder (C15), the input validators and the named renderer functions, not to the whole reachable set; 'can still be saved, loaded and continued' as a whole-history statement; input validation preceding every effect is C17.",
		Assume:     []string{"calls through interfaces and function values (logging, formatting) do not write the fields of renderer objects being read (used to unify repeated loads of a field)"},
		Run:        runC08,
	})
}

// panicClass is the frozen classification table of R1: function -> ordinal -> (class, reason).
var panicClass = map[string][]struct{ class, reason string }{
	"state.(*State).SetFlag":   {{"assumed", "flag index out of range: excluded by the property (flags in range); bytecode-supplied indices are range-checked (C15 R7)"}},
	"state.(*State).ResetFlag": {{"assumed", "flag index out of range: excluded by the property (flags in range); bytecode-supplied indices are range-checked (C15 R7)"}},
	"state.(*State).GetFlag":   {{"assumed", "flag index out of range: excluded by the property (flags in range); bytecode-supplied indices are range-checked (C15 R7)"}},
	"state.(*State).Down": {{"guarded", "stack depth beyond MaxLevel: every reachable call site checks the depth against state.MaxLevel first"},
		{"assumed", "descending into the node that is already current: excluded by the property (no node moves to itself)"}},
	"resource.(*DbResource).mustSafe": {{"config", "store not locked for use with a resource: configuration misuse, independent of client input"}},
	"vm.(*Vm).runInCmp":               {{"infeasible", "panic(err) behind a test of the parse error that an earlier return already excluded"}},
	"persist.(*Persister).Save":       {{"config", "saving an invalidated persister: documented misuse (continuing to use an engine whose initialisation failed)"}},
}

func runC08(w *core.World, r *core.Report) {
	r.Rule("R1", "every explicit panic reachable from Exec/Flush/Finish/Reset is classified (config / assumed / infeasible / guarded); a new one is a violation")
	r.Rule("R2", "Down/Push and Up/Pop paired on every path; no other frame-count change in vm/engine")
	r.Rule("R3", "browse out of range: GetAt/applyPage/shiftMenu in bounds, BrowseError reported and handled by Vm.Render")
	r.Rule("R4", "byte indices in vm's input validation functions are in bounds")
	r.Rule("R5", "cache size accounting rules (C09 R4-R6)")

	var roots []*ssa.Function
	for _, n := range []string{"(*DefaultEngine).Exec", "(*DefaultEngine).Flush", "(*DefaultEngine).Finish", "(*DefaultEngine).Reset"} {
		if f := anchor(w, r, "engine", n); f != nil {
			roots = append(roots, f)
		}
	}
	if len(roots) != 4 {
		return
	}
	reach, pred := reachable(w, roots)

	// ---- R1 -----------------------------------------------------------------------------------
	np := 0
	for _, fn := range w.LibFuncs {
		if !reach[fn] {
			continue
		}
		ord := 0
		for _, b := range fn.Blocks {
			for _, in := range b.Instrs {
				p, ok := in.(*ssa.Panic)
				if !ok {
					continue
				}
				np++
				r.Touch(core.QName(fn))
				key := fmt.Sprintf("%s: panic #%d", core.QName(fn), ord+1)
				tab := panicClass[core.QName(fn)]
				if ord >= len(tab) {
					r.Bad("R1", key, p.Pos(), "an explicit panic is reachable from the request path and is not in the classification table: client input may crash the process", "call path: "+callPath(w, pred, fn))
					ord++
					continue
				}
				cl := tab[ord]
				ord++
				switch cl.class {
				case "config", "assumed":
					r.OK("R1", key, p.Pos(), cl.class+": "+cl.reason)
				case "infeasible":
					r.Check(panicInfeasible(p), "R1", key, p.Pos(), "infeasible: "+cl.reason, "the panic is no longer excluded by an earlier return on the same condition: it is reachable with client-controlled data")
				case "guarded":
					bad := ""
					nsites := 0
					for _, caller := range w.LibFuncs {
						if !reach[caller] || core.PkgOf(caller) == "state" {
							continue
						}
						for _, c := range core.CallsTo(caller, core.QName(fn)) {
							nsites++
							if !guardedByMaxLevel(c) {
								bad = fmt.Sprintf("call at %s in %s is not behind a depth test against state.MaxLevel", w.Pos(c.Pos()), core.QName(caller))
							}
						}
					}
					r.Check(bad == "" && nsites > 0, "R1", key, p.Pos(), fmt.Sprintf("guarded at all %d reachable call sites: %s", nsites, cl.reason),
						"a well-formed application lets a client reach this panic (descent beyond MaxLevel through nodes that move to each other across HALTs): "+bad)
				}
			}
		}
	}
	r.Floor("R1", "reachable explicit panics", np, 5)

	// ---- R2 -----------------------------------------------------------------------------------
	checkPairing(w, r, "R2")
	for _, fn := range w.FuncsIn("engine") {
		if len(core.CallsTo(fn, "state.(*State).Restart")) > 0 && len(core.CallsTo(fn, stUp)) > 0 {
			checkRestartAfterUnwind(w, r, fn, "R2")
		}
	}

	// ---- R3 -----------------------------------------------------------------------------------
	anyContainer := func(t types.Type) bool { return true }
	nb := 0
	for _, nm := range []string{"(*Sizer).GetAt", "(*Menu).applyPage", "(*Menu).shiftMenu", "(*Menu).Render"} {
		fn := anchor(w, r, "render", nm)
		if fn == nil {
			continue
		}
		bd := core.NewBounds(fn, intBits(w))
		for _, s := range bd.Sites(anyContainer) {
			// varargs arrays built by the compiler for logging calls are trivially in bounds
			nb++
			key := fmt.Sprintf("%s: %s %s", core.QName(fn), s.Kind, s.Expr)
			r.Check(s.OK, "R3", key, s.Instr.Pos(), "in bounds", s.Missing+": browsing to this page can panic instead of reporting an error")
		}
	}
	r.Floor("R3", "bounds sites in the page cursor / menu functions", nb, 5)
	if ap := w.Func("render", "(*Menu).applyPage"); ap != nil {
		ok := false
		for _, b := range ap.Blocks {
			for _, in := range b.Instrs {
				bo, isBo := in.(*ssa.BinOp)
				if !isBo {
					continue
				}
				idxX, idxY := paramIndex(bo.X) == 1, paramIndex(bo.Y) == 1
				_, fx, okx := core.LoadedField(bo.X)
				_, fy, oky := core.LoadedField(bo.Y)
				var beyond []core.Edge
				switch {
				case idxX && oky && fy == "pageCount" && (bo.Op == token.GEQ || bo.Op == token.LSS):
					beyond = core.EdgesWhere(bo, bo.Op == token.GEQ)
				case idxY && okx && fx == "pageCount" && (bo.Op == token.LEQ || bo.Op == token.GTR):
					beyond = core.EdgesWhere(bo, bo.Op == token.LEQ)
				}
				for _, e := range beyond {
					// every return behind this edge yields a *BrowseError
					in, _ := core.Reach(core.Point{B: e.To(), I: 0}, func(x ssa.Instruction) bool {
						ret, isRet := x.(*ssa.Return)
						if !isRet {
							return false
						}
						return !strings.Contains(ret.Results[0].Type().String()+valueTypeString(ret.Results[0]), "BrowseError")
					}, nil)
					if in == nil {
						ok = true
					}
				}
			}
		}
		r.Check(ok, "R3", "render.(*Menu).applyPage: index beyond page count", ap.Pos(), "returns *BrowseError on idx >= pageCount", "a page index at or beyond the page count is not reported as *BrowseError (wrong or empty content, or a later crash)")
	}
	if vr := anchor(w, r, "vm", "(*Vm).Render"); vr != nil {
		ok := false
		var firstRender *ssa.Call
		for _, c := range core.CallsTo(vr, "render.(*Page).Render") {
			if cc, isC := c.(*ssa.Call); isC && firstRender == nil {
				firstRender = cc
			}
		}
		if firstRender != nil {
			if ev := callErr(firstRender); ev != nil {
				if refs := ev.Referrers(); refs != nil {
					for _, u := range *refs {
						ta, isTA := u.(*ssa.TypeAssert)
						if !isTA || !strings.Contains(ta.AssertedType.String(), "BrowseError") {
							continue
						}
						var okEdges []core.Edge
						if ta.CommaOk {
							if tr := ta.Referrers(); tr != nil {
								for _, x := range *tr {
									if ex, isEx := x.(*ssa.Extract); isEx && ex.Index == 1 {
										okEdges = append(okEdges, core.EdgesWhere(ex, true)...)
									}
								}
							}
						}
						for _, e := range okEdges {
							// behind the edge: a VM run of MOVE _catch and a second render before any success return
							cut := core.NewCut()
							n := 0
							for _, c := range core.CallsTo(vr, "render.(*Page).Render") {
								if c.(ssa.Instruction) != ssa.Instruction(firstRender) {
									cut.AddInstr(c.(ssa.Instruction))
									n++
								}
							}
							hasRun := false
							for _, b := range dominatedRegion(e.To()) {
								for _, x := range b.Instrs {
									if c, isC := x.(ssa.CallInstruction); isC && core.IsCallTo(c, "vm.(*Vm).Run") {
										hasRun = true
									}
								}
							}
							in, _ := core.Reach(core.Point{B: e.To(), I: 0}, isSuccessReturnPred(vr), cut)
							if n > 0 && hasRun && in == nil {
								ok = true
							}
						}
					}
				}
			}
		}
		r.Check(ok, "R3", "vm.(*Vm).Render: BrowseError handling", vr.Pos(), "moves to the catch node and renders again", "a browse beyond the last page is not answered by moving to the catch node and rendering again")
	}

	// ---- R4 -----------------------------------------------------------------------------------
	if vi := anchor(w, r, "vm", "ValidInput"); vi != nil {
		fns := map[*ssa.Function]bool{vi: true}
		for changed := true; changed; {
			changed = false
			for f := range fns {
				for _, c := range core.Calls(f) {
					if g := core.StaticCallee(c); g != nil && core.PkgOf(g) == "vm" && !fns[g] && len(g.Blocks) > 0 {
						fns[g] = true
						changed = true
					}
				}
			}
		}
		n := 0
		for f := range fns {
			bd := core.NewBounds(f, intBits(w))
			for _, s := range bd.Sites(core.ByteLike) {
				n++
				r.Check(s.OK, "R4", fmt.Sprintf("%s: %s %s", core.QName(f), s.Kind, s.Expr), s.Instr.Pos(), "in bounds", s.Missing+": arbitrary client bytes can make input validation panic")
			}
		}
		r.OK("R4", "vm.ValidInput and callees scanned", vi.Pos(), fmt.Sprintf("%d functions, %d byte index/slice sites", len(fns), n))
	}

	// ---- R5 -----------------------------------------------------------------------------------
	oracles := capacityOracles(w)
	add, upd, pop := w.Func("cache", "(*Cache).Add"), w.Func("cache", "(*Cache).Update"), w.Func("cache", "(*Cache).Pop")
	if add == nil || upd == nil || pop == nil {
		r.Undecided("R5", "cache.(*Cache).Add/Update/Pop", token.NoPos, "unresolved anchor")
	} else {
		checkCacheAccounting(w, r, oracles, add, upd, pop, "R5", "R5", "R5")
	}
}

func valueTypeString(v ssa.Value) string {
	if mi, ok := v.(*ssa.MakeInterface); ok {
		return mi.X.Type().String()
	}
	return ""
}

// panicInfeasible: the panic is reached only through an edge on which some value is non-nil,
// while the block testing it is dominated by an edge on which the same value is nil.
func panicInfeasible(p *ssa.Panic) bool {
	b := p.Block()
	if len(b.Preds) != 1 {
		return false
	}
	pb := b.Preds[0]
	ifi, ok := pb.Instrs[len(pb.Instrs)-1].(*ssa.If)
	if !ok {
		return false
	}
	bo, ok := ifi.Cond.(*ssa.BinOp)
	if !ok || (bo.Op != token.NEQ && bo.Op != token.EQL) || !core.IsNilConst(bo.Y) {
		return false
	}
	x := bo.X
	// the panic is on x's non-nil side
	nonNilSucc := 0
	if bo.Op == token.EQL {
		nonNilSucc = 1
	}
	if pb.Succs[nonNilSucc] != b {
		return false
	}
	// an earlier test: pb dominated by the nil side of another test of x
	for _, ce := range core.NilTestEdges(x) {
		if !ce.Val || ce.E.From == pb {
			continue
		}
		t := ce.E.To()
		if len(t.Preds) == 1 && (t == pb || t.Dominates(pb)) {
			return true
		}
	}
	return false
}

// guardedByMaxLevel: the call is only reached through an edge of a comparison with state.MaxLevel
// that implies len(ExecPath) <= MaxLevel (the negation of Down's panic condition). The compared
// expression is read as len(ExecPath)+off: State.Depth() is len-1 (checked on Depth's body),
// len(st.ExecPath) is len+0, and +/- constants shift the offset.
func guardedByMaxLevel(c ssa.CallInstruction) bool {
	fn := c.Parent()
	cut := core.NewCut()
	n := 0
	isMax := func(v ssa.Value) bool {
		for _, s := range core.Sources(v) {
			if g := core.GlobalOf(s); g != nil && g.Name() == "MaxLevel" {
				return true
			}
		}
		return false
	}
	var lenOff func(v ssa.Value, d int) (int64, bool)
	lenOff = func(v ssa.Value, d int) (int64, bool) {
		if d > 4 {
			return 0, false
		}
		v = core.Strip(v)
		switch t := v.(type) {
		case *ssa.Call:
			if core.IsCallTo(t, "state.(*State).Depth") {
				if g := core.StaticCallee(t); g != nil && depthIsLenMinusOne(g) {
					return -1, true
				}
			}
			if core.IsCallTo(t, "builtin.len") {
				if _, f, ok := core.LoadedField(t.Call.Args[0]); ok && f == "ExecPath" {
					return 0, true
				}
			}
		case *ssa.BinOp:
			if k, ok := core.ConstInt(t.Y); ok && (t.Op == token.ADD || t.Op == token.SUB) {
				if o, ok := lenOff(t.X, d+1); ok {
					if t.Op == token.ADD {
						return o + k, true
					}
					return o - k, true
				}
			}
		}
		return 0, false
	}
	for _, b := range fn.Blocks {
		for _, in := range b.Instrs {
			bo, ok := in.(*ssa.BinOp)
			if !ok {
				continue
			}
			x, m, op := bo.X, bo.Y, bo.Op
			if isMax(bo.X) && !isMax(bo.Y) {
				x, m = bo.Y, bo.X
				switch op {
				case token.LSS:
					op = token.GTR
				case token.GTR:
					op = token.LSS
				case token.LEQ:
					op = token.GEQ
				case token.GEQ:
					op = token.LEQ
				}
			}
			if !isMax(m) {
				continue
			}
			off, ok := lenOff(x, 0)
			if !ok {
				continue
			}
			// len+off  op  M ; which edge implies len <= M ?
			//   true edge of  <  : len <= M-1-off   safe iff off >= -1
			//   true edge of  <= : len <= M-off     safe iff off >= 0
			//   false edge of >= : same as <        ; false edge of > : same as <=
			switch op {
			case token.LSS:
				if off >= -1 {
					cut.AddEdge(core.EdgesWhere(bo, true)...)
					n++
				}
			case token.LEQ:
				if off >= 0 {
					cut.AddEdge(core.EdgesWhere(bo, true)...)
					n++
				}
			case token.GEQ:
				if off >= -1 {
					cut.AddEdge(core.EdgesWhere(bo, false)...)
					n++
				}
			case token.GTR:
				if off >= 0 {
					cut.AddEdge(core.EdgesWhere(bo, false)...)
					n++
				}
			}
		}
	}
	if n == 0 {
		return false
	}
	ok, _ := core.MustPass(c.(ssa.Instruction), cut)
	return ok
}

// depthIsLenMinusOne: State.Depth returns len(ExecPath) - 1.
func depthIsLenMinusOne(g *ssa.Function) bool {
	if len(g.Blocks) != 1 {
		return false
	}
	ret, ok := g.Blocks[0].Instrs[len(g.Blocks[0].Instrs)-1].(*ssa.Return)
	if !ok || len(ret.Results) != 1 {
		return false
	}
	bo, ok := ret.Results[0].(*ssa.BinOp)
	if !ok || bo.Op != token.SUB {
		return false
	}
	if k, ok := core.ConstInt(bo.Y); !ok || k != 1 {
		return false
	}
	lc, ok := bo.X.(*ssa.Call)
	if !ok || !core.IsCallTo(lc, "builtin.len") {
		return false
	}
	_, f, ok := core.LoadedField(lc.Call.Args[0])
	return ok && f == "ExecPath"
}
