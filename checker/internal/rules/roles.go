package rules

import (
	"fmt"
	"go/constant"
	"go/token"
	"go/types"
	"strings"

	"golang.org/x/tools/go/ssa"

	"vischeck/internal/core"
)

// Roles of unexported functions, resolved structurally so that renaming or moving them does not
// change a verdict (DESIGN.md section 4). Obligation keys use the role label, not the name.

type engineRoles struct {
	Exec, Flush, Finish, Reset                                       *ssa.Function
	ExecBackend, Init, Prepare, PreVmHook, SetCode, ResetFn, SetupVm *ssa.Function
}

func storesConstTrue(fn *ssa.Function, field string) bool {
	for _, b := range fn.Blocks {
		for _, in := range b.Instrs {
			if st, ok := in.(*ssa.Store); ok {
				if _, f, ok := core.FieldOfAddr(st.Addr); ok && f == field {
					if c, isC := st.Val.(*ssa.Const); isC && c.Value != nil && c.Value.String() == "true" {
						return true
					}
				}
			}
		}
	}
	return false
}

func storesField(fn *ssa.Function, field string) bool {
	for _, b := range fn.Blocks {
		for _, in := range b.Instrs {
			if st, ok := in.(*ssa.Store); ok {
				if _, f, ok := core.FieldOfAddr(st.Addr); ok && f == field {
					return true
				}
			}
		}
	}
	return false
}

func resolveEngineRoles(w *core.World) *engineRoles {
	er := &engineRoles{
		Exec:   w.Func("engine", "(*DefaultEngine).Exec"),
		Flush:  w.Func("engine", "(*DefaultEngine).Flush"),
		Finish: w.Func("engine", "(*DefaultEngine).Finish"),
		Reset:  w.Func("engine", "(*DefaultEngine).Reset"),
	}
	isEngMethod := func(f *ssa.Function) bool {
		return f != nil && core.PkgOf(f) == "engine" && f.Signature.Recv() != nil && core.TypeName(f.Signature.Recv().Type()) == "*engine.DefaultEngine"
	}
	for _, fn := range w.FuncsIn("engine") {
		if !isEngMethod(fn) || token.IsExported(fn.Name()) {
			continue
		}
		switch {
		case len(core.CallsTo(fn, "vm.NewVm")) > 0 && len(core.CallsTo(fn, "vm.(*Vm).Run")) > 0:
			er.PreVmHook = fn
		case len(core.CallsTo(fn, "vm.NewVm")) > 0:
			er.SetupVm = fn
		case len(core.CallsTo(fn, "state.(*State).Restart")) > 0:
			er.ResetFn = fn
		case storesConstTrue(fn, "exiting"):
			er.SetCode = fn
		}
	}
	if er.Exec != nil {
		for _, c := range core.Calls(er.Exec) {
			g := core.StaticCallee(c)
			if !isEngMethod(g) || token.IsExported(g.Name()) {
				continue
			}
			if len(core.CallsTo(g, "vm.(*Vm).Run")) > 0 && g != er.PreVmHook {
				er.ExecBackend = g
			}
			if storesConstTrue(g, "initd") {
				er.Init = g
			}
		}
	}
	if er.Init != nil {
		for _, c := range core.Calls(er.Init) {
			g := core.StaticCallee(c)
			// the step that establishes state, memory and VM: the callee that reaches the VM set-up
			if isEngMethod(g) && !token.IsExported(g.Name()) && g != er.PreVmHook && er.SetupVm != nil {
				reach, _ := w.Reachable([]*ssa.Function{g})
				if g == er.SetupVm || reach[er.SetupVm] {
					er.Prepare = g
				}
			}
		}
	}
	return er
}

// roleLabels maps functions with a role to the label used in obligation keys.
func roleLabels(w *core.World, r *core.Report) map[*ssa.Function]string {
	out := map[*ssa.Function]string{}
	hs, _, _ := opcodeHandlers(w, nil)
	names := opcodeNames(w)
	for op, h := range hs {
		out[h] = names[op] + " handler"
	}
	for d := range navDispatchers(w) {
		out[d] = "navigation dispatcher"
	}
	for f := range externalInvokers(w) {
		out[f] = "external-code invoker"
	}
	er := resolveEngineRoles(w)
	for f, l := range map[*ssa.Function]string{er.ExecBackend: "engine exec backend", er.Init: "engine init", er.Prepare: "engine prepare",
		er.PreVmHook: "engine pre-VM hook", er.SetCode: "engine code recorder", er.ResetFn: "engine reset", er.SetupVm: "engine VM set-up"} {
		if f != nil {
			out[f] = l
		}
	}
	return out
}

// label returns the role label of fn, or its qualified name when it has no role.
func label(labels map[*ssa.Function]string, fn *ssa.Function) string {
	if l, ok := labels[fn]; ok {
		return l
	}
	return core.QName(fn)
}

// primitiveDecoder returns the primitive decoder of package vm with the given kind (S, I, O).
func primitiveDecoder(w *core.World, kind string) *ssa.Function {
	for _, fn := range w.FuncsIn("vm") {
		if primitiveKind(fn) == kind {
			return fn
		}
	}
	return nil
}

// asmWriter returns the function of package asm with signature (*bytes.Buffer, T) (int, error)
// for the given second parameter type ("string", "uint32", "vm.Opcode").
func asmWriter(w *core.World, paramType string) *ssa.Function {
	for _, fn := range w.FuncsIn("asm") {
		sig := fn.Signature
		if sig.Recv() != nil || sig.Params().Len() != 2 || sig.Results().Len() != 2 {
			continue
		}
		if core.TypeName(sig.Params().At(0).Type()) != "*bytes.Buffer" {
			continue
		}
		pt := core.TypeName(sig.Params().At(1).Type())
		if pt == paramType || strings.TrimPrefix(pt, "builtin.") == paramType {
			if sig.Results().At(1).Type().String() == "error" {
				return fn
			}
		}
	}
	return nil
}

// mustSafeFn: the method of DbResource that consults db.Db.Safe and panics.
func mustSafeFn(w *core.World) *ssa.Function {
	for _, fn := range w.FuncsIn("resource") {
		if fn.Signature.Recv() == nil || len(core.CallsTo(fn, "db.Db.Safe")) == 0 {
			continue
		}
		for _, b := range fn.Blocks {
			for _, in := range b.Instrs {
				if _, ok := in.(*ssa.Panic); ok {
					return fn
				}
			}
		}
	}
	return nil
}

// checkRestartCallers: State.Restart re-initialises the reserved flag byte (READIN, INMATCH,
// TERMINATE, ...) and the recorded input. Only the engine's session restart may call it; a call
// from anywhere else - in particular from code reachable from Vm.Run - clears the routing flags
// and the input in the middle of a request.
func checkRestartCallers(w *core.World, r *core.Report, rule string) {
	roles := resolveEngineRoles(w)
	n, bad := 0, ""
	var badPos token.Pos
	for _, fn := range w.LibFuncs {
		for _, c := range core.CallsTo(fn, "state.(*State).Restart") {
			n++
			if fn != roles.ResetFn {
				bad = fmt.Sprintf("%s calls State.Restart at %s", core.QName(fn), w.Pos(c.Pos()))
				badPos = c.Pos()
			}
		}
	}
	// whole-byte stores to the flag field outside Restart's own helpers are C06 R3
	r.Check(bad == "" && n > 0 && roles.ResetFn != nil, rule, "State.Restart is called only by the engine's session restart", badPos, fmt.Sprintf("%d call site(s), all in the engine reset", n),
		"the reserved flag byte and the recorded input are re-initialised outside the session restart (in the middle of a request: a recorded match, the reading-input mark and a termination are forgotten): "+bad)
}

// checkRowsUnmodified (C01 R5, C02 R3): the string the row grouping appends to a page is the sink
// row itself - the element of the row list, not a slice or other derivative of it. A row is shown
// whole or the render fails; it is never silently cut.
func checkRowsUnmodified(w *core.World, r *core.Report, rule string) {
	u := groupingUnitOf(w)
	if u == nil {
		r.Undecided(rule, "row grouping function", token.NoPos, "not found")
		return
	}
	var rowsParam *ssa.Parameter
	for _, p := range u.root.Params {
		if p.Type().String() == "[]string" {
			rowsParam = p
		}
	}
	var exact func(v ssa.Value, d int) bool
	exact = func(v ssa.Value, d int) bool {
		if d > 8 {
			return false
		}
		switch t := core.Strip(v).(type) {
		case *ssa.Phi:
			for _, e := range t.Edges {
				if !exact(e, d+1) {
					return false
				}
			}
			return len(t.Edges) > 0
		case *ssa.UnOp:
			if t.Op == token.MUL {
				if ia, ok := t.X.(*ssa.IndexAddr); ok {
					for _, src := range core.Sources(ia.X) {
						if src == ssa.Value(rowsParam) {
							return true
						}
					}
					if fv, ok := core.Strip(ia.X).(*ssa.FreeVar); ok && fv.Name() == rowsParam.Name() {
						return true
					}
				}
				// a local the row was spilled to
				if al, ok := t.X.(*ssa.Alloc); ok && al.Referrers() != nil {
					n := 0
					for _, rr := range *al.Referrers() {
						if st, ok := rr.(*ssa.Store); ok && st.Addr == ssa.Value(al) {
							n++
							if !exact(st.Val, d+1) {
								return false
							}
						}
					}
					return n > 0
				}
			}
		case *ssa.Parameter, *ssa.FreeVar:
			// a helper or closure that is handed the row: decided at its call sites by the typestate rule
			return true
		}
		return false
	}
	n, bad := 0, ""
	var badPos token.Pos
	for _, c := range u.calls() {
		m, _, ok := builderMethod(c)
		if !ok || m != "WriteString" {
			continue
		}
		arg := core.CallArgs(c)[1]
		isRow := false
		for _, src := range core.Sources(arg) {
			if uo, ok := src.(*ssa.UnOp); ok && uo.Op == token.MUL {
				if ia, ok := uo.X.(*ssa.IndexAddr); ok {
					for _, s2 := range core.Sources(ia.X) {
						if s2 == ssa.Value(rowsParam) {
							isRow = true
						}
					}
				}
			}
		}
		if !isRow {
			continue
		}
		n++
		if !exact(arg, 0) {
			bad = "the appended string is derived from the row (sliced, concatenated or otherwise rebuilt), not the row itself"
			badPos = c.Pos()
		}
	}
	r.Check(bad == "" && n > 0, rule, "row grouping: rows are appended unmodified", badPos, fmt.Sprintf("%d append site(s) write the row element itself", n),
		"a sink row can be shown cut or altered instead of whole (or an error): "+bad)
}

// staticCallSites returns the static call sites of g in the library and whether g is also used as
// a value (method value, closure operand, go/defer), in which case its callers are not all known.
func staticCallSites(w *core.World, g *ssa.Function) ([]ssa.CallInstruction, bool) {
	var sites []ssa.CallInstruction
	escapes := false
	for _, fn := range w.LibFuncs {
		for _, in := range allInstrs(fn) {
			if c, ok := in.(ssa.CallInstruction); ok && core.StaticCallee(c) == g {
				if _, isCall := c.(*ssa.Call); isCall {
					sites = append(sites, c)
				} else {
					escapes = true
				}
				for _, a := range c.Common().Args {
					if a == ssa.Value(g) {
						escapes = true
					}
				}
				continue
			}
			for _, op := range in.Operands(nil) {
				if op != nil && *op == ssa.Value(g) {
					escapes = true
				}
			}
		}
	}
	if g.Object() != nil && g.Object().Exported() {
		escapes = true
	}
	return sites, escapes
}

// vmStepFn resolves the function that holds the VM's per-instruction flag protocol (the constant
// ResetFlag(FLAG_WAIT) with the resume block behind its "was set" edge): Vm.Run itself, or an
// unexported helper whose only call sites are in Vm.Run. nil when that cannot be established.
func vmStepFn(w *core.World) *ssa.Function {
	run := w.Func("vm", "(*Vm).Run")
	if run == nil {
		return nil
	}
	obj := w.Object("state", "FLAG_WAIT")
	cst, ok := obj.(*types.Const)
	if !ok {
		return run
	}
	fWait, ok := constant.Int64Val(cst.Val())
	if !ok {
		return run
	}
	var holders []*ssa.Function
	for _, fn := range w.FuncsIn("vm") {
		if len(flagConstCalls(fn, fWait, stResetFlag)) > 0 {
			holders = append(holders, fn)
		}
	}
	if len(holders) != 1 {
		return run
	}
	h := holders[0]
	if h == run {
		return run
	}
	sites, escapes := staticCallSites(w, h)
	if escapes || len(sites) == 0 {
		return nil
	}
	for _, c := range sites {
		if c.Parent() != run {
			return nil
		}
	}
	return h
}

// behindFlagUnsetInCallers: fn is an unexported helper all of whose call sites are known, and each
// of them is only reached on the "flag is not set" edge of a test in its caller (one level up).
func behindFlagUnsetInCallers(w *core.World, fn *ssa.Function, flag int64) bool {
	sites, escapes := staticCallSites(w, fn)
	if escapes || len(sites) == 0 {
		return false
	}
	for _, c := range sites {
		unset, tests := flagTestEdges(c.Parent(), flag, false)
		if len(tests) == 0 {
			return false
		}
		if ok, _ := core.MustPass(c.(ssa.Instruction), core.NewCut().AddEdge(unset...)); !ok {
			return false
		}
	}
	return true
}
