package rules

import (
	"fmt"
	"go/token"
	"go/types"
	"regexp"
	"regexp/syntax"
	"sort"
	"strings"

	"golang.org/x/tools/go/ssa"

	"vischeck/internal/core"
)

func init() {
	register("C16", PropCheck{
		Title:      "The assembler emits exactly the instructions that were written",
		Explain:    "Three clauses with structural content: (R1) no string that the assembler writes as a symbol, selector or label (argument of the symbol writer, or of the batch menu processor) derives from a numeric capture of the grammar (Arg.Size / Arg.Flag) through an integer-to-string conversion - such re-rendering drops leading zeros and trailing letters; (R2) batch expansion equals the documentation: from MenuProcessor.ToLines the per-batch-code pair (instruction before HALT with its argument roles, instruction after HALT with its target and argument roles) is extracted and compared with the expansion table of doc/texinfo/instructions.texi, exactly two instruction buffers exist (before/after), every batch line contributes one instruction to each in source order, and the result is before + HALT + after; (R3) the opcode written for a source line is the OpcodeIndex entry of that line's mnemonic, written once per line; (R4) the integer encoder never right-trims the big-endian buffer (shared with C14 R4); (R5) numbers written are read as numbers: the lexer's constant rule table is read from the initialiser's SSA, every pattern is parsed with regexp/syntax, exactly one token class can begin with a decimal digit and the grammar's integer captures (Arg.Size, Arg.Flag) are bound to that class (added after seeded change C16-C); (R6) each source line is assembled in a buffer allocated for it - the buffer handed to the opcode writer is a bytes.NewBuffer result or local of the line emitter (or, for a helper, of every caller), never pooled or package-level - and vm.NewLine appends each string argument itself, not a slice or derivative (added after seeded changes C16-E and C16-F); (R7) the names the VM itself gives a meaning - string constants of package vm compared with a symbol or placed in the arguments of an instruction it builds: the navigation targets, the wildcard and the catch node - are each read by the lexer (rules in table order, first match wins) as one token of the class the grammar's symbol captures are bound to: a table agreement between the assembler's token class and the VM's reserved names, not a judgement of the grammar (added after seeded change C16-H). (R8) in the functions asm.Parse reaches (and the grammar's Capture methods) that parse numbers from text, no lossy narrowing without a range check; (R9) asm.Parse hands the parser a reader over its own parameter - the text is not rewritten before lexing (added after seeded changes C16-I and C16-J). (R10) every success return of Batcher.MenuAdd passes MenuProcessor.Add (added after seeded change C16-L). (R11) in the flag-name preprocessor of dev/asm (type-checked syntax; the package is tooling, not part of the SSA program) every call of a lookup method of asm.FlagParser lies behind a comparison of the line's mnemonic with CATCH or CROAK - in a switch case or an if, directly or in a helper all of whose callers are - and the word looked up is the operand in the flag position of that opcode, read from the result lists of vm.ParseCatch / vm.ParseCroak (added for seeded change C16-D, which resolved flag names in every operand position). (R12) the lexer's constant rule table is evaluated on a fixed set of comment spellings ('#', '#word', '#9', '# text'): the first matching rule is one and the same class for all and takes the rest of the line (added after seeded change C16-M, which admitted '#' as a symbol character and narrowed the comment rule). (R13) no function of package asm stores to a field of asm.Arg: the captured operands reach every emitter as captured (added after seeded change C16-N, a wildcard swap hoisted over batch menu lines). (R14) for every call in package asm of a function of package asm whose last result is an error, that error value is read (tested, returned, handed on) - found a genuine defect on the pinned tree: the single-symbol path of the line emitter dropped the symbol writer's refusal and flushed the bare opcode (repaired in /repo). (R15) in every function that calls MenuProcessor.ToLines, every path from the call to a return empties the processor (store of nil/empty/fresh to MenuProcessor.items or of a new processor), unless ToLines does so itself - found a genuine defect on the pinned tree: a second batch block repeated the lines of the first (repaired in /repo). (R16) = C14 R14: the two instruction buffers of the batch expansion share no memory (added after seeded change C16-O). Not reported: C16-P (the operand shapes of a batch line are tested in an order in which the three-word shape is shadowed by the two-word shape) - a decision order among predicates over optional captures; the grammar's shape dispatch is declared not decided.",
		NotDecided: "per-program translation fidelity in general (needs an independent parse of the source); the participle grammar itself; comments and blank lines.",
		Run:        runC16,
	})
}

func runC16(w *core.World, r *core.Report) {
	r.Rule("R1", "no symbol/selector/label string derives from a numeric capture through an int-to-string conversion")
	r.Rule("R2", "batch expansion (ToLines) equals the table in instructions.texi; two buffers, source order, before + HALT + after")
	r.Rule("R3", "opcode written = OpcodeIndex[mnemonic of the line], once per line")
	r.Rule("R4", "integer encoder never right-trims the big-endian buffer")
	r.Rule("R6", "each source line is assembled in a buffer allocated for it (no pooled or package-level buffer); vm.NewLine appends its string arguments unmodified")
	r.Rule("R10", "every batch menu line the assembler accepts reaches the menu processor")
	r.Rule("R16", "the two instruction buffers of the batch menu expansion share no memory (C14 R14)")
	r.Rule("R15", "the menu processor is emptied when a batch block has been expanded (a second block expands to its own lines only)")
	r.Rule("R14", "error discipline in the assembler: the error of every writer / emitter / batcher step is used (tested, returned or handed on)")
	r.Rule("R13", "the operands captured by the grammar (fields of asm.Arg) are not rewritten before emission")
	r.Rule("R12", "lexer: a '#' always starts one comment token that takes the rest of the line")
	r.Rule("R11", "dev/asm preprocessor: a word is replaced by a flag number only in the flag operand of CATCH / CROAK")
	r.Rule("R9", "the source text reaches the parser as written (no rewriting of the text before lexing)")
	r.Rule("R8", "numbers written in the source are not narrowed without a range check anywhere in the assembler")
	r.Rule("R7", "lexer: every name the VM gives a meaning (navigation targets, wildcard, catch node) is read as one symbol token")
	r.Rule("R5", "lexer: exactly one token class can start with a decimal digit, and the grammar's integer captures are bound to it")

	// ---- R1 -----------------------------------------------------------------------------------
	n1 := 0
	for _, fn := range w.FuncsIn("asm") {
		for _, c := range core.Calls(fn) {
			nm := core.CallName(c)
			if !(strings.HasPrefix(nm, "strconv.Format") || nm == "strconv.Itoa" || strings.HasPrefix(nm, "fmt.Sprint")) {
				continue
			}
			call, ok := c.(*ssa.Call)
			if !ok {
				continue
			}
			// numeric capture?
			fromNum := ""
			for _, a := range core.CallArgs(c) {
				roots, _ := core.DeepSources(a, nil)
				for _, s := range roots {
					if u, ok := s.(*ssa.UnOp); ok && u.Op == token.MUL {
						// *arg.Size : load of a pointer loaded from the field
						for _, ss := range core.Sources(u.X) {
							if tn, f, ok := core.LoadedField(ss); ok && tn == "asm.Arg" && (f == "Size" || f == "Flag") {
								fromNum = f
							}
							if fv, ok := ss.(*ssa.Field); ok && core.TypeName(fv.X.Type()) == "asm.Arg" {
								fromNum = "Size/Flag"
							}
						}
					}
				}
			}
			if fromNum == "" {
				continue
			}
			// does the result reach a symbol writer / the menu processor?
			sink := ""
			for v := range core.Forward(call, nil) {
				if refs := v.Referrers(); refs != nil {
					for _, u := range *refs {
						if cc, ok := u.(ssa.CallInstruction); ok {
							if g := core.StaticCallee(cc); g != nil && core.PkgOf(g) == "asm" {
								for i, a := range core.CallArgs(cc) {
									if a == v && i < len(g.Params) && g.Params[i].Type().String() == "string" {
										sink = core.FuncName(g)
									}
								}
							}
						}
					}
				}
			}
			if sink == "" {
				continue
			}
			n1++
			r.Bad("R1", fmt.Sprintf("%s: numeric %s re-rendered as text", reRenderSite(fn), fromNum), c.Pos(),
				"a selector that looks numeric is parsed to an integer and printed again before it is written: `00` is emitted as `0` and `1a` loses its letter - not what the author wrote")
		}
	}
	r.OK("R1", "integer-to-string conversions in package asm scanned", token.NoPos, fmt.Sprintf("%d re-rendering sites feed symbol writers", n1))

	// ---- R2 -----------------------------------------------------------------------------------
	checkBatchExpansion(w, r)

	// ---- R3 -----------------------------------------------------------------------------------
	if ps := anchor(w, r, "asm", "Parse"); ps != nil {
		okIdx := false
		// Parse and the functions of the package it hands a line to (the per-line body may be a helper)
		scope := []*ssa.Function{ps}
		for d := 0; d < 2; d++ {
			for _, f := range append([]*ssa.Function{}, scope...) {
				for _, c := range core.Calls(f) {
					if g := core.StaticCallee(c); g != nil && core.PkgOf(g) == "asm" && len(g.Blocks) > 0 {
						dup := false
						for _, x := range scope {
							if x == g {
								dup = true
							}
						}
						if !dup {
							scope = append(scope, g)
						}
					}
				}
			}
		}
		var lineCalls []ssa.CallInstruction
		for _, f := range scope {
			lineCalls = append(lineCalls, core.Calls(f)...)
		}
		for _, c := range lineCalls {
			g := core.StaticCallee(c)
			wop := asmWriter(w, "vm.Opcode")
			if g == nil || wop == nil || core.PkgOf(g) != "asm" || len(callsToSet(g, map[*ssa.Function]bool{wop: true})) == 0 {
				continue
			}
			// the opcode argument derives from a lookup in vm.OpcodeIndex keyed by the line's OpCode field
			for _, a := range core.CallArgs(c) {
				if core.TypeName(a.Type()) != "vm.Opcode" {
					continue
				}
				for _, s := range core.Sources(a) {
					lk, _ := s.(*ssa.Lookup)
					if ex, isEx := s.(*ssa.Extract); isEx {
						lk, _ = ex.Tuple.(*ssa.Lookup)
					}
					if lk == nil {
						continue
					}
					isIdx := false
					for _, ms := range core.Sources(lk.X) {
						if gl := core.GlobalOf(ms); gl != nil && gl.Name() == "OpcodeIndex" {
							isIdx = true
						}
					}
					if _, f, isF := core.LoadedField(lk.Index); isIdx && isF && f == "OpCode" {
						okIdx = true
					}
				}
			}
			// exactly one writeOpcode, with the parameter
			wo := callsToSet(g, map[*ssa.Function]bool{wop: true})
			okOne := len(wo) == 1 && paramIndex(core.CallArgs(wo[0])[1]) >= 0
			r.Check(okOne, "R3", core.QName(g)+": one opcode per line", g.Pos(), "writeOpcode(parameter) once", "the line emitter does not write exactly the opcode it was given, once")
		}
		r.Check(okIdx, "R3", "asm.Parse: opcode from the mnemonic", ps.Pos(), "vm.OpcodeIndex[line.OpCode]", "the opcode emitted for a line is not looked up from that line's mnemonic")
	}

	// ---- R4 -----------------------------------------------------------------------------------
	checkNoRightTrim(w, r, "R4")
	// ---- R5 -----------------------------------------------------------------------------------
	checkNumericTokenClass(w, r, "R5")
	// ---- R6 -----------------------------------------------------------------------------------
	checkReservedNamesAreOneToken(w, r, "R7")
	checkSourceReachesParserUnmodified(w, r, "R9")
	checkMenuAddReachesProcessor(w, r, "R10")
	checkPreprocessorFlagPositions(w, r, "R11")
	checkCommentTokenClass(w, r, "R12")
	checkParsedArgsNotRewritten(w, r, "R13")
	checkAsmWriterErrorsChecked(w, r, "R14")
	checkMenuItemsEmptiedAfterExpansion(w, r, "R15")
	checkMenuBuffersDistinct(w, r, "R16")
	checkAsmNumbersNotNarrowed(w, r, "R8")
	checkFreshLineBuffer(w, r, "R6")
	checkNewLineArgsUnmodified(w, r, "R6")
}

type batchShape struct {
	preOp, postOp     string
	preArgs, postArgs []string
}

func (b batchShape) String() string {
	return fmt.Sprintf("%s %s | HALT | %s %s", b.preOp, strings.Join(b.preArgs, " "), b.postOp, strings.Join(b.postArgs, " "))
}

func checkBatchExpansion(w *core.World, r *core.Report) {
	tl := anchor(w, r, "asm", "(*MenuProcessor).ToLines")
	asmPkg := w.Pkgs["asm"]
	if tl == nil || asmPkg == nil {
		return
	}
	names := opcodeNames(w)
	bc, _ := mapLiteral(asmPkg, "batchCode") // name -> code
	codeName := map[string]string{}
	for n, c := range bc {
		codeName[c] = n
	}
	if len(bc) < 4 {
		r.Undecided("R2", "asm.batchCode", token.NoPos, "batch code table not a constant map literal")
		return
	}
	// accumulators: []byte phis that are the first argument of NewLine and receive its result
	nlCalls := core.CallsTo(tl, "vm.NewLine")
	accs := map[ssa.Value]bool{}
	for _, c := range nlCalls {
		a0 := core.CallArgs(c)[0]
		if phi, ok := a0.(*ssa.Phi); ok {
			accs[phi] = true
		}
	}
	// HALT call after the loop identifies the "before" buffer
	haltOp := int64(-1)
	for v, n := range names {
		if n == "HALT" {
			haltOp = v
		}
	}
	var pre, post ssa.Value
	var haltCall *ssa.Call
	for _, c := range nlCalls {
		if op, ok := core.ConstInt(core.CallArgs(c)[1]); ok && op == haltOp {
			haltCall, _ = c.(*ssa.Call)
			pre = core.CallArgs(c)[0]
		}
	}
	for a := range accs {
		if a != pre {
			post = a
		}
	}
	okStruct := len(accs) == 2 && haltCall != nil && pre != nil && post != nil
	// return = append(HALT line, post...)
	okRet := false
	if okStruct {
		for _, b := range tl.Blocks {
			if ret, ok := b.Instrs[len(b.Instrs)-1].(*ssa.Return); ok {
				if ap, ok := ret.Results[0].(*ssa.Call); ok && core.IsCallTo(ap, "builtin.append") {
					if ap.Call.Args[0] == ssa.Value(haltCall) && ap.Call.Args[1] == post {
						okRet = true
					}
				}
			}
		}
	}
	r.Check(okStruct && okRet, "R2", "asm.(*MenuProcessor).ToLines: before + HALT + after", tl.Pos(), "two buffers; result = append(NewLine(before, HALT), after...)",
		fmt.Sprintf("the expansion is not 'instructions before HALT in source order, one HALT, instructions after HALT in source order' (%d instruction buffers found): lines are reordered relative to the source", len(accs)))
	if !okStruct {
		return
	}
	// per case shapes
	role := map[string]string{"display": "label", "choice": "selector", "target": "symbol"}
	argRoles := func(v ssa.Value, resolve func(ssa.Value) ssa.Value) []string {
		sl, ok := v.(*ssa.Slice)
		if !ok {
			return nil
		}
		al, ok := sl.X.(*ssa.Alloc)
		if !ok {
			return nil
		}
		type el struct {
			idx int64
			s   string
		}
		var els []el
		if refs := al.Referrers(); refs != nil {
			for _, rr := range *refs {
				ia, ok := rr.(*ssa.IndexAddr)
				if !ok {
					continue
				}
				idx, _ := core.ConstInt(ia.Index)
				if ir := ia.Referrers(); ir != nil {
					for _, s := range *ir {
						st, ok := s.(*ssa.Store)
						if !ok {
							continue
						}
						val := resolve(st.Val)
						if str, ok := core.ConstString(val); ok {
							els = append(els, el{idx, "'" + str + "'"})
						} else if _, f, ok := core.LoadedField(val); ok {
							rl := role[f]
							if rl == "" {
								rl = f
							}
							els = append(els, el{idx, rl})
						} else {
							els = append(els, el{idx, "?"})
						}
					}
				}
			}
		}
		sort.Slice(els, func(i, j int) bool { return els[i].idx < els[j].idx })
		var out []string
		for _, e := range els {
			out = append(out, e.s)
		}
		return out
	}
	shapes := map[string]batchShape{}
	// the cases of the switch over the batch code: name -> edges on which the code is that case
	type caseInfo struct {
		name  string
		edges []core.Edge
	}
	var cases []caseInfo
	var cmps []*ssa.BinOp
	for _, in := range allInstrs(tl) {
		bo, ok := in.(*ssa.BinOp)
		if !ok || bo.Op != token.EQL || core.TypeName(bo.X.Type()) != "asm.BatchCode" {
			continue
		}
		k, _ := core.ConstInt(bo.Y)
		cases = append(cases, caseInfo{codeName[fmt.Sprint(k)], core.EdgesWhere(bo, true)})
		cmps = append(cmps, bo)
	}
	// default (DOWN): the false edge of the comparison that is last in the chain
	def := caseInfo{name: "DOWN"}
	for _, bo := range cmps {
		for _, e := range core.EdgesWhere(bo, false) {
			more := false
			for _, in := range e.To().Instrs {
				for _, other := range cmps {
					if in == ssa.Instruction(other) {
						more = true
					}
				}
			}
			if !more {
				def.edges = append(def.edges, e)
			}
		}
	}
	cases = append(cases, def)
	inCase := func(k caseInfo, b *ssa.BasicBlock) bool {
		for _, e := range k.edges {
			if t := e.To(); len(t.Preds) == 1 && (t == b || t.Dominates(b)) {
				return true
			}
		}
		return false
	}
	predInCase := func(k caseInfo, m *ssa.BasicBlock, i int) bool {
		p := m.Preds[i]
		for _, e := range k.edges {
			t := e.To()
			if t == m && e.From == p {
				return true
			}
			if len(t.Preds) == 1 && (t == p || t.Dominates(p)) {
				return true
			}
		}
		return false
	}
	// resolve: the value a phi takes when control comes through case k (a switch that only selects
	// opcode and target, with the instruction built once behind it)
	resolveIn := func(k caseInfo) func(ssa.Value) ssa.Value {
		return func(v ssa.Value) ssa.Value {
			for i := 0; i < 8; i++ {
				phi, ok := v.(*ssa.Phi)
				if !ok {
					return v
				}
				idx := -1
				for j := range phi.Edges {
					if predInCase(k, phi.Block(), j) {
						if idx >= 0 {
							return v
						}
						idx = j
					}
				}
				if idx < 0 {
					return v
				}
				v = phi.Edges[idx]
			}
			return v
		}
	}
	perCase := map[string]int{}
	for _, k := range cases {
		res := resolveIn(k)
		for _, c := range nlCalls {
			if c.(ssa.Instruction) == ssa.Instruction(haltCall) {
				continue
			}
			// the call belongs to this case, or to the part all cases share
			mine := inCase(k, c.Block())
			if !mine {
				shared := true
				for _, o := range cases {
					if inCase(o, c.Block()) {
						shared = false
					}
				}
				if !shared {
					continue
				}
			}
			cs := k.name
			perCase[cs]++
			op, _ := core.ConstInt(res(core.CallArgs(c)[1]))
			sh := shapes[cs]
			if core.CallArgs(c)[0] == pre {
				sh.preOp, sh.preArgs = names[op], argRoles(core.CallArgs(c)[2], res)
			} else if core.CallArgs(c)[0] == post {
				sh.postOp, sh.postArgs = names[op], argRoles(core.CallArgs(c)[2], res)
			}
			shapes[cs] = sh
		}
	}
	for cs, n := range perCase {
		r.Check(n == 2, "R2", "ToLines case "+cs+": one instruction before and one after HALT", tl.Pos(), "2 NewLine calls", fmt.Sprintf("%d instructions emitted for one %s line", n, cs))
	}
	// documentation
	doc, err := readDoc(w, "instructions.texi")
	if err != nil {
		r.Undecided("R2", "doc/texinfo/instructions.texi", token.NoPos, err.Error())
		return
	}
	i := strings.Index(doc, "Batch menu expansion")
	if i < 0 {
		r.Undecided("R2", "doc/texinfo/instructions.texi", token.NoPos, "no 'Batch menu expansion' table")
		return
	}
	tab := doc[i:]
	if j := strings.Index(tab, "@end multitable"); j >= 0 {
		tab = tab[:j]
	}
	reEx := regexp.MustCompile(`(?s)@example\n(.*?)@end example`)
	exs := reEx.FindAllStringSubmatch(tab, -1)
	ndoc := 0
	for k := 0; k+1 < len(exs); k += 2 {
		src := strings.Split(strings.TrimSpace(exs[k][1]), "\n")
		exp := strings.Split(strings.TrimSpace(exs[k+1][1]), "\n")
		if len(src) != 1 {
			// multi-line rows document the ordering: all pre lines, HALT, all post lines
			nh := 0
			for _, l := range exp {
				if strings.TrimSpace(l) == "HALT" {
					nh++
				}
			}
			r.Check(nh == 1 && len(exp) == 2*len(src)+1, "R2", "instructions.texi: multi-line batch row", token.NoPos, "n before, one HALT, n after", "the documented multi-line expansion is not n + HALT + n")
			continue
		}
		toks := strings.Fields(src[0])
		if len(toks) < 3 || len(exp) != 3 || strings.TrimSpace(exp[1]) != "HALT" {
			continue
		}
		ndoc++
		bn := toks[0]
		tokRole := map[string]string{}
		if bn == "DOWN" && len(toks) == 4 {
			tokRole[toks[1]], tokRole[toks[2]], tokRole[toks[3]] = "symbol", "selector", "label"
		} else {
			tokRole[toks[1]], tokRole[toks[2]] = "selector", "label"
		}
		parse := func(l string) (string, []string) {
			f := strings.Fields(l)
			var args []string
			for _, a := range f[1:] {
				if rl, ok := tokRole[a]; ok {
					args = append(args, rl)
				} else {
					args = append(args, "'"+a+"'")
				}
			}
			return f[0], args
		}
		var want batchShape
		want.preOp, want.preArgs = parse(exp[0])
		want.postOp, want.postArgs = parse(exp[2])
		got := shapes[bn]
		r.Check(got.String() == want.String(), "R2", "batch expansion of "+bn+" = instructions.texi", tl.Pos(), got.String(),
			fmt.Sprintf("ToLines expands %s to [%s] but the documentation says [%s]", bn, got.String(), want.String()))
	}
	r.Floor("R2", "documented single-line batch expansions", ndoc, 4)
}

// reRenderSite names a re-rendering site: exported methods by name, unexported functions of the
// assembler by what they emit.
func reRenderSite(fn *ssa.Function) string {
	if token.IsExported(fn.Name()) {
		return core.QName(fn)
	}
	return "asm line emitter (two-symbol layout)"
}

// checkNumericTokenClass (C16 R5): numbers written in the source are read as numbers. The lexer's
// rule table (constant strings in package asm's initialiser) is read from the SSA and each pattern
// is parsed with regexp/syntax (nothing is executed): exactly one token class can begin with a
// decimal digit, and the grammar's integer captures (fields of Arg with an unsigned integer
// pointer type) are bound to that class. A second class that can start with a digit makes the
// reading of `04` depend on rule order.
func checkNumericTokenClass(w *core.World, r *core.Report, rule string) {
	var initFn *ssa.Function
	if sp := w.SSA["asm"]; sp != nil {
		initFn = sp.Func("init")
	}
	if initFn == nil {
		r.Undecided(rule, "assembler lexer rules", token.NoPos, "package initialiser of asm not found")
		return
	}
	rules := lexerRuleTable(initFn)
	if len(rules) == 0 {
		r.Undecided(rule, "assembler lexer rules", initFn.Pos(), "no constant lexer rule table found in the initialiser")
		return
	}
	r.Touch("asm.init")
	var digitClasses []string
	for _, rl := range rules {
		re, err := syntax.Parse(rl.pat, syntax.Perl)
		if err != nil {
			r.Undecided(rule, "assembler lexer rule "+rl.name, initFn.Pos(), "pattern does not parse: "+err.Error())
			return
		}
		if canStartWithDigit(re.Simplify()) {
			digitClasses = append(digitClasses, rl.name)
		}
	}
	sort.Strings(digitClasses)
	// integer captures of the grammar
	bound := true
	var capt []string
	for _, fld := range structFields(w, "asm", "Arg") {
		pt, ok := fld.Type().(*types.Pointer)
		if !ok {
			continue
		}
		bt, ok := pt.Elem().Underlying().(*types.Basic)
		if !ok || bt.Info()&types.IsInteger == 0 {
			continue
		}
		tag := structTag(w, "asm", "Arg", fld.Name())
		capt = append(capt, fld.Name())
		if len(digitClasses) != 1 || !strings.Contains(tag, "@"+digitClasses[0]) {
			bound = false
		}
	}
	r.Check(len(digitClasses) == 1 && bound && len(capt) > 0, rule, "assembler lexer: one numeric token class", initFn.Pos(),
		fmt.Sprintf("only %v can start with a digit; integer captures %v are bound to it", digitClasses, capt),
		fmt.Sprintf("token classes that can start with a decimal digit: %v (exactly one expected, bound to the integer captures %v): how a number such as 04 is read depends on rule order, so the instruction emitted is not the one written", digitClasses, capt))
}

type lexRule struct{ name, pat string }

// lexerRuleTable reads the constant lexer.SimpleRule table from the initialiser, in table order.
func lexerRuleTable(initFn *ssa.Function) []*lexRule {
	rules := map[int64]*lexRule{}
	for _, in := range allInstrs(initFn) {
		st, ok := in.(*ssa.Store)
		if !ok {
			continue
		}
		sv, isStr := core.ConstString(st.Val)
		if !isStr {
			continue
		}
		fa, ok := st.Addr.(*ssa.FieldAddr)
		if !ok {
			continue
		}
		ia, ok := fa.X.(*ssa.IndexAddr)
		if !ok {
			continue
		}
		if !strings.Contains(ia.X.Type().String(), "SimpleRule") {
			continue
		}
		idx, ok := core.ConstInt(ia.Index)
		if !ok {
			continue
		}
		if rules[idx] == nil {
			rules[idx] = &lexRule{}
		}
		if fa.Field == 0 {
			rules[idx].name = sv
		} else {
			rules[idx].pat = sv
		}
	}
	var keys []int64
	for k := range rules {
		keys = append(keys, k)
	}
	sort.Slice(keys, func(i, j int) bool { return keys[i] < keys[j] })
	var out []*lexRule
	for _, k := range keys {
		out = append(out, rules[k])
	}
	return out
}

// checkReservedNamesAreOneToken (C16 R7): the names the VM itself gives a meaning - the targets
// of its navigation switch ("_", "<", ">", "^", "."), the wildcard selector and the catch node it
// moves to - must be writable in assembly: each is read by the lexer as ONE token of the class the
// grammar's symbol captures are bound to. The names are collected from package vm (string
// constants compared with a symbol, or placed in the argument list of an instruction the VM
// builds); the lexer's rule table is the one R5 reads; matching follows the lexer (rules tried in
// table order, first match at the position wins, Go leftmost-first alternation inside a rule).
func checkReservedNamesAreOneToken(w *core.World, r *core.Report, rule string) {
	var initFn *ssa.Function
	if sp := w.SSA["asm"]; sp != nil {
		initFn = sp.Func("init")
	}
	if initFn == nil {
		r.Undecided(rule, "assembler lexer rules", token.NoPos, "package initialiser of asm not found")
		return
	}
	rules := lexerRuleTable(initFn)
	if len(rules) == 0 {
		r.Undecided(rule, "assembler lexer rules", initFn.Pos(), "no constant lexer rule table found in the initialiser")
		return
	}
	// the token class of symbol captures
	symClass := ""
	for _, fld := range structFields(w, "asm", "Arg") {
		pt, ok := fld.Type().(*types.Pointer)
		if !ok {
			continue
		}
		if bt, ok := pt.Elem().Underlying().(*types.Basic); !ok || bt.Kind() != types.String {
			continue
		}
		tag := structTag(w, "asm", "Arg", fld.Name())
		for _, rl := range rules {
			if strings.Contains(tag, "@"+rl.name) {
				if symClass != "" && symClass != rl.name {
					r.Undecided(rule, "assembler grammar: symbol captures", initFn.Pos(), "string captures are bound to more than one token class")
					return
				}
				symClass = rl.name
			}
		}
	}
	if symClass == "" {
		r.Undecided(rule, "assembler grammar: symbol captures", initFn.Pos(), "no string capture bound to a lexer class")
		return
	}
	// reserved names of the VM
	names := map[string]token.Pos{}
	plausible := func(sv string) bool {
		if sv == "" || len(sv) > 24 {
			return false
		}
		// ordinary names (letters first) are the identifier rule's business; numbers are R5's
		if c := sv[0]; (c >= '0' && c <= '9') || (c >= 'a' && c <= 'z') || (c >= 'A' && c <= 'Z') {
			return false
		}
		for _, c := range sv {
			if c <= ' ' || c > '~' || c == '%' || c == ':' || c == '/' || c == ',' || c == '=' {
				return false
			}
		}
		return true
	}
	for _, fn := range w.FuncsIn("vm") {
		for _, in := range allInstrs(fn) {
			switch t := in.(type) {
			case *ssa.BinOp:
				if t.Op != token.EQL && t.Op != token.NEQ {
					continue
				}
				for _, op := range []ssa.Value{t.X, t.Y} {
					if sv, ok := core.ConstString(op); ok && plausible(sv) {
						if bt, ok := op.Type().Underlying().(*types.Basic); ok && bt.Kind() == types.String {
							names[sv] = t.Pos()
						}
					}
				}
			case *ssa.Store:
				// element of a []string literal handed to the instruction builder
				sv, ok := core.ConstString(t.Val)
				if !ok || !plausible(sv) {
					continue
				}
				ia, ok := t.Addr.(*ssa.IndexAddr)
				if !ok {
					continue
				}
				if pt, ok := ia.X.Type().Underlying().(*types.Pointer); ok {
					if at, ok := pt.Elem().Underlying().(*types.Array); ok {
						if bt, ok := at.Elem().Underlying().(*types.Basic); ok && bt.Kind() == types.String {
							names[sv] = t.Pos()
						}
					}
				}
			}
		}
	}
	var sorted []string
	for n := range names {
		sorted = append(sorted, n)
	}
	sort.Strings(sorted)
	var bad []string
	var badPos token.Pos
	for _, n := range sorted {
		got, cls := "", ""
		for _, rl := range rules {
			re, err := regexp.Compile("^(?:" + rl.pat + ")")
			if err != nil {
				r.Undecided(rule, "assembler lexer rule "+rl.name, initFn.Pos(), "pattern does not compile: "+err.Error())
				return
			}
			if m := re.FindString(n); m != "" {
				got, cls = m, rl.name
				break
			}
		}
		if cls != symClass || got != n {
			bad = append(bad, fmt.Sprintf("%q is read as %s %q", n, cls, got))
			badPos = names[n]
		}
	}
	r.Floor(rule, "names the VM gives a meaning", len(sorted), 5)
	r.Check(len(bad) == 0, rule, "assembler lexer: every name the VM gives a meaning is one symbol token", badPos,
		fmt.Sprintf("%v each lexed as one %s token", sorted, symClass),
		"a name the VM itself uses cannot be written in assembly as one symbol (it is split or read as another token class, so the instruction emitted is not the one written): "+strings.Join(bad, "; "))
}

// canStartWithDigit: the regular expression can match a string whose first byte is '0'..'9'.
func canStartWithDigit(re *syntax.Regexp) bool {
	switch re.Op {
	case syntax.OpLiteral:
		return len(re.Rune) > 0 && re.Rune[0] >= '0' && re.Rune[0] <= '9'
	case syntax.OpCharClass:
		for i := 0; i+1 < len(re.Rune); i += 2 {
			if re.Rune[i] <= '9' && re.Rune[i+1] >= '0' {
				return true
			}
		}
		return false
	case syntax.OpAnyChar, syntax.OpAnyCharNotNL:
		return true
	case syntax.OpCapture, syntax.OpPlus:
		return canStartWithDigit(re.Sub[0])
	case syntax.OpStar, syntax.OpQuest:
		return canStartWithDigit(re.Sub[0]) // (and the empty match, which starts nothing)
	case syntax.OpRepeat:
		return canStartWithDigit(re.Sub[0])
	case syntax.OpAlternate:
		for _, s := range re.Sub {
			if canStartWithDigit(s) {
				return true
			}
		}
		return false
	case syntax.OpConcat:
		for _, s := range re.Sub {
			if canStartWithDigit(s) {
				return true
			}
			if !canBeEmpty(s) {
				return false
			}
		}
		return false
	}
	return false
}

func canBeEmpty(re *syntax.Regexp) bool {
	switch re.Op {
	case syntax.OpEmptyMatch, syntax.OpBeginLine, syntax.OpEndLine, syntax.OpBeginText, syntax.OpEndText, syntax.OpWordBoundary, syntax.OpNoWordBoundary, syntax.OpStar, syntax.OpQuest:
		return true
	case syntax.OpCapture:
		return canBeEmpty(re.Sub[0])
	case syntax.OpRepeat:
		return re.Min == 0 || canBeEmpty(re.Sub[0])
	case syntax.OpPlus:
		return canBeEmpty(re.Sub[0])
	case syntax.OpAlternate:
		for _, s := range re.Sub {
			if canBeEmpty(s) {
				return true
			}
		}
		return false
	case syntax.OpConcat:
		for _, s := range re.Sub {
			if !canBeEmpty(s) {
				return false
			}
		}
		return true
	case syntax.OpLiteral:
		return len(re.Rune) == 0
	}
	return false
}

// checkFreshLineBuffer (C16 R6): the buffer a line emitter hands to the opcode writer is allocated
// for that line - a bytes.NewBuffer call or a local in the emitter or (for a helper) in every one of
// its callers - never taken from a pool or a package-level variable, whose contents outlive a
// refused line and are emitted in front of the next program.
func checkFreshLineBuffer(w *core.World, r *core.Report, rule string) {
	wop := asmWriter(w, "vm.Opcode")
	if wop == nil {
		r.Undecided(rule, "assembler opcode writer", token.NoPos, "role not resolved")
		return
	}
	var fresh func(fn *ssa.Function, v ssa.Value, d int) (bool, string)
	fresh = func(fn *ssa.Function, v ssa.Value, d int) (bool, string) {
		if d > 3 {
			return false, "too deep"
		}
		srcs := core.Sources(v)
		if len(srcs) == 0 {
			return false, "unknown origin"
		}
		for _, src := range srcs {
			switch t := src.(type) {
			case *ssa.Alloc:
				continue
			case *ssa.Call:
				if core.IsCallTo(t, "bytes.NewBuffer", "bytes.NewBufferString") {
					continue
				}
				return false, "result of " + core.CallName(t)
			case *ssa.Parameter:
				pi := paramIndex(t)
				m := 0
				for _, caller := range w.FuncsIn("asm") {
					for _, c := range callsToSet(caller, map[*ssa.Function]bool{fn: true}) {
						m++
						args := core.CallArgs(c)
						if pi >= len(args) {
							return false, "argument missing"
						}
						if ok, why := fresh(caller, args[pi], d+1); !ok {
							return false, why
						}
					}
				}
				if m == 0 {
					return false, "no caller"
				}
				continue
			}
			return false, fmt.Sprintf("%T (pooled, package-level or otherwise long-lived)", src)
		}
		return true, ""
	}
	n, bad := 0, ""
	var badPos token.Pos
	for _, fn := range w.FuncsIn("asm") {
		for _, c := range callsToSet(fn, map[*ssa.Function]bool{wop: true}) {
			n++
			r.Touch(core.QName(fn))
			if ok, why := fresh(fn, core.CallArgs(c)[0], 0); !ok {
				bad = fmt.Sprintf("the buffer %s writes the line into is not allocated for the line: %s", core.QName(fn), why)
				badPos = c.Pos()
			}
		}
	}
	r.Check(bad == "" && n > 0, rule, "assembler: each line is assembled in its own buffer", badPos, fmt.Sprintf("%d opcode-writing site(s) use a buffer allocated for the line", n),
		"bytes of one line (for instance of a line that was refused half-way) can be emitted in front of another line or program: "+bad)
}

// checkNewLineArgsUnmodified (C16 R6): vm.NewLine appends each string argument as it is - the bytes
// appended derive from the range element itself, not from a slice or other derivative of it. A too
// long argument cannot be refused by NewLine (open finding C14 R3) but it is never cut either.
func checkNewLineArgsUnmodified(w *core.World, r *core.Report, rule string) {
	nl := w.Func("vm", "NewLine")
	if nl == nil {
		r.Undecided(rule, "vm.NewLine", token.NoPos, "anchor not found")
		return
	}
	r.Touch(core.QName(nl))
	var strs *ssa.Parameter
	for _, p := range nl.Params {
		if p.Type().String() == "[]string" {
			strs = p
		}
	}
	n, bad := 0, ""
	var badPos token.Pos
	var exact func(v ssa.Value, d int) bool
	exact = func(v ssa.Value, d int) bool {
		if d > 6 {
			return false
		}
		switch t := core.Strip(v).(type) {
		case *ssa.Convert:
			return exact(t.X, d+1)
		case *ssa.Phi:
			for _, e := range t.Edges {
				if !exact(e, d+1) {
					return false
				}
			}
			return len(t.Edges) > 0
		case *ssa.UnOp:
			if t.Op == token.MUL {
				if ia, ok := t.X.(*ssa.IndexAddr); ok && core.Strip(ia.X) == ssa.Value(strs) {
					return true
				}
			}
		}
		return false
	}
	for _, c := range core.CallsTo(nl, "builtin.append") {
		cc, ok := c.(*ssa.Call)
		if !ok || len(cc.Call.Args) != 2 {
			continue
		}
		// appends of bytes that derive from an element of strargs
		fromArg := false
		for _, src := range core.Sources(cc.Call.Args[1]) {
			if uo, ok := src.(*ssa.UnOp); ok && uo.Op == token.MUL {
				if ia, ok := uo.X.(*ssa.IndexAddr); ok && core.Strip(ia.X) == ssa.Value(strs) {
					fromArg = true
				}
			}
		}
		if cv, ok := core.Strip(cc.Call.Args[1]).(*ssa.Convert); !ok || !fromArg {
			_ = cv
			continue
		}
		n++
		if !exact(cc.Call.Args[1], 0) {
			bad = "the bytes appended for a string argument are a slice or other derivative of the argument"
			badPos = cc.Pos()
		}
	}
	r.Check(bad == "" && n > 0, rule, "vm.NewLine: string arguments are appended unmodified", badPos, fmt.Sprintf("%d append site(s) write the argument itself", n),
		"an instruction line can carry a cut or altered argument: the expansion of a batch menu line no longer equals the explicit instructions it stands for: "+bad)
}

// checkSourceReachesParserUnmodified (C16 R9): asm.Parse hands the parser the very string it was
// given. Rewriting the text first (deleting carriage returns, trimming, appending) changes where
// the lexer sees line ends and tokens: the lexer accepts a lone CR as a line end, so deleting it
// glues two lines into one instruction.
func checkSourceReachesParserUnmodified(w *core.World, r *core.Report, rule string) {
	pf := w.Func("asm", "Parse")
	if pf == nil {
		r.Undecided(rule, "asm.Parse", token.NoPos, "anchor not found")
		return
	}
	r.Touch(core.QName(pf))
	n, bad := 0, ""
	var badPos token.Pos
	for _, c := range core.Calls(pf) {
		name := core.CallName(c)
		isSrc := name == "strings.NewReader" || name == "bytes.NewReader" || name == "bytes.NewBufferString" || name == "bytes.NewBuffer" || strings.HasSuffix(name, ".ParseString") || strings.HasSuffix(name, ".ParseBytes")
		if !isSrc {
			continue
		}
		args := core.CallArgs(c)
		if len(args) == 0 {
			continue
		}
		n++
		for _, src := range core.Sources(args[len(args)-1]) {
			if _, ok := src.(*ssa.Parameter); !ok {
				bad = fmt.Sprintf("the text handed to the parser at %s derives from %s", w.Pos(c.Pos()), valueDesc(src))
				badPos = c.Pos()
			}
		}
	}
	r.Check(bad == "" && n > 0, rule, "asm.Parse: the source text reaches the parser as written", badPos, fmt.Sprintf("%d reader(s) over the parameter itself", n),
		"the source is rewritten before it is lexed: characters the lexer gives a meaning (line ends, separators) are added or removed, so lines are joined or split and the instructions emitted are not the ones written: "+bad)
}

// checkAsmNumbersNotNarrowed (C16 R8, C14 R16): numbers the assembler parses from text are not
// narrowed without a range check on their way to the instruction.
func checkAsmNumbersNotNarrowed(w *core.World, r *core.Report, rule string) {
	{
		// the number path of the assembler: what asm.Parse reaches in the package, and the grammar's
		// capture methods (called by the parser library through reflection); only conversions of
		// numbers that were parsed from text (strconv results) are of interest here
		var af []*ssa.Function
		roots := []*ssa.Function{w.Func("asm", "Parse")}
		for _, fn := range w.FuncsIn("asm") {
			if fn.Name() == "Capture" && fn.Signature.Recv() != nil {
				roots = append(roots, fn)
			}
		}
		seen, _ := w.Reachable(roots)
		for _, fn := range w.FuncsIn("asm") {
			if !seen[fn] || len(fn.Blocks) == 0 {
				continue
			}
			fromText := false
			for _, c := range core.Calls(fn) {
				if strings.HasPrefix(core.CallName(c), "strconv.") {
					fromText = true
				}
			}
			if fromText {
				af = append(af, fn)
			}
		}
		checkNarrowing(w, r, rule, af, "a number written in the source is reduced modulo the width of a narrower type on its way to the instruction: the instruction emitted carries another number than the one written")
	}
}
