package rules

import (
	"fmt"
	"go/token"
	"strings"

	"golang.org/x/tools/go/ssa"

	"vischeck/internal/core"
)

func init() {
	register("C13", PropCheck{
		Title:      "A storage error on Postgres never wedges the store or loses acknowledged writes",
		Explain:    "Transaction typestate, decided on every path including the error paths no test takes: (R1) pgDb.tx is stored only nil or the result of BeginTx, and every Commit/Rollback on the stored handle is followed by storing nil on every path (ended exactly once); (R2) in every operation that opens the implicit transaction (Put, Get), every path from the opener's success edge (the opener itself, or an unexported helper that calls it, reports success only behind its success edge and returns nothing but success afterwards) to a return passes a closer (a method that commits or rolls back the stored handle; a deferred closer counts from its registration), and the error of every committing closer flows into the operation's error result; (R3) for a local BeginTx result (Dump, ensureTable) every path from the success edge to a return passes Commit or Rollback (deferred counts) and the failure edge does not touch the handle; (R4) exported methods that do not open a transaction (Abort, Stop, Close) dereference the stored handle only behind a non-nil test; (R5) explicit mode: multi is set only after the opener succeeded, and every commit reached from a single operation (Put, Get) lies behind the multi==false edge, tested in the closer or at its call site; (R7) an operation opens at most one transaction: after a rollback (Abort, or Rollback on the stored handle) no opener is reachable in the same call - a retry on a fresh transaction inside Start..Stop discards the acknowledged writes before it and reports success (added after seeded change C13-G); (R8) a back end that declares one of Start, Stop, Abort itself declares all three itself (checked on the method sets): none silently falls back to DbBase's do-nothing version (added after C13-H, where the public Abort was renamed away). R3 also requires that a local transaction is ended at most once: no closer (explicit, or deferred and therefore run at the return) can follow another on one path, except a Rollback reached only on the failure edge of a Commit (added after seeded change C13-J). Closers are followed through wrappers that hoist the commit sequence, and nil tests of the stored handle through one call level. (R9) every nil store to pgDb.tx is preceded on every path of its function by a Commit or Rollback on the stored handle (added after seeded change C13-L). (R10) Stop reports success only after a Commit: every success return of the back end's Stop passes Tx.Commit, directly or in a helper all of whose success returns do (added after seeded change C13-M: 'no transaction' became success, hiding the rollback of acknowledged writes). (R11) no function reachable from Put/Get inside the package stores the transaction mode flag (added after seeded change C13-N, where the internal rollback left multi mode).",
		NotDecided: "that later operations return exactly the acknowledged values (history-level); behaviour of the driver itself after a failed statement; clearing of multi when a transaction ends (TestPostgresTxStartStop pins that it stays set).",
		Run:        runC13,
	})
}

const pgTxIface = "github.com/jackc/pgx/v5.Tx"

func isTxField(v ssa.Value) bool {
	for _, s := range core.Sources(v) {
		if tn, f, ok := core.LoadedField(s); ok && tn == "db/postgres.pgDb" && f == "tx" {
			return true
		}
	}
	return false
}

func runC13(w *core.World, r *core.Report) {
	r.Rule("R1", "pgDb.tx: stored only nil / BeginTx result; every Commit/Rollback on it followed by tx=nil")
	r.Rule("R2", "Put/Get: every path after the opener's success passes a closer; commit errors reach the caller")
	r.Rule("R3", "local transactions (Dump, ensureTable): ended on every path; failure edge does not touch the handle")
	r.Rule("R4", "Abort/Stop/Close: stored handle dereferenced only behind a non-nil test")
	r.Rule("R10", "Stop reports success only after a Commit (a transaction the library rolled back is not acknowledged)")
	r.Rule("R11", "Put/Get and everything they run (internal rollback, lazy opener, single commit) never store the transaction mode flag")
	r.Rule("R9", "the stored transaction handle is forgotten (tx = nil) only after a Commit or Rollback on every path")
	r.Rule("R8", "a back end that declares one of Start/Stop/Abort itself declares all three (none falls back to DbBase's no-op)")
	r.Rule("R7", "no new transaction after a rollback in the same operation")
	r.Rule("R5", "multi set only after the opener succeeded; stopSingle commits only when multi is false")
	r.Rule("R6", "Put/Get and their helpers: the error of every driver call (begin, statement, row fetch, commit) flows into the function's error result")

	fns := w.FuncsIn("db/postgres")
	if len(fns) == 0 {
		r.Undecided("anchor", "db/postgres", token.NoPos, "package not loaded")
		return
	}
	// roles
	openers := map[*ssa.Function]bool{}
	closers := map[*ssa.Function]string{} // commit | rollback
	nst := 0
	for _, fn := range fns {
		for _, b := range fn.Blocks {
			for _, in := range b.Instrs {
				switch t := in.(type) {
				case *ssa.Store:
					tn, f, ok := core.FieldOfAddr(t.Addr)
					if !ok || tn != "db/postgres.pgDb" || f != "tx" {
						continue
					}
					nst++
					key := core.QName(fn) + ": store pgDb.tx"
					if core.IsNilConst(t.Val) {
						r.OK("R1", key, t.Pos(), "nil")
						continue
					}
					okv := false
					for _, s := range core.Sources(t.Val) {
						if c, i, isC := core.ExtractOf(s); isC && i == 0 && strings.HasSuffix(core.CallName(c), ".BeginTx") {
							okv = true
						}
					}
					if okv {
						openers[fn] = true
					}
					r.Check(okv, "R1", key, t.Pos(), "result of BeginTx", "the transaction handle is set from something other than BeginTx")
				case ssa.CallInstruction:
					n := core.CallName(t)
					if (n == pgTxIface+".Commit" || n == pgTxIface+".Rollback") && isTxField(core.CallArgs(t)[0]) {
						kind := "commit"
						if strings.HasSuffix(n, "Rollback") {
							kind = "rollback"
						}
						closers[fn] = kind
						// followed by tx = nil on every path
						cut := core.NewCut()
						for _, bb := range fn.Blocks {
							for _, x := range bb.Instrs {
								if st, ok := x.(*ssa.Store); ok && core.IsNilConst(st.Val) {
									if tn, f, ok := core.FieldOfAddr(st.Addr); ok && tn == "db/postgres.pgDb" && f == "tx" {
										cut.AddInstr(st)
									}
								}
							}
						}
						in2, path := core.Reach(core.After(t.(ssa.Instruction)), core.IsReturn, cut)
						r.Check(in2 == nil, "R1", fmt.Sprintf("%s: %s clears the handle", core.QName(fn), kind), t.Pos(), "tx = nil on every path after it",
							"the handle survives its "+kind+": the next operation reuses an ended transaction or ends it twice: "+w.PathString(path))
					}
				}
			}
		}
	}
	r.Floor("R1", "stores to pgDb.tx", nst, 3)
	// derived closers: an unexported wrapper that calls a closer and has nothing to do with opening
	// (the commit / rollback sequence hoisted into a shared helper)
	for round := 0; round < 2; round++ {
		for _, fn := range fns {
			if closers[fn] != "" || openers[fn] || token.IsExported(fn.Name()) || fn.Parent() != nil {
				continue
			}
			opens := false
			kind := ""
			for _, c := range core.Calls(fn) {
				g := core.StaticCallee(c)
				if g == nil {
					continue
				}
				if openers[g] || len(callsToSet(g, openers)) > 0 {
					opens = true
				}
				if k := closers[g]; k != "" && g != fn {
					kind = k
				}
			}
			if !opens && kind != "" {
				closers[fn] = kind
			}
		}
	}
	if len(openers) == 0 {
		r.Undecided("R2", "transaction opener", token.NoPos, "no function stores a BeginTx result into pgDb.tx")
		return
	}
	isCloserCall := func(c ssa.CallInstruction) (string, bool) {
		if f := core.StaticCallee(c); f != nil {
			if k, ok := closers[f]; ok {
				return k, true
			}
			// closure containing a closer on every path (deferred cleanup)
			if f.Parent() != nil && len(f.Blocks) > 0 {
				cut := core.NewCut()
				kind := ""
				for _, cc := range core.Calls(f) {
					if g := core.StaticCallee(cc); g != nil {
						if k, ok := closers[g]; ok {
							cut.AddInstr(cc.(ssa.Instruction))
							kind = k
						}
					}
				}
				if kind != "" {
					if in, _ := core.Reach(core.Entry(f), core.IsReturn, cut); in == nil {
						return kind, true
					}
				}
			}
		}
		return "", false
	}
	// derived openers: an unexported helper that calls an opener, reports success only behind the
	// opener's success edge, and after that edge returns nothing but success (or passes a closer)
	for round := 0; round < 2; round++ {
		for _, fn := range fns {
			if openers[fn] || token.IsExported(fn.Name()) || closers[fn] != "" || !returnsError(fn) {
				continue
			}
			oc := callsToSet(fn, openers)
			if len(oc) == 0 {
				continue
			}
			okAll := true
			nilCut := core.NewCut()
			for _, o := range oc {
				for _, ce := range core.NilTestEdges(callErr(o)) {
					if ce.Val {
						nilCut.AddEdge(ce.E)
					}
				}
			}
			if in, _ := core.Reach(core.Entry(fn), isSuccessReturnPred(fn), nilCut); in != nil || len(nilCut.Edges) == 0 {
				okAll = false
			}
			for _, o := range oc {
				cut := core.NewCut().AddEdge(errNonNilEdges(callErr(o))...)
				for _, c := range core.Calls(fn) {
					if _, ok := isCloserCall(c); ok {
						cut.AddInstr(c.(ssa.Instruction))
					}
				}
				mayFail := func(in ssa.Instruction) bool {
					ret, ok := in.(*ssa.Return)
					if !ok {
						return false
					}
					ev := core.ReturnError(ret)
					if ev == nil || core.IsNilConst(ev) {
						return false
					}
					var nils []core.Edge
					for _, ce := range core.NilTestEdges(ev) {
						if ce.Val {
							nils = append(nils, ce.E)
						}
					}
					if len(nils) > 0 {
						if ok, _ := core.MustPass(ret, core.NewCut().AddEdge(nils...)); ok {
							return false
						}
					}
					return true
				}
				if in, _ := core.Reach(core.After(o.(ssa.Instruction)), mayFail, cut); in != nil {
					okAll = false
				}
			}
			if okAll {
				openers[fn] = true
				r.Touch(core.QName(fn))
			}
		}
	}
	// ---- R2 -----------------------------------------------------------------------------------
	nops := 0
	implicitOps := map[*ssa.Function]bool{}
	for _, fn := range fns {
		if openers[fn] || !token.IsExported(fn.Name()) {
			continue
		}
		oc := callsToSet(fn, openers)
		if len(oc) == 0 {
			continue
		}
		// Start's purpose is to leave the transaction open
		leavesOpen := false
		for _, b := range fn.Blocks {
			for _, in := range b.Instrs {
				if st, ok := in.(*ssa.Store); ok {
					if _, f, ok := core.FieldOfAddr(st.Addr); ok && f == "multi" {
						leavesOpen = true
					}
				}
			}
		}
		if leavesOpen {
			// ---- R5 (a) ----
			for _, b := range fn.Blocks {
				for _, in := range b.Instrs {
					st, ok := in.(*ssa.Store)
					if !ok {
						continue
					}
					if _, f, ok := core.FieldOfAddr(st.Addr); !ok || f != "multi" {
						continue
					}
					if c, isC := st.Val.(*ssa.Const); !isC || c.Value.String() != "true" {
						continue
					}
					cut := core.NewCut()
					for _, o := range oc {
						for _, ce := range core.NilTestEdges(callErr(o)) {
							if ce.Val {
								cut.AddEdge(ce.E)
							}
						}
					}
					ok2, path := core.MustPass(st, cut)
					r.Check(ok2 && len(cut.Edges) > 0, "R5", core.QName(fn)+": multi set only after the opener succeeded", st.Pos(), "behind the opener's err==nil edge",
						"explicit mode is switched on although beginning the transaction may fail: later single operations then never commit (acknowledged writes sit in a transaction that is never ended): "+w.PathString(path))
				}
			}
			continue
		}
		nops++
		implicitOps[fn] = true
		r.Touch(core.QName(fn))
		for _, o := range oc {
			cut := core.NewCut().AddEdge(errNonNilEdges(callErr(o))...)
			for _, c := range core.Calls(fn) {
				if _, ok := isCloserCall(c); ok {
					cut.AddInstr(c.(ssa.Instruction))
				}
			}
			in, path := core.Reach(core.After(o.(ssa.Instruction)), core.IsReturn, cut)
			r.Check(in == nil, "R2", core.QName(fn)+": transaction ended on every path", o.Pos(), "every return after a successful begin passes a closer",
				"the operation can return with its transaction still open (and stored in pdb.tx): the next operation reuses the aborted transaction and fails too: "+w.PathString(path))
		}
	}
	r.Floor("R2", "operations using the implicit transaction", nops, 2)
	// commit errors reach the caller
	ncommit := 0
	for _, fn := range fns {
		for _, c := range core.Calls(fn) {
			g := core.StaticCallee(c)
			if g == nil || closers[g] != "commit" {
				continue
			}
			if closers[fn] != "" {
				continue // closer calling a closer
			}
			ncommit++
			ok := false
			if _, isDefer := c.(*ssa.Defer); !isDefer {
				if ev := callErr(c); ev != nil {
					for v := range core.Forward(ev, nil) {
						if refs := v.Referrers(); refs != nil {
							for _, u := range *refs {
								switch t := u.(type) {
								case *ssa.Return:
									if len(t.Results) > 0 && t.Results[len(t.Results)-1] == v {
										ok = true
									}
								case *ssa.Store:
									// spilled named result of the enclosing function (defer) or of the parent (closure)
									if fv, isFV := t.Addr.(*ssa.FreeVar); isFV && isNamedResult(fn.Parent(), fv.Name()) {
										ok = true
									}
									if a, isA := t.Addr.(*ssa.Alloc); isA && isNamedResult(fn, a.Comment) {
										ok = true
									}
								}
							}
						}
					}
				}
			}
			r.Check(ok, "R2", fmt.Sprintf("%s: error of %s reaches the caller", core.QName(fn), core.FuncName(g)), c.Pos(), "flows to the error result",
				"the error of the committing closer is dropped: a failed commit is reported as success (the write is acknowledged but lost)")
		}
	}
	r.Floor("R2", "committing closer call sites", ncommit, 3)

	// ---- R6 -----------------------------------------------------------------------------------
	opFns := map[*ssa.Function]bool{}
	for _, fn := range fns {
		if fn.Name() == "Put" || fn.Name() == "Get" {
			opFns[fn] = true
		}
	}
	for changed := true; changed; {
		changed = false
		for f := range opFns {
			for _, c := range core.Calls(f) {
				if g := core.StaticCallee(c); g != nil && core.PkgOf(g) == "db/postgres" && !opFns[g] && len(g.Blocks) > 0 {
					opFns[g] = true
					changed = true
				}
			}
		}
	}
	ndrv := 0
	for f := range opFns {
		for _, c := range core.Calls(f) {
			n := core.CallName(c)
			isHelper := false
			if g := core.StaticCallee(c); g != nil && opFns[g] && closers[g] == "" {
				isHelper = true // a helper that hands driver errors up
			}
			if !isHelper && !(strings.Contains(n, "pgx/v5.Tx.") || strings.Contains(n, "pgx/v5.Rows.") || strings.HasSuffix(n, ".BeginTx")) {
				continue
			}
			if strings.HasSuffix(n, ".Rollback") || strings.HasSuffix(n, "Rows.Close") || strings.HasSuffix(n, "Rows.Next") {
				continue
			}
			call, ok := c.(*ssa.Call)
			if !ok {
				continue
			}
			res := call.Common().Signature().Results()
			hasErr := false
			for i := 0; i < res.Len(); i++ {
				if res.At(i).Type().String() == "error" {
					hasErr = true
				}
			}
			if !hasErr {
				continue
			}
			ndrv++
			ok2 := false
			if ev := callErr(c); ev != nil {
				// the error may be handed to a helper/closure of the package that returns it (`return fail(err)`)
				thr := func(cc *ssa.Call, i int) bool {
					g := core.StaticCallee(cc)
					return g != nil && core.PkgOf(g) == "db/postgres"
				}
				for v := range core.Forward(ev, thr) {
					if refs := v.Referrers(); refs != nil {
						for _, u := range *refs {
							switch t := u.(type) {
							case *ssa.Return:
								if len(t.Results) > 0 && t.Results[len(t.Results)-1] == v {
									ok2 = true
								}
							case *ssa.Store:
								if fv, isFV := t.Addr.(*ssa.FreeVar); isFV && isNamedResult(f.Parent(), fv.Name()) {
									ok2 = true
								}
								if a, isA := t.Addr.(*ssa.Alloc); isA && isNamedResult(f, a.Comment) {
									ok2 = true
								}
							case *ssa.Call:
								// a fallback may follow a miss, when the miss is recognised as such
								if isHelper && core.IsCallTo(t, "db.IsNotFound") {
									ok2 = true
								}
							}
						}
					}
				}
			}
			short := n[strings.LastIndex(n, ".")+1:]
			r.Check(ok2, "R6", fmt.Sprintf("%s: error of %s reaches the caller", core.QName(f), short), c.Pos(), "flows to the error result",
				"a failed "+short+" is not reported by the operation (the error is dropped or only steers a fallback): the caller sees success, or the value of another lookup, although the database failed")
		}
	}
	r.Floor("R6", "driver calls in Put/Get and their helpers", ndrv, 5)

	// ---- R3 -----------------------------------------------------------------------------------
	nlocal := 0
	for _, fn := range fns {
		for _, c := range core.Calls(fn) {
			if !strings.HasSuffix(core.CallName(c), ".BeginTx") || openers[fn] {
				continue
			}
			call, ok := c.(*ssa.Call)
			if !ok {
				continue
			}
			nlocal++
			r.Touch(core.QName(fn))
			txv := core.ResultOf(call, 0)
			ev := core.ResultOf(call, 1)
			isOnTx := func(x ssa.Instruction) bool {
				cc, ok := x.(ssa.CallInstruction)
				if !ok {
					return false
				}
				n := core.CallName(cc)
				if n != pgTxIface+".Commit" && n != pgTxIface+".Rollback" {
					return false
				}
				for _, s := range core.Sources(core.CallArgs(cc)[0]) {
					if s == txv {
						return true
					}
				}
				return false
			}
			cut := core.NewCut().AddEdge(errNonNilEdges(ev)...)
			for _, b := range fn.Blocks {
				for _, x := range b.Instrs {
					if isOnTx(x) {
						cut.AddInstr(x)
					}
				}
			}
			in, path := core.Reach(core.After(call), core.IsReturn, cut)
			r.Check(in == nil, "R3", core.QName(fn)+": local transaction ended on every path", call.Pos(), "Commit or Rollback before every return",
				"a return after a successful BeginTx leaves the transaction open on the connection: "+w.PathString(path))
			// ... and ended at most once: no closer (explicit, or deferred and therefore run at the
			// return) can follow another on one path
			twice := ""
			for x := range cut.Instrs {
				if !isOnTx(x) {
					continue
				}
				for y := range cut.Instrs {
					if y == x || !isOnTx(y) {
						continue
					}
					if in2, _ := core.Reach(core.After(x), core.IsInstr(y), nil); in2 == nil {
						continue
					}
					// rolling back after a commit that failed is the one legitimate sequence: the
					// second closer is only reached on the failure edge of the first one's error
					if xc, ok := x.(*ssa.Call); ok && strings.HasSuffix(core.CallName(xc), ".Commit") {
						if ev := callErr(xc); ev != nil {
							edges := errNonNilEdges(ev)
							// the error may be carried in a variable that an earlier step also assigns (a phi)
							for v := range core.Forward(ev, nil) {
								for _, ce := range core.NilTestEdges(v) {
									if !ce.Val {
										edges = append(edges, ce.E)
									}
								}
							}
							if len(edges) > 0 {
								if must, _ := core.MustPass(y, core.NewCut().AddEdge(edges...)); must && strings.HasSuffix(core.CallName(y.(ssa.CallInstruction)), ".Rollback") {
									continue
								}
							}
						}
					}
					twice = fmt.Sprintf("closer at %s and then closer at %s", w.Pos(x.Pos()), w.Pos(y.Pos()))
				}
			}
			r.Check(twice == "", "R3", core.QName(fn)+": local transaction ended once", call.Pos(), "no closer follows another on any path",
				"the transaction is ended twice on one path (for instance rolled back explicitly and committed by a deferred call): "+twice)
			// failure edge does not touch the handle
			bad := ""
			for _, e := range errNonNilEdges(ev) {
				in, _ := core.Reach(core.Point{B: e.To(), I: 0}, func(x ssa.Instruction) bool {
					cc, ok := x.(ssa.CallInstruction)
					if !ok || !cc.Common().IsInvoke() {
						return false
					}
					for _, s := range core.Sources(cc.Common().Value) {
						if s == txv {
							return true
						}
					}
					return false
				}, core.NewCut().AddInstr(call))
				if in != nil {
					bad = w.Pos(in.Pos())
				}
			}
			r.Check(bad == "", "R3", core.QName(fn)+": failed begin leaves the handle alone", call.Pos(), "not dereferenced on the failure edge", "the nil handle of a failed BeginTx is used at "+bad+" (nil dereference: a connection error becomes a crash)")
		}
	}
	r.Floor("R3", "local BeginTx users", nlocal, 2)

	// ---- R4 -----------------------------------------------------------------------------------
	n4 := 0
	var checkDeref func(fn *ssa.Function, depth int, label string, guarded bool)
	checkDeref = func(fn *ssa.Function, depth int, label string, guarded bool) {
		if depth > 3 {
			return
		}
		var nonNil []core.Edge
		for _, b := range fn.Blocks {
			for _, in := range b.Instrs {
				if v, ok := in.(ssa.Value); ok {
					if tn, f, ok := core.LoadedField(v); ok && tn == "db/postgres.pgDb" && f == "tx" {
						for _, ce := range core.NilTestEdges(v) {
							if !ce.Val {
								nonNil = append(nonNil, ce.E)
							}
						}
					}
				}
			}
		}
		for _, c := range core.Calls(fn) {
			if c.Common().IsInvoke() && isTxField(c.Common().Value) {
				n4++
				ok, path := core.MustPass(c.(ssa.Instruction), core.NewCut().AddEdge(nonNil...))
				if guarded {
					ok = true // the caller tested the handle before calling this helper
				}
				// stopSingle-like helpers reached from operations that just opened are exempt: only when multi
				// guard or opener precedes - here we only scan non-opening entry points
				r.Check(ok, "R4", fmt.Sprintf("%s: %s on the stored handle (via %s)", core.QName(fn), c.Common().Method.Name(), label), c.Pos(), "behind tx != nil",
					"the stored handle is dereferenced without a nil test in a method that can be called with no transaction open (nil pointer panic): "+w.PathString(path))
			}
			if g := core.StaticCallee(c); g != nil && core.PkgOf(g) == "db/postgres" && g != fn && !openers[g] {
				here := false
				if len(nonNil) > 0 {
					here, _ = core.MustPass(c.(ssa.Instruction), core.NewCut().AddEdge(nonNil...))
				}
				checkDeref(g, depth+1, label, guarded || here)
			}
		}
	}
	for _, fn := range fns {
		if fn.Signature.Recv() == nil || !token.IsExported(fn.Name()) || len(callsToSet(fn, openers)) > 0 || openers[fn] {
			continue
		}
		switch fn.Name() {
		case "Abort", "Stop", "Close":
			checkDeref(fn, 0, fn.Name(), false)
		}
	}
	r.Floor("R4", "handle dereferences in Abort/Stop/Close", n4, 2)

	// ---- R5 (b) -------------------------------------------------------------------------------
	// the committing closer used by the single operations (Put, Get) commits only on the
	// multi==false edge - tested inside the closer or at its call site. The explicit closer
	// (Stop) is not called by single operations and commits on the multi==true side by design.
	multiFalseEdges := func(fn *ssa.Function) []core.Edge {
		var out []core.Edge
		for _, b := range fn.Blocks {
			for _, in := range b.Instrs {
				if v, ok := in.(ssa.Value); ok {
					if _, f, ok := core.LoadedField(v); ok && f == "multi" {
						out = append(out, core.EdgesWhere(v, false)...)
					}
				}
			}
		}
		return out
	}
	n5 := 0
	seen5 := map[string]bool{}
	for op := range implicitOps {
		var visit func(fn *ssa.Function, depth int)
		visit = func(fn *ssa.Function, depth int) {
			for _, c := range core.Calls(fn) {
				g := core.StaticCallee(c)
				if g == nil {
					continue
				}
				if closers[g] != "commit" {
					if g.Parent() == fn && depth < 2 {
						visit(g, depth+1) // deferred closure
					}
					continue
				}
				outer, _ := core.MustPass(c.(ssa.Instruction), core.NewCut().AddEdge(multiFalseEdges(fn)...))
				if len(multiFalseEdges(fn)) == 0 {
					outer = false
				}
				inner := multiFalseEdges(g)
				commitSites := core.CallsTo(g, pgTxIface+".Commit")
				for _, hc := range core.Calls(g) {
					if h := core.StaticCallee(hc); h != nil && h != g && closers[h] == "commit" {
						commitSites = append(commitSites, hc)
					}
				}
				for _, cc := range commitSites {
					key := core.QName(g) + ": single-operation commit only outside explicit mode"
					if seen5[key+w.Pos(cc.Pos())] && !outer {
						continue
					}
					seen5[key+w.Pos(cc.Pos())] = true
					n5++
					ok, path := false, []*ssa.BasicBlock(nil)
					if len(inner) > 0 {
						ok, path = core.MustPass(cc.(ssa.Instruction), core.NewCut().AddEdge(inner...))
					}
					r.Check(ok || outer, "R5", key, cc.Pos(), "behind multi==false",
						"a single operation commits the explicit transaction: writes become visible before Stop and survive an Abort: "+w.PathString(path))
				}
			}
		}
		visit(op, 0)
	}
	r.Floor("R5", "commits of the single-operation closer", n5, 1)
	// ---- R7 / R8 ------------------------------------------------------------------------------
	checkNoReopenAfterRollback(w, r, "R7", fns, openers, closers)
	checkTxMethodsDeclaredTogether(w, r, "R8")
	checkHandleClearedAfterCloser(w, r, "R9")
	checkStopAcknowledgesOnlyCommits(w, r, "R10")
	checkModeFlagNotChangedByOperations(w, r, "R11")
}

// isNamedResult: fn declares a named result with this name (only then does an assignment made in a
// deferred closure, or after the return expression was evaluated, reach the caller).
func isNamedResult(fn *ssa.Function, name string) bool {
	if fn == nil || name == "" {
		return false
	}
	res := fn.Signature.Results()
	for i := 0; i < res.Len(); i++ {
		if res.At(i).Name() == name {
			return true
		}
	}
	return false
}

// returnsError: the last result of fn is an error.
func returnsError(fn *ssa.Function) bool {
	res := fn.Signature.Results()
	return res.Len() > 0 && res.At(res.Len()-1).Type().String() == "error"
}
