package rules

import (
	"fmt"
	"go/token"
	"go/types"
	"strings"

	"golang.org/x/tools/go/ssa"

	"vischeck/internal/core"
)

func init() {
	register("C15", PropCheck{
		Title:      "Malformed bytecode is rejected with an error, never a crash or a silent accept",
		Explain:    "Decided for all byte strings at once: (R1) every index, slice and length-preconditioned library call on a byte slice / string / byte array in package vm (decoder primitives, Parse* wrappers, opcode handlers, disassembler, input validation) is proved in bounds by a difference-constraint closure over dominating length guards; (R2) no slice bound is computed by arithmetic that can wrap in a narrow integer type; (R3) for every call of a decoder (a vm function taking bytecode and returning an error) made in package vm, the error value flows into the error result of the caller and every other result of that call is used (as call argument or in a store) only behind the error==nil edge; (R4) every switch over vm.Opcode has an erroring default; (R5) opSplit rejects values above the largest opcode with a handler; (R6) the integer decoder rejects a length byte above 4; (R7) State flag accessors that panic out of range are called with a bytecode-supplied index only behind a range test against FlagBitSize; (R8) every path through a Parse* function to a nil-error return decodes the same sequence of arguments (no success path that skips a primitive decoder); (R9) no operand decoded from bytecode is narrowed without a range check anywhere in package vm (the conversion's operand is proved within the target type's range by a dominating test, as for the LOAD size limit), so an out-of-range operand is rejected instead of being accepted with its low-order bits; (R10) ParseHandler.ParseAll reports success only behind an edge on which the remaining bytecode is known to be empty (len == 0 exactly; added after seeded change C15-G, a loop that stopped at fewer than two bytes); (R11) a call in package vm through a function value loaded from an array, slice or map element is dominated by a non-nil test of that value (added after C15-H, a dispatch table with no entry for opcode 0). (R12) = the C08 R7 invariant: State.BitSize and the flag bytes are set together by the constructor only, so the accessors' range check `bit < BitSize` implies the byte index is in range (added after seeded change C15-J). (R13) no function reachable from the Parse* functions and ParseAll stores to a package-level variable of the library or updates a map or element reached through one: decoding is a pure function of the bytes (added after seeded change C15-N, an unlocked interning table in the symbol decoder).",
		NotDecided: "panics inside callbacks supplied by the caller of ParseHandler; implicit panics outside package vm (C08 covers named renderer sites); execution effects of well-formed but meaningless programs; that error texts are helpful.",
		Assume:     []string{"slices and strings are shorter than MaxInt-2^16 bytes, so len(x)+small constant does not overflow int", "encoding/binary.BigEndian.UintN/PutUintN panic exactly when the slice is shorter than N/8 bytes"},
		Run:        runC15,
	})
}

func intBits(w *core.World) int {
	if w.Config.GOARCH == "386" || w.Config.GOARCH == "arm" {
		return 32
	}
	return 64
}

// isDecoder: a function of package vm with a []byte parameter, a []byte result and an error result.
func isDecoder(f *ssa.Function) bool {
	if f == nil || core.PkgOf(f) != "vm" {
		return false
	}
	sig := f.Signature
	hasB, hasErr, resB := false, false, false
	for i := 0; i < sig.Params().Len(); i++ {
		if core.ByteLike(sig.Params().At(i).Type()) {
			if _, ok := sig.Params().At(i).Type().Underlying().(*types.Slice); ok {
				hasB = true
			}
		}
	}
	for i := 0; i < sig.Results().Len(); i++ {
		t := sig.Results().At(i).Type()
		if t.String() == "error" {
			hasErr = true
		}
		if _, ok := t.Underlying().(*types.Slice); ok && core.ByteLike(t) {
			resB = true
		}
	}
	// methods of Vm / ParseHandler are drivers, not decoders
	if sig.Recv() != nil {
		return false
	}
	return hasB && hasErr && resB
}

func runC15(w *core.World, r *core.Report) {
	r.Rule("R1", "every byte-container index/slice/precondition call in package vm is proved in bounds from dominating guards")
	r.Rule("R2", "no slice/index bound derives from arithmetic that may wrap in a narrow integer type")
	r.Rule("R3", "decoder errors flow to the caller's error result; other results are used only behind err==nil")
	r.Rule("R4", "every switch over vm.Opcode has an erroring default")
	r.Rule("R5", "opSplit rejects opcodes above the largest one that has a handler")
	r.Rule("R6", "the integer decoder rejects a length byte above 4")
	r.Rule("R7", "bytecode-supplied flag indices are range-checked before State.GetFlag/MatchFlag/SetFlag/ResetFlag")
	r.Rule("R8", "all nil-error paths of a Parse* function decode the same argument sequence")
	r.Rule("R13", "the decoders write no package-level state (decoding is a pure function of the bytes; no crash by concurrent decoding)")
	r.Rule("R12", "the flag accessors' range check is sound: State.BitSize and the flag bytes are set together by the constructor only (C08 R7 invariant)")
	r.Rule("R11", "a call in package vm through a function value loaded from a table is behind a non-nil test of that value")
	r.Rule("R10", "ParseAll reports success only behind len(remaining) == 0")
	r.Rule("R9", "no lossy integer narrowing of decoded operands in package vm (operand proved in range at the conversion)")

	bits := intBits(w)
	// ---- R1 / R2 -----------------------------------------------------------------------------
	nsites := 0
	for _, fn := range w.FuncsIn("vm") {
		if len(fn.Blocks) == 0 {
			continue
		}
		bd := core.NewBounds(fn, bits)
		sites := bd.Sites(core.ByteLike)
		if len(sites) == 0 {
			continue
		}
		r.Touch(core.QName(fn))
		for _, s := range sites {
			nsites++
			key := fmt.Sprintf("%s: %s %s", core.QName(fn), s.Kind, describeSite(s))
			if s.OK {
				r.OK("R1", key, s.Instr.Pos(), "in bounds on every path")
				continue
			}
			rule := "R1"
			if strings.Contains(s.Missing, "may wrap") {
				rule = "R2"
			}
			r.Bad(rule, key, s.Instr.Pos(), s.Missing+": a byte string can make this access fault or read past the end")
		}
	}
	r.Floor("R1", "bounds sites in package vm", nsites, 12)

	// ---- R3 ----------------------------------------------------------------------------------
	nerr := 0
	for _, fn := range w.FuncsIn("vm") {
		for _, c := range core.Calls(fn) {
			callee := core.StaticCallee(c)
			if !isDecoder(callee) {
				continue
			}
			call, ok := c.(*ssa.Call)
			if !ok {
				continue
			}
			nerr++
			r.CallSites++
			r.Touch(core.QName(fn))
			key := fmt.Sprintf("%s: %s error", core.QName(fn), core.FuncName(callee))
			nres := callee.Signature.Results().Len()
			errIdx := -1
			for i := 0; i < nres; i++ {
				if callee.Signature.Results().At(i).Type().String() == "error" {
					errIdx = i
				}
			}
			// tail call: `return parseX(b)` returns the tuple itself
			if tailReturned(call) {
				r.OK("R3", key, call.Pos(), "result tuple returned as is")
				continue
			}
			ev := core.ResultOf(call, errIdx)
			if ev == nil {
				r.Bad("R3", key, call.Pos(), "the decoder's error result is discarded: truncated or corrupt bytecode is accepted silently")
				continue
			}
			flow := core.Forward(ev, nil)
			toRet := false
			for v := range flow {
				if refs := v.Referrers(); refs != nil {
					for _, u := range *refs {
						if ret, ok := u.(*ssa.Return); ok {
							last := ret.Results[len(ret.Results)-1]
							if last == v {
								toRet = true
							}
						}
					}
				}
			}
			if !toRet {
				r.Bad("R3", key, call.Pos(), "the decoder's error never reaches the caller's error result (dead, shadowed or overwritten error value): truncated or corrupt bytecode is accepted silently")
				continue
			}
			// other results only used behind err == nil
			cut := errNilCut(call, ev, flow)
			bad := ""
			for i := 0; i < nres; i++ {
				if i == errIdx {
					continue
				}
				rv := core.ResultOf(call, i)
				if rv == nil {
					continue
				}
				for v := range core.Forward(rv, nil) {
					refs := v.Referrers()
					if refs == nil {
						continue
					}
					for _, u := range *refs {
						use := ""
						switch t := u.(type) {
						case ssa.CallInstruction:
							if isLoggingCall(t) || core.IsCallTo(t, "builtin.len", "builtin.append", "builtin.copy") {
								continue
							}
							use = "argument of " + core.CallName(t)
						case *ssa.Store:
							// only stores into object state (fields, globals) count; writing a result into
							// a local variable, array or result slice before the error test is harmless
							if _, isField := t.Addr.(*ssa.FieldAddr); !isField {
								if _, isGlobal := t.Addr.(*ssa.Global); !isGlobal {
									continue
								}
							}
							use = "stored"
						default:
							continue
						}
						if in, _ := core.Reach(core.After(call), core.IsInstr(u), cut); in != nil {
							bad = fmt.Sprintf("result %d is used (%s at %s) on a path where the decode error was not excluded", i, use, w.Pos(u.Pos()))
						}
					}
				}
			}
			r.Check(bad == "", "R3", key, call.Pos(), "error reaches the caller; results used only behind err==nil", bad)
		}
	}
	r.Floor("R3", "decoder call sites", nerr, 22)

	// ---- R4 ----------------------------------------------------------------------------------
	nsw := 0
	for _, fn := range w.FuncsIn("vm") {
		sw := opcodeSwitch(fn)
		if len(sw) < 3 {
			continue
		}
		nsw++
		r.Touch(core.QName(fn))
		// the last compare's false edge is the default; it must not reach the merge point without
		// producing an error: look for a fmt.Errorf / errors.New call (or a return) in the default region
		last := sw[len(sw)-1]
		var def *ssa.BasicBlock
		for _, e := range core.EdgesWhere(last, false) {
			def = e.To()
		}
		ok := false
		if def != nil {
			// walk the default region until the switch merge (a block with >2 preds) or a return
			seen := map[*ssa.BasicBlock]bool{}
			var walk func(b *ssa.BasicBlock, depth int)
			walk = func(b *ssa.BasicBlock, depth int) {
				if seen[b] || depth > 6 {
					return
				}
				seen[b] = true
				for _, in := range b.Instrs {
					if c, isC := in.(ssa.CallInstruction); isC && core.IsCallTo(c, "fmt.Errorf", "errors.New") {
						ok = true
					}
				}
				if len(b.Preds) > 2 {
					return
				}
				for _, s := range b.Succs {
					walk(s, depth+1)
				}
			}
			if len(def.Preds) <= 2 {
				walk(def, 0)
			}
		}
		r.Check(ok, "R4", core.QName(fn)+": switch over Opcode", last.Pos(), "default produces an error", "an opcode without a case is accepted silently (no erroring default)")
	}
	r.Floor("R4", "Opcode switches", nsw, 2)

	// ---- R5 ----------------------------------------------------------------------------------
	hs, _, _ := opcodeHandlers(w, r)
	var maxHandled int64 = -1
	for op := range hs {
		if op > maxHandled {
			maxHandled = op
		}
	}
	osd := primitiveDecoder(w, "O")
	if osd == nil {
		r.Undecided("R5", "opcode decoder", token.NoPos, "no primitive decoder returns a vm.Opcode")
	}
	if os := osd; os != nil && maxHandled >= 0 {
		// find a comparison of the decoded opcode with a constant whose true edge returns an error
		limit := int64(-1)
		for _, b := range os.Blocks {
			for _, in := range b.Instrs {
				bo, ok := in.(*ssa.BinOp)
				if !ok {
					continue
				}
				bx, bop, c, isC := core.CmpConst(bo)
				if !isC {
					continue
				}
				src, _, isCall := core.ExtractOf(core.Strip(bx))
				if !isCall || !strings.Contains(core.CallName(src), "Uint16") {
					continue
				}
				switch bop {
				case token.GTR:
					limit = c
				case token.GEQ:
					limit = c - 1
				}
			}
		}
		if limit < 0 {
			r.Bad("R5", "opcode decoder: opcode range test", os.Pos(), "the opcode decoder does not compare the decoded opcode with an upper limit")
		} else {
			r.Check(limit <= maxHandled, "R5", "opcode decoder: opcode range test", os.Pos(),
				fmt.Sprintf("accepts opcodes <= %d; largest handled opcode is %d", limit, maxHandled),
				fmt.Sprintf("accepts opcodes up to %d but the largest opcode with a handler is %d", limit, maxHandled))
		}
	}

	// ---- R6 ----------------------------------------------------------------------------------
	isd := primitiveDecoder(w, "I")
	if isd == nil {
		r.Undecided("R6", "integer decoder", token.NoPos, "no primitive decoder returns an integer")
	}
	if is := isd; is != nil {
		// the Uint32 precondition and the copy into a 4-byte buffer are part of R1; here: on every
		// nil-error return path the length byte is proven <= 4
		bd := core.NewBounds(is, bits)
		okAll, n := true, 0
		var lenByte ssa.Value
		for _, b := range is.Blocks {
			for _, in := range b.Instrs {
				if u, ok := in.(*ssa.UnOp); ok && u.Op == token.MUL {
					if ia, ok := u.X.(*ssa.IndexAddr); ok {
						if c, ok := core.ConstInt(ia.Index); ok && c == 0 && lenByte == nil {
							if _, isParam := ia.X.(*ssa.Parameter); isParam {
								lenByte = u
							}
						}
					}
				}
			}
		}
		if lenByte == nil {
			r.Undecided("R6", "integer decoder: length byte", is.Pos(), "cannot identify the length byte (b[0] of the parameter)")
		} else {
			for _, b := range is.Blocks {
				ret, ok := b.Instrs[len(b.Instrs)-1].(*ssa.Return)
				if !ok {
					continue
				}
				if !core.IsNilConst(ret.Results[len(ret.Results)-1]) {
					continue
				}
				n++
				if !bd.ProveLEConst(b, lenByte, 4) {
					okAll = false
				}
			}
			r.Check(okAll && n > 0, "R6", "integer decoder: length byte <= 4 on success", is.Pos(), "every nil-error return is behind a guard length <= 4", "an integer argument with a length byte above 4 is accepted (decoded as a wrong value)")
		}
	}

	// ---- R7 ----------------------------------------------------------------------------------
	nsig := 0
	for _, h := range hs {
		for _, c := range core.CallsTo(h, stMatchFlag, stGetFlag, stSetFlag, stResetFlag) {
			args := core.CallArgs(c)
			if len(args) < 2 {
				continue
			}
			a := core.Strip(args[1])
			if _, isConst := core.ConstInt(a); isConst {
				continue
			}
			src, _, ok := core.ExtractOf(a)
			if !ok || !isDecoder(core.StaticCallee(src)) {
				continue
			}
			nsig++
			// a dominating comparison of the same value against State.FlagBitSize() / BitSize, in the
			// handler itself or in a helper of package vm that is given the value and returns an error
			cut := core.NewCut()
			guarded := rangeGuardEdges(h, a, cut)
			for _, hc := range core.Calls(h) {
				g := core.StaticCallee(hc)
				if g == nil || core.PkgOf(g) != "vm" || g == h || len(g.Blocks) == 0 {
					continue
				}
				for i, arg := range core.CallArgs(hc) {
					if core.Strip(arg) != a || i >= len(g.Params) {
						continue
					}
					gcut := core.NewCut()
					if !rangeGuardEdges(g, g.Params[i], gcut) {
						continue
					}
					// every success return of the helper lies behind its in-range edge
					if in, _ := core.Reach(core.Entry(g), isSuccessReturnPred(g), gcut); in != nil {
						continue
					}
					if ev := callErr(hc); ev != nil {
						for _, ce := range core.NilTestEdges(ev) {
							if ce.Val {
								cut.AddEdge(ce.E)
								guarded = true
							}
						}
					}
				}
			}
			ok2 := false
			if guarded {
				ok2, _ = core.MustPass(c.(ssa.Instruction), cut)
			}
			r.Check(ok2, "R7", fmt.Sprintf("%s: %s(decoded signal)", core.QName(h), strings.TrimPrefix(core.CallName(c), "state.(*State).")), c.Pos(),
				"behind a range test against the flag count", "a signal number taken from bytecode reaches a State flag accessor that panics out of range, with no range test")
		}
	}
	// the accessor may sit in a helper of package vm that a handler hands the decoded signal to
	// (a shared signal test of CATCH and CROAK): there the parameter must pass the helper's own
	// range guard before it reaches the accessor
	for _, h := range hs {
		for _, hc := range core.Calls(h) {
			g := core.StaticCallee(hc)
			if g == nil || core.PkgOf(g) != "vm" || g == h || len(g.Blocks) == 0 {
				continue
			}
			for i, arg := range core.CallArgs(hc) {
				src, _, ok := core.ExtractOf(core.Strip(arg))
				if !ok || !isDecoder(core.StaticCallee(src)) || i >= len(g.Params) {
					continue
				}
				p := g.Params[i]
				for _, c := range core.CallsTo(g, stMatchFlag, stGetFlag, stSetFlag, stResetFlag) {
					args := core.CallArgs(c)
					if len(args) < 2 || core.Strip(args[1]) != ssa.Value(p) {
						continue
					}
					nsig++
					gcut := core.NewCut()
					ok2 := false
					if rangeGuardEdges(g, p, gcut) {
						ok2, _ = core.MustPass(c.(ssa.Instruction), gcut)
					}
					r.Check(ok2, "R7", fmt.Sprintf("%s: %s(decoded signal handed in by %s)", core.QName(g), strings.TrimPrefix(core.CallName(c), "state.(*State)."), core.QName(h)), c.Pos(),
						"behind a range test against the flag count", "a signal number taken from bytecode reaches a State flag accessor that panics out of range, with no range test")
				}
			}
		}
	}
	r.Floor("R7", "bytecode-supplied signal uses", nsig, 2)

	// ---- R8 ----------------------------------------------------------------------------------
	np := 0
	for _, fn := range w.FuncsIn("vm") {
		if !isDecoder(fn) || !strings.HasPrefix(fn.Name(), "Parse") || !token.IsExported(fn.Name()) {
			continue
		}
		np++
		sigs := successSignatures(fn, 0)
		keys := sortedKeys(sigs)
		r.Touch(core.QName(fn))
		if len(keys) == 1 && keys[0] != "?" {
			r.OK("R8", core.QName(fn)+": argument sequence", fn.Pos(), "every success path decodes ["+keys[0]+"]")
		} else if len(keys) == 0 {
			r.Bad("R8", core.QName(fn)+": argument sequence", fn.Pos(), "no path returns success")
		} else {
			r.Bad("R8", core.QName(fn)+": argument sequence", fn.Pos(), "success paths decode different argument sequences "+fmt.Sprint(keys)+": bytecode that ends in the middle of the instruction can be reported as valid")
		}
	}
	r.Floor("R8", "exported Parse* decoders", np, 12)

	// ---- R9 ----------------------------------------------------------------------------------
	// operands decoded from bytecode are not narrowed without a range check (the instruction line
	// builder NewLine is an encoder: C14 R3)
	var nfns []*ssa.Function
	for _, fn := range w.FuncsIn("vm") {
		if fn.Name() != "NewLine" {
			nfns = append(nfns, fn)
		}
	}
	n9 := checkNarrowing(w, r, "R9", nfns, "an operand decoded from bytecode is silently replaced by its low-order bits: an out-of-range operand is accepted with a different meaning instead of being rejected")
	r.Floor("R9", "narrowing conversions in package vm", n9, 1)
	// ---- R10 / R11 -----------------------------------------------------------------------------
	checkParseAllEndsAtEmpty(w, r, "R10")
	checkTableCallsNilChecked(w, r, "R11")
	checkFlagSizeRelation(w, r, "R12")
	checkDecodersWriteNoGlobals(w, r, "R13")
}

func describeSite(s core.BoundsSite) string {
	return s.Expr
}

func tailReturned(call *ssa.Call) bool {
	refs := call.Referrers()
	if refs == nil {
		return false
	}
	// all extracts feed one return in order
	n := 0
	for _, u := range *refs {
		switch t := u.(type) {
		case *ssa.Extract:
			er := t.Referrers()
			if er == nil {
				return false
			}
			for _, uu := range *er {
				ret, ok := uu.(*ssa.Return)
				if !ok {
					if _, isDbg := uu.(*ssa.DebugRef); isDbg {
						continue
					}
					return false
				}
				if t.Index >= len(ret.Results) || ret.Results[t.Index] != t {
					return false
				}
			}
			n++
		case *ssa.Return:
			n++
		case *ssa.DebugRef:
		default:
			return false
		}
	}
	return n > 0 && n == call.Common().Signature().Results().Len()
}

// opcodeSwitch returns the `x == CONST` comparisons on a vm.Opcode value in fn, in block order.
func opcodeSwitch(fn *ssa.Function) []*ssa.BinOp {
	var out []*ssa.BinOp
	for _, b := range fn.Blocks {
		for _, in := range b.Instrs {
			bo, ok := in.(*ssa.BinOp)
			if !ok || bo.Op != token.EQL {
				continue
			}
			if core.TypeName(bo.X.Type()) != "vm.Opcode" {
				continue
			}
			if _, ok := core.ConstInt(bo.Y); ok {
				out = append(out, bo)
			}
		}
	}
	return out
}

func isFlagSize(v ssa.Value) bool {
	v = core.Strip(v)
	if c, _, ok := core.ExtractOf(v); ok && core.IsCallTo(c, "state.(*State).FlagBitSize") {
		return true
	}
	if t, f, ok := core.LoadedField(v); ok && t == "state.State" && f == "BitSize" {
		return true
	}
	return false
}

// successSignatures enumerates the paths of fn that end in a return with a nil error constant and
// returns the set of argument sequences decoded along them: S = length-prefixed symbol
// (instructionSplit role: decoder returning string), I = length-prefixed integer (decoder returning
// an integer), B = raw byte (index of the byte parameter). vm-package decoders are inlined.
func successSignatures(fn *ssa.Function, depth int) map[string]bool {
	out := map[string]bool{}
	if depth > 4 || len(fn.Blocks) == 0 {
		out["?"] = true
		return out
	}
	type state struct {
		b    *ssa.BasicBlock
		sig  string
		seen map[*ssa.BasicBlock]int
	}
	var rec func(b *ssa.BasicBlock, sig []string, visits map[*ssa.BasicBlock]int, steps int)
	rec = func(b *ssa.BasicBlock, sigs []string, visits map[*ssa.BasicBlock]int, steps int) {
		if steps > 200 || visits[b] > 1 { // each loop is unrolled at most once
			return
		}
		visits[b]++
		defer func() { visits[b]-- }()
		cur := sigs
		for _, in := range b.Instrs {
			switch t := in.(type) {
			case *ssa.Call:
				callee := core.StaticCallee(t)
				if callee != nil && isDecoder(callee) {
					prim := primitiveKind(callee)
					var next []string
					if prim != "" {
						for _, s := range cur {
							next = append(next, s+prim)
						}
					} else {
						sub := successSignatures(callee, depth+1)
						for _, s := range cur {
							for k := range sub {
								next = append(next, s+k)
							}
						}
					}
					cur = dedup(next)
				}
			case *ssa.UnOp:
				// raw byte read: *(&b[const]) on a byte slice that is not a local array
				if t.Op == token.MUL {
					if ia, ok := t.X.(*ssa.IndexAddr); ok {
						if _, isSlice := ia.X.Type().Underlying().(*types.Slice); isSlice && core.ByteLike(ia.X.Type()) && primitiveKind(fn) == "" {
							var next []string
							for _, s := range cur {
								next = append(next, s+"B")
							}
							cur = next
						}
					}
				}
			case *ssa.Return:
				last := t.Results[len(t.Results)-1]
				if last.Type().String() == "error" && core.IsNilConst(last) {
					for _, s := range cur {
						out[s] = true
					}
				} else if c, _, isX := core.ExtractOf(last); isX && isDecoder(core.StaticCallee(c)) && tailReturned(c) {
					// tail call `return parseX(b)`: the callee's success signatures were appended above
					for _, s := range cur {
						out[s] = true
					}
				} else if isFreshError(last) || onErrorPath(t, last) {
					// `return ..., err` behind err != nil: an error path
				} else {
					out["?"] = true
				}
				return
			}
		}
		for _, s := range b.Succs {
			rec(s, cur, visits, steps+1)
		}
	}
	rec(fn.Blocks[0], []string{""}, map[*ssa.BasicBlock]int{}, 0)
	return out
}

func dedup(a []string) []string {
	m := map[string]bool{}
	var out []string
	for _, s := range a {
		if !m[s] {
			m[s] = true
			out = append(out, s)
		}
	}
	return out
}

// primitiveKind classifies a primitive decoder by role: it indexes its own byte parameter and
// returns (string|integer, rest, error).
func primitiveKind(f *ssa.Function) string {
	if !isDecoder(f) {
		return ""
	}
	// must not call other decoders
	for _, c := range core.Calls(f) {
		if isDecoder(core.StaticCallee(c)) {
			return ""
		}
	}
	sig := f.Signature
	if sig.Results().Len() != 3 {
		return ""
	}
	// reads its parameter
	reads := false
	for _, b := range f.Blocks {
		for _, in := range b.Instrs {
			if ia, ok := in.(*ssa.IndexAddr); ok {
				if _, isP := ia.X.(*ssa.Parameter); isP {
					reads = true
				}
			}
			if sl, ok := in.(*ssa.Slice); ok {
				if _, isP := sl.X.(*ssa.Parameter); isP {
					reads = true
				}
			}
		}
	}
	if !reads {
		return ""
	}
	switch t := sig.Results().At(0).Type().Underlying().(type) {
	case *types.Basic:
		if t.Info()&types.IsString != 0 {
			return "S"
		}
		if t.Info()&types.IsInteger != 0 {
			if core.TypeName(sig.Results().At(0).Type()) == "vm.Opcode" {
				return "O"
			}
			return "I"
		}
	}
	return ""
}

// onErrorPath: the return is only reached through an edge on which the returned error is non-nil.
func onErrorPath(ret *ssa.Return, errv ssa.Value) bool {
	cut := core.NewCut()
	n := 0
	for _, ce := range core.NilTestEdges(errv) {
		if !ce.Val {
			cut.AddEdge(ce.E)
			n++
		}
	}
	if n == 0 {
		return false
	}
	ok, _ := core.MustPass(ret, cut)
	return ok
}

// errNilCut returns the edges on which the error ev of decoder call `call` is known to be nil:
// direct nil tests of ev, and nil tests of values that carry ev - copies, and phis all of whose
// incoming edges either carry ev or come from blocks that cannot be reached from the call without
// passing an ev==nil edge (so that phi==nil implies ev==nil on every path from the call).
func errNilCut(call *ssa.Call, ev ssa.Value, flow map[ssa.Value]bool) *core.Cut {
	cut := core.NewCut()
	for _, ce := range core.NilTestEdges(ev) {
		if ce.Val {
			cut.AddEdge(ce.E)
		}
	}
	direct := core.NewCut()
	for e := range cut.Edges {
		direct.AddEdge(e)
	}
	carries := map[ssa.Value]bool{ev: true}
	for round := 0; round < 4; round++ {
		for v := range flow {
			if carries[v] {
				continue
			}
			switch t := v.(type) {
			case *ssa.Phi:
				all := true
				for i, e := range t.Edges {
					if carries[e] {
						continue
					}
					pred := t.Block().Preds[i]
					term := pred.Instrs[len(pred.Instrs)-1]
					c2 := core.NewCut()
					for e := range direct.Edges {
						c2.AddEdge(e)
					}
					c2.AddInstr(t.Block().Instrs[0])
					if in, _ := core.Reach(core.After(call), core.IsInstr(term), c2); in != nil {
						all = false
					}
				}
				if all {
					carries[v] = true
				}
			case *ssa.ChangeInterface, *ssa.MakeInterface, *ssa.ChangeType:
				carries[v] = true
			case *ssa.UnOp:
				// load of a local the error was stored to: only when every store to it carries ev
				if a, ok := t.X.(*ssa.Alloc); ok && t.Op == token.MUL {
					all := true
					if refs := a.Referrers(); refs != nil {
						for _, r := range *refs {
							if st, ok := r.(*ssa.Store); ok && st.Addr == a && !carries[st.Val] {
								all = false
							}
						}
					}
					if all {
						carries[v] = true
					}
				}
			}
		}
	}
	for v := range carries {
		if v == ev {
			continue
		}
		for _, ce := range core.NilTestEdges(v) {
			if ce.Val {
				cut.AddEdge(ce.E)
			}
		}
	}
	return cut
}

// isFreshError: the value is a newly constructed (hence non-nil) error.
func isFreshError(v ssa.Value) bool {
	if g := core.GlobalOf(v); g != nil {
		// a package-level sentinel error (ErrDup, IndexError, ...) is never nil
		return true
	}
	switch t := v.(type) {
	case *ssa.Call:
		return core.IsCallTo(t, "fmt.Errorf", "errors.New")
	case *ssa.MakeInterface:
		// a concrete error value boxed into the interface (struct or pointer from an allocation)
		switch x := t.X.(type) {
		case *ssa.Alloc, *ssa.MakeInterface:
			return true
		case *ssa.UnOp:
			_, isAlloc := x.X.(*ssa.Alloc)
			return isAlloc
		case *ssa.Call:
			return true
		}
		if _, isStruct := t.X.Type().Underlying().(*types.Struct); isStruct {
			return true
		}
	}
	return false
}

// rangeGuardEdges adds to cut the edges of fn on which value a is known to be below the flag count
// (a comparison of a itself - not of an expression that may wrap, like a+1 - with FlagBitSize()).
func rangeGuardEdges(fn *ssa.Function, a ssa.Value, cut *core.Cut) bool {
	found := false
	for _, b := range fn.Blocks {
		for _, in := range b.Instrs {
			bo, ok := in.(*ssa.BinOp)
			if !ok {
				continue
			}
			var other ssa.Value
			if core.Strip(bo.X) == a {
				other = bo.Y
			} else if core.Strip(bo.Y) == a {
				other = bo.X
			} else {
				continue
			}
			if !isFlagSize(other) {
				continue
			}
			inRangeWhenTrue := (bo.Op == token.LSS && core.Strip(bo.X) == a) || (bo.Op == token.GTR && core.Strip(bo.Y) == a)
			outRangeWhenTrue := (bo.Op == token.GEQ && core.Strip(bo.X) == a) || (bo.Op == token.LEQ && core.Strip(bo.Y) == a)
			if inRangeWhenTrue {
				cut.AddEdge(core.EdgesWhere(bo, true)...)
				found = true
			} else if outRangeWhenTrue {
				cut.AddEdge(core.EdgesWhere(bo, false)...)
				found = true
			}
		}
	}
	return found
}
