// Package rules holds the per-property rule sets.
package rules

import (
	"vischeck/internal/core"
)

// PropCheck is the rule set of one property.
type PropCheck struct {
	Title      string
	Explain    string   // clauses decided (goes into evidence.coverage.explanation)
	NotDecided string   // what the check does not cover
	Assume     []string // assumptions / trusted base specific to the property
	Run        func(w *core.World, r *core.Report)
}

// Registry maps property ids to their checks.
var Registry = map[string]PropCheck{}

func register(id string, pc PropCheck) { Registry[id] = pc }

// SelfTest runs the seeded-variant self validation for a property (thorough tier).
var SelfTest = func(prop, repo, vdir string, out *core.Outcome) {}
