package rules

import (
	"fmt"
	"go/token"
	"strings"

	"golang.org/x/tools/go/ssa"

	"vischeck/internal/core"
)

func init() {
	register("C05", PropCheck{
		Title:      "Loaded symbols live exactly as long as their stack level",
		Explain:    "Structural clauses: (R1) in the LOAD handler the external-code invoker is only reached on the error edge of Memory.Get(decoded symbol) - at most one call while the symbol is visible; (R2) Add receives the decoded symbol, the invoker's result and the decoded size; Update in the RELOAD handler receives the decoded symbol and the invoker's result; (R3) in the library every State.Down is accompanied by Memory.Push and every State.Up by Memory.Pop on every path (same function), and no other frame-count change (Memory.Reset) happens in vm/engine; (R4) every opcode handler that moves calls Vm.Reset (drops MAPs and menu) on every success path after the move; (R5) the RELOAD handler runs invoker -> Update -> Page.Map on the same symbol on every success path; (R6) the capacity oracle's ambiguous 0 result is interpreted as failure only where len(value) > 0 is known; (R3, addition) in the engine's reset State.Restart comes only after the level-by-level unwind (shared with C08 R2 / C20 R2); (R8) Page.Map stores the cache's current value for the symbol on every success path, so RELOAD's re-map refreshes what the page shows (added after seeded change C05-E, an early return for an already mapped symbol). (R9) a cache level begins empty: every store to Cache.Cache is an append of a freshly made map, a re-slice whose upper bound is a constant <= 1 or the field's own length minus a constant, or the constructor's literal (added after seeded change C05-I). R5 also requires that every success return of the RELOAD handler passes the external-code invoker (no condition may skip the reload; added after seeded change C05-L). The LOAD rules follow the handler into a second stage that only it calls, with operands traced through the stage's parameters. (R10) a refused value is not shown either: no argument of an error or formatting call in Cache.Add/Update derives from the value parameter itself (its length is fine) - the VM renders error texts in front of the catch node (added after seeded change C05-N).",
		NotDecided: "that values are gone after ascent for every history (follows from R3 with C09 R6 for the frame release); the limit comparisons themselves (C09 R1-R3); what the external function returns.",
		Run:        runC05,
	})
}

const (
	memGet    = "cache.Memory.Get"
	memAdd    = "cache.Memory.Add"
	memUpdate = "cache.Memory.Update"
	memReset  = "cache.Memory.Reset"
	vmReset   = "vm.(*Vm).Reset"
)

func runC05(w *core.World, r *core.Report) {
	r.Rule("R1", "LOAD: the invoker is reached only on the error edge of Memory.Get(decoded symbol)")
	r.Rule("R2", "operands: Add(sym, invoker result, decoded size); Update(sym, invoker result)")
	r.Rule("R3", "Down/Push and Up/Pop are paired on every path; no unpaired frame-count change in vm/engine")
	r.Rule("R4", "every moving handler calls Vm.Reset on every success path after the move")
	r.Rule("R5", "RELOAD: invoker -> Update -> Page.Map on the same symbol")
	r.Rule("R6", "capacity oracle result 0 means failure only under len(value) > 0")
	r.Rule("R10", "a result larger than its limit is never shown: no error built by Add/Update carries the value (error texts are rendered in front of the catch node)")
	r.Rule("R9", "a cache level begins empty: the level list grows only by appending a freshly made map, every other store is a non-growing re-slice")
	r.Rule("R8", "Page.Map stores the cache's current value for the symbol on every success path (RELOAD's re-map refreshes the page)")
	r.Rule("R7", "a result larger than its limit is never stored: C09 R1/R2 (no truncated length in a comparison; limit and capacity tests on every success path of Add/Update)")

	inv := externalInvokers(w)
	if len(inv) == 0 {
		r.Undecided("R1", "external-code invoker", token.NoPos, "no function in package vm calls a resource.EntryFunc")
	}
	// ---- R1 / R2 (LOAD) -----------------------------------------------------------------------
	if h := handlerByName(w, r, "LOAD"); h != nil {
		ic := callsToSet(h, inv)
		// the handler may be split in a decoding stage and an executing stage: look at the stage that
		// calls the external code, when it is a method only the handler calls
		if len(ic) == 0 {
			for _, c := range core.Calls(h) {
				g := core.StaticCallee(c)
				if g == nil || core.PkgOf(g) != "vm" || len(g.Blocks) == 0 || len(callsToSet(g, inv)) == 0 {
					continue
				}
				sites, escapes := staticCallSites(w, g)
				if escapes || len(sites) != 1 {
					continue
				}
				h = g
				ic = callsToSet(h, inv)
			}
		}
		gets := core.CallsTo(h, memGet, "cache.(*Cache).Get")
		if len(ic) == 0 {
			r.Bad("R1", "LOAD handler: invoker call", h.Pos(), "the LOAD handler does not call the external-code invoker")
		}
		for _, c := range ic {
			cut := core.NewCut()
			okKey := false
			for _, g := range gets {
				a := core.CallArgs(g)
				if len(a) >= 2 && fromResultVia(w, h, a[1], 0, "vm.ParseLoad") {
					okKey = true
					cut.AddEdge(errNonNilEdges(callErr(g))...)
				}
			}
			in, path := core.Reach(core.Entry(h), core.IsInstr(c.(ssa.Instruction)), cut)
			r.Check(okKey && in == nil, "R1", "LOAD handler "+core.QName(h)+": load once", c.Pos(), "invoker only behind Get(sym) failing",
				"the external function can be called although the symbol is already loaded (no dominating Memory.Get miss on the decoded symbol): "+w.PathString(path))
		}
		for _, a := range core.CallsTo(h, memAdd, "cache.(*Cache).Add") {
			args := core.CallArgs(a)
			if len(args) != 4 {
				continue
			}
			okSym := fromResultVia(w, h, args[1], 0, "vm.ParseLoad")
			okVal := false
			for _, s := range core.Sources(args[2]) {
				if c, i, ok := core.ExtractOf(s); ok && i == 0 && inv[core.StaticCallee(c)] {
					okVal = true
				}
			}
			okLim := fromResultVia(w, h, args[3], 1, "vm.ParseLoad")
			r.Check(okSym && okVal && okLim, "R2", "LOAD handler "+core.QName(h)+": Add operands", a.Pos(), "Add(decoded sym, invoker result, decoded size)",
				fmt.Sprintf("Add operands are not (decoded symbol, invoker result, decoded size): sym=%v value=%v limit=%v", okSym, okVal, okLim))
		}
	} else {
		r.Undecided("R1", "LOAD handler", token.NoPos, "no handler for LOAD")
	}
	// ---- R5 / R2 (RELOAD) ---------------------------------------------------------------------
	if h := handlerByName(w, r, "RELOAD"); h != nil {
		ic := callsToSet(h, inv)
		ups := core.CallsTo(h, memUpdate, "cache.(*Cache).Update")
		maps := core.CallsTo(h, "render.(*Page).Map")
		if len(ic) == 0 || len(ups) == 0 || len(maps) == 0 {
			r.Bad("R5", "RELOAD handler "+core.QName(h)+": sequence", h.Pos(), fmt.Sprintf("invoker calls=%d Update calls=%d Page.Map calls=%d (each must be present)", len(ic), len(ups), len(maps)))
		} else {
			isSucc := isSuccessReturnPred(h)
			{
				// the external code is asked again on every RELOAD that succeeds
				cut := core.NewCut()
				for _, c := range ic {
					cut.AddInstr(c.(ssa.Instruction))
				}
				in, path := core.Reach(core.Entry(h), isSucc, cut)
				r.Check(in == nil, "R5", "RELOAD handler "+core.QName(h)+": every successful RELOAD calls the external code", h.Pos(), "every success return passes the invoker",
					"a RELOAD can report success without asking the external code again (skipped on some condition): the cache and the page keep the stale value: "+w.PathString(path))
			}
			for _, c := range ic {
				for _, step := range []struct {
					name  string
					calls []ssa.CallInstruction
				}{{"Update", ups}, {"Page.Map", maps}} {
					cut := core.NewCut().AddEdge(errNonNilEdges(callErr(c))...)
					for _, u := range step.calls {
						cut.AddInstr(u.(ssa.Instruction))
					}
					in, path := core.Reach(core.After(c.(ssa.Instruction)), isSucc, cut)
					// Page.Map is legitimately skipped when the page is nil
					if step.name == "Page.Map" && in != nil {
						cut2 := core.NewCut()
						for e := range cut.Edges {
							cut2.AddEdge(e)
						}
						for i := range cut.Instrs {
							cut2.AddInstr(i)
						}
						for _, b := range h.Blocks {
							for _, x := range b.Instrs {
								if bo, ok := x.(*ssa.BinOp); ok && (bo.Op == token.NEQ || bo.Op == token.EQL) && core.IsNilConst(bo.Y) {
									if _, f, ok := core.LoadedField(bo.X); ok && f == "pg" {
										cut2.AddEdge(core.EdgesWhere(bo, bo.Op == token.EQL)...)
									}
								}
							}
						}
						in, path = core.Reach(core.After(c.(ssa.Instruction)), isSucc, cut2)
					}
					r.Check(in == nil, "R5", "RELOAD handler "+core.QName(h)+": "+step.name+" after refresh", c.Pos(), "every success path passes "+step.name,
						"a RELOAD can succeed without "+step.name+": "+w.PathString(path))
				}
			}
			for _, u := range ups {
				args := core.CallArgs(u)
				okSym := len(args) == 3 && fromResult(args[1], 0, "vm.ParseReload")
				okVal := false
				if len(args) == 3 {
					for _, s := range core.Sources(args[2]) {
						if c, i, ok := core.ExtractOf(s); ok && i == 0 && inv[core.StaticCallee(c)] {
							okVal = true
						}
					}
				}
				r.Check(okSym && okVal, "R2", "RELOAD handler "+core.QName(h)+": Update operands", u.Pos(), "Update(decoded sym, invoker result)", "Update operands are not (decoded symbol, invoker result)")
			}
			for _, m := range maps {
				args := core.CallArgs(m)
				r.Check(len(args) == 2 && fromResult(args[1], 0, "vm.ParseReload"), "R5", "RELOAD handler "+core.QName(h)+": Map operand", m.Pos(), "Map(decoded sym)", "the re-mapped symbol is not the reloaded one")
			}
		}
	} else {
		r.Undecided("R5", "RELOAD handler", token.NoPos, "no handler for RELOAD")
	}

	// ---- R3 pairing ---------------------------------------------------------------------------
	checkPairing(w, r, "R3")
	if rf := resolveEngineRoles(w).ResetFn; rf != nil {
		checkRestartAfterUnwind(w, r, rf, "R3")
	}
	// ---- R8 the page's snapshot of a mapped symbol is always the cache's current value ---------
	if mp := anchor(w, r, "render", "(*Page).Map"); mp != nil {
		cut := core.NewCut()
		for _, in := range allInstrs(mp) {
			mu, ok := in.(*ssa.MapUpdate)
			if !ok {
				continue
			}
			if _, f, ok := core.LoadedField(mu.Map); !ok || f != "cacheMap" {
				continue
			}
			fromGet := false
			for _, src := range core.Sources(mu.Value) {
				if c, i, ok := core.ExtractOf(src); ok && i == 0 && core.IsCallTo(c, "cache.Memory.Get", "cache.(*Cache).Get") {
					fromGet = true
				}
			}
			if fromGet {
				cut.AddInstr(mu)
			}
		}
		hit, path := core.Reach(core.Entry(mp), isSuccessReturnPred(mp), cut)
		r.Check(hit == nil && len(cut.Instrs) > 0, "R8", "render.(*Page).Map: snapshot refreshed on every success path", mp.Pos(), "cacheMap[key] = Memory.Get(key) before every success return",
			"Map can succeed without storing the cache's current value: after RELOAD the page keeps showing the replaced content: "+w.PathString(path))
	}

	// ---- R4 reset after every move ------------------------------------------------------------
	disp := navDispatchers(w)
	hs, _, _ := opcodeHandlers(w, r)
	opn := opcodeNames(w)
	n4 := 0
	for op, h := range hs {
		dc := callsToSet(h, disp)
		if len(dc) == 0 {
			continue
		}
		n4++
		isSucc := isSuccessReturnPred(h)
		for _, c := range dc {
			cut := core.NewCut().AddEdge(errNonNilEdges(callErr(c))...)
			for _, rc := range core.CallsTo(h, vmReset) {
				cut.AddInstr(rc.(ssa.Instruction))
			}
			in, path := core.Reach(core.After(c.(ssa.Instruction)), isSucc, cut)
			r.Check(in == nil, "R4", opn[op]+" handler "+core.QName(h)+": renderer reset after move", c.Pos(), "every success path after the move passes Vm.Reset",
				"after a successful move the handler can return without Vm.Reset: MAPped symbols and menu of the node left are rendered on the new node: "+w.PathString(path))
		}
	}
	r.Floor("R4", "moving handlers", n4, 3)

	// ---- R6 capacity oracle --------------------------------------------------------------------
	oracles := map[*ssa.Function]bool{}
	add, upd := w.Func("cache", "(*Cache).Add"), w.Func("cache", "(*Cache).Update")
	if add == nil || upd == nil {
		r.Undecided("R6", "cache.(*Cache).Add/Update", token.NoPos, "unresolved anchor")
		return
	}
	calledBy := func(fn *ssa.Function) map[*ssa.Function]bool {
		m := map[*ssa.Function]bool{}
		for _, c := range core.Calls(fn) {
			if f := core.StaticCallee(c); f != nil && core.PkgOf(f) == "cache" {
				m[f] = true
			}
		}
		return m
	}
	ca, cu := calledBy(add), calledBy(upd)
	for f := range ca {
		if !cu[f] {
			continue
		}
		// reads CacheSize
		reads := false
		for _, b := range f.Blocks {
			for _, in := range b.Instrs {
				if v, ok := in.(ssa.Value); ok {
					if _, fld, ok := core.LoadedField(v); ok && fld == "CacheSize" {
						reads = true
					}
				}
			}
		}
		if reads {
			oracles[f] = true
		}
	}
	if len(oracles) == 0 {
		r.Undecided("R6", "capacity oracle", add.Pos(), "no function called by both Add and Update reads CacheSize")
	}
	n6 := 0
	for _, fn := range []*ssa.Function{add, upd} {
		r.Touch(core.QName(fn))
		bd := core.NewBounds(fn, intBits(w))
		for _, c := range callsToSet(fn, oracles) {
			call, ok := c.(*ssa.Call)
			if !ok {
				continue
			}
			n6++
			valArg := call.Call.Args[len(call.Call.Args)-1]
			// failure interpretation: comparisons result == 0
			var failEdges []core.Edge
			for _, v := range forwardVals(call) {
				if refs := v.Referrers(); refs != nil {
					for _, u := range *refs {
						if bo, ok := u.(*ssa.BinOp); ok {
							if _, op, k, ok := core.CmpConst(bo); ok && k == 0 && (op == token.EQL || op == token.NEQ || op == token.LEQ || op == token.GTR) {
								failEdges = append(failEdges, core.EdgesWhere(bo, op == token.EQL || op == token.LEQ)...)
							}
						}
					}
				}
			}
			if len(failEdges) == 0 {
				r.Bad("R6", core.QName(fn)+": capacity result interpreted", call.Pos(), "the capacity oracle's result is never compared with 0 (capacity not enforced)")
				continue
			}
			// error returns only reachable through a fail edge must know len(value) >= 1
			bad := ""
			cutF := core.NewCut().AddEdge(failEdges...)
			for _, b := range fn.Blocks {
				ret, ok := b.Instrs[len(b.Instrs)-1].(*ssa.Return)
				if !ok || !isErrorReturn(ret) {
					continue
				}
				if in, _ := core.Reach(core.After(call), core.IsInstr(ret), cutF); in != nil {
					continue // reachable without the failure edge: another error
				}
				if in, _ := core.Reach(core.After(call), core.IsInstr(ret), nil); in == nil {
					continue // not after this call
				}
				if !bd.ProveLenGE(b, valArg, 1) {
					bad = "failure return at " + w.Pos(ret.Pos()) + " does not know len(value) > 0"
				}
			}
			r.Check(bad == "", "R6", core.QName(fn)+": capacity result interpreted", call.Pos(), "0 is treated as 'exceeded' only for a non-empty value",
				"an empty value is rejected as 'capacity exceeded' (the oracle returns 0 for it too): "+bad)
		}
	}
	r.Floor("R6", "capacity oracle call sites", n6, 2)

	// ---- R7 -----------------------------------------------------------------------------------
	checkCacheLimits(w, r, capacityOracles(w), add, upd, "R7", "R7")
	checkCacheErrorsOmitValue(w, r, "R10", add, upd)
}

func forwardVals(v ssa.Value) []ssa.Value {
	var out []ssa.Value
	for x := range core.Forward(v, nil) {
		out = append(out, x)
	}
	return out
}

// checkPairing implements the Down/Push - Up/Pop pairing rule and the "no other frame-count
// change" rule; shared by C05 R3, C08 R2 and C20 R2.
func checkPairing(w *core.World, r *core.Report, rule string, onlyPkgs ...string) {
	n := 0
	labels := roleLabels(w, r)
	pairs := []struct {
		mover, mname string
		partner      []string
		pname        string
	}{
		{stDown, "Down", []string{memPush, "cache.(*Cache).Push"}, "Push"},
		{stUp, "Up", []string{memPop, "cache.(*Cache).Pop"}, "Pop"},
	}
	for _, fn := range w.LibFuncs {
		if core.PkgOf(fn) == "state" || core.PkgOf(fn) == "cache" {
			continue
		}
		if len(onlyPkgs) > 0 {
			in := false
			for _, p := range onlyPkgs {
				if core.PkgOf(fn) == p {
					in = true
				}
			}
			if !in {
				continue
			}
		}
		for _, p := range pairs {
			for _, c := range core.CallsTo(fn, p.mover) {
				n++
				r.Touch(core.QName(fn))
				key := fmt.Sprintf("%s: %s paired with %s", label(labels, fn), p.mname, p.pname)
				partners := core.CallsTo(fn, p.partner...)
				cutP := core.NewCut()
				for _, q := range partners {
					cutP.AddInstr(q.(ssa.Instruction))
				}
				// (a) a partner call precedes the mover on every path
				if len(partners) > 0 {
					if ok, _ := core.MustPass(c.(ssa.Instruction), cutP); ok {
						r.OK(rule, key, c.Pos(), p.pname+" precedes on every path")
						continue
					}
				}
				// (b) every path from the mover's success to a return passes a partner call
				if _, isDefer := c.(*ssa.Defer); isDefer {
					// deferred mover: a deferred partner must be registered in the same function
					hasDeferred := false
					for _, q := range partners {
						if _, ok := q.(*ssa.Defer); ok {
							hasDeferred = true
						}
					}
					r.Check(hasDeferred, rule, key, c.Pos(), "deferred together with "+p.pname, "deferred "+p.mname+" without a deferred "+p.pname)
					continue
				}
				cut := core.NewCut().AddEdge(errNonNilEdges(callErr(c))...)
				for i := range cutP.Instrs {
					cut.AddInstr(i)
				}
				// a panic exit is not a return
				in, path := core.Reach(core.After(c.(ssa.Instruction)), core.IsReturn, cut)
				r.Check(in == nil, rule, key, c.Pos(), "every path after a successful "+p.mname+" passes "+p.pname,
					"navigation depth and cache scopes get out of step: "+p.mname+" without "+p.pname+" on "+w.PathString(path))
			}
		}
		// frame-count change without unwinding
		if pk := core.PkgOf(fn); pk == "vm" || pk == "engine" {
			for _, c := range core.CallsTo(fn, memReset, "cache.(*Cache).Reset") {
				n++
				key := fmt.Sprintf("%s: Memory.Reset without unwinding the stack", label(labels, fn))
				// allowed only when the same function also unwinds the navigation stack (calls Rewind/Restart)
				unwinds := len(core.CallsTo(fn, "vm.Rewind", "state.(*State).Restart")) > 0
				r.Check(unwinds, rule, key, c.Pos(), "stack unwound in the same function", "all cache scopes but the first are dropped while the navigation stack keeps its depth")
			}
		}
	}
	if len(onlyPkgs) == 0 {
		r.Floor(rule, "Down/Up/Reset sites outside state and cache", n, 6)
	} else {
		r.Floor(rule, "Down/Up/Reset sites", n, 2)
	}
	_ = strings.TrimSpace
	checkFrameListGrowsByFreshMaps(w, r, "R9")
}
