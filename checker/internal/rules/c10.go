package rules

import (
	"fmt"
	"go/token"
	"go/types"
	"sort"
	"strings"

	"golang.org/x/tools/go/ssa"

	"vischeck/internal/core"
)

func init() {
	register("C10", PropCheck{
		Title:      "Every storage backend behaves as the same keyed map",
		Explain:    "Agreement clauses, decided for each db.Db implementation of the library (memory, filesystem, Postgres): (R1) every storage mutation in Put is only reached on the true edge of CheckPut(); (R2) baseDb.seal is only ever stored true, and every store to baseDb.lock that can remove a lock is behind the seal==false edge; (R3) Put and Get derive their storage keys from DbBase.ToKey applied to the caller's key, and every path of Get to its not-found return has passed a lookup that uses the Default key (translation-then-default fallback present); (R4) the miss return of every Get is built with db.NewErrNotFound; (R5) the data-type predicates: session prefix exactly for STATE and USERDATA, language suffix exactly for MENU, TEMPLATE and STATICLOAD (constant comparison/mask extracted and evaluated over the DATATYPE_* constants); (R6) every db.Db.Get made by DbResource is preceded by mustSafe(), which panics unless Safe(); (R7) the sticky context setters SetSession/SetPrefix/SetLanguage store their argument on every path (no path keeps the previous context); (R9) the filesystem back end's listing examines every directory entry: the listing cursor is only ever assigned the full os.ReadDir result or itself re-sliced from index 1 (added after seeded change C10-C, which seeks into the listing with a binary search over on-disk names); (R10) the filesystem back end answers Get from the store: every value a success return hands out is the result of a file read made in that call, never a memoised copy kept beside the store (added after seeded change C10-H, a read cache keyed by the first probed path). (R11) a listing leaves the handle's selections alone: no SetLanguage/SetPrefix/SetSession in a back end's Dump or the functions only it calls (added after seeded change C10-I; the rule reported the pinned postgres Dump, a genuine defect repaired in /repo). (R12) baseDb.pfx/sid/lang are stored only in Set... methods and constructors - a lookup does not remember anything on the handle; (R13) the filesystem back end encodes and decodes binary keys with the same base64 alphabet (added after seeded changes C10-K and C10-L). R8 also requires every value a memory-backend Get hands out to be the value component of a comma-ok lookup behind its own ok edge - a record found is not a value found (added after seeded change C10-N). (R14) the filesystem listing keeps its progress on the handle; every field that the listing family (functions touching the directory cursor, and their package callees) stores is stored by Dump on every path before it is read or a dumper is handed out (added after seeded change C10-M, a 'matching' flag that survived an undrained dump). (R15) no value stored to LookupKey.Translation is an append onto the value of LookupKey.Default (or the reverse): the two keys share no memory, the filesystem back end rewrites the first byte of each in place (added after seeded change C10-O). (R16) = C11 R8: scratch files are os.CreateTemp results - a name derived from the record is itself a possible record name (added after C10-P).",
		NotDecided: "read-your-writes over histories, Dump listing beyond the cursor clause R9 (which entries match, their order), interleavings of sticky context switches, text versus binary values - value- and history-level; the gdbm backend is not analysable here (cgo header missing) and is outside the property's backend list.",
		Run:        runC10,
	})
}

type backend struct {
	pkg, typ string
	put, get *ssa.Function
}

// dbBackends finds the library types whose pointer implements db.Db.
func dbBackends(w *core.World, r *core.Report) []backend {
	io := w.Object("db", "Db")
	if io == nil {
		r.Undecided("anchor", "db.Db", token.NoPos, "interface not found")
		return nil
	}
	iface, ok := io.Type().Underlying().(*types.Interface)
	if !ok {
		return nil
	}
	var out []backend
	for rel, sp := range w.SSA {
		for _, m := range sp.Members {
			t, ok := m.(*ssa.Type)
			if !ok {
				continue
			}
			if _, isIface := t.Type().Underlying().(*types.Interface); isIface {
				continue
			}
			if !types.Implements(types.NewPointer(t.Type()), iface) {
				continue
			}
			b := backend{pkg: rel, typ: t.Name()}
			b.put = w.Func(rel, "(*"+t.Name()+").Put")
			b.get = w.Func(rel, "(*"+t.Name()+").Get")
			if b.put != nil && b.get != nil {
				out = append(out, b)
			}
		}
	}
	sort.Slice(out, func(i, j int) bool { return out[i].pkg < out[j].pkg })
	return out
}

func isStoragePrimitive(c ssa.CallInstruction) bool {
	n := core.CallName(c)
	switch {
	case strings.HasPrefix(n, "os.Create"), strings.HasPrefix(n, "os.OpenFile"), n == "os.WriteFile", n == "os.Rename", n == "os.Remove", n == "os.RemoveAll",
		strings.HasPrefix(n, "io/ioutil.WriteFile"), n == "os.(*File).Write", n == "os.(*File).WriteString", n == "os.Truncate",
		strings.HasSuffix(n, "pgx/v5.Tx.Exec"), strings.HasSuffix(n, ".BeginTx"), strings.HasSuffix(n, "pgx/v5.Tx.Commit"):
		return true
	}
	return false
}

// mutates reports whether fn (transitively inside its own package, depth 3) contains a storage mutation.
func mutates(fn *ssa.Function, depth int, seen map[*ssa.Function]bool) bool {
	if fn == nil || seen[fn] || depth > 3 {
		return false
	}
	seen[fn] = true
	for _, b := range fn.Blocks {
		for _, in := range b.Instrs {
			switch t := in.(type) {
			case *ssa.MapUpdate:
				return true
			case ssa.CallInstruction:
				if isStoragePrimitive(t) {
					return true
				}
				if g := core.StaticCallee(t); g != nil && core.PkgOf(g) == core.PkgOf(fn) && mutates(g, depth+1, seen) {
					return true
				}
			}
		}
	}
	return false
}

// keyReachesToKey: parameter pi of fn flows (possibly through injective re-encodings and helpers of
// the same package) into the key argument of db.(*DbBase).ToKey.
func keyReachesToKey(fn *ssa.Function, pi int, depth int) bool {
	if depth > 3 || fn == nil {
		return false
	}
	through := func(c *ssa.Call) []int {
		n := core.CallName(c)
		if strings.Contains(n, "EncodeToString") {
			return []int{len(core.CallArgs(c)) - 1}
		}
		return nil
	}
	for _, c := range core.Calls(fn) {
		args := core.CallArgs(c)
		g := core.StaticCallee(c)
		for ai, a := range args {
			roots, _ := core.DeepSources(a, through)
			from := false
			for _, s := range roots {
				if paramIndex(s) == pi {
					from = true
				}
			}
			if !from {
				continue
			}
			if core.IsCallTo(c, "db.(*DbBase).ToKey") && ai == 2 {
				return true
			}
			if g != nil && (core.PkgOf(g) == core.PkgOf(fn)) && g != fn {
				if keyReachesToKey(g, ai, depth+1) {
					return true
				}
			}
		}
	}
	return false
}

// usesFieldNamed: v derives (DeepSources through pure re-encodings) from a load of a struct field
// with the given name.
func usesFieldNamed(v ssa.Value, field string) bool {
	through := func(c *ssa.Call) []int {
		n := core.CallName(c)
		if strings.Contains(n, "EncodeToString") || n == "path.Join" || n == "path/filepath.Join" || strings.HasPrefix(n, "fmt.Sprint") {
			var idx []int
			for i := range core.CallArgs(c) {
				idx = append(idx, i)
			}
			return idx
		}
		return nil
	}
	roots, _ := core.DeepSources(v, through)
	for _, s := range roots {
		if _, f, ok := core.LoadedField(s); ok && f == field {
			return true
		}
		if fv, ok := s.(*ssa.Field); ok {
			if st, ok := fv.X.Type().Underlying().(*types.Struct); ok && st.Field(fv.Field).Name() == field {
				return true
			}
		}
	}
	return false
}

func runC10(w *core.World, r *core.Report) {
	r.Rule("R1", "Put: every storage mutation only on the true edge of CheckPut()")
	r.Rule("R2", "seal only stored true; lock-removing stores only behind seal==false")
	r.Rule("R3", "Put/Get derive keys from ToKey(caller's key); Get's not-found return passed a Default-key lookup")
	r.Rule("R4", "Get's miss return is db.NewErrNotFound")
	r.Rule("R5", "session prefix exactly for STATE, USERDATA; language suffix exactly for MENU, TEMPLATE, STATICLOAD")
	r.Rule("R6", "DbResource: mustSafe() precedes every db.Get and panics unless Safe()")
	r.Rule("R7", "SetSession/SetPrefix/SetLanguage store their argument on every path")
	r.Rule("R8", "memory backend: presence of a key is decided by the map's comma-ok result, never by the value")
	r.Rule("R13", "the filesystem back end encodes and decodes binary keys with the same base64 alphabet")
	r.Rule("R12", "the data type, session and language selected on a handle are written by their setters only")
	r.Rule("R11", "a listing (Dump) leaves the data type, session and language selected on the store handle as it found them")
	r.Rule("R10", "fs Get answers from the store: every value it returns is what a file read returned in that call (no memoised copy beside the store)")
	r.Rule("R16", "fs: every file opened for writing is an os.CreateTemp result (C11 R8): a scratch name derived from the record shares the name space of records")
	r.Rule("R15", "ToKey: the default key and the translation key share no memory (a back end may rewrite one in place)")
	r.Rule("R14", "filesystem listing: Dump re-initialises every field of the handle the listing functions keep their progress in")
	r.Rule("R9", "filesystem listing: the directory cursor is the full listing and only ever advances by one entry (no entry is skipped unexamined)")

	bes := dbBackends(w, r)
	r.Floor("R1", "db.Db implementations in the library", len(bes), 3)
	for _, be := range bes {
		name := be.pkg + "." + be.typ
		r.Touch(core.QName(be.put))
		r.Touch(core.QName(be.get))
		// ---- R1 ----
		var cp *ssa.Call
		for _, c := range core.CallsTo(be.put, "db.(*DbBase).CheckPut") {
			if cc, ok := c.(*ssa.Call); ok {
				cp = cc
			}
		}
		if cp == nil {
			r.Bad("R1", name+".Put: lock test", be.put.Pos(), "Put does not consult CheckPut(): writes to locked (read-only) data types are not refused")
		} else {
			cut := core.NewCut().AddEdge(core.EdgesWhere(cp, true)...)
			nm := 0
			for _, b := range be.put.Blocks {
				for _, in := range b.Instrs {
					isMut := false
					switch t := in.(type) {
					case *ssa.MapUpdate:
						isMut = true
					case ssa.CallInstruction:
						if isStoragePrimitive(t) {
							isMut = true
						} else if g := core.StaticCallee(t); g != nil && core.PkgOf(g) == be.pkg && mutates(g, 0, map[*ssa.Function]bool{}) {
							isMut = true
						}
					}
					if !isMut {
						continue
					}
					nm++
					ok, path := core.MustPass(in, cut)
					r.Check(ok, "R1", fmt.Sprintf("%s.Put: mutation behind CheckPut", name), in.Pos(), "only on CheckPut()==true",
						"a write can happen although the data type is locked (mutation reachable without the CheckPut true edge): "+w.PathString(path))
				}
			}
			if nm == 0 {
				r.Undecided("R1", name+".Put: mutation", be.put.Pos(), "no storage mutation recognised in Put")
			}
		}
		// ---- R3 ----
		for _, fn := range []*ssa.Function{be.put, be.get} {
			r.Check(keyReachesToKey(fn, 2, 0), "R3", fmt.Sprintf("%s.%s: key derivation", name, fn.Name()), fn.Pos(), "caller's key -> DbBase.ToKey",
				"the storage key is not derived from DbBase.ToKey applied to the caller's key (type byte / session / language scoping bypassed)")
		}
		// fallback + R4
		var nfRets []*ssa.Return
		for _, b := range be.get.Blocks {
			ret, ok := b.Instrs[len(b.Instrs)-1].(*ssa.Return)
			if !ok || b == be.get.Recover {
				continue
			}
			for _, s := range core.Sources(core.ReturnValue(ret, len(ret.Results)-1)) {
				if c, _, ok := core.ExtractOf(s); ok && core.IsCallTo(c, "db.NewErrNotFound") {
					nfRets = append(nfRets, ret)
				}
			}
		}
		r.Check(len(nfRets) > 0, "R4", name+".Get: recognisable not-found", be.get.Pos(), fmt.Sprintf("%d miss return(s) built with db.NewErrNotFound", len(nfRets)),
			"Get never returns db.NewErrNotFound: callers (resource fallbacks, engine new-session detection) cannot recognise a miss")
		if len(nfRets) > 0 {
			cut := core.NewCut()
			nd := 0
			for _, b := range be.get.Blocks {
				for _, in := range b.Instrs {
					switch t := in.(type) {
					case *ssa.Lookup:
						if _, isMap := t.X.Type().Underlying().(*types.Map); isMap && usesFieldNamed(t.Index, "Default") {
							cut.AddInstr(t)
							nd++
						}
					case ssa.CallInstruction:
						n := core.CallName(t)
						if isStoreReadCall(n) {
							for _, a := range core.CallArgs(t) {
								if usesFieldNamed(a, "Default") {
									cut.AddInstr(t.(ssa.Instruction))
									nd++
									break
								}
							}
						} else if g := core.StaticCallee(t); g != nil && w.InLib(g) && len(g.Blocks) > 0 && g != be.get {
							// the scan moved into a helper: an argument carries the Default key and the helper
							// reads the store with (an element of) that parameter
							for ai, a := range core.CallArgs(t) {
								if usesFieldNamed(a, "Default") && helperReadsStoreWithParam(g, ai) {
									cut.AddInstr(t.(ssa.Instruction))
									nd++
									break
								}
							}
						}
					}
				}
			}
			// a lookup inside a loop over a literal candidate list (fs): the list contains the Default
			// key (checked by usesFieldNamed through the literal); the scan as a whole is the lookup,
			// so passing the loop header counts
			for in := range cut.Instrs {
				if h := loopHeader(in.Block()); h != nil {
					cut.AddInstr(h.Instrs[0])
				}
			}
			bad := ""
			for _, ret := range nfRets {
				if in, path := core.Reach(core.Entry(be.get), core.IsInstr(ret), cut); in != nil {
					bad = w.PathString(path)
				}
			}
			r.Check(nd > 0 && bad == "", "R3", name+".Get: default-language fallback", be.get.Pos(), fmt.Sprintf("not-found only after a lookup with the Default key (%d lookup sites)", nd),
				"Get can report not-found without having looked up the default-language key (no fallback when a translation key exists): "+bad)
		}
	}

	// ---- R2 -----------------------------------------------------------------------------------
	nlock := 0
	for _, fn := range w.FuncsIn("db") {
		var sealFalse []core.Edge
		for _, b := range fn.Blocks {
			for _, in := range b.Instrs {
				if v, ok := in.(ssa.Value); ok {
					if tn, f, ok := core.LoadedField(v); ok && tn == "db.baseDb" && f == "seal" {
						sealFalse = append(sealFalse, core.EdgesWhere(v, false)...)
					}
				}
			}
		}
		for _, b := range fn.Blocks {
			for _, in := range b.Instrs {
				st, ok := in.(*ssa.Store)
				if !ok {
					continue
				}
				tn, f, ok := core.FieldOfAddr(st.Addr)
				if !ok || tn != "db.baseDb" {
					continue
				}
				switch f {
				case "seal":
					nlock++
					c, isC := st.Val.(*ssa.Const)
					r.Check(isC && c.Value != nil && c.Value.String() == "true", "R2", core.QName(fn)+": store seal", st.Pos(), "stores true", "the seal can be undone (a value other than the constant true is stored)")
				case "lock":
					nlock++
					// adding locks with a constant mask is monotone
					if bo, ok := st.Val.(*ssa.BinOp); ok && bo.Op == token.OR {
						if _, isC := core.ConstInt(bo.Y); isC {
							r.OK("R2", core.QName(fn)+": store lock", st.Pos(), "adds a constant set of locks (monotone)")
							continue
						}
					}
					ok, path := core.MustPass(st, core.NewCut().AddEdge(sealFalse...))
					r.Check(ok && len(sealFalse) > 0, "R2", core.QName(fn)+": store lock", st.Pos(), "only behind seal==false",
						"the lock mask can be changed although the store is sealed: "+w.PathString(path))
				}
			}
		}
	}
	r.Floor("R2", "stores to seal/lock", nlock, 4)

	// ---- R5 -----------------------------------------------------------------------------------
	checkScopedTypes(w, r, "R5")

	// ---- R6 -----------------------------------------------------------------------------------
	ms := mustSafeFn(w)
	if ms == nil {
		r.Undecided("R6", "resource safety gate", token.NoPos, "no method of DbResource consults db.Safe and panics")
	}
	ng := 0
	for _, fn := range w.FuncsIn("resource") {
		for _, c := range core.CallsTo(fn, "db.Db.Get") {
			ng++
			cut := core.NewCut()
			if ms != nil {
				for _, m := range callsToSet(fn, map[*ssa.Function]bool{ms: true}) {
					cut.AddInstr(m.(ssa.Instruction))
				}
			}
			ok, path := core.MustPass(c.(ssa.Instruction), cut)
			r.Check(ok, "R6", core.QName(fn)+": db.Get behind mustSafe", c.Pos(), "mustSafe() first", "the resource reads from a store that may be unlocked: "+w.PathString(path))
		}
	}
	r.Floor("R6", "db.Get sites in package resource", ng, 1)
	if ms != nil {
		ok := false
		for _, c := range core.CallsTo(ms, "db.Db.Safe") {
			if v := core.CallValue(c); v != nil {
				for _, e := range core.EdgesWhere(v, false) {
					if in, _ := core.Reach(core.Point{B: e.To(), I: 0}, func(x ssa.Instruction) bool { _, isP := x.(*ssa.Panic); return isP }, nil); in != nil {
						// and no return on that side
						if in2, _ := core.Reach(core.Point{B: e.To(), I: 0}, core.IsReturn, nil); in2 == nil {
							ok = true
						}
					}
				}
			}
		}
		r.Check(ok, "R6", "resource safety gate: refuses unsafe store", ms.Pos(), "panics unless Safe()", "mustSafe no longer refuses a store whose read-only types are unlocked")
	}

	// ---- R7 -----------------------------------------------------------------------------------
	checkContextSetters(w, r, "R7")

	// ---- R8 -----------------------------------------------------------------------------------
	for _, be := range bes {
		nl := 0
		for _, b := range be.get.Blocks {
			for _, in := range b.Instrs {
				lk, ok := in.(*ssa.Lookup)
				if !ok {
					continue
				}
				if _, isMap := lk.X.Type().Underlying().(*types.Map); !isMap {
					continue
				}
				nl++
				r.Check(lk.CommaOk, "R8", fmt.Sprintf("%s.%s.Get: map lookup decides presence by comma-ok", be.pkg, be.typ), lk.Pos(), "v, ok := store[k]",
					"a stored key is treated as missing depending on its value (an empty value no longer shadows the default-language entry): the backends diverge")
			}
		}
		if nl > 0 {
			// a value handed out is the value component of a comma-ok lookup, behind its ok edge: a
			// record found is not a value found (a key written only under a language has no default)
			for i, ret := range successReturns(be.get) {
				v := core.ReturnValue(ret, 0)
				if v == nil || core.IsNilConst(v) {
					continue
				}
				bad := ""
				for _, src := range core.Sources(v) {
					ex, ok := src.(*ssa.Extract)
					var lk *ssa.Lookup
					if ok {
						lk, _ = ex.Tuple.(*ssa.Lookup)
					}
					if lk == nil || !lk.CommaOk || ex.Index != 0 {
						bad = "the value returned derives from " + valueDesc(src) + ", not from the value of a comma-ok map lookup"
						continue
					}
					var okv ssa.Value
					if refs := lk.Referrers(); refs != nil {
						for _, u := range *refs {
							if e2, ok := u.(*ssa.Extract); ok && e2.Index == 1 {
								okv = e2
							}
						}
					}
					if okv == nil {
						bad = "the presence result of the lookup is not used"
						continue
					}
					if hit, _ := core.Reach(core.Entry(be.get), core.IsInstr(ret), core.NewCut().AddEdge(core.EdgesWhere(okv, true)...)); hit != nil {
						bad = "the return is reachable without passing the lookup's ok edge"
					}
				}
				r.Check(bad == "", "R8", fmt.Sprintf("%s.%s.Get: value handed out #%d is a looked-up value behind its own ok", be.pkg, be.typ, i+1), ret.Pos(), "value of a comma-ok lookup, behind the ok edge",
					"a key that was never written (under this language or the default) is answered with a value instead of not-found: "+bad)
			}
		}
	}

	// ---- R9 -----------------------------------------------------------------------------------
	// fs Dump: every store to the listing cursor is the os.ReadDir result or the cursor re-sliced
	// from index 1; the element taken is index 0 (the one the re-slice drops)
	{
		n, bad := 0, ""
		sawFull, sawStep := false, false
		for _, fn := range w.FuncsIn("db/fs") {
			for _, in := range allInstrs(fn) {
				st, ok := in.(*ssa.Store)
				if !ok {
					continue
				}
				tn, f, ok := core.FieldOfAddr(st.Addr)
				if !ok || tn != "db/fs.fsDb" || f != "elements" {
					continue
				}
				n++
				r.Touch(core.QName(fn))
				okv := false
				if fromResult(st.Val, 0, "os.ReadDir") {
					okv, sawFull = true, true
				}
				if sl, isSl := core.Strip(st.Val).(*ssa.Slice); isSl && sl.High == nil && sl.Max == nil {
					if _, f2, ok := core.LoadedField(sl.X); ok && f2 == "elements" {
						if k, ok := core.ConstInt(sl.Low); ok && k == 1 {
							okv, sawStep = true, true
						}
					}
				}
				if core.IsNilConst(st.Val) {
					okv = true
				}
				if !okv {
					bad = fmt.Sprintf("%s stores something else than the full listing or cursor[1:] at %s", core.QName(fn), w.Pos(st.Pos()))
				}
			}
		}
		r.Check(bad == "" && sawFull && sawStep, "R9", "db/fs listing cursor: full listing, advanced one entry at a time", token.NoPos, fmt.Sprintf("%d stores: os.ReadDir result or cursor[1:]", n),
			"the listing can skip directory entries without examining them (a key that exists is not listed): "+bad)
	}

	checkListingStateReinitialised(w, r, "R14")
	checkLookupKeysShareNoMemory(w, r, "R15")
	checkUniqueTempFiles(w, r, "R16")

	checkFsGetReturnsFileBytes(w, r, "R10", "the filesystem back end can answer a Get from a copy kept beside the store: after a Put through another key form (language fallback) or another store object the copy is stale and the back ends diverge: ")
	checkDumpKeepsSelection(w, r, "R11")
	checkSelectionWriters(w, r, "R12")
	checkBase64Agreement(w, r, "R13")
}

func keysInt(m map[int64]bool) []int64 {
	var out []int64
	for k := range m {
		out = append(out, k)
	}
	sortInt64(out)
	return out
}

// checkContextSetters: the sticky context setters store their argument on every path.
func checkContextSetters(w *core.World, r *core.Report, rule string) {
	for _, st := range []struct{ fn, field string }{{"(*DbBase).SetSession", "sid"}, {"(*DbBase).SetPrefix", "pfx"}, {"(*DbBase).SetLanguage", "lang"}} {
		fn := anchor(w, r, "db", st.fn)
		if fn == nil {
			continue
		}
		cut := core.NewCut()
		okVal := true
		n := 0
		for _, b := range fn.Blocks {
			for _, in := range b.Instrs {
				s, ok := in.(*ssa.Store)
				if !ok {
					continue
				}
				if tn, f, ok := core.FieldOfAddr(s.Addr); !ok || tn != "db.baseDb" || f != st.field {
					continue
				}
				n++
				cut.AddInstr(s)
				roots, _ := core.DeepSources(s.Val, func(c *ssa.Call) []int {
					if core.IsCallTo(c, "builtin.append") {
						return []int{0, 1}
					}
					return nil
				})
				for _, rt := range roots {
					if _, isC := rt.(*ssa.Const); isC {
						continue
					}
					if _, isA := rt.(*ssa.Alloc); isA {
						continue
					}
					if paramIndex(rt) != 1 {
						okVal = false
					}
				}
			}
		}
		in, path := core.Reach(core.Entry(fn), core.IsReturn, cut)
		r.Check(n > 0 && in == nil && okVal, rule, "db."+st.fn+": always takes effect", fn.Pos(), "stores its argument on every path",
			"the setter can return without replacing the previous "+st.field+" (or stores something other than its argument): later operations run in another session's / type's / language's context: "+w.PathString(path))
	}
}

// loopHeader returns the innermost block that dominates b and is reachable from b (the header of
// the loop b sits in), or nil when b is not in a loop.
func loopHeader(b *ssa.BasicBlock) *ssa.BasicBlock {
	// blocks reachable from b
	reach := map[*ssa.BasicBlock]bool{}
	work := append([]*ssa.BasicBlock{}, b.Succs...)
	for len(work) > 0 {
		x := work[len(work)-1]
		work = work[:len(work)-1]
		if reach[x] {
			continue
		}
		reach[x] = true
		work = append(work, x.Succs...)
	}
	if !reach[b] {
		return nil
	}
	var best *ssa.BasicBlock
	for _, t := range b.Parent().Blocks {
		if t != b && !reach[t] {
			continue
		}
		for _, h := range t.Succs {
			// back edge t -> h of a natural loop that contains b
			if !(h == t || h.Dominates(t)) || !(h == b || h.Dominates(b)) {
				continue
			}
			if best == nil || best.Dominates(h) {
				best = h
			}
		}
	}
	return best
}

func isStoreReadCall(n string) bool {
	return n == "os.Open" || n == "os.ReadFile" || n == "io/ioutil.ReadFile" || strings.HasSuffix(n, "pgx/v5.Tx.Query") || strings.HasSuffix(n, "pgx/v5.Tx.QueryRow")
}

// helperReadsStoreWithParam: g reads the store (open / read / query) with parameter pi itself or
// with an element ranged out of it.
func helperReadsStoreWithParam(g *ssa.Function, pi int) bool {
	fromParam := func(v ssa.Value) bool {
		for _, s := range core.Sources(v) {
			if paramIndex(s) == pi {
				return true
			}
			if ex, ok := s.(*ssa.Extract); ok {
				if nx, ok := ex.Tuple.(*ssa.Next); ok {
					if rg, ok := nx.Iter.(*ssa.Range); ok {
						for _, s2 := range core.Sources(rg.X) {
							if paramIndex(s2) == pi {
								return true
							}
						}
					}
				}
			}
			// element of a slice parameter: *(&p[i])
			if u, ok := s.(*ssa.UnOp); ok && u.Op == token.MUL {
				if ia, ok := u.X.(*ssa.IndexAddr); ok {
					for _, s2 := range core.Sources(ia.X) {
						if paramIndex(s2) == pi {
							return true
						}
					}
				}
			}
		}
		return false
	}
	for _, c := range core.Calls(g) {
		if !isStoreReadCall(core.CallName(c)) {
			continue
		}
		for _, a := range core.CallArgs(c) {
			if fromParam(a) {
				return true
			}
		}
	}
	return false
}

// checkScopedTypes: the session prefix is applied exactly for STATE and USERDATA (threshold
// comparison on the type parameter, evaluated over the six built-in types), and the language
// suffix exactly for MENU, TEMPLATE and STATICLOAD.
func checkScopedTypes(w *core.World, r *core.Report, rule string) {
	dt := map[string]int64{}
	for _, n := range []string{"DATATYPE_BIN", "DATATYPE_MENU", "DATATYPE_TEMPLATE", "DATATYPE_STATICLOAD", "DATATYPE_STATE", "DATATYPE_USERDATA"} {
		if v, ok := constOf(w, r, "db", n); ok {
			dt[n] = v
		}
	}
	if len(dt) == 6 {
		if sk := anchor(w, r, "db", "(*DbBase).ToSessionKey"); sk != nil {
			set := map[string]bool{}
			found := false
			for _, b := range sk.Blocks {
				for _, in := range b.Instrs {
					bo, ok := in.(*ssa.BinOp)
					if !ok {
						continue
					}
					x0, op0, c, isC := core.CmpConst(bo)
					if !isC || paramIndex(x0) != 1 {
						continue
					}
					// the true edge must be the one that prepends the session id
					found = true
					for n, v := range dt {
						var t bool
						switch op0 {
						case token.GTR:
							t = v > c
						case token.GEQ:
							t = v >= c
						case token.LSS:
							t = v < c
						case token.LEQ:
							t = v <= c
						case token.EQL:
							t = v == c
						case token.NEQ:
							t = v != c
						}
						// which edge uses sid?
						usesSidOnTrue := false
						for _, e := range core.EdgesWhere(bo, true) {
							for _, bb := range dominatedRegion(e.To()) {
								for _, x := range bb.Instrs {
									if vv, ok := x.(ssa.Value); ok {
										if _, f, ok := core.LoadedField(vv); ok && f == "sid" {
											usesSidOnTrue = true
										}
									}
								}
							}
						}
						if t == usesSidOnTrue {
							set[n] = true
						}
					}
				}
			}
			want := "{DATATYPE_STATE,DATATYPE_USERDATA}"
			r.Check(found && setStr(set) == want, rule, "db.(*DbBase).ToSessionKey: sessioned types", sk.Pos(), "session prefix for "+setStr(set), "session prefix is applied to "+setStr(set)+", documented: "+want)
		}
		wantMask := dt["DATATYPE_MENU"] | dt["DATATYPE_TEMPLATE"] | dt["DATATYPE_STATICLOAD"]
		for _, nm := range []string{"ToDbKey", "(*DbBase).ToKey", "FromDbKey"} {
			fn := anchor(w, r, "db", nm)
			if fn == nil {
				continue
			}
			masks := map[int64]bool{}
			for _, b := range fn.Blocks {
				for _, in := range b.Instrs {
					if bo, ok := in.(*ssa.BinOp); ok && bo.Op == token.AND {
						if c, isC := core.ConstInt(bo.Y); isC && c < 64 {
							masks[c] = true
						}
					}
				}
			}
			ok := len(masks) == 1 && masks[wantMask]
			r.Check(ok, rule, "db."+nm+": language-scoped types", fn.Pos(), fmt.Sprintf("mask %d = MENU|TEMPLATE|STATICLOAD", wantMask), fmt.Sprintf("language scoping uses mask(s) %v, documented MENU|TEMPLATE|STATICLOAD = %d", keysInt(masks), wantMask))
		}
	}

}

// checkFsGetReturnsFileBytes (C10 R10, C07 R12): every value a success return of the filesystem
// back end's Get hands out is the result of a file read made in that call, itself - not a memoised
// copy and not a trimmed or otherwise transformed derivative.
func checkFsGetReturnsFileBytes(w *core.World, r *core.Report, rule, consequence string) {
	if get := w.Func("db/fs", "(*fsDb).Get"); get != nil {
		r.Touch(core.QName(get))
		n, bad := 0, ""
		var badPos token.Pos
		for _, ret := range successReturns(get) {
			v := core.ReturnValue(ret, 0)
			if v == nil || core.IsNilConst(v) {
				continue
			}
			n++
			roots, _ := core.DeepSources(v, nil)
			for _, rt := range roots {
				okRoot := false
				if c, i, ok := core.ExtractOf(rt); ok && i == 0 && core.IsCallTo(c, "io/ioutil.ReadAll", "io.ReadAll", "os.ReadFile", "io/ioutil.ReadFile") {
					okRoot = true
				}
				if cst, ok := rt.(*ssa.Const); ok && cst.IsNil() {
					okRoot = true
				}
				if !okRoot {
					bad = fmt.Sprintf("a returned value derives from %T, not from a file read of this call", rt)
					badPos = ret.Pos()
				}
			}
		}
		r.Check(bad == "" && n > 0, rule, "db/fs.(*fsDb).Get: values come from the store", badPos, fmt.Sprintf("%d success return(s) return the bytes read from the file", n),
			consequence+bad)
	} else {
		r.Undecided(rule, "db/fs.(*fsDb).Get", token.NoPos, "anchor not found")
	}
}
