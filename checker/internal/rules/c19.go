package rules

import (
	"fmt"
	"go/token"
	"go/types"
	"sort"
	"strings"

	"golang.org/x/tools/go/ssa"

	"vischeck/internal/core"
)

func init() {
	register("C19", PropCheck{
		Title:      "Independent sessions can be served concurrently without interference",
		Explain:    "If no code on the request path writes memory reachable from two sessions, every interleaving is equivalent to a sequential one; that removes the schedule quantifier. Decided: (R1) no library function reachable (class-hierarchy call graph over the library) from Exec/Flush/Finish/Reset, Persister.Save/Load or any db.Db method of the library back ends stores to a package-level variable of the library, or updates a map / slice element / struct field reached through one; all package-level variables of the library are enumerated and the known registration-time writers (RegisterInputValidator, FlagDebugger.Register) are confirmed to be detected but unreachable from the request path; (R2) byte slices obtained from Resource.GetCode and db.Db.Get - the immutable application data sessions share - are never the destination of an in-place write (first argument of append, destination of copy, indexed store), tracked through phis, re-slicing, parameters, results and struct fields (field-based) across the library; (R4) the file system is shared state too: the fs back end writes only under names unique to the write (os.CreateTemp), so sessions served concurrently, each through its own store object on the same directory, never share a scratch file (shared with C11 R8; added after seeded change C19-F); (R5) slices that external code returns in a resource.Result (FlagSet, FlagReset) are never the first argument of append - append writes into spare capacity of memory the application owns and may share (added after seeded change C19-G); (R6) on the request path the library calls no package-level function of a third-party package that (within that package, two calls deep) stores to that package's own package-level variables - process-wide configuration inside a dependency such as gotext.Configure (added after C19-H). (R7) = C10 R5: the session prefix is decided by the documented threshold on the data type (added after seeded change C19-J). (R8) no lock on package-level state is acquired again while it is held: for every Lock/RLock of a package-level sync.Mutex/RWMutex, no call made before its non-deferred release (or the return, when the release is deferred) reaches another acquisition of the same lock through static and interface calls in the library (the library holds no locks today; added after seeded change C19-M, a re-entrant RLock that wedges all sessions once a writer queues).",
		NotDecided: "races inside Resource/Db implementations supplied by the application; the race detector's view (a run-time tool); registration APIs are process-wide by design and must be called before serving.",
		Assume:     []string{"append returns memory that may alias its first argument only", "cbor.Unmarshal, ioutil.ReadAll, hex/base64 decoding and pgx Scan return freshly allocated byte slices"},
		Run:        runC19,
	})
}

// globalWrite describes one instruction that writes a package-level variable of the library or
// memory reached through one.
type globalWrite struct {
	fn   *ssa.Function
	in   ssa.Instruction
	g    *ssa.Global
	what string
}

func libGlobal(w *core.World, v ssa.Value) *ssa.Global {
	g := core.GlobalOf(v)
	if g == nil || g.Pkg == nil {
		return nil
	}
	if _, ok := w.SSA[core.Rel(g.Pkg.Pkg.Path())]; !ok || !strings.HasPrefix(g.Pkg.Pkg.Path(), core.ModPath) {
		return nil
	}
	return g
}

// throughGlobal: address/map/slice value derives from a load of a library global.
func throughGlobal(w *core.World, v ssa.Value, depth int) *ssa.Global {
	if depth > 6 || v == nil {
		return nil
	}
	if g := libGlobal(w, v); g != nil {
		return g
	}
	switch t := v.(type) {
	case *ssa.FieldAddr:
		return throughGlobal(w, t.X, depth+1)
	case *ssa.IndexAddr:
		return throughGlobal(w, t.X, depth+1)
	case *ssa.UnOp:
		if t.Op == token.MUL {
			return throughGlobal(w, t.X, depth+1)
		}
	case *ssa.Slice:
		return throughGlobal(w, t.X, depth+1)
	case *ssa.Phi:
		for _, e := range t.Edges {
			if g := throughGlobal(w, e, depth+1); g != nil {
				return g
			}
		}
	case *ssa.ChangeType:
		return throughGlobal(w, t.X, depth+1)
	}
	return nil
}

func globalWrites(w *core.World, fn *ssa.Function) []globalWrite {
	var out []globalWrite
	for _, b := range fn.Blocks {
		for _, in := range b.Instrs {
			switch t := in.(type) {
			case *ssa.Store:
				if g := throughGlobal(w, t.Addr, 0); g != nil {
					out = append(out, globalWrite{fn, in, g, "store"})
				}
			case *ssa.MapUpdate:
				if g := throughGlobal(w, t.Map, 0); g != nil {
					out = append(out, globalWrite{fn, in, g, "map update"})
				}
			case *ssa.Call:
				if core.IsCallTo(t, "builtin.delete") {
					if g := throughGlobal(w, t.Call.Args[0], 0); g != nil {
						out = append(out, globalWrite{fn, in, g, "map delete"})
					}
				}
				if core.IsCallTo(t, "builtin.copy") {
					if g := throughGlobal(w, t.Call.Args[0], 0); g != nil {
						out = append(out, globalWrite{fn, in, g, "copy into"})
					}
				}
				// process-wide containers and counters: sync.Pool / sync.Map / atomics on a global
				n := core.CallName(t)
				if strings.HasPrefix(n, "sync.(*Pool).") || (strings.HasPrefix(n, "sync.(*Map).") && !strings.HasSuffix(n, ".Load") && !strings.HasSuffix(n, ".Range")) ||
					strings.HasPrefix(n, "sync/atomic.Add") || strings.HasPrefix(n, "sync/atomic.Store") || strings.HasPrefix(n, "sync/atomic.Swap") || strings.HasPrefix(n, "sync/atomic.CompareAndSwap") ||
					(strings.HasPrefix(n, "sync/atomic.(*") && !strings.HasSuffix(n, ").Load")) {
					args := core.CallArgs(t)
					if len(args) > 0 {
						if g := throughGlobal(w, args[0], 0); g != nil {
							out = append(out, globalWrite{fn, in, g, n + " on"})
						}
					}
				}
			}
		}
	}
	// a method called on a global value with a pointer receiver that writes its receiver's fields
	// (fd.register on FlagDebugger) is found when that method itself is scanned with its receiver
	// bound to the global: handled by receiverWrites below
	return out
}

func runC19(w *core.World, r *core.Report) {
	r.Rule("R1", "no write to library package-level state (directly or through it) in any function reachable from the request path")
	r.Rule("R2", "byte slices borrowed from Resource.GetCode / db.Db.Get are never written in place")

	// ---- R1 -----------------------------------------------------------------------------------
	var roots []*ssa.Function
	for _, n := range []string{"(*DefaultEngine).Exec", "(*DefaultEngine).Flush", "(*DefaultEngine).Finish", "(*DefaultEngine).Reset"} {
		if f := anchor(w, r, "engine", n); f != nil {
			roots = append(roots, f)
		}
	}
	for _, n := range []string{"(*Persister).Save", "(*Persister).Load"} {
		if f := anchor(w, r, "persist", n); f != nil {
			roots = append(roots, f)
		}
	}
	for _, be := range dbBackends(w, r) {
		for _, m := range []string{"Get", "Put", "Dump", "Start", "Stop", "Abort", "Close", "SetPrefix", "SetSession", "SetLanguage", "SetLock", "DecodeKey"} {
			if f := w.Func(be.pkg, "(*"+be.typ+")."+m); f != nil {
				roots = append(roots, f)
			}
		}
	}
	for _, n := range []string{"(*DbBase).SetPrefix", "(*DbBase).SetSession", "(*DbBase).SetLanguage", "(*DbBase).ToKey"} {
		if f := w.Func("db", n); f != nil {
			roots = append(roots, f)
		}
	}
	if len(roots) < 9 {
		r.Undecided("R1", "request-path entry points", token.NoPos, fmt.Sprintf("only %d entry points resolved", len(roots)))
		return
	}
	reach, pred := reachable(w, roots)
	// enumerate the globals
	nglob := 0
	for rel, sp := range w.SSA {
		for _, m := range sp.Members {
			if _, ok := m.(*ssa.Global); ok {
				nglob++
				_ = rel
			}
		}
	}
	var all []globalWrite
	for _, fn := range w.LibFuncs {
		if fn.Name() == "init" || strings.HasPrefix(fn.Name(), "init#") {
			continue
		}
		all = append(all, globalWrites(w, fn)...)
	}
	// methods that write their receiver's fields, called on a global: record the call as a write
	for _, fn := range w.LibFuncs {
		if fn.Name() == "init" || strings.HasPrefix(fn.Name(), "init#") {
			continue
		}
		for _, c := range core.Calls(fn) {
			g := core.StaticCallee(c)
			if g == nil || g.Signature.Recv() == nil || len(c.Common().Args) == 0 {
				continue
			}
			gl := throughGlobal(w, c.Common().Args[0], 0)
			if gl == nil {
				continue
			}
			if writesReceiver(g, 0, map[*ssa.Function]bool{}) {
				all = append(all, globalWrite{fn, c.(ssa.Instruction), gl, "call of " + core.FuncName(g) + " (writes its receiver) on"})
			}
		}
	}
	sort.Slice(all, func(i, j int) bool { return all[i].in.Pos() < all[j].in.Pos() })
	nreach := 0
	known := 0
	for _, gw := range all {
		key := fmt.Sprintf("%s: %s %s.%s", core.QName(gw.fn), gw.what, core.Rel(gw.g.Pkg.Pkg.Path()), gw.g.Name())
		if reach[gw.fn] {
			nreach++
			r.Bad("R1", key, gw.in.Pos(), "process-wide mutable state is written on the request path: concurrent sessions race on it and can observe each other's (or half-written) data",
				"call path: "+callPath(w, pred, gw.fn))
		} else {
			known++
			r.OK("R1", key, gw.in.Pos(), "writer of package-level state, not reachable from the request path (registration / set-up API)")
		}
	}
	r.OK("R1", "library package-level variables enumerated", token.NoPos, fmt.Sprintf("%d variables; %d write sites outside init, %d of them on the request path", nglob, len(all), nreach))
	// positive fixture: the detector must find the registration-time writers that exist by design
	r.Floor("R1", "known registration-time writers detected (positive fixture)", known, 1)
	r.Floor("R1", "package-level variables of the library", nglob, 20)

	// ---- R2 -----------------------------------------------------------------------------------
	checkBorrowed(w, r)

	// ---- R3 -----------------------------------------------------------------------------------
	r.Rule("R8", "no lock on package-level state is acquired again while it is held (directly or through a call): sessions cannot wedge each other")
	r.Rule("R7", "sessions are kept apart in the store's key space (C10 R5): the session prefix is decided by the documented threshold on the data type, so every session-scoped type - built-in or application-defined - carries it")
	r.Rule("R6", "no package-level function of a third-party package that writes that package's own package-level state is called on the request path")
	r.Rule("R5", "slices returned by external code in a resource.Result are never appended to")
	r.Rule("R4", "fs back end: files are written only under names unique to the write (os.CreateTemp): concurrent sessions never share a scratch file")
	r.Rule("R3", "Resource implementations of the library (shared between sessions) are not mutated by their lookup methods")
	checkResourceStateless(w, r, "R3")
	// ---- R4 -----------------------------------------------------------------------------------
	checkUniqueTempFiles(w, r, "R4")
	// ---- R5 / R6 ------------------------------------------------------------------------------
	checkNoAppendToResultSlices(w, r, "R5")
	checkThirdPartyGlobals(w, r, "R6", reach)
	checkScopedTypes(w, r, "R7")
	checkNoNestedLockAcquisition(w, r, "R8")
}

// checkResourceStateless: the lookup methods of the library's Resource implementations (and what
// they call inside package resource) contain no store to, or map update through, a field of a
// resource object. A Resource is shared by all sessions of an application, in all languages: state
// kept there leaks between sessions (C19) and memoises language-scoped lookups (C18).
func checkResourceStateless(w *core.World, r *core.Report, rule string) {
	roots := map[*ssa.Function]bool{}
	for _, fn := range w.FuncsIn("resource") {
		switch fn.Name() {
		case "GetCode", "GetTemplate", "GetMenu", "FuncFor", "DbGetCode", "DbGetTemplate", "DbGetMenu", "DbFuncFor", "FallbackFunc", "get":
			if fn.Signature.Recv() != nil {
				roots[fn] = true
			}
		}
	}
	for changed := true; changed; {
		changed = false
		for f := range roots {
			for _, c := range core.Calls(f) {
				if g := core.StaticCallee(c); g != nil && core.PkgOf(g) == "resource" && !roots[g] && len(g.Blocks) > 0 {
					roots[g] = true
					changed = true
				}
			}
			for _, a := range f.AnonFuncs {
				if !roots[a] {
					roots[a] = true
					changed = true
				}
			}
		}
	}
	n := 0
	isResType := func(tn string) bool { return strings.HasPrefix(tn, "resource.") }
	var fns []*ssa.Function
	for f := range roots {
		fns = append(fns, f)
	}
	sort.Slice(fns, func(i, j int) bool { return fns[i].Pos() < fns[j].Pos() })
	for _, f := range fns {
		n++
		for _, b := range f.Blocks {
			for _, in := range b.Instrs {
				what := ""
				switch t := in.(type) {
				case *ssa.Store:
					if tn, fld, ok := core.FieldOfAddr(t.Addr); ok && isResType(tn) {
						// a value being built locally (composite literal) is not shared state
						if _, isLocal := t.Addr.(*ssa.FieldAddr).X.(*ssa.Alloc); !isLocal {
							what = "store to " + tn + "." + fld
						}
					}
				case *ssa.MapUpdate:
					for _, s := range core.Sources(t.Map) {
						if tn, fld, ok := core.LoadedField(s); ok && isResType(tn) {
							what = "map update through " + tn + "." + fld
						}
					}
				case *ssa.Call:
					if core.IsCallTo(t, "builtin.delete") {
						for _, s := range core.Sources(t.Call.Args[0]) {
							if tn, fld, ok := core.LoadedField(s); ok && isResType(tn) {
								what = "map delete through " + tn + "." + fld
							}
						}
					}
				}
				if what != "" {
					r.Bad(rule, fmt.Sprintf("%s: %s in a lookup method", core.QName(f), what), in.Pos(),
						"a Resource is shared by every session (and every language) of the application; state written by a lookup leaks between sessions, is a data race, and fixes the result of language-scoped lookups to whichever language asked first")
				}
			}
		}
	}
	r.OK(rule, "lookup methods of the library's Resource implementations scanned", token.NoPos, fmt.Sprintf("%d functions", n))
	r.Floor(rule, "resource lookup functions", n, 8)
}

// writesReceiver: method g stores to fields / map elements of its receiver (transitively, depth 2).
func writesReceiver(g *ssa.Function, depth int, seen map[*ssa.Function]bool) bool {
	if g == nil || seen[g] || depth > 2 || len(g.Blocks) == 0 || len(g.Params) == 0 {
		return false
	}
	seen[g] = true
	recv := g.Params[0]
	fromRecv := func(v ssa.Value) bool {
		for d := 0; d < 6 && v != nil; d++ {
			if v == ssa.Value(recv) {
				return true
			}
			switch t := v.(type) {
			case *ssa.FieldAddr:
				v = t.X
			case *ssa.IndexAddr:
				v = t.X
			case *ssa.UnOp:
				v = t.X
			default:
				return false
			}
		}
		return false
	}
	for _, b := range g.Blocks {
		for _, in := range b.Instrs {
			switch t := in.(type) {
			case *ssa.Store:
				if fromRecv(t.Addr) {
					return true
				}
			case *ssa.MapUpdate:
				if fromRecv(t.Map) {
					return true
				}
			case ssa.CallInstruction:
				if h := core.StaticCallee(t); h != nil && h.Signature.Recv() != nil && len(t.Common().Args) > 0 && t.Common().Args[0] == ssa.Value(recv) {
					if writesReceiver(h, depth+1, seen) {
						return true
					}
				}
			}
		}
	}
	return false
}

// checkBorrowed implements R2: a library-wide, field-based taint propagation from the borrowed
// sources to in-place write sinks.
func checkBorrowed(w *core.World, r *core.Report) { checkBorrowedRule(w, r, "R2") }

// checkBorrowedRule is checkBorrowed under another rule id (C03 R9 cites it).
func checkBorrowedRule(w *core.World, r *core.Report, rule string) {
	tainted := map[ssa.Value]string{} // value -> origin description
	fields := map[string]string{}     // "Type.field" -> origin
	isByteSlice := func(t types.Type) bool {
		s, ok := t.Underlying().(*types.Slice)
		if !ok {
			return false
		}
		b, ok := s.Elem().Underlying().(*types.Basic)
		return ok && b.Kind() == types.Uint8
	}
	isSource := func(c ssa.CallInstruction) bool {
		n := core.CallName(c)
		return n == "resource.Resource.GetCode" || n == "db.Db.Get" || n == "dynamic:resource.CodeFunc"
	}
	retTaint := map[*ssa.Function]map[int]string{}
	nsrc := 0
	mark := func(v ssa.Value, why string) bool {
		if v == nil || !isByteSlice(v.Type()) {
			return false
		}
		if _, ok := tainted[v]; ok {
			return false
		}
		tainted[v] = why
		return true
	}
	for round := 0; round < 30; round++ {
		changed := false
		for _, fn := range w.LibFuncs {
			for _, b := range fn.Blocks {
				for _, in := range b.Instrs {
					switch t := in.(type) {
					case *ssa.Call:
						if isSource(t) {
							if round == 0 {
								nsrc++
							}
							if rv := core.ResultOf(t, 0); rv != nil {
								if mark(rv, fmt.Sprintf("%s at %s", core.CallName(t), w.Pos(t.Pos()))) {
									changed = true
								}
							}
						}
						if core.IsCallTo(t, "builtin.append") {
							if why, ok := tainted[t.Call.Args[0]]; ok {
								if mark(t, why) {
									changed = true
								}
							}
						}
						// arguments -> parameters; results <- returns
						for _, g := range w.Callees(t) {
							if !w.InLib(g) || len(g.Blocks) == 0 {
								continue
							}
							args := core.CallArgs(t)
							for i, a := range args {
								if why, ok := tainted[a]; ok && i < len(g.Params) {
									if mark(g.Params[i], why) {
										changed = true
									}
								}
							}
							for idx, why := range retTaint[g] {
								if rv := core.ResultOf(t, idx); rv != nil {
									if mark(rv, why) {
										changed = true
									}
								}
							}
						}
					case *ssa.Phi:
						for _, e := range t.Edges {
							if why, ok := tainted[e]; ok {
								if mark(t, why) {
									changed = true
								}
							}
						}
					case *ssa.Slice:
						if why, ok := tainted[t.X]; ok {
							if mark(t, why) {
								changed = true
							}
						}
					case *ssa.ChangeType:
						if why, ok := tainted[t.X]; ok {
							if mark(t, why) {
								changed = true
							}
						}
					case *ssa.Store:
						if why, ok := tainted[t.Val]; ok {
							if tn, f, ok := core.FieldOfAddr(t.Addr); ok {
								k := tn + "." + f
								if _, seen := fields[k]; !seen {
									fields[k] = why
									changed = true
								}
							}
							if a, ok := t.Addr.(*ssa.Alloc); ok {
								if refs := a.Referrers(); refs != nil {
									for _, u := range *refs {
										if ld, ok := u.(*ssa.UnOp); ok && ld.Op == token.MUL && ld.X == ssa.Value(a) {
											if mark(ld, why) {
												changed = true
											}
										}
									}
								}
							}
						}
					case *ssa.UnOp:
						if t.Op == token.MUL {
							// a package-level byte slice of the library is shared by all sessions
							if g := libGlobal(w, t); g != nil {
								if round == 0 {
									nsrc++
								}
								if mark(t, fmt.Sprintf("package-level variable %s.%s", core.Rel(g.Pkg.Pkg.Path()), g.Name())) {
									changed = true
								}
							}
							if tn, f, ok := core.FieldOfAddr(t.X); ok {
								if why, ok := fields[tn+"."+f]; ok {
									if mark(t, why+" (via field "+tn+"."+f+")") {
										changed = true
									}
								}
							}
						}
					case *ssa.Return:
						for i, rv := range t.Results {
							if why, ok := tainted[rv]; ok {
								if retTaint[fn] == nil {
									retTaint[fn] = map[int]string{}
								}
								if _, seen := retTaint[fn][i]; !seen {
									retTaint[fn][i] = why
									changed = true
								}
							}
						}
					}
				}
			}
		}
		if !changed {
			break
		}
	}
	// sinks
	nsink, nbad := 0, 0
	for _, fn := range w.LibFuncs {
		for _, b := range fn.Blocks {
			for _, in := range b.Instrs {
				var dst ssa.Value
				what := ""
				switch t := in.(type) {
				case *ssa.Call:
					if core.IsCallTo(t, "builtin.append") && isByteSlice(t.Call.Args[0].Type()) {
						dst, what = t.Call.Args[0], "append into"
					}
					if core.IsCallTo(t, "builtin.copy") && isByteSlice(t.Call.Args[0].Type()) {
						dst, what = t.Call.Args[0], "copy into"
					}
				case *ssa.Store:
					if ia, ok := t.Addr.(*ssa.IndexAddr); ok && isByteSlice(ia.X.Type()) {
						dst, what = ia.X, "indexed store into"
					}
				}
				if dst == nil {
					continue
				}
				nsink++
				if why, ok := tainted[dst]; ok {
					nbad++
					r.Bad(rule, fmt.Sprintf("%s: %s a borrowed slice", core.QName(fn), what), in.Pos(),
						"a byte slice handed out by the resource / store (shared, supposedly immutable application data) is written in place: the library modifies the application's data and two sessions doing so race. Borrowed from "+why)
				}
			}
		}
	}
	r.OK(rule, "in-place write sinks on byte slices scanned", token.NoPos, fmt.Sprintf("%d sinks, %d borrowed-slice sources, %d tainted values, %d writes into borrowed memory", nsink, nsrc, len(tainted), nbad))
	r.Floor(rule, "borrowed-slice sources (GetCode / Db.Get call sites)", nsrc, 4)
	r.Floor(rule, "in-place write sinks", nsink, 10)
}
