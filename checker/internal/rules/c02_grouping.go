package rules

import (
	"fmt"
	"go/token"
	"go/types"
	"sort"
	"strings"

	"golang.org/x/tools/go/ssa"

	"vischeck/internal/core"
)

// R3: row grouping as a typestate automaton.
//
// The grouping function (joinSink today) is interpreted abstractly, path by path, over a small
// finite domain. Closures defined in it and unexported functions of package render it calls with
// one of its string builders are interpreted inline (bounded depth), so extracting part of the
// loop body into a helper does not change the verdict.
//
// Abstract state:
//   rows        rows appended to the page buffer since it was last reset: 0 / one or more
//   sep         a separator was written to the page buffer since the last row
//   flushed     the page buffer was copied to the result buffer since the last row
//   needCursor  a page separator was written to the result and no cursor was added since
//   flushes     pages emitted so far (saturating; only to give constants a meaning)
//   buf[b]      string builder b is empty / non-empty / unknown
//   ints[v]     abstract value of integer and boolean SSA values: zero(false) / positive(true) / unknown
//   cells[a]    the same for integer and boolean local variables that live in memory (captured)
//   offs[v]     for the values the returned page count is computed from: value minus pages emitted
//
// Obligations (checked in every reachable abstract state):
//   O1  a row is appended to a page that already holds rows only after a separator; no separator
//       before the first row of a page
//   O2  the page buffer is reset, and a success return is taken, only when the rows it holds were
//       emitted
//   O3  the returned page count equals the number of pages emitted
//   O4  every page separator written to the result is followed by exactly one AddCursor whose
//       argument is the result length taken after that write
//   O5  every row that is read is appended to a page exactly once before the next row is read and
//       before a success return (no row skipped or duplicated)

// groupingUnit: the grouping function, its closures and the helpers it hands builders to.
type groupingUnit struct {
	root  *ssa.Function
	funcs []*ssa.Function
}

func (u *groupingUnit) calls() []ssa.CallInstruction {
	var out []ssa.CallInstruction
	for _, f := range u.funcs {
		out = append(out, core.Calls(f)...)
	}
	return out
}

func takesBuilder(g *ssa.Function) bool {
	for _, p := range g.Params {
		if strings.Contains(p.Type().String(), "strings.Builder") {
			return true
		}
	}
	return false
}

// groupingFunc: the function of package render with a []string parameter that adds page cursors,
// itself or through its closures / builder helpers (joinSink today).
func groupingFunc(w *core.World) *ssa.Function {
	if u := groupingUnitOf(w); u != nil {
		return u.root
	}
	return nil
}

func groupingUnitOf(w *core.World) *groupingUnit {
	for _, fn := range w.FuncsIn("render") {
		if fn.Parent() != nil {
			continue
		}
		has := false
		for _, p := range fn.Params {
			if p.Type().String() == "[]string" {
				has = true
			}
		}
		if !has {
			continue
		}
		u := &groupingUnit{root: fn, funcs: []*ssa.Function{fn}}
		seen := map[*ssa.Function]bool{fn: true}
		for i := 0; i < len(u.funcs) && i < 8; i++ {
			f := u.funcs[i]
			for _, a := range f.AnonFuncs {
				if !seen[a] {
					seen[a] = true
					u.funcs = append(u.funcs, a)
				}
			}
			for _, c := range core.Calls(f) {
				g := core.StaticCallee(c)
				if g == nil || seen[g] || len(g.Blocks) == 0 || core.PkgOf(g) != "render" || !takesBuilder(g) {
					continue
				}
				seen[g] = true
				u.funcs = append(u.funcs, g)
			}
		}
		for _, c := range u.calls() {
			if core.IsCallTo(c, "render.(*Sizer).AddCursor") {
				return u
			}
		}
	}
	return nil
}

const (
	absU = 0 // unknown
	absZ = 1 // zero / false / empty
	absP = 2 // positive / true / non-empty
)

type gsFrame struct {
	fn     *ssa.Function
	bind   map[ssa.Value]ssa.Value // parameters and free variables -> values of the root frame
	parent *gsFrame
	retB   *ssa.BasicBlock // where to continue in the parent
	retI   int
	site   ssa.CallInstruction
}

func (f *gsFrame) sig() string {
	if f == nil || f.parent == nil {
		return ""
	}
	return f.parent.sig() + fmt.Sprintf("/%s@%d", f.fn.Name(), f.site.Pos())
}

// rv resolves a value of the frame to the root frame's value it denotes (builders, cells, rows).
func (f *gsFrame) rv(v ssa.Value) ssa.Value {
	if f != nil {
		if b, ok := f.bind[v]; ok {
			return b
		}
	}
	return v
}

type gsState struct {
	rows       int
	sep        bool
	flushed    bool
	needCursor bool
	iterFresh  bool // the row index was (re)defined and no row was loaded since
	rowPending bool // a row was loaded and not yet appended to a page
	flushes    int
	buf        map[ssa.Value]int
	ints       map[ssa.Value]int
	cells      map[ssa.Value]int
	offs       map[ssa.Value]int
	offKnown   map[ssa.Value]bool
	cellOff    map[ssa.Value]int
	cellOffOK  map[ssa.Value]bool
	lenValid   map[ssa.Value]bool
	lenOf      map[ssa.Value]ssa.Value
}

func cloneMapI(m map[ssa.Value]int) map[ssa.Value]int {
	c := make(map[ssa.Value]int, len(m))
	for k, v := range m {
		c[k] = v
	}
	return c
}

func cloneMapB(m map[ssa.Value]bool) map[ssa.Value]bool {
	c := make(map[ssa.Value]bool, len(m))
	for k, v := range m {
		c[k] = v
	}
	return c
}

func (s *gsState) clone() *gsState {
	c := *s
	c.buf = cloneMapI(s.buf)
	c.ints = cloneMapI(s.ints)
	c.cells = cloneMapI(s.cells)
	c.offs = cloneMapI(s.offs)
	c.offKnown = cloneMapB(s.offKnown)
	c.cellOff = cloneMapI(s.cellOff)
	c.cellOffOK = cloneMapB(s.cellOffOK)
	c.lenValid = cloneMapB(s.lenValid)
	c.lenOf = make(map[ssa.Value]ssa.Value, len(s.lenOf))
	for k, v := range s.lenOf {
		c.lenOf[k] = v
	}
	return &c
}

func vname(v ssa.Value) string {
	if v.Parent() != nil {
		return v.Parent().Name() + "." + v.Name()
	}
	return v.Name()
}

func (s *gsState) key(f *gsFrame, b *ssa.BasicBlock, idx int) string {
	parts := []string{fmt.Sprintf("%s b%d i%d r%d s%v f%v c%v n%d it%v rp%v", f.sig(), b.Index, idx, s.rows, s.sep, s.flushed, s.needCursor, s.flushes, s.iterFresh, s.rowPending)}
	var ks []string
	for k, v := range s.buf {
		ks = append(ks, fmt.Sprintf("B%s=%d", vname(k), v))
	}
	for k, v := range s.ints {
		ks = append(ks, fmt.Sprintf("I%s=%d", vname(k), v))
	}
	for k, v := range s.cells {
		ks = append(ks, fmt.Sprintf("C%s=%d", vname(k), v))
	}
	for k, v := range s.offs {
		if s.offKnown[k] {
			ks = append(ks, fmt.Sprintf("O%s=%d", vname(k), v))
		}
	}
	for k, v := range s.cellOff {
		if s.cellOffOK[k] {
			ks = append(ks, fmt.Sprintf("Q%s=%d", vname(k), v))
		}
	}
	for k := range s.lenValid {
		ks = append(ks, "L"+vname(k))
	}
	for k := range s.lenOf {
		ks = append(ks, "P"+vname(k))
	}
	sort.Strings(ks)
	return strings.Join(append(parts, ks...), " ")
}

type gsViolation struct {
	kind string
	pos  token.Pos
	path string
}

func builderMethod(c ssa.CallInstruction) (string, ssa.Value, bool) {
	g := core.StaticCallee(c)
	if g == nil || g.Signature.Recv() == nil || g.Pkg == nil || g.Pkg.Pkg.Path() != "strings" {
		return "", nil, false
	}
	if !strings.Contains(g.Signature.Recv().Type().String(), "strings.Builder") {
		return "", nil, false
	}
	args := core.CallArgs(c)
	if len(args) == 0 {
		return "", nil, false
	}
	return g.Name(), args[0], true
}

func isIntOrBool(t types.Type) bool {
	bt, ok := t.Underlying().(*types.Basic)
	return ok && bt.Info()&(types.IsInteger|types.IsBoolean) != 0
}

// decideAbs decides `x op c` for an abstract x: 1 true, 0 false, -1 unknown.
func decideAbs(a int, op token.Token, c int64) int {
	b2i := func(b bool) int {
		if b {
			return 1
		}
		return 0
	}
	switch a {
	case absZ:
		switch op {
		case token.EQL:
			return b2i(0 == c)
		case token.NEQ:
			return b2i(0 != c)
		case token.LSS:
			return b2i(0 < c)
		case token.LEQ:
			return b2i(0 <= c)
		case token.GTR:
			return b2i(0 > c)
		case token.GEQ:
			return b2i(0 >= c)
		}
	case absP: // x >= 1
		switch op {
		case token.EQL:
			if c <= 0 {
				return 0
			}
		case token.NEQ:
			if c <= 0 {
				return 1
			}
		case token.LSS:
			if c <= 1 {
				return 0
			}
		case token.LEQ:
			if c <= 0 {
				return 0
			}
		case token.GTR:
			if c <= 0 {
				return 1
			}
		case token.GEQ:
			if c <= 1 {
				return 1
			}
		}
	}
	return -1
}

func checkRowGrouping(w *core.World, r *core.Report, u *groupingUnit, rule string) {
	fn := u.root
	var rowsParam *ssa.Parameter
	for _, p := range fn.Params {
		if p.Type().String() == "[]string" {
			rowsParam = p
		}
	}
	// static resolution of builder receivers to the root function's allocations (for discovery)
	staticBind := map[ssa.Value]ssa.Value{}
	for _, f := range u.funcs {
		for _, in := range allInstrs(f) {
			if mc, ok := in.(*ssa.MakeClosure); ok {
				g := mc.Fn.(*ssa.Function)
				for i, fv := range g.FreeVars {
					if i < len(mc.Bindings) {
						staticBind[fv] = mc.Bindings[i]
					}
				}
			}
			if c, ok := in.(ssa.CallInstruction); ok {
				if g := core.StaticCallee(c); g != nil && g != f {
					for _, uf := range u.funcs {
						if uf == g {
							args := core.CallArgs(c)
							for i, p := range g.Params {
								if i < len(args) {
									if _, dup := staticBind[p]; !dup {
										staticBind[p] = args[i]
									}
								}
							}
						}
					}
				}
			}
		}
	}
	sres := func(v ssa.Value) ssa.Value {
		for i := 0; i < 6; i++ {
			b, ok := staticBind[v]
			if !ok {
				return v
			}
			v = b
		}
		return v
	}
	var isRowS func(v ssa.Value, d int) bool
	isRowS = func(v ssa.Value, d int) bool {
		if d > 4 {
			return false
		}
		for _, s := range core.Sources(v) {
			if uo, ok := s.(*ssa.UnOp); ok && uo.Op == token.MUL {
				if ia, ok := uo.X.(*ssa.IndexAddr); ok && core.Strip(sres(ia.X)) == ssa.Value(rowsParam) {
					return true
				}
			}
			if ex, ok := s.(*ssa.Extract); ok {
				if nx, ok := ex.Tuple.(*ssa.Next); ok {
					if rg, ok := nx.Iter.(*ssa.Range); ok && core.Strip(sres(rg.X)) == ssa.Value(rowsParam) {
						return true
					}
				}
			}
			if b, ok := staticBind[s]; ok && isRowS(b, d+1) {
				return true
			}
		}
		return false
	}
	var P, R ssa.Value
	for _, c := range u.calls() {
		if m, recv, ok := builderMethod(c); ok && m == "WriteString" && isRowS(core.CallArgs(c)[1], 0) {
			P = sres(recv)
		}
	}
	if P != nil {
		for _, c := range u.calls() {
			if m, recv, ok := builderMethod(c); ok && m == "WriteString" && sres(recv) != P {
				for _, s := range core.Sources(core.CallArgs(c)[1]) {
					if sc, ok := s.(*ssa.Call); ok {
						if m2, recv2, ok := builderMethod(sc); ok && m2 == "String" && sres(recv2) == P {
							R = sres(recv)
						}
					}
				}
			}
		}
	}
	if P == nil || R == nil {
		r.Undecided(rule, "row grouping: page and result buffers", fn.Pos(), "cannot identify a string builder that receives the rows and one that receives the finished pages")
		return
	}
	// index values of row loads: their (re)definition starts a new row
	rowIdx := map[ssa.Value]bool{}
	isRowLoad := func(fr *gsFrame, in ssa.Instruction) bool {
		uo, ok := in.(*ssa.UnOp)
		if !ok || uo.Op != token.MUL {
			return false
		}
		ia, ok := uo.X.(*ssa.IndexAddr)
		if !ok {
			return false
		}
		x := ia.X
		if fr != nil {
			x = fr.rv(x)
		} else {
			x = sres(x)
		}
		return core.Strip(x) == ssa.Value(rowsParam)
	}
	for _, f := range u.funcs {
		for _, in := range allInstrs(f) {
			if isRowLoad(nil, in) {
				rowIdx[in.(*ssa.UnOp).X.(*ssa.IndexAddr).Index] = true
			}
		}
	}
	inUnit := map[*ssa.Function]bool{}
	for _, f := range u.funcs {
		inUnit[f] = true
	}
	// page counter: integer result of the root function; backward slice over every unit function
	countIdx := -1
	res := fn.Signature.Results()
	for i := 0; i < res.Len(); i++ {
		if bt, ok := res.At(i).Type().Underlying().(*types.Basic); ok && bt.Info()&types.IsInteger != 0 {
			countIdx = i
		}
	}
	if countIdx < 0 {
		r.Undecided(rule, "row grouping: page count result", fn.Pos(), "no integer result")
		return
	}
	chain := map[ssa.Value]bool{}
	var addChain func(v ssa.Value, d int)
	addChain = func(v ssa.Value, d int) {
		if v == nil || chain[v] || d > 12 {
			return
		}
		switch t := v.(type) {
		case *ssa.Phi:
			chain[v] = true
			for _, e := range t.Edges {
				addChain(e, d+1)
			}
		case *ssa.BinOp:
			if t.Op == token.ADD || t.Op == token.SUB {
				chain[v] = true
				addChain(t.X, d+1)
			}
		case *ssa.Convert:
			chain[v] = true
			addChain(t.X, d+1)
		case *ssa.UnOp:
			if t.Op == token.MUL {
				chain[v] = true
				if al, ok := sres(t.X).(*ssa.Alloc); ok {
					chain[al] = true
				}
			}
		}
	}
	succRet := map[ssa.Instruction]bool{}
	for _, ret := range successReturns(fn) {
		succRet[ret] = true
		addChain(core.ReturnValue(ret, countIdx), 0)
	}
	// stores into chain cells extend the chain
	for pass := 0; pass < 3; pass++ {
		for _, f := range u.funcs {
			for _, in := range allInstrs(f) {
				if st, ok := in.(*ssa.Store); ok && chain[sres(st.Addr)] {
					addChain(st.Val, 0)
				}
			}
		}
	}

	var viols []gsViolation
	seenViol := map[string]bool{}
	report := func(kind string, pos token.Pos, trace []*ssa.BasicBlock) {
		if seenViol[kind] {
			return
		}
		seenViol[kind] = true
		viols = append(viols, gsViolation{kind, pos, w.PathString(trace)})
	}
	undecided := ""

	var evalInt func(s *gsState, f *gsFrame, v ssa.Value, d int) int
	evalInt = func(s *gsState, f *gsFrame, v ssa.Value, d int) int {
		if d > 6 {
			return absU
		}
		if a, ok := s.ints[v]; ok {
			return a
		}
		switch t := v.(type) {
		case *ssa.Const:
			if t.Value != nil && t.Value.Kind().String() == "Bool" {
				if t.Value.String() == "true" {
					return absP
				}
				return absZ
			}
			if k, ok := core.ConstInt(t); ok {
				if k == 0 {
					return absZ
				}
				if k > 0 {
					return absP
				}
			}
		case *ssa.Convert:
			return evalInt(s, f, t.X, d+1)
		case *ssa.ChangeType:
			return evalInt(s, f, t.X, d+1)
		case *ssa.UnOp:
			if t.Op == token.NOT {
				switch evalInt(s, f, t.X, d+1) {
				case absZ:
					return absP
				case absP:
					return absZ
				}
			}
		case *ssa.BinOp:
			if t.Op == token.ADD {
				if k, ok := core.ConstInt(t.Y); ok && k >= 0 {
					x := evalInt(s, f, t.X, d+1)
					if k == 0 {
						return x
					}
					if x != absU {
						return absP
					}
				}
			}
			if x, op, c, ok := core.CmpConst(t); ok {
				switch decideAbs(evalInt(s, f, x, d+1), op, c) {
				case 1:
					return absP
				case 0:
					return absZ
				}
			}
		case *ssa.Parameter, *ssa.FreeVar:
			if b, ok := f.bind[v]; ok && f.parent != nil {
				return evalInt(s, f.parent, b, d+1)
			}
		}
		return absU
	}
	var evalOff func(s *gsState, f *gsFrame, v ssa.Value, d int) (int, bool)
	evalOff = func(s *gsState, f *gsFrame, v ssa.Value, d int) (int, bool) {
		if d > 6 {
			return 0, false
		}
		if s.offKnown[v] {
			return s.offs[v], true
		}
		switch t := v.(type) {
		case *ssa.Const:
			if k, ok := core.ConstInt(t); ok && s.flushes < 3 {
				return int(k) - s.flushes, true
			}
		case *ssa.Convert:
			return evalOff(s, f, t.X, d+1)
		case *ssa.BinOp:
			if k, ok := core.ConstInt(t.Y); ok && (t.Op == token.ADD || t.Op == token.SUB) {
				if x, ok := evalOff(s, f, t.X, d+1); ok {
					if t.Op == token.ADD {
						return x + int(k), true
					}
					return x - int(k), true
				}
			}
		}
		return 0, false
	}

	type item struct {
		f     *gsFrame
		b     *ssa.BasicBlock
		idx   int
		pred  *ssa.BasicBlock
		s     *gsState
		trace []*ssa.BasicBlock
	}
	init := &gsState{buf: map[ssa.Value]int{P: absZ, R: absZ}, ints: map[ssa.Value]int{}, cells: map[ssa.Value]int{}, offs: map[ssa.Value]int{}, offKnown: map[ssa.Value]bool{},
		cellOff: map[ssa.Value]int{}, cellOffOK: map[ssa.Value]bool{}, lenValid: map[ssa.Value]bool{}, lenOf: map[ssa.Value]ssa.Value{}}
	rootFrame := &gsFrame{fn: fn, bind: map[ssa.Value]ssa.Value{}}
	work := []item{{rootFrame, fn.Blocks[0], 0, nil, init, nil}}
	visited := map[string]bool{}
	nstates := 0
	const maxStates = 40000
	for len(work) > 0 && nstates < maxStates {
		it := work[len(work)-1]
		work = work[:len(work)-1]
		s := it.s.clone()
		b, f := it.b, it.f
		if it.idx == 0 && it.pred != nil {
			pi := -1
			for i, p := range b.Preds {
				if p == it.pred {
					pi = i
				}
			}
			newInts := map[ssa.Value]int{}
			newOffs := map[ssa.Value]int{}
			newKnown := map[ssa.Value]bool{}
			for _, in := range b.Instrs {
				phi, ok := in.(*ssa.Phi)
				if !ok {
					break
				}
				if rowIdx[phi] {
					s.iterFresh = true
				}
				if isIntOrBool(phi.Type()) && pi >= 0 {
					newInts[phi] = evalInt(it.s, f, phi.Edges[pi], 0)
					if chain[phi] {
						if o, ok := evalOff(it.s, f, phi.Edges[pi], 0); ok {
							newOffs[phi], newKnown[phi] = o, true
						} else {
							newKnown[phi] = false
						}
					}
				}
			}
			for k, v := range newInts {
				s.ints[k] = v
			}
			for k, v := range newKnown {
				s.offKnown[k] = v
				s.offs[k] = newOffs[k]
			}
		}
		k := s.key(f, b, it.idx)
		if visited[k] {
			continue
		}
		visited[k] = true
		nstates++
		trace := it.trace
		if it.idx == 0 {
			trace = append(append([]*ssa.BasicBlock{}, it.trace...), b)
			if len(trace) > 24 {
				trace = trace[len(trace)-24:]
			}
		}
		// isRow in the current frame
		var isRow func(fr *gsFrame, v ssa.Value, d int) bool
		isRow = func(fr *gsFrame, v ssa.Value, d int) bool {
			if d > 4 || fr == nil {
				return false
			}
			for _, src := range core.Sources(v) {
				if uo, ok := src.(*ssa.UnOp); ok && uo.Op == token.MUL {
					if ia, ok := uo.X.(*ssa.IndexAddr); ok && core.Strip(fr.rv(ia.X)) == ssa.Value(rowsParam) {
						return true
					}
				}
				if ex, ok := src.(*ssa.Extract); ok {
					if nx, ok := ex.Tuple.(*ssa.Next); ok {
						if rg, ok := nx.Iter.(*ssa.Range); ok && core.Strip(fr.rv(rg.X)) == ssa.Value(rowsParam) {
							return true
						}
					}
				}
				if bv, ok := fr.bind[src]; ok && fr.parent != nil && bv != src {
					if isRow(fr.parent, bv, d+1) {
						return true
					}
				}
			}
			return false
		}
		dead := false
		for ii := it.idx; ii < len(b.Instrs) && !dead; ii++ {
			in := b.Instrs[ii]
			if v, ok := in.(ssa.Value); ok && rowIdx[v] {
				s.iterFresh = true
			}
			if isRowLoad(f, in) && s.iterFresh {
				if s.rowPending {
					report("row skipped: the next row is read although the previous one was not appended to any page", in.Pos(), trace)
				}
				s.rowPending, s.iterFresh = true, false
			}
			switch t := in.(type) {
			case *ssa.UnOp:
				if t.Op == token.MUL {
					if al, ok := f.rv(t.X).(*ssa.Alloc); ok && isIntOrBool(t.Type()) {
						if v, ok := s.cells[al]; ok {
							s.ints[t] = v
						} else {
							s.ints[t] = absU
						}
						if chain[al] {
							s.offs[t], s.offKnown[t] = s.cellOff[al], s.cellOffOK[al]
						}
					}
				}
			case *ssa.Store:
				if al, ok := f.rv(t.Addr).(*ssa.Alloc); ok && isIntOrBool(t.Val.Type()) {
					s.cells[al] = evalInt(s, f, t.Val, 0)
					if chain[al] {
						o, ok := evalOff(s, f, t.Val, 0)
						s.cellOff[al], s.cellOffOK[al] = o, ok
					}
				}
			case ssa.CallInstruction:
				m, recv0, isB := builderMethod(t)
				var recv ssa.Value
				if isB {
					recv = f.rv(recv0)
				}
				args := core.CallArgs(t)
				switch {
				case isB && recv == P && m == "WriteString" && isRow(f, args[1], 0):
					if s.rows >= 1 && !s.sep {
						report("row appended to a page that already holds rows without a separator between them (the rows run together; happens when the rows so far are all empty)", t.Pos(), trace)
					}
					if s.rows == 0 && s.sep {
						report("separator written before the first row of a page", t.Pos(), trace)
					}
					if !s.rowPending {
						report("row duplicated: a row is appended a second time", t.Pos(), trace)
					}
					s.rowPending = false
					s.rows, s.sep, s.flushed = 1, false, false
					if s.buf[P] != absP {
						s.buf[P] = absU
					}
					s.lenOf = map[ssa.Value]ssa.Value{}
				case isB && recv == P && (m == "WriteByte" || m == "WriteRune" || m == "WriteString"):
					if m == "WriteString" {
						if cs, ok := core.ConstString(args[1]); !ok || cs == "" {
							undecided = "unrecognised write to the page buffer at " + w.Pos(t.Pos())
						}
					}
					s.sep = true
					s.buf[P] = absP
					s.lenOf = map[ssa.Value]ssa.Value{}
				case isB && recv == P && m == "Reset":
					if s.rows >= 1 && !s.flushed {
						report("page buffer reset while it holds rows that were not emitted (rows lost)", t.Pos(), trace)
					}
					s.rows, s.sep, s.flushed = 0, false, false
					s.buf[P] = absZ
					s.lenOf = map[ssa.Value]ssa.Value{}
				case isB && recv == P && m == "Len":
					if v := core.CallValue(t); v != nil {
						s.ints[v] = s.buf[P]
						s.lenOf[v] = P
					}
				case isB && recv == P && m == "String":
				case isB && recv == R && m == "WriteString":
					fromP := false
					for _, src := range core.Sources(args[1]) {
						if sc, ok := src.(*ssa.Call); ok {
							if m2, recv2, ok := builderMethod(sc); ok && m2 == "String" && f.rv(recv2) == P {
								fromP = true
							}
						}
					}
					cs, isC := core.ConstString(args[1])
					switch {
					case fromP:
						s.flushed = true
						if s.flushes < 3 {
							s.flushes++
						}
						for k := range s.offs {
							s.offs[k]--
						}
						for k := range s.cellOff {
							s.cellOff[k]--
						}
					case isC && cs == "\n":
						if s.needCursor {
							report("two page separators written with one cursor between them", t.Pos(), trace)
						}
						s.needCursor = true
					default:
						undecided = "unrecognised write to the result buffer at " + w.Pos(t.Pos())
					}
					s.buf[R] = absU
					s.lenValid = map[ssa.Value]bool{}
				case isB && recv == R && (m == "WriteByte" || m == "WriteRune"):
					if s.needCursor {
						report("two page separators written with one cursor between them", t.Pos(), trace)
					}
					s.needCursor = true
					s.buf[R] = absP
					s.lenValid = map[ssa.Value]bool{}
				case isB && recv == R && m == "Len":
					if v := core.CallValue(t); v != nil {
						s.lenValid[v] = true
					}
				case isB && recv == R && m == "String":
				case isB && recv == R && m == "Reset":
					undecided = "result buffer reset at " + w.Pos(t.Pos())
				case isB:
					// a builder that is neither the page nor the result buffer
				case core.IsCallTo(t, "render.(*Sizer).AddCursor"):
					valid := false
					var chk func(fr *gsFrame, v ssa.Value, d int)
					chk = func(fr *gsFrame, v ssa.Value, d int) {
						if fr == nil || d > 4 {
							return
						}
						for _, src := range core.Sources(v) {
							if s.lenValid[src] {
								valid = true
							}
							if bv, ok := fr.bind[src]; ok && fr.parent != nil && bv != src {
								chk(fr.parent, bv, d+1)
							}
						}
					}
					chk(f, args[1], 0)
					if !valid {
						report("cursor value is not the length of the result taken after the page separator was written", t.Pos(), trace)
					}
					if !s.needCursor {
						report("cursor added without a page separator before it", t.Pos(), trace)
					}
					s.needCursor = false
				default:
					// inline closures and unit helpers
					var callee *ssa.Function
					bind := map[ssa.Value]ssa.Value{}
					if mc, ok := t.Common().Value.(*ssa.MakeClosure); ok {
						callee = mc.Fn.(*ssa.Function)
						for i, fv := range callee.FreeVars {
							if i < len(mc.Bindings) {
								bind[fv] = f.rv(mc.Bindings[i])
							}
						}
					} else if g := core.StaticCallee(t); g != nil && inUnit[g] && g != fn {
						callee = g
					}
					if callee != nil && len(callee.Blocks) > 0 {
						depth := 0
						for x := f; x != nil; x = x.parent {
							depth++
						}
						if _, isDefer := t.(*ssa.Defer); isDefer || depth > 3 {
							undecided = "deferred or deeply nested helper call at " + w.Pos(t.Pos())
							break
						}
						for i, p := range callee.Params {
							if i < len(args) {
								bind[p] = f.rv(args[i])
							}
						}
						nf := &gsFrame{fn: callee, bind: bind, parent: f, retB: b, retI: ii + 1, site: t}
						work = append(work, item{nf, callee.Blocks[0], 0, nil, s, trace})
						dead = true
						break
					}
					// any other call that is handed one of the buffers
					for _, a := range args {
						if ra := f.rv(a); ra == P || ra == R {
							undecided = "builder handed to " + core.CallName(t) + " at " + w.Pos(t.Pos())
						}
					}
				}
			case *ssa.Return:
				if f.parent != nil {
					// back to the caller
					ns := s
					if v := core.CallValue(f.site); v != nil && isIntOrBool(v.Type()) && len(t.Results) == 1 {
						ns.ints[v] = evalInt(s, f, t.Results[0], 0)
					}
					work = append(work, item{f.parent, f.retB, f.retI, nil, ns, trace})
					dead = true
					break
				}
				if succRet[t] {
					if s.rows >= 1 && !s.flushed {
						report("success return while the page under construction holds rows that were not emitted (the last rows are lost; happens when they are all empty)", t.Pos(), trace)
					}
					if s.needCursor {
						report("success return with a page separator that has no cursor", t.Pos(), trace)
					}
					if s.rowPending {
						report("row skipped: success return although the row read last was not appended to any page", t.Pos(), trace)
					}
					if o, ok := evalOff(s, f, core.ReturnValue(t, countIdx), 0); ok {
						if o != 0 {
							report(fmt.Sprintf("returned page count differs from the number of pages emitted by %+d", o), t.Pos(), trace)
						}
					} else if s.flushes < 3 {
						undecided = "cannot relate the returned page count to the pages emitted at " + w.Pos(t.Pos())
					}
				}
				dead = true
			case *ssa.Panic:
				dead = true
			case *ssa.If:
				base, neg := t.Cond, false
				for {
					uo, ok := base.(*ssa.UnOp)
					if !ok || uo.Op != token.NOT {
						break
					}
					base, neg = uo.X, !neg
				}
				res := -1
				refine := func(ns *gsState, taken bool) {}
				if bo, ok := base.(*ssa.BinOp); ok {
					if x, op, c, ok := core.CmpConst(bo); ok {
						res = decideAbs(evalInt(s, f, x, 0), op, c)
						xx := x
						refine = func(ns *gsState, taken bool) {
							okZ := decideAbs(absZ, op, c)
							okP := decideAbs(absP, op, c)
							want := 0
							if taken {
								want = 1
							}
							nv := absU
							if okZ != -1 && okZ != want {
								nv = absP
							}
							if okP != -1 && okP != want {
								nv = absZ
							}
							if nv == absU {
								return
							}
							if _, tracked := ns.ints[xx]; tracked {
								ns.ints[xx] = nv
							}
							if bufv, ok := ns.lenOf[xx]; ok {
								ns.buf[bufv] = nv
							}
							if uo, ok := xx.(*ssa.UnOp); ok && uo.Op == token.MUL {
								if al, ok := f.rv(uo.X).(*ssa.Alloc); ok {
									ns.cells[al] = nv
								}
							}
						}
					}
				} else if isIntOrBool(base.Type()) {
					switch evalInt(s, f, base, 0) {
					case absP:
						res = 1
					case absZ:
						res = 0
					}
					bb := base
					refine = func(ns *gsState, taken bool) {
						nv := absZ
						if taken {
							nv = absP
						}
						if _, tracked := ns.ints[bb]; tracked {
							ns.ints[bb] = nv
						}
						if uo, ok := bb.(*ssa.UnOp); ok && uo.Op == token.MUL {
							if al, ok := f.rv(uo.X).(*ssa.Alloc); ok {
								ns.cells[al] = nv
							}
						}
					}
				}
				for si, succ := range b.Succs {
					taken := (si == 0) != neg // value of base on this edge
					if res == 1 && !taken || res == 0 && taken {
						continue
					}
					ns := s.clone()
					if res == -1 {
						refine(ns, taken)
					}
					work = append(work, item{f, succ, 0, b, ns, trace})
				}
				dead = true
			case *ssa.Jump:
				work = append(work, item{f, b.Succs[0], 0, b, s, trace})
				dead = true
			}
		}
	}
	r.Info(rule, "row grouping: abstract states explored", fn.Pos(), fmt.Sprintf("%d states over %d function(s) rooted at %s", nstates, len(u.funcs), core.QName(fn)))
	if undecided != "" || nstates >= maxStates {
		if undecided == "" {
			undecided = "state space exceeds the exploration bound"
		}
		r.Undecided(rule, "row grouping: typestate analysis", fn.Pos(), undecided)
		return
	}
	kinds := []struct {
		key   string
		match func(string) bool
	}{
		{"row grouping: one separator between consecutive rows of a page", func(k string) bool {
			return strings.Contains(k, "without a separator") || strings.Contains(k, "separator written before")
		}},
		{"row grouping: every page that holds rows is emitted", func(k string) bool { return strings.Contains(k, "not emitted") }},
		{"row grouping: page count equals pages emitted", func(k string) bool { return strings.Contains(k, "page count") }},
		{"row grouping: one cursor per page separator, at the offset behind it", func(k string) bool { return strings.Contains(k, "cursor") }},
		{"row grouping: every row read is appended to a page exactly once", func(k string) bool {
			return strings.HasPrefix(k, "row skipped") || strings.HasPrefix(k, "row duplicated")
		}},
	}
	for _, k := range kinds {
		var hit *gsViolation
		for i := range viols {
			if k.match(viols[i].kind) && hit == nil {
				hit = &viols[i]
			}
		}
		if hit != nil {
			r.Bad(rule, k.key, hit.pos, hit.kind, "path: "+hit.path)
		} else {
			r.OK(rule, k.key, fn.Pos(), "holds in every abstract state")
		}
	}
}

func allInstrs(f *ssa.Function) []ssa.Instruction {
	var out []ssa.Instruction
	for _, b := range f.Blocks {
		out = append(out, b.Instrs...)
	}
	return out
}
