package rules

import (
	"fmt"
	"go/token"
	"go/types"
	"strings"

	"golang.org/x/tools/go/ssa"

	"vischeck/internal/core"
)

func init() {
	register("C09", PropCheck{
		Title:      "The symbol cache enforces its limits and accounts for every byte",
		Explain:    "Inductive step of the accounting invariant, decided per method of cache.Cache: (R1) no conversion to an integer type narrower than 32 bits is applied to a length that then takes part in a comparison; (R2) every success path of Add and Update passes the per-symbol limit comparison (len(value) against the limit given to Add / recorded in Sizes[key]) on its 'within limit' edge or the 'limit is 0' edge, and the capacity oracle's 'fits' edge (or the empty-value edge), and the oracle compares CacheUseSize+len(value) with CacheSize; (R3) every success path of Add passes the 'key not defined in any frame' edge of the frame lookup (directly, or as the success edge of an error-returning helper whose own success returns all lie behind it); (R4) every store to CacheUseSize is 0, or self +/- a length of a value stored to / loaded from / ranged over a frame map (or the oracle's result for such a value); every method that changes frame contents or drops frames adjusts CacheUseSize; the frame list only grows by appending a freshly made map and only shrinks by re-slicing to a shorter prefix; (R5) on every path to an error return of Add/Update each write to Cache state is followed by a restoring write (old map value / inverse adjustment with the same operand) - a rejected operation leaves the cache unchanged; (R6) Pop deletes the Sizes entry of every key of the frame it removes; (R7) at every call of Add in package vm (the LOAD handler today) the limit argument is a size operand decoded from the program, and its conversion to the cache's limit type is proved lossless by a dominating range check (a declared limit must not wrap to 0 = 'no limit', and a symbol must not be re-added with a limit taken from anywhere else); (R8) an entry of Sizes is deleted only together with its symbol: the key of every delete(Sizes, k) ranges over a frame map that is being dropped, never over Sizes itself (added after seeded change C09-H, a clean-up loop in Reset that deleted the limits of the symbols that stay). (R9) the persister empties the session's cache object but never replaces it: every store to Persister.Memory takes a parameter or a cache that went through WithCacheSize (added after seeded change C09-J). (R10) every Cache.WithCacheSize call in package engine lies behind the CacheSize > 0 edge (added after seeded change C09-L). (R11) the frame lookup (the function whose integer result Add compares with -1, also when the test sits in a helper of Add) and the package functions it calls read no field of Cache other than the frame list: whether a symbol is defined is never answered from the accounting (added after seeded change C09-M, an early 'nothing stored' return on CacheUseSize == 0 that hides symbols with empty values).",
		NotDecided: "the numeric invariant CacheUseSize = sum of lengths over whole histories (R4/R5 are its inductive step); lengths of 4 GiB and more (uint32 accounting); Reset leaving Sizes entries of dropped frames (reported as information only).",
		Assume:     []string{"value lengths are below 2^32"},
		Run:        runC09,
	})
}

func isCacheField(v ssa.Value, field string) bool {
	for _, s := range core.Sources(v) {
		if t, f, ok := core.LoadedField(s); ok && t == "cache.Cache" && f == field {
			return true
		}
	}
	return false
}

// isFrameMap: v is a map loaded from an element of Cache.Cache.
func isFrameMap(v ssa.Value) bool {
	for _, s := range core.Sources(v) {
		if u, ok := s.(*ssa.UnOp); ok && u.Op == token.MUL {
			if ia, ok := u.X.(*ssa.IndexAddr); ok && isCacheField(ia.X, "Cache") {
				return true
			}
		}
	}
	return false
}

// lenArgs returns the values whose len() v derives from (through conversions and the oracle).
func lenArgs(v ssa.Value, oracles map[*ssa.Function]bool) []ssa.Value {
	var out []ssa.Value
	for _, s := range core.Sources(v) {
		c, ok := s.(*ssa.Call)
		if !ok {
			continue
		}
		if core.IsCallTo(c, "builtin.len") {
			out = append(out, c.Call.Args[0])
		} else if f := core.StaticCallee(c); f != nil && oracles[f] {
			out = append(out, c.Call.Args[len(c.Call.Args)-1])
		}
	}
	return out
}

func capacityOracles(w *core.World) map[*ssa.Function]bool {
	out := map[*ssa.Function]bool{}
	add, upd := w.Func("cache", "(*Cache).Add"), w.Func("cache", "(*Cache).Update")
	if add == nil || upd == nil {
		return out
	}
	called := func(fn *ssa.Function) map[*ssa.Function]bool {
		m := map[*ssa.Function]bool{}
		for _, c := range core.Calls(fn) {
			if f := core.StaticCallee(c); f != nil && core.PkgOf(f) == "cache" {
				m[f] = true
			}
		}
		return m
	}
	a, u := called(add), called(upd)
	for f := range a {
		if !u[f] {
			continue
		}
		for _, b := range f.Blocks {
			for _, in := range b.Instrs {
				if v, ok := in.(ssa.Value); ok {
					if _, fld, ok := core.LoadedField(v); ok && fld == "CacheSize" {
						out[f] = true
					}
				}
			}
		}
	}
	return out
}

func runC09(w *core.World, r *core.Report) {
	r.Rule("R1", "no narrowing (<32 bit) conversion of a length that takes part in a comparison, in package cache")
	r.Rule("R2", "Add/Update success paths pass the per-symbol limit test and the capacity oracle's 'fits' edge; oracle compares CacheUseSize+len with CacheSize")
	r.Rule("R3", "Add success paths pass the 'not defined in any frame' edge")
	r.Rule("R4", "CacheUseSize stores are 0 or self +/- len(frame value); frame list grows only by append(fresh map), shrinks only by shorter prefix")
	r.Rule("R5", "every write before an error return of Add/Update is restored on the way to it")
	r.Rule("R6", "Pop deletes Sizes[k] for every key of the removed frame")
	r.Rule("R11", "the frame lookup answers from the frames alone (reads no accounting field)")
	r.Rule("R10", "the engine sets a cache capacity only from a positive Config.CacheSize")
	r.Rule("R9", "the persister empties the session's cache object but never replaces it (the object carries the configured capacity)")
	r.Rule("R8", "a size limit is deleted only together with its symbol: the key of every delete(Sizes, k) ranges over a frame that is being dropped")
	r.Rule("R7", "the limit handed to Add by the LOAD handler is the instruction's size operand, converted without loss")

	oracles := capacityOracles(w)
	add := anchor(w, r, "cache", "(*Cache).Add")
	upd := anchor(w, r, "cache", "(*Cache).Update")
	pop := anchor(w, r, "cache", "(*Cache).Pop")
	if add == nil || upd == nil || pop == nil {
		return
	}
	if len(oracles) == 0 {
		r.Undecided("R2", "capacity oracle", add.Pos(), "no function called by both Add and Update reads CacheSize")
	}

	checkCacheLimits(w, r, oracles, add, upd, "R1", "R2")
	for f := range oracles {
		checkOracle(w, r, f)
	}
	// R3: Add - not defined in any frame
	{
		cut, n := notDefinedEdges(add, 0)
		if n == 0 {
			r.Bad("R3", "cache.(*Cache).Add: single scope per symbol", add.Pos(), "Add does not test whether the key is already defined in some frame")
		} else {
			in, path := core.Reach(core.Entry(add), isSuccessReturnPred(add), core.NewCut().AddEdge(cut...))
			r.Check(in == nil, "R3", "cache.(*Cache).Add: single scope per symbol", add.Pos(), "every success path passes the 'not found in any frame' edge",
				"a key can be added although it is defined in another frame: "+w.PathString(path))
		}
	}

	checkCacheAccounting(w, r, oracles, add, upd, pop, "R4", "R5", "R6")
	checkFrameLookupReadsFramesOnly(w, r, "R11", add)

	// R8
	checkSizesDeletedWithFrame(w, r, "R8")
	checkPersisterKeepsMemory(w, r, "R9")
	checkCapacityWiring(w, r, "R10")

	// R7: the per-symbol limit the program declares is the limit the cache enforces - at every
	// place in package vm that adds a symbol
	labels7 := roleLabels(w, r)
	n := 0
	for _, h := range w.FuncsIn("vm") {
		for _, c := range core.CallsTo(h, "cache.Memory.Add", "cache.(*Cache).Add") {
			args := core.CallArgs(c)
			lim := args[len(args)-1]
			n++
			okLim := false
			why := "the limit argument does not derive from the LOAD instruction's size operand"
			limSrcs, limArgs := sourcesViaParams(w, h, lim)
			for _, src := range limSrcs {
				if cc, i, ok := core.ExtractOf(src); ok && i == 1 && isDecoderCall(cc) {
					okLim = true
				}
			}
			if okLim {
				scopeFns := []*ssa.Function{h}
				for _, a := range limArgs {
					if in, ok := a.(ssa.Instruction); ok && in.Parent() != h {
						scopeFns = append(scopeFns, in.Parent())
					}
				}
				for _, s := range narrowingSites(w, scopeFns) {
					for _, src := range append(append(append([]ssa.Value{}, limSrcs...), limArgs...), lim) {
						if src == ssa.Value(s.conv) && s.class != "proved" {
							okLim = false
							why = "the size operand is narrowed to the cache's limit type without a range check: a declared limit of 65536 becomes 0 ('no limit') and larger ones an arbitrary small limit"
						}
					}
				}
			}
			key := "declared size limit reaches the cache unchanged"
			if n > 1 {
				key = fmt.Sprintf("%s #%d", key, n)
			}
			r.Touch(core.QName(h))
			r.Check(okLim, "R7", label(labels7, h)+": "+key, c.Pos(), "operand of the instruction, conversion proved lossless", why)
		}
	}
	r.Floor("R7", "Add calls in package vm", n, 1)
}

// isDecoderCall: a call of a bytecode decoder of package vm (Parse*).
func isDecoderCall(c *ssa.Call) bool {
	g := core.StaticCallee(c)
	return g != nil && core.PkgOf(g) == "vm" && strings.HasPrefix(g.Name(), "Parse")
}

// checkCacheAccounting holds the accounting rules (C09 R4-R6); C08 R5 evaluates the same rules.
func checkCacheAccounting(w *core.World, r *core.Report, oracles map[*ssa.Function]bool, add, upd, pop *ssa.Function, r4, r5, r6 string) {
	// ---- R4 -----------------------------------------------------------------------------------
	nacct := 0
	for _, fn := range w.FuncsIn("cache") {
		var useStores []*ssa.Store
		changesFrames := false
		for _, b := range fn.Blocks {
			for _, in := range b.Instrs {
				switch t := in.(type) {
				case *ssa.Store:
					if tn, f, ok := core.FieldOfAddr(t.Addr); ok && tn == "cache.Cache" {
						switch f {
						case "CacheUseSize":
							useStores = append(useStores, t)
						case "Cache":
							cl := classifyFrameListStore(t)
							nacct++
							okc := cl == "append(self, fresh map)" || strings.HasPrefix(cl, "self[:")
							r.Check(okc, r4, core.QName(fn)+": frame list update", t.Pos(), cl,
								"the frame list is changed by "+cl+": frames may be resurrected or shared without accounting")
							if strings.HasPrefix(cl, "self[:") {
								changesFrames = true
							}
						}
					}
				case *ssa.MapUpdate:
					if isFrameMap(t.Map) {
						changesFrames = true
					}
				case *ssa.Call:
					if core.IsCallTo(t, "builtin.delete") && isFrameMap(t.Call.Args[0]) {
						changesFrames = true
					}
				}
			}
		}
		if fn.Name() == "NewCache" {
			continue
		}
		if changesFrames {
			nacct++
			r.Touch(core.QName(fn))
			adjusts := len(useStores) > 0
			if !adjusts {
				// the adjustment may have been moved into a helper of the package
				for _, g := range cachePkgCallees(fn) {
					for _, in := range allInstrs(g) {
						if st, ok := in.(*ssa.Store); ok {
							if tn, f, ok := core.FieldOfAddr(st.Addr); ok && tn == "cache.Cache" && f == "CacheUseSize" {
								adjusts = true
							}
						}
					}
				}
			}
			r.Check(adjusts, r4, core.QName(fn)+": accounting present", fn.Pos(), "adjusts CacheUseSize",
				"frame contents change but CacheUseSize is not adjusted: the reported size no longer equals the stored bytes")
		}
		for _, st := range useStores {
			nacct++
			cl, okc := classifyUseSizeStore(fn, st, oracles)
			r.Check(okc, r4, core.QName(fn)+": CacheUseSize update", st.Pos(), cl, "CacheUseSize is adjusted by "+cl+", not by the length of the value stored/removed")
		}
	}
	r.Floor(r4, "accounting sites", nacct, 10)

	// ---- R5 -----------------------------------------------------------------------------------
	for _, fn := range []*ssa.Function{add, upd} {
		checkRollback(w, r, fn, oracles, r5)
	}

	// ---- R6 -----------------------------------------------------------------------------------
	{
		// the range over the removed frame: keys must be deleted from Sizes
		okDel := false
		var rng *ssa.Range
		rngFn := pop
		for _, g := range append([]*ssa.Function{pop}, cachePkgCallees(pop)...) {
			if rng != nil {
				break
			}
			for _, in := range allInstrs(g) {
				if rg, ok := in.(*ssa.Range); ok && isFrameMap(rg.X) {
					rng = rg
					rngFn = g
				}
			}
		}
		if rng == nil {
			r.Bad(r6, "cache.(*Cache).Pop: releases sizes", pop.Pos(), "Pop does not range over the removed frame")
		} else {
			for _, c := range core.CallsTo(rngFn, "builtin.delete") {
				args := c.Common().Args
				if len(args) == 2 && isCacheField(args[0], "Sizes") {
					// key is the range key
					for _, s := range core.Sources(args[1]) {
						if ex, ok := s.(*ssa.Extract); ok && ex.Index == 1 {
							if nx, ok := ex.Tuple.(*ssa.Next); ok && nx.Iter == ssa.Value(rng) {
								okDel = true
							}
						}
					}
				}
			}
			r.Check(okDel, r6, "cache.(*Cache).Pop: releases sizes", rng.Pos(), "delete(Sizes, k) for every key of the removed frame",
				"leaving a scope does not delete the size limits of its symbols: a later Add of the same key in another scope inherits a stale limit")
		}
	}
}

// valueParamOf: the string parameter stored as Value of a MapUpdate on a frame map.
func valueParamOf(fn *ssa.Function) *ssa.Parameter {
	for _, b := range fn.Blocks {
		for _, in := range b.Instrs {
			if mu, ok := in.(*ssa.MapUpdate); ok && isFrameMap(mu.Map) {
				if p, ok := mu.Value.(*ssa.Parameter); ok {
					return p
				}
			}
		}
	}
	return nil
}

// isLimitValue: v derives from the size-limit parameter (uint16) or from a lookup in Cache.Sizes.
func isLimitValue(fn *ssa.Function, v ssa.Value) bool {
	for _, s := range core.Sources(v) {
		if p, ok := s.(*ssa.Parameter); ok {
			if bt, ok := p.Type().Underlying().(*types.Basic); ok && bt.Kind() == types.Uint16 {
				return true
			}
		}
		if lk, ok := s.(*ssa.Lookup); ok && isCacheField(lk.X, "Sizes") {
			return true
		}
	}
	return false
}

func checkOracle(w *core.World, r *core.Report, f *ssa.Function) {
	r.Touch(core.QName(f))
	key := core.QName(f) + ": compares used+len with capacity"
	ok := false
	var cmp *ssa.BinOp
	for _, b := range f.Blocks {
		for _, in := range b.Instrs {
			bo, isBo := in.(*ssa.BinOp)
			if !isBo || (bo.Op != token.GTR && bo.Op != token.GEQ && bo.Op != token.LSS && bo.Op != token.LEQ) {
				continue
			}
			sumSide, capSide := bo.X, bo.Y
			if bo.Op == token.LSS || bo.Op == token.LEQ {
				sumSide, capSide = bo.Y, bo.X
			}
			if !isCacheField(capSide, "CacheSize") {
				continue
			}
			sum, isSum := sumSide.(*ssa.BinOp)
			if !isSum || sum.Op != token.ADD {
				continue
			}
			hasUse := isCacheField(sum.X, "CacheUseSize") || isCacheField(sum.Y, "CacheUseSize")
			hasLen := false
			for _, side := range []ssa.Value{sum.X, sum.Y} {
				for _, a := range lenArgs(side, nil) {
					if paramIndex(a) >= 1 {
						hasLen = true
					}
				}
			}
			if hasUse && hasLen {
				ok = true
				cmp = bo
			}
		}
	}
	if !ok {
		r.Bad("R2", key, f.Pos(), "the oracle does not compare CacheUseSize + len(value) with CacheSize")
		return
	}
	// the zero ("exceeded") return is behind the exceeding edge; other returns yield the length
	exceedTrue := true // normalised above: cmp true <=> sum > cap
	bad := ""
	for _, b := range f.Blocks {
		ret, isRet := b.Instrs[len(b.Instrs)-1].(*ssa.Return)
		if !isRet {
			continue
		}
		if c, isC := core.ConstInt(ret.Results[0]); isC && c == 0 {
			if okp, _ := core.MustPass(ret, core.NewCut().AddEdge(core.EdgesWhere(cmp, exceedTrue)...)); !okp {
				bad = "returns 0 without the exceeding comparison"
			}
		} else {
			// returning a size: must not be reachable through the exceeding edge
			if in, _ := core.Reach(core.Entry(f), core.IsInstr(ret), core.NewCut().AddEdge(core.EdgesWhere(cmp, !exceedTrue)...)); in != nil {
				// reachable while avoiding the "fits" edge: fine only if it also avoids the comparison (capacity 0 = unlimited)
				if okp, _ := core.MustPass(ret, core.NewCut().AddEdge(core.EdgesWhere(cmp, exceedTrue)...)); okp {
					bad = "returns a size on the exceeding edge"
				}
			}
		}
	}
	r.Check(bad == "", "R2", key, cmp.Pos(), "0 exactly on the exceeding edge", bad)
}

func classifyFrameListStore(st *ssa.Store) string {
	v := st.Val
	switch t := v.(type) {
	case *ssa.Call:
		if core.IsCallTo(t, "builtin.append") && len(t.Call.Args) == 2 && isCacheField(t.Call.Args[0], "Cache") {
			if sl, ok := t.Call.Args[1].(*ssa.Slice); ok {
				if a, ok := sl.X.(*ssa.Alloc); ok {
					if refs := a.Referrers(); refs != nil {
						for _, rr := range *refs {
							if ia, ok := rr.(*ssa.IndexAddr); ok {
								if ir := ia.Referrers(); ir != nil {
									for _, s := range *ir {
										if sst, ok := s.(*ssa.Store); ok {
											if _, ok := sst.Val.(*ssa.MakeMap); ok {
												return "append(self, fresh map)"
											}
										}
									}
								}
							}
						}
					}
				}
			}
			return "append(self, non-fresh map)"
		}
	case *ssa.Slice:
		if isCacheField(t.X, "Cache") && t.Low == nil && t.High != nil {
			if c, ok := core.ConstInt(t.High); ok {
				return fmt.Sprintf("self[:%d]", c)
			}
			// len(self) - k, k >= 0
			hv := t.High
			if bo, ok := hv.(*ssa.BinOp); ok && bo.Op == token.SUB {
				if c, ok := core.ConstInt(bo.Y); ok && c >= 0 {
					for _, s := range core.Sources(bo.X) {
						if lc, ok := s.(*ssa.Call); ok && core.IsCallTo(lc, "builtin.len") && isCacheField(lc.Call.Args[0], "Cache") {
							return fmt.Sprintf("self[:len-%d]", c)
						}
					}
				}
			}
			return "self[:<unbounded>] (possible re-extension)"
		}
	case *ssa.MakeSlice:
		return "fresh list"
	}
	if _, ok := v.(*ssa.Slice); ok {
		if sl := v.(*ssa.Slice); sl != nil {
			if a, ok := sl.X.(*ssa.Alloc); ok && strings.HasPrefix(a.Type().String(), "*[1]") {
				return "self[:1] literal"
			}
		}
	}
	return "other (" + v.String() + ")"
}

// classifyUseSizeStore: value class of a store to Cache.CacheUseSize.
func classifyUseSizeStore(fn *ssa.Function, st *ssa.Store, oracles map[*ssa.Function]bool) (string, bool) {
	v := st.Val
	if c, ok := core.ConstInt(v); ok {
		return fmt.Sprintf("const %d", c), c == 0
	}
	if p, ok := v.(*ssa.Parameter); ok && fn.Name() == "WithCacheSize" {
		_ = p
	}
	// a recount in a local: an accumulator that starts at 0 and only ever grows by the length of a
	// frame value (sum over the kept frame), stored once
	if acc, ok := v.(*ssa.Phi); ok {
		okAcc, n := true, 0
		for _, e := range acc.Edges {
			if c, isC := core.ConstInt(e); isC {
				if c != 0 {
					okAcc = false
				}
				continue
			}
			ab, isB := e.(*ssa.BinOp)
			if !isB || ab.Op != token.ADD {
				okAcc = false
				continue
			}
			other := ab.Y
			if ab.X != ssa.Value(acc) {
				if ab.Y == ssa.Value(acc) {
					other = ab.X
				} else {
					okAcc = false
					continue
				}
			}
			args := lenArgs(other, oracles)
			if len(args) == 0 {
				okAcc = false
			}
			for _, a := range args {
				if !isFrameValue(fn, a) {
					okAcc = false
				}
			}
			n++
		}
		if okAcc && n > 0 {
			return "recount: sum of len(frame value) from 0", true
		}
	}
	bo, ok := v.(*ssa.BinOp)
	if !ok || (bo.Op != token.ADD && bo.Op != token.SUB) {
		return "other (" + v.String() + ")", false
	}
	self, operand := bo.X, bo.Y
	if !isCacheField(self, "CacheUseSize") {
		if bo.Op == token.ADD && isCacheField(operand, "CacheUseSize") {
			self, operand = operand, self
		} else {
			return "not relative to the old CacheUseSize", false
		}
	}
	args := lenArgs(operand, oracles)
	if len(args) == 0 {
		return "self " + bo.Op.String() + " non-length operand", false
	}
	for _, a := range args {
		if !isFrameValue(fn, a) {
			return "self " + bo.Op.String() + " len(" + a.Name() + ") where " + a.Name() + " is not a frame value", false
		}
	}
	return "self " + bo.Op.String() + " len(frame value)", true
}

// isFrameValue: a is a string stored into a frame map in fn, looked up from one, or ranged over one.
func isFrameValue(fn *ssa.Function, a ssa.Value) bool {
	for _, s := range core.Sources(a) {
		switch t := s.(type) {
		case *ssa.Lookup:
			if isFrameMap(t.X) {
				return true
			}
		case *ssa.Extract:
			if nx, ok := t.Tuple.(*ssa.Next); ok && t.Index == 2 {
				if rg, ok := nx.Iter.(*ssa.Range); ok && isFrameMap(rg.X) {
					return true
				}
			}
			// v, ok := m[k]
			if lk, ok := t.Tuple.(*ssa.Lookup); ok && isFrameMap(lk.X) && t.Index == 0 {
				return true
			}
		case *ssa.Parameter:
			for _, b := range fn.Blocks {
				for _, in := range b.Instrs {
					if mu, ok := in.(*ssa.MapUpdate); ok && isFrameMap(mu.Map) && mu.Value == ssa.Value(t) {
						return true
					}
				}
			}
		}
	}
	return false
}

// checkRollback implements R5 for one method.
func checkRollback(w *core.World, r *core.Report, fn *ssa.Function, oracles map[*ssa.Function]bool, r5 string) {
	type write struct {
		in   ssa.Instruction
		loc  string
		desc string
	}
	var writes []write
	for _, b := range fn.Blocks {
		for _, in := range b.Instrs {
			switch t := in.(type) {
			case *ssa.Store:
				if tn, f, ok := core.FieldOfAddr(t.Addr); ok && tn == "cache.Cache" {
					writes = append(writes, write{t, f, "store to " + f})
				}
			case *ssa.MapUpdate:
				if isFrameMap(t.Map) {
					writes = append(writes, write{t, "frame[" + t.Key.Name() + "]", "frame map update"})
				} else if isCacheField(t.Map, "Sizes") {
					writes = append(writes, write{t, "Sizes[" + t.Key.Name() + "]", "Sizes update"})
				}
			case *ssa.Call:
				if core.IsCallTo(t, "builtin.delete") && (isFrameMap(t.Call.Args[0]) || isCacheField(t.Call.Args[0], "Sizes")) {
					writes = append(writes, write{t, "delete", "delete from cache map"})
				}
			}
		}
	}
	// restoring writes: MapUpdate whose value is a Lookup of the same map/key; CacheUseSize store
	// self + X where another store in fn did self - X with the same X
	restoring := map[ssa.Instruction]bool{}
	for _, wv := range writes {
		switch t := wv.in.(type) {
		case *ssa.MapUpdate:
			for _, s := range core.Sources(t.Value) {
				if lk, ok := s.(*ssa.Lookup); ok && isFrameMap(lk.X) && lk.Index == t.Key {
					restoring[t] = true
				}
			}
		case *ssa.Store:
			if wv.loc != "CacheUseSize" {
				continue
			}
			bo, ok := t.Val.(*ssa.BinOp)
			if !ok || bo.Op != token.ADD {
				continue
			}
			for _, w2 := range writes {
				s2, ok := w2.in.(*ssa.Store)
				if !ok || w2.loc != "CacheUseSize" || s2 == t {
					continue
				}
				b2, ok := s2.Val.(*ssa.BinOp)
				if ok && b2.Op == token.SUB && (b2.Y == bo.Y || b2.Y == bo.X) {
					restoring[t] = true
				}
			}
		}
	}
	nret := 0
	for _, b := range fn.Blocks {
		ret, ok := b.Instrs[len(b.Instrs)-1].(*ssa.Return)
		if !ok || !isErrorReturn(ret) {
			continue
		}
		nret++
		bad := ""
		for _, wv := range writes {
			if restoring[wv.in] {
				continue
			}
			cut := core.NewCut()
			for _, w2 := range writes {
				if restoring[w2.in] && sameLocKind(w2.loc, wv.loc) {
					cut.AddInstr(w2.in)
				}
			}
			if in, path := core.Reach(core.After(wv.in), core.IsInstr(ret), cut); in != nil {
				bad = fmt.Sprintf("%s at %s reaches the error return at %s without being restored (%s)", wv.desc, w.Pos(wv.in.Pos()), w.Pos(ret.Pos()), w.PathString(path))
			}
		}
		r.Check(bad == "", r5, fmt.Sprintf("%s: error return unchanged", core.QName(fn)), ret.Pos(), "no unrestored write reaches this error return",
			"a rejected operation changes the cache: "+bad)
	}
	r.Floor(r5, "error returns of "+core.QName(fn), nret, 2)
}

func sameLocKind(a, b string) bool {
	if a == b {
		return true
	}
	return strings.HasPrefix(a, "frame[") && strings.HasPrefix(b, "frame[")
}

// limitEdges returns the edges of fn on which the per-symbol limit is known to be respected for
// value v (a parameter of fn): the 'within limit' edge of a comparison of len(v) with the limit,
// the 'limit is 0' edge, and - when the comparison lives in a helper of package cache that
// receives v and whose own success paths all pass it - the helper call's success edge.
func limitEdges(fn *ssa.Function, v *ssa.Parameter, depth int) ([]core.Edge, int) {
	var cut []core.Edge
	n := 0
	isLen := func(x ssa.Value) bool {
		for _, a := range lenArgs(x, nil) {
			if a == ssa.Value(v) {
				return true
			}
		}
		return false
	}
	isLimit := func(x ssa.Value) bool { return isLimitValue(fn, x) }
	for _, b := range fn.Blocks {
		for _, in := range b.Instrs {
			switch bo := in.(type) {
			case *ssa.BinOp:
				switch bo.Op {
				case token.GTR, token.GEQ, token.LSS, token.LEQ:
					if isLen(bo.X) && isLimit(bo.Y) {
						n++
						exceedsWhenTrue := bo.Op == token.GTR || bo.Op == token.GEQ
						cut = append(cut, core.EdgesWhere(bo, !exceedsWhenTrue)...)
					} else if isLen(bo.Y) && isLimit(bo.X) {
						n++
						exceedsWhenTrue := bo.Op == token.LSS || bo.Op == token.LEQ
						cut = append(cut, core.EdgesWhere(bo, !exceedsWhenTrue)...)
					}
					if x, op, c, ok := core.CmpConst(bo); ok && c == 0 && isLimit(x) {
						switch op {
						case token.GTR:
							cut = append(cut, core.EdgesWhere(bo, false)...)
						case token.LEQ:
							cut = append(cut, core.EdgesWhere(bo, true)...)
						}
					}
				case token.EQL, token.NEQ:
					if x, op, c, ok := core.CmpConst(bo); ok && c == 0 && isLimit(x) {
						cut = append(cut, core.EdgesWhere(bo, op == token.EQL)...)
					}
				}
			case *ssa.Call:
				h := core.StaticCallee(bo)
				if h == nil || core.PkgOf(h) != "cache" || depth >= 2 || h == fn {
					continue
				}
				for i, a := range bo.Call.Args {
					if a != ssa.Value(v) || i >= len(h.Params) {
						continue
					}
					hc, hn := limitEdges(h, h.Params[i], depth+1)
					if hn == 0 {
						continue
					}
					if in, _ := core.Reach(core.Entry(h), isSuccessReturnPred(h), core.NewCut().AddEdge(hc...)); in != nil {
						continue // the helper can succeed without the comparison
					}
					if ev := callErr(bo); ev != nil {
						n++
						for _, ce := range core.NilTestEdges(ev) {
							if ce.Val {
								cut = append(cut, ce.E)
							}
						}
					}
				}
			}
		}
	}
	return cut, n
}

// checkCacheLimits holds the limit rules (C09 R1, R2 per-method guards); C05 R7 evaluates the same.
func checkCacheLimits(w *core.World, r *core.Report, oracles map[*ssa.Function]bool, add, upd *ssa.Function, r1, r2 string) {
	// ---- R1 -----------------------------------------------------------------------------------
	n1 := 0
	for _, fn := range w.FuncsIn("cache") {
		for _, b := range fn.Blocks {
			for _, in := range b.Instrs {
				cv, ok := in.(*ssa.Convert)
				if !ok {
					continue
				}
				bt, ok := cv.Type().Underlying().(*types.Basic)
				if !ok || bt.Info()&types.IsInteger == 0 {
					continue
				}
				if len(lenArgs(cv.X, nil)) == 0 {
					continue
				}
				n1++
				narrow := false
				switch bt.Kind() {
				case types.Int8, types.Uint8, types.Int16, types.Uint16:
					narrow = true
				}
				if !narrow {
					r.OK(r1, fmt.Sprintf("%s: %s(len)", core.QName(fn), bt.Name()), cv.Pos(), "at least 32 bits")
					continue
				}
				// does it reach a comparison?
				cmp := false
				for v := range core.Forward(cv, nil) {
					if refs := v.Referrers(); refs != nil {
						for _, u := range *refs {
							if bo, ok := u.(*ssa.BinOp); ok {
								switch bo.Op {
								case token.LSS, token.LEQ, token.GTR, token.GEQ, token.EQL, token.NEQ:
									cmp = true
								}
							}
						}
					}
				}
				r.Check(!cmp, r1, fmt.Sprintf("%s: %s(len)", core.QName(fn), bt.Name()), cv.Pos(), "not compared",
					"a length is truncated to "+bt.Name()+" before a comparison: a value of 2^16+n bytes passes a limit of n")
			}
		}
	}
	r.Floor(r1, "length conversions in package cache", n1, 4)

	// ---- R2 / R3 ------------------------------------------------------------------------------
	for _, fn := range []*ssa.Function{add, upd} {
		valueParam := valueParamOf(fn)
		if valueParam == nil {
			r.Undecided(r2, core.QName(fn)+": value parameter", fn.Pos(), "cannot identify the value parameter (the one stored into a frame map)")
			continue
		}
		succ := isSuccessReturnPred(fn)
		// limit comparison (directly, or inside a helper of package cache that is given the value)
		limitCut, nlim := limitEdges(fn, valueParam, 0)
		if nlim == 0 {
			r.Bad(r2, core.QName(fn)+": per-symbol limit test", fn.Pos(), "no comparison of len(value) with the symbol's size limit")
		} else {
			in, path := core.Reach(core.Entry(fn), succ, core.NewCut().AddEdge(limitCut...))
			r.Check(in == nil, r2, core.QName(fn)+": per-symbol limit test", fn.Pos(), "every success path passes 'within limit' or 'limit is 0'",
				"a value can be stored without passing the per-symbol limit comparison: "+w.PathString(path))
		}
		// capacity oracle
		var capCut []core.Edge
		ncap := 0
		for _, c := range callsToSet(fn, oracles) {
			call, ok := c.(*ssa.Call)
			if !ok {
				continue
			}
			if call.Call.Args[len(call.Call.Args)-1] != ssa.Value(valueParam) {
				r.Bad(r2, core.QName(fn)+": capacity test operand", call.Pos(), "the capacity oracle is not asked about the value being stored")
			}
			for _, v := range forwardVals(call) {
				if refs := v.Referrers(); refs != nil {
					for _, u := range *refs {
						if bo, ok := u.(*ssa.BinOp); ok {
							if _, op, k, ok := core.CmpConst(bo); ok && k == 0 && (op == token.EQL || op == token.NEQ || op == token.LEQ || op == token.GTR) {
								ncap++
								capCut = append(capCut, core.EdgesWhere(bo, op == token.NEQ || op == token.GTR)...)
							}
						}
					}
				}
			}
		}
		// empty value edge: len(value) > 0 false / len(value)==0 true
		for _, b := range fn.Blocks {
			for _, in := range b.Instrs {
				bo, ok := in.(*ssa.BinOp)
				if !ok {
					continue
				}
				x0, op0, c0, okc := core.CmpConst(bo)
				if !okc {
					continue
				}
				isLenV := false
				for _, a := range lenArgs(x0, nil) {
					if a == ssa.Value(valueParam) {
						isLenV = true
					}
				}
				if c0 == 0 && isLenV {
					switch op0 {
					case token.GTR, token.NEQ:
						capCut = append(capCut, core.EdgesWhere(bo, false)...)
					case token.EQL, token.LEQ:
						capCut = append(capCut, core.EdgesWhere(bo, true)...)
					}
				}
			}
		}
		if ncap == 0 {
			r.Bad(r2, core.QName(fn)+": capacity test", fn.Pos(), "the capacity oracle's result is never tested")
		} else {
			in, path := core.Reach(core.Entry(fn), succ, core.NewCut().AddEdge(capCut...))
			r.Check(in == nil, r2, core.QName(fn)+": capacity test", fn.Pos(), "every success path passes the oracle's 'fits' edge or the empty-value edge",
				"a value can be stored without passing the capacity test: "+w.PathString(path))
		}
	}
}

// notDefinedEdges lists the edges of fn on which the frame lookup (a function of package cache
// returning an int, -1 for "not found") is known to have found nothing. A helper of package
// cache that returns only an error counts on its error==nil edges when every one of its own
// success returns lies behind such an edge.
func notDefinedEdges(fn *ssa.Function, depth int) (cut []core.Edge, n int) {
	for _, c := range core.Calls(fn) {
		call, ok := c.(*ssa.Call)
		f := core.StaticCallee(c)
		if !ok || f == nil || core.PkgOf(f) != "cache" || f.Signature.Results().Len() != 1 {
			continue
		}
		if f.Signature.Results().At(0).Type().String() == "error" && depth < 2 && len(f.Blocks) > 0 {
			hc, hn := notDefinedEdges(f, depth+1)
			if hn == 0 {
				continue
			}
			if in, _ := core.Reach(core.Entry(f), isSuccessReturnPred(f), core.NewCut().AddEdge(hc...)); in != nil {
				continue
			}
			for _, ce := range core.NilTestEdges(call) {
				if ce.Val {
					cut = append(cut, ce.E)
					n++
				}
			}
			continue
		}
		if bt, ok := f.Signature.Results().At(0).Type().Underlying().(*types.Basic); !ok || bt.Kind() != types.Int {
			continue
		}
		refs := call.Referrers()
		if refs == nil {
			continue
		}
		for _, u := range *refs {
			bo, ok := u.(*ssa.BinOp)
			if !ok {
				continue
			}
			x, op, k, ok := core.CmpConst(bo)
			if !ok || x != ssa.Value(call) {
				continue
			}
			// which edge means "not found" (result == -1)?
			switch {
			case op == token.GTR && k == -1, op == token.GEQ && k == 0, op == token.NEQ && k == -1:
				cut = append(cut, core.EdgesWhere(bo, false)...)
				n++
			case op == token.EQL && k == -1, op == token.LSS && k == 0, op == token.LEQ && k == -1:
				cut = append(cut, core.EdgesWhere(bo, true)...)
				n++
			}
		}
	}
	return
}

// cachePkgCallees: the functions of package cache a function reaches through static calls (depth 3):
// where a step of an accounting method was moved into a helper.
func cachePkgCallees(fn *ssa.Function) []*ssa.Function {
	seen := map[*ssa.Function]bool{fn: true}
	var out []*ssa.Function
	var walk func(f *ssa.Function, d int)
	walk = func(f *ssa.Function, d int) {
		if d > 3 {
			return
		}
		for _, c := range core.Calls(f) {
			g := core.StaticCallee(c)
			if g == nil || seen[g] || core.PkgOf(g) != "cache" || len(g.Blocks) == 0 {
				continue
			}
			seen[g] = true
			out = append(out, g)
			walk(g, d+1)
		}
	}
	walk(fn, 0)
	return out
}
