package rules

import (
	"fmt"
	"go/token"
	"go/types"

	"golang.org/x/tools/go/ssa"

	"vischeck/internal/core"
)

// Lossy integer narrowing (C08 R6, C14 R3, C15 R9). An integer conversion whose target type cannot
// represent every value of its source type silently wraps. Each such conversion must be one of:
//
//	proved    the zone engine shows the operand within the target range at that point (a dominating
//	          range check, a mask, a constant, a narrower origin)
//	length32  the operand is built only from len() results, non-negative constants and sums of
//	          these, and the target has at least 32 bits - covered by the stated assumption that
//	          byte strings are shorter than 2^32
//	pages16   the operand is the number of page cursors and the target has 16 bits - covered by
//	          the stated assumption that a node has fewer than 65536 pages
//
// Anything else is reported: the value that is used differs from the value that was computed or
// decoded (a limit that wraps to "unlimited", a byte count that wraps to a shorter buffer, a length
// byte that no longer describes the string behind it).
type narrowSite struct {
	fn      *ssa.Function
	conv    *ssa.Convert
	class   string // proved | length32 | pages16 | "" (unclassified)
	lo, hi  int64
	rangeOK bool
}

func lenDerived(v ssa.Value, seen map[ssa.Value]bool, d int) bool {
	if d > 12 {
		return false
	}
	if seen[v] {
		return true
	}
	seen[v] = true
	switch t := v.(type) {
	case *ssa.Const:
		k, ok := core.ConstInt(t)
		return ok && k >= 0
	case *ssa.Call:
		if core.IsCallTo(t, "builtin.len") {
			return true
		}
		if g := core.StaticCallee(t); g != nil && g.Name() == "Len" && g.Pkg != nil && (g.Pkg.Pkg.Path() == "strings" || g.Pkg.Pkg.Path() == "bytes") {
			return true
		}
		return false
	case *ssa.Convert:
		return lenDerived(t.X, seen, d+1)
	case *ssa.ChangeType:
		return lenDerived(t.X, seen, d+1)
	case *ssa.BinOp:
		if t.Op == token.ADD {
			return lenDerived(t.X, seen, d+1) && lenDerived(t.Y, seen, d+1)
		}
	case *ssa.Phi:
		for _, e := range t.Edges {
			if !lenDerived(e, seen, d+1) {
				return false
			}
		}
		return len(t.Edges) > 0
	}
	return false
}

func narrowingSites(w *core.World, fns []*ssa.Function) []narrowSite {
	var out []narrowSite
	for _, fn := range fns {
		if len(fn.Blocks) == 0 {
			continue
		}
		var bd *core.Bounds
		for _, in := range allInstrs(fn) {
			t, ok := in.(*ssa.Convert)
			if !ok {
				continue
			}
			if bd == nil {
				bd = core.NewBounds(fn, intBits(w))
			}
			slo, shi, ok1 := bd.TypeRange(t.X.Type())
			tlo, thi, ok2 := bd.TypeRange(t.Type())
			if !ok1 || !ok2 || (slo >= tlo && shi <= thi) {
				continue
			}
			if !t.Pos().IsValid() {
				continue
			}
			s := narrowSite{fn: fn, conv: t}
			s.lo, s.hi, s.rangeOK = bd.RangeAt(t, t.X)
			bits := int64(0)
			if bt, ok := t.Type().Underlying().(*types.Basic); ok {
				switch bt.Kind() {
				case types.Uint8, types.Int8:
					bits = 8
				case types.Uint16, types.Int16:
					bits = 16
				case types.Uint32, types.Int32:
					bits = 32
				default:
					bits = 64
				}
			}
			switch {
			case s.rangeOK && s.lo >= tlo && s.hi <= thi:
				s.class = "proved"
			case bits >= 32 && lenDerived(t.X, map[ssa.Value]bool{}, 0):
				s.class = "length32"
			case bits == 16 && func() bool {
				for _, src := range core.Sources(t.X) {
					if c, ok := src.(*ssa.Call); ok && core.IsCallTo(c, "builtin.len") {
						if _, f, ok := core.LoadedField(c.Call.Args[0]); ok && f == "crsrs" {
							return true
						}
					}
				}
				return false
			}():
				s.class = "pages16"
			}
			out = append(out, s)
		}
	}
	return out
}

// checkNarrowing reports every unclassified lossy narrowing in fns under the given rule.
func checkNarrowing(w *core.World, r *core.Report, rule string, fns []*ssa.Function, why string) int {
	n := 0
	perFn := map[*ssa.Function]int{}
	for _, s := range narrowingSites(w, fns) {
		n++
		perFn[s.fn]++
		r.Touch(core.QName(s.fn))
		key := fmt.Sprintf("%s: narrowing %s(%s) #%d", core.QName(s.fn), s.conv.Type(), s.conv.X.Type(), perFn[s.fn])
		rng := "operand range unknown"
		if s.rangeOK {
			rng = fmt.Sprintf("operand known in [%d, %d]", s.lo, s.hi)
		}
		switch s.class {
		case "proved":
			r.OK(rule, key, s.conv.Pos(), "operand proved within the target range")
		case "length32":
			r.OK(rule, key, s.conv.Pos(), "assumed: a length (sum of len() results), shorter than 2^32")
		case "pages16":
			r.OK(rule, key, s.conv.Pos(), "assumed: number of page cursors, fewer than 65536")
		default:
			r.Bad(rule, key, s.conv.Pos(), "lossy integer narrowing without a range check ("+rng+"): "+why)
		}
	}
	return n
}

// checkNarrowArithmetic: in the given functions no +, -, * or << is computed in an integer type
// narrower than 32 bits with operands whose proved ranges let the result leave the type (the
// operation wraps before the value is widened: `uint32(x16<<8)` loses the top byte). Returns the
// number of integer operations examined.
func checkNarrowArithmetic(w *core.World, r *core.Report, rule string, fns []*ssa.Function, why string) int {
	n := 0
	for _, fn := range fns {
		if fn == nil || len(fn.Blocks) == 0 {
			continue
		}
		var bd *core.Bounds
		k := 0
		for _, in := range allInstrs(fn) {
			bo, ok := in.(*ssa.BinOp)
			if !ok {
				continue
			}
			switch bo.Op {
			case token.ADD, token.SUB, token.MUL, token.SHL:
			default:
				continue
			}
			bt, ok := bo.Type().Underlying().(*types.Basic)
			if !ok || bt.Info()&types.IsInteger == 0 {
				continue
			}
			n++
			switch bt.Kind() {
			case types.Uint8, types.Int8, types.Uint16, types.Int16:
			default:
				continue
			}
			if bd == nil {
				bd = core.NewBounds(fn, intBits(w))
			}
			tlo, thi, _ := bd.TypeRange(bo.Type())
			rangeOf := func(v ssa.Value) (int64, int64, bool) {
				lo, hi, ok := bd.RangeAt(bo, v)
				// x % c of an unsigned x lies in [0, c-1]; conversions of it keep that range
				inner := v
				for d := 0; d < 3; d++ {
					if cv, isC := inner.(*ssa.Convert); isC {
						inner = cv.X
					}
				}
				remBound := func(x ssa.Value) (int64, bool) {
					for d := 0; d < 3; d++ {
						if cv, isC := x.(*ssa.Convert); isC {
							x = cv.X
						}
					}
					if rb, isB := x.(*ssa.BinOp); isB && rb.Op == token.REM {
						if c, isK := core.ConstInt(rb.Y); isK && c > 0 {
							if xl, _, okx := bd.TypeRange(rb.X.Type()); okx && xl >= 0 {
								return c - 1, true
							}
						}
					}
					return 0, false
				}
				top, found := remBound(inner)
				if !found {
					// a result of a helper of the module whose every return is such a remainder
					if cc, ri, isE := core.ExtractOf(inner); isE {
						if g := core.StaticCallee(cc); g != nil && len(g.Blocks) > 0 && w.InLib(g) {
							all, n := true, 0
							for _, x := range allInstrs(g) {
								if ret, isR := x.(*ssa.Return); isR && ri < len(ret.Results) {
									n++
									if t2, ok2 := remBound(ret.Results[ri]); ok2 {
										if t2 > top {
											top = t2
										}
									} else {
										all = false
									}
								}
							}
							found = all && n > 0
						}
					}
				}
				if found {
					if !ok || lo < 0 {
						lo = 0
					}
					if !ok || hi > top {
						hi = top
					}
					ok = true
				}
				return lo, hi, ok
			}
			xlo, xhi, okx := rangeOf(bo.X)
			ylo, yhi, oky := rangeOf(bo.Y)
			fits := false
			if okx && oky {
				switch bo.Op {
				case token.ADD:
					fits = xhi+yhi <= thi && xlo+ylo >= tlo
				case token.SUB:
					fits = xlo-yhi >= tlo && xhi-ylo <= thi
				case token.MUL:
					fits = xlo >= 0 && ylo >= 0 && xhi <= thi && yhi <= thi && xhi*yhi <= thi
				case token.SHL:
					fits = xlo >= 0 && ylo >= 0 && yhi < 32 && xhi <= thi && xhi<<uint(yhi) <= thi
				}
			}
			k++
			r.Touch(core.QName(fn))
			key := fmt.Sprintf("%s: %s in %s #%d", core.QName(fn), bo.Op, bo.Type(), k)
			r.Check(fits, rule, key, bo.Pos(), "result proved within the type", fmt.Sprintf("arithmetic in a %s can wrap before the value is widened (operands in [%d,%d] and [%d,%d]): %s", bo.Type(), xlo, xhi, ylo, yhi, why))
		}
	}
	return n
}

// checkIntDecoderTotal (C14 R8, C06 R9): the integer decoder accepts operand lengths 0..4; on every
// success path the value it returns is decoded from the operand bytes, except behind the
// 'length is 0' edge. A value that (also) derives from the length byte on a path where the length
// may be positive means some accepted length has no decoding of its own (a `switch l {1,2,4}`
// leaves 3-byte operands with the default).
func checkIntDecoderTotal(w *core.World, r *core.Report, rule string) {
	fn := primitiveDecoder(w, "I")
	if fn == nil {
		r.Undecided(rule, "integer decoder", token.NoPos, "role not resolved")
		return
	}
	r.Touch(core.QName(fn))
	// the length byte: first byte of the bytecode parameter
	var buf *ssa.Parameter
	for _, p := range fn.Params {
		if core.ByteLike(p.Type()) {
			buf = p
		}
	}
	isLenByte := func(v ssa.Value) bool {
		for _, src := range append(core.Sources(v), v) {
			if uo, ok := src.(*ssa.UnOp); ok && uo.Op == token.MUL {
				if ia, ok := uo.X.(*ssa.IndexAddr); ok && core.Strip(ia.X) == ssa.Value(buf) {
					if k, ok := core.ConstInt(ia.Index); ok && k == 0 {
						return true
					}
				}
			}
		}
		return false
	}
	// edges on which the length is known to be 0
	var zero []core.Edge
	for _, in := range allInstrs(fn) {
		bo, ok := in.(*ssa.BinOp)
		if !ok {
			continue
		}
		x, op, c, ok := core.CmpConst(bo)
		if !ok || !isLenByte(x) {
			continue
		}
		switch {
		case op == token.GTR && c == 0, op == token.NEQ && c == 0, op == token.GEQ && c == 1:
			zero = append(zero, core.EdgesWhere(bo, false)...)
		case op == token.EQL && c == 0, op == token.LEQ && c == 0, op == token.LSS && c == 1:
			zero = append(zero, core.EdgesWhere(bo, true)...)
		}
	}
	zeroSet := map[core.Edge]bool{}
	for _, e := range zero {
		zeroSet[e] = true
	}
	bad := ""
	var badPos token.Pos
	n := 0
	var walk func(v ssa.Value, at ssa.Instruction, d int)
	walk = func(v ssa.Value, at ssa.Instruction, d int) {
		if d > 6 || bad != "" {
			return
		}
		if phi, ok := v.(*ssa.Phi); ok {
			for i, e := range phi.Edges {
				pred := phi.Block().Preds[i]
				if isLenByte(e) {
					// the edge pred -> phi block must be a zero-length edge, or pred lies behind one
					okEdge := false
					for si, sc := range pred.Succs {
						if sc == phi.Block() && zeroSet[core.Edge{From: pred, Succ: si}] {
							okEdge = true
						}
					}
					if !okEdge && len(pred.Instrs) > 0 {
						if ok2, _ := core.MustPass(pred.Instrs[0], core.NewCut().AddEdge(zero...)); ok2 && len(zero) > 0 {
							okEdge = true
						}
					}
					if !okEdge {
						bad = "the returned value is the length byte itself on a path where the length may be positive"
						badPos = phi.Pos()
					}
					continue
				}
				walk(e, pred.Instrs[len(pred.Instrs)-1], d+1)
			}
			return
		}
		if isLenByte(v) {
			if ok2, _ := core.MustPass(at, core.NewCut().AddEdge(zero...)); !ok2 || len(zero) == 0 {
				bad = "the returned value is the length byte itself on a path where the length may be positive"
				badPos = at.Pos()
			}
		}
	}
	for _, ret := range successReturns(fn) {
		n++
		walk(core.ReturnValue(ret, 0), ret, 0)
	}
	r.Check(bad == "" && n > 0, rule, "integer decoder: every accepted length is decoded from the operand bytes", badPos, "the length byte reaches the result only behind the 'length is 0' edge",
		"an operand of some accepted length is not decoded: its value is replaced by the length byte (a 3-byte signal or size decodes as 3): "+bad)
}
