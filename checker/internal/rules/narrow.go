package rules

import (
	"fmt"
	"go/token"
	"go/types"

	"golang.org/x/tools/go/ssa"

	"vischeck/internal/core"
)

// Lossy integer narrowing (C08 R6, C14 R3, C15 R9). An integer conversion whose target type cannot
// represent every value of its source type silently wraps. Each such conversion must be one of:
//
//	proved    the zone engine shows the operand within the target range at that point (a dominating
//	          range check, a mask, a constant, a narrower origin)
//	length32  the operand is built only from len() results, non-negative constants and sums of
//	          these, and the target has at least 32 bits - covered by the stated assumption that
//	          byte strings are shorter than 2^32
//	pages16   the operand is the number of page cursors and the target has 16 bits - covered by
//	          the stated assumption that a node has fewer than 65536 pages
//
// Anything else is reported: the value that is used differs from the value that was computed or
// decoded (a limit that wraps to "unlimited", a byte count that wraps to a shorter buffer, a length
// byte that no longer describes the string behind it).
type narrowSite struct {
	fn      *ssa.Function
	conv    *ssa.Convert
	class   string // proved | length32 | pages16 | "" (unclassified)
	lo, hi  int64
	rangeOK bool
}

func lenDerived(v ssa.Value, seen map[ssa.Value]bool, d int) bool {
	if d > 12 {
		return false
	}
	if seen[v] {
		return true
	}
	seen[v] = true
	switch t := v.(type) {
	case *ssa.Const:
		k, ok := core.ConstInt(t)
		return ok && k >= 0
	case *ssa.Call:
		if core.IsCallTo(t, "builtin.len") {
			return true
		}
		if g := core.StaticCallee(t); g != nil && g.Name() == "Len" && g.Pkg != nil && (g.Pkg.Pkg.Path() == "strings" || g.Pkg.Pkg.Path() == "bytes") {
			return true
		}
		return false
	case *ssa.Convert:
		return lenDerived(t.X, seen, d+1)
	case *ssa.ChangeType:
		return lenDerived(t.X, seen, d+1)
	case *ssa.BinOp:
		if t.Op == token.ADD {
			return lenDerived(t.X, seen, d+1) && lenDerived(t.Y, seen, d+1)
		}
	case *ssa.Phi:
		for _, e := range t.Edges {
			if !lenDerived(e, seen, d+1) {
				return false
			}
		}
		return len(t.Edges) > 0
	}
	return false
}

func narrowingSites(w *core.World, fns []*ssa.Function) []narrowSite {
	var out []narrowSite
	for _, fn := range fns {
		if len(fn.Blocks) == 0 {
			continue
		}
		var bd *core.Bounds
		for _, in := range allInstrs(fn) {
			t, ok := in.(*ssa.Convert)
			if !ok {
				continue
			}
			if bd == nil {
				bd = core.NewBounds(fn, intBits(w))
			}
			slo, shi, ok1 := bd.TypeRange(t.X.Type())
			tlo, thi, ok2 := bd.TypeRange(t.Type())
			if !ok1 || !ok2 || (slo >= tlo && shi <= thi) {
				continue
			}
			if !t.Pos().IsValid() {
				continue
			}
			s := narrowSite{fn: fn, conv: t}
			s.lo, s.hi, s.rangeOK = bd.RangeAt(t, t.X)
			bits := int64(0)
			if bt, ok := t.Type().Underlying().(*types.Basic); ok {
				switch bt.Kind() {
				case types.Uint8, types.Int8:
					bits = 8
				case types.Uint16, types.Int16:
					bits = 16
				case types.Uint32, types.Int32:
					bits = 32
				default:
					bits = 64
				}
			}
			switch {
			case s.rangeOK && s.lo >= tlo && s.hi <= thi:
				s.class = "proved"
			case bits >= 32 && lenDerived(t.X, map[ssa.Value]bool{}, 0):
				s.class = "length32"
			case bits == 16 && func() bool {
				for _, src := range core.Sources(t.X) {
					if c, ok := src.(*ssa.Call); ok && core.IsCallTo(c, "builtin.len") {
						if _, f, ok := core.LoadedField(c.Call.Args[0]); ok && f == "crsrs" {
							return true
						}
					}
				}
				return false
			}():
				s.class = "pages16"
			}
			out = append(out, s)
		}
	}
	return out
}

// checkNarrowing reports every unclassified lossy narrowing in fns under the given rule.
func checkNarrowing(w *core.World, r *core.Report, rule string, fns []*ssa.Function, why string) int {
	n := 0
	perFn := map[*ssa.Function]int{}
	for _, s := range narrowingSites(w, fns) {
		n++
		perFn[s.fn]++
		r.Touch(core.QName(s.fn))
		key := fmt.Sprintf("%s: narrowing %s(%s) #%d", core.QName(s.fn), s.conv.Type(), s.conv.X.Type(), perFn[s.fn])
		rng := "operand range unknown"
		if s.rangeOK {
			rng = fmt.Sprintf("operand known in [%d, %d]", s.lo, s.hi)
		}
		switch s.class {
		case "proved":
			r.OK(rule, key, s.conv.Pos(), "operand proved within the target range")
		case "length32":
			r.OK(rule, key, s.conv.Pos(), "assumed: a length (sum of len() results), shorter than 2^32")
		case "pages16":
			r.OK(rule, key, s.conv.Pos(), "assumed: number of page cursors, fewer than 65536")
		default:
			r.Bad(rule, key, s.conv.Pos(), "lossy integer narrowing without a range check ("+rng+"): "+why)
		}
	}
	return n
}

// checkNarrowArithmetic: in the given functions no +, -, * or << is computed in an integer type
// narrower than 32 bits with operands whose proved ranges let the result leave the type (the
// operation wraps before the value is widened: `uint32(x16<<8)` loses the top byte). Returns the
// number of integer operations examined.
func checkNarrowArithmetic(w *core.World, r *core.Report, rule string, fns []*ssa.Function, why string) int {
	n := 0
	for _, fn := range fns {
		if fn == nil || len(fn.Blocks) == 0 {
			continue
		}
		var bd *core.Bounds
		k := 0
		for _, in := range allInstrs(fn) {
			bo, ok := in.(*ssa.BinOp)
			if !ok {
				continue
			}
			switch bo.Op {
			case token.ADD, token.SUB, token.MUL, token.SHL:
			default:
				continue
			}
			bt, ok := bo.Type().Underlying().(*types.Basic)
			if !ok || bt.Info()&types.IsInteger == 0 {
				continue
			}
			n++
			switch bt.Kind() {
			case types.Uint8, types.Int8, types.Uint16, types.Int16:
			default:
				continue
			}
			if bd == nil {
				bd = core.NewBounds(fn, intBits(w))
			}
			tlo, thi, _ := bd.TypeRange(bo.Type())
			xlo, xhi, okx := bd.RangeAt(bo, bo.X)
			ylo, yhi, oky := bd.RangeAt(bo, bo.Y)
			fits := false
			if okx && oky {
				switch bo.Op {
				case token.ADD:
					fits = xhi+yhi <= thi && xlo+ylo >= tlo
				case token.SUB:
					fits = xlo-yhi >= tlo && xhi-ylo <= thi
				case token.MUL:
					fits = xlo >= 0 && ylo >= 0 && xhi <= thi && yhi <= thi && xhi*yhi <= thi
				case token.SHL:
					fits = xlo >= 0 && ylo >= 0 && yhi < 32 && xhi <= thi && xhi<<uint(yhi) <= thi
				}
			}
			k++
			r.Touch(core.QName(fn))
			key := fmt.Sprintf("%s: %s in %s #%d", core.QName(fn), bo.Op, bo.Type(), k)
			r.Check(fits, rule, key, bo.Pos(), "result proved within the type", fmt.Sprintf("arithmetic in a %s can wrap before the value is widened (operands in [%d,%d] and [%d,%d]): %s", bo.Type(), xlo, xhi, ylo, yhi, why))
		}
	}
	return n
}
