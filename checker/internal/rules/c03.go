package rules

import (
	"fmt"
	"go/token"

	"golang.org/x/tools/go/ssa"

	"vischeck/internal/core"
)

func init() {
	register("C03", PropCheck{
		Title:      "Client input is routed by the first matching INCMP, once",
		Explain:    "Instruction order gives 'first matching'; decided structurally are the gating clauses: (R1) in the INCMP handler every path to the navigation dispatcher passes the 'INMATCH unset' edge (no second move once a match is recorded); (R2) every path to the dispatcher passes SetFlag(INMATCH); (R3) constant resets of INMATCH occur only in Vm.Run behind the 'WAIT was set' (resume) edge; (R4) the move is only reached through the equality edge of a comparison between the decoded selector and State.GetInput(), or the wildcard edge (selector == \"*\"), and the moved-to target is the decoded symbol; (R5) the dead-code check turns unmatched input into WithError(NewInvalidInputError(GetInput())) and MOVE _catch, and Run consults it whenever code runs out; (R6) on the IndexError edge ('previous' at the first page) the handler neither resets the renderer nor fetches code and sets READIN again; (R7) the bytes recorded by State.SetInput in the engine are the Exec parameter itself (or a saved previous input), never a transformed copy; (R10) State.Restart, which re-initialises the reserved flag byte (INMATCH, READIN) and the recorded input, is called only by the engine's session restart - never from code reachable from Vm.Run (added after seeded change C03-E, where Rewind restarted the state in the middle of INCMP routing); (R11) external code cannot clear INMATCH or READIN: every flag write with a run-time index is behind the write filter (C06 R1, shared; added after seeded change C03-G); (R12) the destructive getter State.GetCode, which empties the pending INCMP lines, is called only by methods of DefaultEngine - its code fetch and its reset (added after C03-H, a debug dump that read the pending code with it). (R13) = C08 R9 and (R14) = C06 R9 are shared here: a failed run must not leave stale INCMP lines as pending code, and a client flag index must not wrap onto INMATCH/READIN/WAIT (added after seeded changes C03-I and C03-J). R3 and R5 follow the per-instruction flag protocol and the catch line into a helper that only Run (respectively the dead-code check) calls. (R15) in the target dispatcher the error of State.Next/Previous is returned and no success return lies behind its failure edge: a refused lateral move is 'no match' for INCMP (added after seeded change C03-L). (R16) completeness of the handler: every success return of the INCMP handler that is not behind the move passes the INMATCH-set edge or the mismatch edge of the deciding comparison - an INCMP is skipped for no other reason (added after seeded change C03-N, which skipped selectors the built-in input pattern would not accept). (R17) the invalid-input message survives rendering: no function of package render reachable from Page.Render stores Page.err - with an output size the template is rendered more than once per page (added after seeded change C03-M). (R18) State.Down reads no element of the path but the last (index len-1, no range, no search): a node deeper in the stack can be entered again (added after seeded change C03-O, a loop check moved into Down). (R19) no branch condition of Vm.Run compares an instruction counter (an integer phi incremented by a constant): any number of INCMP lines is stepped through (added after C03-P).",
		NotDecided: "equivalence of whole transcripts with a reference router; programs whose INCMP lines are reached through CATCH/MOVE chains are covered only as far as the per-handler gates go.",
		Run:        runC03,
	})
}

func flagConstCalls(fn *ssa.Function, flag int64, names ...string) []ssa.CallInstruction {
	var out []ssa.CallInstruction
	for _, c := range core.CallsTo(fn, names...) {
		a := core.CallArgs(c)
		if len(a) >= 2 {
			if v, ok := core.ConstInt(core.Strip(a[1])); ok && v == flag {
				out = append(out, c)
			}
		}
	}
	return out
}

func runC03(w *core.World, r *core.Report) {
	r.Rule("R1", "INCMP: the move is only reached on the INMATCH-unset edge")
	r.Rule("R2", "INCMP: SetFlag(INMATCH) precedes the move on every path")
	r.Rule("R3", "INMATCH is reset only in Vm.Run's resume block")
	r.Rule("R4", "INCMP: move only via selector==input or wildcard edge; operands are decoded selector / State.GetInput; target is decoded symbol")
	r.Rule("R5", "dead-code check: unmatched input -> WithError(NewInvalidInputError(GetInput())) and MOVE _catch")
	r.Rule("R6", "IndexError edge: no renderer reset, no code fetch, READIN set again")
	r.Rule("R7", "State.SetInput in the engine records the Exec parameter unmodified")
	r.Rule("R8", "READIN is raised by the INCMP gate only while no match is recorded (or again on the refused-previous edge)")
	r.Rule("R15", "in the target dispatcher the error of State.Next / State.Previous reaches the caller (a refused lateral move is no match)")
	r.Rule("R14", "flag addressing loses no bits (C06 R9): a client flag index cannot wrap onto INMATCH, READIN or WAIT")
	r.Rule("R13", "the pending code recorded after a run is that run's own result, on its success edge only (C08 R9): a failed run does not leave stale INCMP lines to match the next input")
	r.Rule("R16", "an INCMP is skipped only for a recorded match or a mismatch with the input (no other early success return)")
	r.Rule("R19", "Vm.Run has no budget of instructions (any number of INCMP lines is stepped through)")
	r.Rule("R18", "State.Down compares only the top of the stack with the target (a node deeper in the stack can be entered again)")
	r.Rule("R17", "the invalid-input message survives rendering: nothing on the render path stores Page.err")
	r.Rule("R12", "the destructive code getter State.GetCode is called only by methods of DefaultEngine (code fetch, reset), never by diagnostics or other packages")
	r.Rule("R11", "external code cannot clear INMATCH or READIN: every dynamic flag write is behind the write filter (C06 R1)")
	r.Rule("R10", "State.Restart (which clears INMATCH, READIN and the recorded input) is called only by the engine's session restart")
	r.Rule("R9", "the pending INCMP lines never live in memory shared with other sessions (C19 R2: borrowed bytecode is never written in place)")

	fIn, ok1 := constOf(w, r, "state", "FLAG_INMATCH")
	fRead, ok2 := constOf(w, r, "state", "FLAG_READIN")
	fWait, ok3 := constOf(w, r, "state", "FLAG_WAIT")
	fTerm, ok4 := constOf(w, r, "state", "FLAG_TERMINATE")
	if !(ok1 && ok2 && ok3 && ok4) {
		return
	}
	disp := navDispatchers(w)
	h := handlerByName(w, r, "INCMP")
	if h == nil {
		r.Undecided("R1", "INCMP handler", token.NoPos, "no handler for INCMP in Vm.Run")
		return
	}
	hk := "INCMP handler"
	moves := callsToSet(h, disp)
	if len(moves) == 0 {
		r.Bad("R4", hk+": move", h.Pos(), "the INCMP handler never calls the navigation dispatcher")
	}
	for _, mv := range moves {
		mi := mv.(ssa.Instruction)
		// R1
		unset, tests := flagTestEdges(h, fIn, false)
		if len(tests) == 0 {
			r.Bad("R1", hk+": move gated by INMATCH unset", mv.Pos(), "the handler never tests FLAG_INMATCH")
		} else {
			in, path := core.Reach(core.Entry(h), core.IsInstr(mi), core.NewCut().AddEdge(unset...))
			r.Check(in == nil, "R1", hk+": move gated by INMATCH unset", mv.Pos(), "every path to the move passes the INMATCH-unset edge",
				"a second INCMP can move although a match is already recorded (path with INMATCH set reaches the dispatcher): "+w.PathString(path))
		}
		// R2
		sets := flagConstCalls(h, fIn, stSetFlag)
		cut := core.NewCut()
		for _, s := range sets {
			cut.AddInstr(s.(ssa.Instruction))
		}
		in, path := core.Reach(core.Entry(h), core.IsInstr(mi), cut)
		r.Check(len(sets) > 0 && in == nil, "R2", hk+": INMATCH set before the move", mv.Pos(), "SetFlag(INMATCH) on every path to the move",
			"the move can happen before / without recording the match: a later INCMP of the same batch can match again: "+w.PathString(path))
		// R4: operands and edges
		var eqEdges []core.Edge
		ncmp := 0
		for _, b := range h.Blocks {
			for _, x := range b.Instrs {
				bo, ok := x.(*ssa.BinOp)
				if !ok || (bo.Op != token.EQL && bo.Op != token.NEQ) {
					continue
				}
				selX := fromResult(bo.X, 1, "vm.ParseInCmp")
				selY := fromResult(bo.Y, 1, "vm.ParseInCmp")
				inpX := fromResult(bo.X, 0, "state.(*State).GetInput")
				inpY := fromResult(bo.Y, 0, "state.(*State).GetInput")
				if (selX && inpY) || (selY && inpX) {
					ncmp++
					eqEdges = append(eqEdges, core.EdgesWhere(bo, bo.Op == token.EQL)...)
				}
				if s, ok := core.ConstString(bo.Y); ok && s == "*" && selX {
					eqEdges = append(eqEdges, core.EdgesWhere(bo, bo.Op == token.EQL)...)
				}
			}
		}
		if ncmp == 0 {
			r.Bad("R4", hk+": deciding comparison", mv.Pos(), "no comparison between the decoded selector (result 1 of ParseInCmp) and State.GetInput()")
		} else {
			in, path := core.Reach(core.Entry(h), core.IsInstr(mi), core.NewCut().AddEdge(eqEdges...))
			r.Check(in == nil, "R4", hk+": deciding comparison", mv.Pos(), "move only behind selector==input or the wildcard edge",
				"the move can be reached without the selector matching the input: "+w.PathString(path))
		}
		args := core.CallArgs(mv)
		r.Check(len(args) > 0 && fromResult(args[0], 0, "vm.ParseInCmp"), "R4", hk+": move target", mv.Pos(), "target is the decoded symbol", "the dispatcher is not given the decoded target symbol")

		// R6
		ev := callErr(mv)
		var idxEdges []core.Edge
		if ev != nil {
			if refs := ev.Referrers(); refs != nil {
				for _, u := range *refs {
					if c, ok := u.(*ssa.Call); ok && core.IsCallTo(c, "errors.Is") && len(c.Call.Args) == 2 {
						if g := core.GlobalOf(c.Call.Args[1]); g != nil && g.Name() == "IndexError" {
							idxEdges = append(idxEdges, core.EdgesWhere(c, true)...)
						}
					}
					if bo, ok := u.(*ssa.BinOp); ok && (bo.Op == token.EQL || bo.Op == token.NEQ) {
						if g := core.GlobalOf(bo.Y); g != nil && g.Name() == "IndexError" {
							idxEdges = append(idxEdges, core.EdgesWhere(bo, bo.Op == token.EQL)...)
						}
					}
				}
			}
		}
		if len(idxEdges) == 0 {
			r.Bad("R6", hk+": previous at first page", mv.Pos(), "the dispatcher's IndexError is not special-cased: 'previous' on the first page fails the request instead of counting as no match")
		} else {
			for _, e := range idxEdges {
				start := core.Point{B: e.To(), I: 0}
				in, _ := core.Reach(start, func(x ssa.Instruction) bool {
					c, ok := x.(ssa.CallInstruction)
					return ok && core.IsCallTo(c, vmReset, "resource.Resource.GetCode")
				}, nil)
				cut := core.NewCut()
				for _, s := range flagConstCalls(h, fRead, stSetFlag) {
					cut.AddInstr(s.(ssa.Instruction))
				}
				in2, _ := core.Reach(start, core.IsReturn, cut)
				r.Check(in == nil && in2 == nil, "R6", hk+": previous at first page", mv.Pos(), "no reset/code fetch, READIN set again",
					"on the IndexError edge the handler resets the renderer / fetches code, or returns without setting READIN again (the refused 'previous' does not count as 'no match')")
			}
		}
	}

	// ---- R8 -----------------------------------------------------------------------------------
	{
		unset, _ := flagTestEdges(h, fIn, false)
		cut := core.NewCut().AddEdge(unset...)
		for _, mv := range moves {
			if ev := callErr(mv); ev != nil {
				cut.AddEdge(errNonNilEdges(ev)...)
			}
		}
		for _, c := range flagConstCalls(h, fRead, stSetFlag) {
			ok, path := core.MustPass(c.(ssa.Instruction), cut)
			r.Check(ok, "R8", hk+": READIN raised only without a recorded match", c.Pos(), "behind INMATCH-unset or the dispatcher's error edge",
				"an INCMP that runs after another one already matched raises READIN again: the dead-code check then treats the matched input as unmatched and moves to the catch node a second time: "+w.PathString(path))
		}
	}
	// ---- R9 -----------------------------------------------------------------------------------
	checkBorrowedRule(w, r, "R9")
	// ---- R10 ----------------------------------------------------------------------------------
	checkRestartCallers(w, r, "R10")
	// ---- R11 ----------------------------------------------------------------------------------
	checkFlagWriteFilter(w, r, "R11")
	// ---- R12 ----------------------------------------------------------------------------------
	{
		roles := resolveEngineRoles(w)
		n, bad := 0, ""
		var badPos token.Pos
		for _, fn := range w.LibFuncs {
			for _, c := range core.CallsTo(fn, "state.(*State).GetCode") {
				n++
				isEngineMethod := fn.Signature.Recv() != nil && core.TypeName(fn.Signature.Recv().Type()) == "*engine.DefaultEngine"
				if !isEngineMethod {
					bad = fmt.Sprintf("%s calls State.GetCode at %s", core.QName(fn), w.Pos(c.Pos()))
					badPos = c.Pos()
				}
			}
		}
		_ = roles
		r.Check(bad == "" && n > 0, "R12", "State.GetCode (destructive) is called only by methods of the engine", badPos, fmt.Sprintf("%d call site(s)", n),
			"the pending INCMP lines are taken out of the state by something other than the code fetch of the next request (the getter empties State.Code): the next input is compared with nothing: "+bad)
	}

	checkCodeRecordedFromRun(w, r, "R13")
	checkLateralErrorsReturned(w, r, "R15")
	checkIncmpComplete(w, r, "R16", h, fIn, disp)
	checkRenderKeepsErrorPrefix(w, r, "R17")
	checkDownJudgesTopOnly(w, r, "R18")
	checkRunHasNoStepBudget(w, r, "R19")
	checkFlagAddressing(w, r, "R14")
	// ---- R3 -----------------------------------------------------------------------------------
	run := w.Func("vm", "(*Vm).Run")
	step := vmStepFn(w) // Run, or the helper of Run that holds the per-instruction flag protocol
	n3 := 0
	for _, fn := range w.LibFuncs {
		for _, c := range flagConstCalls(fn, fIn, stResetFlag) {
			n3++
			key := core.QName(fn) + ": ResetFlag(FLAG_INMATCH)"
			if fn != step || step == nil {
				r.Bad("R3", key, c.Pos(), "INMATCH is cleared outside Vm.Run's resume block: a later INCMP before the next HALT can match again")
				continue
			}
			// behind the true edge of ResetFlag(FLAG_WAIT)
			cut := core.NewCut()
			for _, wc := range flagConstCalls(step, fWait, stResetFlag) {
				if v := core.CallValue(wc); v != nil {
					cut.AddEdge(core.EdgesWhere(v, true)...)
				}
			}
			ok, path := core.MustPass(c.(ssa.Instruction), cut)
			r.Check(ok, "R3", key, c.Pos(), "only on the 'WAIT was set' edge", "INMATCH is cleared on a path that is not the resume after HALT: "+w.PathString(path))
		}
	}
	r.Floor("R3", "INMATCH resets", n3, 1)

	// ---- R5 -----------------------------------------------------------------------------------
	var dead *ssa.Function
	for _, fn := range w.FuncsIn("vm") {
		if fn == run || fn.Signature.Recv() == nil {
			continue
		}
		if _, tests := flagTestEdges(fn, fRead, true); len(tests) > 0 && len(flagConstCalls(fn, fTerm, stSetFlag)) > 0 {
			dead = fn
		}
	}
	if dead == nil || run == nil {
		r.Undecided("R5", "dead-code check", token.NoPos, "no method of Vm other than Run sets FLAG_TERMINATE (role: dead-code check)")
	} else {
		r.Touch(core.QName(dead))
		dk := "dead-code check " + core.QName(dead)
		// WithError(NewInvalidInputError(string(GetInput())))
		okErr := false
		var werr ssa.CallInstruction
		for _, c := range core.CallsTo(dead, "render.(*Page).WithError") {
			a := core.CallArgs(c)
			if len(a) != 2 {
				continue
			}
			for _, s := range core.Sources(a[1]) {
				if ic, _, ok := core.ExtractOf(s); ok && core.IsCallTo(ic, "vm.NewInvalidInputError") {
					if fromResult(ic.Call.Args[0], 0, "state.(*State).GetInput") {
						okErr = true
						werr = c
					}
				}
			}
		}
		r.Check(okErr, "R5", dk+": invalid-input message", dead.Pos(), "WithError(NewInvalidInputError(GetInput()))", "unmatched input does not produce the invalid-input message showing that input")
		// the return after it carries MOVE _catch
		okMove := false
		moveOp, _ := constOf(w, r, "vm", "MOVE")
		for _, c := range core.Calls(dead) {
			producer := isCatchLineProducer(c, moveOp)
			if producer && core.CallValue(c) != nil {
				// it reaches a return as result 0
				for v := range core.Forward(core.CallValue(c), nil) {
					if refs := v.Referrers(); refs != nil {
						for _, u := range *refs {
							if ret, ok := u.(*ssa.Return); ok && ret.Results[0] == v {
								okMove = true
							}
						}
					}
				}
			}
		}
		r.Check(okMove, "R5", dk+": go to catch node", dead.Pos(), "returns NewLine(MOVE, \"_catch\")", "unmatched input does not continue at the catch node")
		// the invalid-input branch is behind READIN set
		if werr != nil {
			set, tests := flagTestEdges(dead, fRead, true)
			if len(tests) == 0 {
				r.Bad("R5", dk+": only while reading input", werr.Pos(), "the check does not test FLAG_READIN")
			} else {
				ok, path := core.MustPass(werr.(ssa.Instruction), core.NewCut().AddEdge(set...))
				r.Check(ok, "R5", dk+": only while reading input", werr.Pos(), "behind READIN set", "the invalid-input branch is reachable with READIN unset: "+w.PathString(path))
			}
		}
		// Run consults the check when code runs out: a call in Run behind a len(b)==0 edge
		calls := 0
		for _, c := range core.Calls(run) {
			if core.StaticCallee(c) == dead {
				calls++
			}
		}
		r.Check(calls > 0, "R5", "vm.(*Vm).Run: consults the dead-code check", run.Pos(), "called from Run", "Run never consults the dead-code check")
	}

	// ---- R7 -----------------------------------------------------------------------------------
	n7 := 0
	for _, fn := range w.FuncsIn("engine") {
		for _, c := range core.CallsTo(fn, "state.(*State).SetInput") {
			n7++
			a := core.CallArgs(c)
			ok, why := isClientInput(w, fn, a[1], 0)
			r.Check(ok, "R7", core.QName(fn)+": SetInput operand", c.Pos(), why, "the input recorded for matching is not the client's input as received: "+why)
		}
	}
	r.Floor("R7", "SetInput sites in engine", n7, 2)
}

func sliceHasConstString(v ssa.Value, want string) bool {
	sl, ok := v.(*ssa.Slice)
	if !ok {
		return false
	}
	a, ok := sl.X.(*ssa.Alloc)
	if !ok {
		return false
	}
	found := false
	if refs := a.Referrers(); refs != nil {
		for _, rr := range *refs {
			if ia, ok := rr.(*ssa.IndexAddr); ok {
				if ir := ia.Referrers(); ir != nil {
					for _, s := range *ir {
						if st, ok := s.(*ssa.Store); ok {
							if str, ok := core.ConstString(st.Val); ok && str == want {
								found = true
							}
						}
					}
				}
			}
		}
	}
	return found
}

// isClientInput: v is (through parameters, up to the exported Exec) the input parameter itself, or
// a value previously read with State.GetInput (save/restore), with no call or slicing in between.
func isClientInput(w *core.World, fn *ssa.Function, v ssa.Value, depth int) (bool, string) {
	// strictly value-preserving chain only
	for {
		switch t := v.(type) {
		case *ssa.ChangeType:
			v = t.X
			continue
		case *ssa.Phi:
			for _, e := range t.Edges {
				if ok, why := isClientInput(w, fn, e, depth); !ok {
					return false, why
				}
			}
			return true, "all incoming values are the client input"
		}
		break
	}
	if c, i, ok := core.ExtractOf(v); ok && i == 0 && core.IsCallTo(c, "state.(*State).GetInput") {
		return true, "saved previous input (GetInput)"
	}
	pi := paramIndex(v)
	if pi < 0 {
		return false, "derived value " + v.String()
	}
	if token.IsExported(fn.Name()) {
		return true, "the " + fn.Name() + " parameter"
	}
	if depth >= 3 {
		return false, "parameter chain too deep"
	}
	callers := libCallers(w, fn)
	if len(callers) == 0 {
		return false, "no callers"
	}
	for _, cs := range callers {
		a := core.CallArgs(cs)
		if pi >= len(a) {
			return false, "unresolvable caller"
		}
		if ok, why := isClientInput(w, cs.Parent(), a[pi], depth+1); !ok {
			return false, "via " + core.QName(cs.Parent()) + ": " + why
		}
	}
	return true, "parameter passed unchanged from Exec"
}

// isCatchLineCall: c is vm.NewLine(_, MOVE, []string{"_catch"}, ...).
func isCatchLineCall(c ssa.CallInstruction, moveOp int64) bool {
	if !core.IsCallTo(c, "vm.NewLine") {
		return false
	}
	a := core.CallArgs(c)
	if len(a) < 3 {
		return false
	}
	if op, ok := core.ConstInt(a[1]); !ok || op != moveOp {
		return false
	}
	return sliceHasConstString(a[2], "_catch")
}

// isCatchLineProducer: c is such a call, or a call of a helper of package vm that returns nothing
// but such a line.
func isCatchLineProducer(c ssa.CallInstruction, moveOp int64) bool {
	if isCatchLineCall(c, moveOp) {
		return true
	}
	g := core.StaticCallee(c)
	if g == nil || core.PkgOf(g) != "vm" || len(g.Blocks) == 0 || g.Signature.Results().Len() != 1 {
		return false
	}
	all, n := true, 0
	for _, in := range allInstrs(g) {
		ret, ok := in.(*ssa.Return)
		if !ok {
			continue
		}
		for _, src := range core.Sources(ret.Results[0]) {
			n++
			if gc, ok := src.(*ssa.Call); !ok || !isCatchLineCall(gc, moveOp) {
				all = false
			}
		}
	}
	return all && n > 0
}
