package rules

import (
	"fmt"
	"go/token"
	"go/types"
	"reflect"
	"strings"

	"golang.org/x/tools/go/ssa"

	"vischeck/internal/core"
)

func init() {
	register("C18", PropCheck{
		Title:      "The selected language reaches every lookup and survives the session",
		Explain:    "Plumbing of the language selection, decided on every path: (R1) in engine, vm, render and resource every call that takes a context.Context is given a context derived from the caller's own context parameter through context.WithValue only (never Background/TODO or a stored context); (R2) the context handed to the VM by Exec and init, and to the renderer by Flush, carries the language: it derives from WithValue(ctx, \"Language\", *State.Language), the call into VM/renderer is only reached through that injection or the Language==nil edge, and the injection happens after the state has been established (after init in Exec, after prepare in init) - so a session resumed from a persister gets its language on its first request; in Vm.Run the context is re-injected on the 'LANG flag was set' edge and flows into every handler call; (R3) every writer of the language context value uses key \"Language\" with a lang.Language value (not a pointer) and every reader asserts exactly that type under that key; (R4) State.Language and the fields of lang.Language are part of the persisted snapshot; (R5) DbBase.ToKey produces the translation key on every path on which a language is selected (context or explicit), so translated entries are looked up whenever they may exist, and the default key always; (R6) State.Language is only set non-nil behind the success edge of LanguageFromCode; (R9) after every successful call of external code the LANG flag is tested and State.SetLanguage applied on its set edge - inside the invoker (today) or, if not there, after the invoker call in every one of its callers (added after seeded change C18-F, which moved the update into the LOAD handler and left RELOAD without it); (R10) the configured default language never replaces a selected one: every State.SetLanguage in the engine whose argument is Config.Language lies behind the 'no state yet' or 'State.Language == nil' edge, in the function itself or at every call site of the helper (added after seeded change C18-G, which re-applied the configured language at every reset). (R11) in every function of package engine that injects the language, from the 'State.Language is set' edge every path reaches the injection before any call other than logging or a return: nothing else - a language already on the caller's context - decides (added after seeded change C18-M). (R12) every success return of State.SetLanguage passes a store to State.Language: no acknowledged-and-dropped switch (added after seeded change C18-N). (R13) outside package db no library function calls SetLanguage on a store handle (added after seeded change C18-O). (R14) in Menu.Render every call of the label resolver (the Menu method that calls Resource.GetMenu) is reachable only through the browse step that adds the lateral entries (added after seeded change C18-P).",
		NotDecided: "that third-party Resource implementations use the context language; gettext catalog contents; the translation-then-default lookup order inside each backend is C10 R3.",
		Run:        runC18,
	})
}

func isCtxType(t types.Type) bool { return core.TypeName(t) == "context.Context" }

// ctxOrigin classifies where a context value comes from: "param" (own parameter, possibly through
// WithValue and phis), or a description of a foreign origin.
func ctxOrigin(v ssa.Value, depth int, seen map[ssa.Value]bool) (bool, string) {
	if depth > 12 || seen[v] {
		return true, ""
	}
	seen[v] = true
	switch t := v.(type) {
	case *ssa.Parameter:
		return true, ""
	case *ssa.FreeVar:
		return true, "" // closure over the parent's context
	case *ssa.Phi:
		for _, e := range t.Edges {
			if ok, why := ctxOrigin(e, depth+1, seen); !ok {
				return false, why
			}
		}
		return true, ""
	case *ssa.Call:
		n := core.CallName(t)
		if n == "context.WithValue" || n == "context.WithCancel" || n == "context.WithTimeout" || n == "context.WithDeadline" {
			return ctxOrigin(t.Call.Args[0], depth+1, seen)
		}
		if f := core.StaticCallee(t); f != nil && strings.HasPrefix(f.Pkg.Pkg.Path(), core.ModPath) {
			// module helper returning a context: must be given the caller's context
			for _, a := range core.CallArgs(t) {
				if isCtxType(a.Type()) {
					return ctxOrigin(a, depth+1, seen)
				}
			}
		}
		return false, "result of " + n
	case *ssa.Extract:
		if c, ok := t.Tuple.(*ssa.Call); ok {
			return ctxOrigin(c, depth+1, seen)
		}
	case *ssa.UnOp:
		if tn, f, ok := core.FieldOfAddr(t.X); ok {
			return false, "stored context " + tn + "." + f
		}
		if a, ok := t.X.(*ssa.Alloc); ok {
			// local variable: all stores
			if refs := a.Referrers(); refs != nil {
				for _, r := range *refs {
					if st, ok := r.(*ssa.Store); ok && st.Addr == ssa.Value(a) {
						if ok, why := ctxOrigin(st.Val, depth+1, seen); !ok {
							return false, why
						}
					}
				}
			}
			return true, ""
		}
	case *ssa.MakeInterface:
		return ctxOrigin(t.X, depth+1, seen)
	case *ssa.ChangeInterface:
		return ctxOrigin(t.X, depth+1, seen)
	}
	return false, "value " + v.String()
}

// langInjections returns the WithValue calls with key "Language" that v derives from, looking into
// module helper functions that return a context (the call of the helper is then the site).
func langInjections(v ssa.Value, depth int, seen map[ssa.Value]bool) []*ssa.Call {
	if depth > 12 || seen[v] {
		return nil
	}
	seen[v] = true
	var out []*ssa.Call
	switch t := v.(type) {
	case *ssa.Phi:
		for _, e := range t.Edges {
			out = append(out, langInjections(e, depth+1, seen)...)
		}
	case *ssa.Extract:
		if c, ok := t.Tuple.(*ssa.Call); ok {
			return langInjections(c, depth+1, seen)
		}
	case *ssa.Call:
		if core.IsCallTo(t, "context.WithValue") {
			if isLangKey(t.Call.Args[1]) {
				out = append(out, t)
			}
			out = append(out, langInjections(t.Call.Args[0], depth+1, seen)...)
			return out
		}
		if f := core.StaticCallee(t); f != nil && f.Pkg != nil && strings.HasPrefix(f.Pkg.Pkg.Path(), core.ModPath) {
			// helper: does it inject?
			injects := false
			for _, c := range core.CallsTo(f, "context.WithValue") {
				if isLangKey(c.Common().Args[1]) {
					injects = true
				}
			}
			if injects {
				out = append(out, t)
			}
			for _, a := range core.CallArgs(t) {
				if isCtxType(a.Type()) {
					out = append(out, langInjections(a, depth+1, seen)...)
				}
			}
		}
	}
	return out
}

func isLangKey(v ssa.Value) bool {
	for _, s := range core.Sources(v) {
		if k, ok := core.ConstString(s); ok && k == "Language" {
			return true
		}
	}
	return false
}

func runC18(w *core.World, r *core.Report) {
	r.Rule("R1", "contexts passed on derive from the caller's own context parameter (engine, vm, render, resource)")
	r.Rule("R2", "the VM/renderer context carries the language, injected after the state is established; Vm.Run re-injects on the LANG edge")
	r.Rule("R3", "language context value: key \"Language\", type lang.Language at every writer and reader")
	r.Rule("R4", "State.Language is part of the persisted snapshot")
	r.Rule("R5", "ToKey produces the translation key whenever a language is selected")
	r.Rule("R6", "State.Language set non-nil only behind LanguageFromCode success")
	r.Rule("R7", "Vm.Run resets FLAG_LANG before every instruction, unconditionally (documented lifetime: next instruction)")
	r.Rule("R8", "language-scoped lookups are not memoised in the shared Resource objects")
	r.Rule("R14", "menu labels are resolved through the resource after the browse entries were added (lateral entries are translated too)")
	r.Rule("R13", "the library never sets the language of a store handle (outside package db no call of Db.SetLanguage)")
	r.Rule("R12", "State.SetLanguage reports success only after storing a language (no acknowledged-and-dropped switch)")
	r.Rule("R11", "whether the engine injects the language depends on State.Language alone (a language already on the caller context is replaced)")
	r.Rule("R10", "the configured default language is applied only when the session has none (behind 'no state yet' or State.Language == nil, here or at every call site)")
	r.Rule("R9", "after every successful call of external code the LANG flag is tested and State.SetLanguage applied on its set edge (in the invoker or in each of its callers)")

	// ---- R1 -----------------------------------------------------------------------------------
	n1 := 0
	for _, pk := range []string{"engine", "vm", "render", "resource"} {
		for _, fn := range w.FuncsIn(pk) {
			hasCtxParam := false
			for _, p := range fn.Params {
				if isCtxType(p.Type()) {
					hasCtxParam = true
				}
			}
			for _, fv := range fn.FreeVars {
				if isCtxType(fv.Type()) {
					hasCtxParam = true
				}
			}
			for _, c := range core.Calls(fn) {
				for ai, a := range core.CallArgs(c) {
					if !isCtxType(a.Type()) {
						continue
					}
					if core.IsCallTo(c, "context.WithValue") {
						continue
					}
					n1++
					r.CallSites++
					ok, why := ctxOrigin(a, 0, map[ssa.Value]bool{})
					if !hasCtxParam && !ok {
						// a function without a context of its own (e.g. a constructor) starting a fresh one is not a replacement
						continue
					}
					if !ok {
						r.Bad("R1", fmt.Sprintf("%s: context argument %d of %s", core.QName(fn), ai, core.CallName(c)), c.Pos(),
							"the context passed on is not derived from the caller's own context ("+why+"): the language (and session) selection carried by the context is lost for this lookup")
					}
				}
			}
		}
	}
	r.OK("R1", "context-taking call sites in engine/vm/render/resource", token.NoPos, fmt.Sprintf("%d sites derive from the caller's own context", n1))
	r.Floor("R1", "context-taking call sites", n1, 60)

	// ---- R2 -----------------------------------------------------------------------------------
	checkLanguageInjection(w, r, "R2")
	// Vm.Run re-injection
	if run := anchor(w, r, "vm", "(*Vm).Run"); run != nil {
		fLang, ok := constOf(w, r, "state", "FLAG_LANG")
		if ok {
			_, hcalls, _ := opcodeHandlers(w, r)
			var inj []*ssa.Call
			holder := run
			if step := vmStepFn(w); step != nil {
				holder = step // the per-instruction flag protocol may live in a helper that only Run calls
			}
			for _, c := range core.CallsTo(holder, "context.WithValue") {
				if cc, isC := c.(*ssa.Call); isC && isLangKey(cc.Call.Args[1]) {
					inj = append(inj, cc)
				}
			}
			okEdge := false
			for _, ic := range inj {
				cut := core.NewCut()
				for _, c := range flagConstCalls(holder, fLang, stResetFlag) {
					if v := core.CallValue(c); v != nil {
						cut.AddEdge(core.EdgesWhere(v, true)...)
					}
				}
				if ok2, _ := core.MustPass(ic, cut); ok2 && len(cut.Edges) > 0 {
					okEdge = true
				}
			}
			flows := 0
			for _, hc := range hcalls {
				for _, a := range core.CallArgs(hc) {
					if isCtxType(a.Type()) && len(langInjections(a, 0, map[ssa.Value]bool{})) > 0 {
						flows++
					}
				}
			}
			r.Check(okEdge && flows == len(hcalls) && len(hcalls) > 0, "R2", "vm.(*Vm).Run: re-injection on language change", run.Pos(), fmt.Sprintf("WithValue(\"Language\") on the LANG edge flows into all %d handler calls", flows),
				"after external code selected a language the VM does not put it on the context of the following instructions (or only of some)")
		}
	}

	// ---- R7 -----------------------------------------------------------------------------------
	if run := w.Func("vm", "(*Vm).Run"); run != nil {
		if fLang, ok := constOf(w, r, "state", "FLAG_LANG"); ok {
			_, hcalls, _ := opcodeHandlers(w, r)
			cut := cutWithHelpers(w, run, func(fn *ssa.Function, cut *core.Cut) {
				for _, c := range flagConstCalls(fn, fLang, stResetFlag) {
					cut.AddInstr(c.(ssa.Instruction))
				}
			}, 1)
			targets := map[ssa.Instruction]bool{}
			for _, hc := range hcalls {
				targets[hc] = true
			}
			isT := func(in ssa.Instruction) bool { return targets[in] }
			bad := ""
			if in, path := core.Reach(core.Entry(run), isT, cut); in != nil {
				bad = "first instruction reachable without the reset: " + w.PathString(path)
			}
			for _, hc := range hcalls {
				if in, path := core.Reach(core.After(hc), isT, cut); in != nil && bad == "" {
					bad = "next instruction reachable without the reset: " + w.PathString(path)
				}
			}
			r.Check(bad == "" && len(cut.Instrs) > 0, "R7", "vm.(*Vm).Run: LANG flag consumed every iteration", run.Pos(), "ResetFlag(FLAG_LANG) on every path to every handler call",
				"the LANG flag can stay raised across instructions (its reset is skipped on some path): a later ordinary LOAD whose content happens to be a language code then switches the session's language: "+bad)
		}
	}
	// ---- R8 -----------------------------------------------------------------------------------
	checkResourceStateless(w, r, "R8")
	// ---- R9 -----------------------------------------------------------------------------------
	if fLang, ok := constOf(w, r, "state", "FLAG_LANG"); ok {
		// helpers of package vm that apply the language themselves on every path
		updaters := map[*ssa.Function]bool{}
		for _, g := range w.FuncsIn("vm") {
			cs := core.CallsTo(g, "state.(*State).SetLanguage")
			if len(cs) == 0 || len(g.Blocks) == 0 {
				continue
			}
			cut := core.NewCut()
			for _, c := range cs {
				cut.AddInstr(c.(ssa.Instruction))
			}
			unset, _ := flagTestEdges(g, fLang, false)
			cut.AddEdge(unset...)
			if hit, _ := core.Reach(core.Entry(g), core.IsReturn, cut); hit == nil {
				updaters[g] = true
			}
		}
		langCut := func(fn *ssa.Function) *core.Cut {
			cut := core.NewCut()
			for _, c := range core.CallsTo(fn, "state.(*State).SetLanguage") {
				cut.AddInstr(c.(ssa.Instruction))
			}
			for _, c := range core.Calls(fn) {
				if g := core.StaticCallee(c); g != nil && g != fn && updaters[g] {
					if _, isDefer := c.(*ssa.Defer); !isDefer {
						cut.AddInstr(c.(ssa.Instruction))
					}
				}
			}
			n := len(cut.Instrs)
			unset, _ := flagTestEdges(fn, fLang, false)
			cut.AddEdge(unset...)
			if n == 0 {
				return nil
			}
			return cut
		}
		n9 := 0
		for inv := range externalInvokers(w) {
			// the call of the external function value
			var ext []ssa.CallInstruction
			for _, c := range core.Calls(inv) {
				if core.StaticCallee(c) == nil && !c.Common().IsInvoke() && strings.Contains(c.Common().Value.Type().String(), "EntryFunc") {
					ext = append(ext, c)
				}
			}
			inInvoker := false
			if cut := langCut(inv); cut != nil && len(ext) > 0 {
				inInvoker = true
				for _, c := range ext {
					if hit, _ := core.Reach(core.After(c.(ssa.Instruction)), isSuccessReturnPred(inv), cut); hit != nil {
						inInvoker = false
					}
				}
			}
			if inInvoker {
				n9++
				r.OK("R9", "external-code invoker: language update after the call", inv.Pos(), "LANG test and SetLanguage on every success path after the external call")
				continue
			}
			// otherwise every caller must do it after the call
			sites := 0
			bad := ""
			var badPos token.Pos
			for _, caller := range w.FuncsIn("vm") {
				for _, c := range callsToSet(caller, map[*ssa.Function]bool{inv: true}) {
					sites++
					cut := langCut(caller)
					if cut == nil {
						bad = fmt.Sprintf("%s calls the invoker at %s and never applies the language", label(roleLabels(w, r), caller), w.Pos(c.Pos()))
						badPos = c.Pos()
						continue
					}
					if hit, path := core.Reach(core.After(c.(ssa.Instruction)), isSuccessReturnPred(caller), cut); hit != nil {
						bad = fmt.Sprintf("%s can return after the invoker without the language update: %s", label(roleLabels(w, r), caller), w.PathString(path))
						badPos = c.Pos()
					}
				}
			}
			n9++
			r.Check(bad == "" && sites > 0, "R9", "external-code invoker: language update after the call", badPos, fmt.Sprintf("applied by all %d callers", sites),
				"external code that raises LANG and returns a language code does not change the session's language on some path (for instance through RELOAD but not LOAD): "+bad)
		}
		r.Floor("R9", "external-code invokers", n9, 1)
	}
	// ---- R10 ----------------------------------------------------------------------------------
	checkConfigLanguageOnlyWhenNone(w, r, "R10")
	checkSetLanguageAlwaysSets(w, r, "R12")
	checkHandleLanguageIsTheApplications(w, r, "R13")
	checkLabelsResolvedAfterBrowseEntries(w, r, "R14")
	checkInjectionDependsOnSessionLanguageOnly(w, r, "R11")

	// ---- R3 -----------------------------------------------------------------------------------
	nw, nr := 0, 0
	for _, fn := range w.LibFuncs {
		for _, c := range core.CallsTo(fn, "context.WithValue") {
			args := c.Common().Args
			if !isLangKey(args[1]) {
				// a writer of a lang.Language under another key?
				if mi, ok := args[2].(*ssa.MakeInterface); ok && strings.Contains(core.TypeName(mi.X.Type()), "lang.Language") {
					r.Bad("R3", core.QName(fn)+": language written under another key", c.Pos(), "a lang.Language is put on the context under a key other than \"Language\": readers miss it")
				}
				continue
			}
			nw++
			tn := ""
			if mi, ok := args[2].(*ssa.MakeInterface); ok {
				tn = core.TypeName(mi.X.Type())
			}
			r.Check(tn == "lang.Language", "R3", core.QName(fn)+": writer type", c.Pos(), "lang.Language value", "the \"Language\" context value is written as "+tn+" but readers assert lang.Language: the selection is silently ignored")
		}
		for _, c := range core.CallsTo(fn, "context.Context.Value") {
			call, ok := c.(*ssa.Call)
			if !ok {
				continue
			}
			keyIsLang := isLangKey(call.Call.Args[0])
			// type assertions on the result
			refs := call.Referrers()
			if refs == nil {
				continue
			}
			for _, u := range *refs {
				ta, ok := u.(*ssa.TypeAssert)
				if !ok {
					continue
				}
				at := core.TypeName(ta.AssertedType)
				if !strings.Contains(at, "lang.Language") {
					continue
				}
				nr++
				r.Check(keyIsLang && at == "lang.Language", "R3", core.QName(fn)+": reader key/type", ta.Pos(), "Value(\"Language\").(lang.Language)", fmt.Sprintf("the language is read with key-is-Language=%v and asserted type %s, writers use \"Language\" / lang.Language", keyIsLang, at))
			}
		}
	}
	r.Floor("R3", "language context writers", nw, 2)
	r.Floor("R3", "language context readers", nr, 2)

	// ---- R4 -----------------------------------------------------------------------------------
	okP := false
	for _, f := range structFields(w, "state", "State") {
		if f.Name() == "Language" {
			tag := reflect.StructTag(structTag(w, "state", "State", "Language")).Get("cbor")
			okP = f.Exported() && tag != "-" && !strings.HasPrefix(tag, "-,") && unexportedNested(f.Type(), 0) == ""
		}
	}
	r.Check(okP, "R4", "state.State.Language persisted", token.NoPos, "exported, not tagged out, lang.Language fields exported", "the language selection is not part of the persisted snapshot: it is lost when the session is resumed")

	// ---- R5 -----------------------------------------------------------------------------------
	if tk := anchor(w, r, "db", "(*DbBase).ToKey"); tk != nil {
		var trStores, defStores []ssa.Instruction
		for _, b := range tk.Blocks {
			for _, in := range b.Instrs {
				if st, ok := in.(*ssa.Store); ok {
					if _, f, ok := core.FieldOfAddr(st.Addr); ok {
						if f == "Translation" {
							trStores = append(trStores, st)
						}
						if f == "Default" {
							defStores = append(defStores, st)
						}
					}
				}
			}
		}
		// the language variable: phi/alloc of *lang.Language tested against nil
		bad := ""
		n := 0
		for _, b := range tk.Blocks {
			for _, in := range b.Instrs {
				bo, ok := in.(*ssa.BinOp)
				if !ok || (bo.Op != token.NEQ && bo.Op != token.EQL) || !core.IsNilConst(bo.Y) {
					continue
				}
				if core.TypeName(bo.X.Type()) != "*lang.Language" {
					continue
				}
				// only the final test of the selected language variable (a phi / local), not of db.lang itself
				if _, f, isF := core.LoadedField(bo.X); isF && f == "lang" {
					continue
				}
				n++
				cut := core.NewCut()
				for _, s := range trStores {
					cut.AddInstr(s)
				}
				for _, e := range core.EdgesWhere(bo, bo.Op == token.NEQ) {
					if in2, path := core.Reach(core.Point{B: e.To(), I: 0}, core.IsReturn, cut); in2 != nil {
						bad = "with a language selected ToKey can return without a translation key: " + w.PathString(path)
					}
				}
			}
		}
		r.Check(n > 0 && bad == "" && len(trStores) > 0, "R5", "db.(*DbBase).ToKey: translation key whenever a language is selected", tk.Pos(), "every path behind 'language != nil' stores lk.Translation",
			"translated entries are not looked up for some selected languages: "+bad)
		cut := core.NewCut()
		for _, s := range defStores {
			cut.AddInstr(s)
		}
		in, path := core.Reach(core.Entry(tk), isSuccessReturnPred(tk), cut)
		r.Check(in == nil && len(defStores) > 0, "R5", "db.(*DbBase).ToKey: default key always", tk.Pos(), "lk.Default stored on every success path", "a lookup key can be returned without the default-language key: "+w.PathString(path))
	}

	// ---- R6 -----------------------------------------------------------------------------------
	n6 := 0
	for _, fn := range w.LibFuncs {
		for _, b := range fn.Blocks {
			for _, in := range b.Instrs {
				st, ok := in.(*ssa.Store)
				if !ok {
					continue
				}
				tn, f, ok := core.FieldOfAddr(st.Addr)
				if !ok || tn != "state.State" || f != "Language" || core.IsNilConst(st.Val) {
					continue
				}
				n6++
				cut := core.NewCut()
				for _, c := range core.CallsTo(fn, "lang.LanguageFromCode") {
					for _, ce := range core.NilTestEdges(callErr(c)) {
						if ce.Val {
							cut.AddEdge(ce.E)
						}
					}
				}
				ok2, path := core.MustPass(st, cut)
				r.Check(ok2 && len(cut.Edges) > 0, "R6", core.QName(fn)+": Language set only for a known code", st.Pos(), "behind LanguageFromCode success", "an unknown language code can change the session's language: "+w.PathString(path))
			}
		}
	}
	r.Floor("R6", "non-nil stores to State.Language", n6, 1)
}

// checkLanguageInjection (C18 R2, C07 R6): the context handed to the VM by Exec and init, and to
// the renderer by Flush, carries the session's language, and the injection reads the language only
// after the state has been established (after init in Exec, after prepare in init) - a session
// resumed from a persister gets its language on its first request, exactly like a long-lived one.
func checkLanguageInjection(w *core.World, r *core.Report, rule string) {
	type site struct {
		fnF           *ssa.Function
		fn            string // label of the function
		afterF, tgtF  *ssa.Function
		after, target string
	}
	roles := resolveEngineRoles(w)
	var vmRender *ssa.Function = w.Func("vm", "(*Vm).Render")
	for _, st := range []site{
		{roles.Exec, "(*DefaultEngine).Exec", roles.Init, roles.ExecBackend, "engine init", "engine exec backend"},
		{roles.Init, "engine init", roles.Prepare, roles.PreVmHook, "engine prepare", "engine pre-VM hook"},
		{roles.Flush, "(*DefaultEngine).Flush", nil, vmRender, "", "vm.(*Vm).Render"},
	} {
		fn := st.fnF
		if fn == nil || st.tgtF == nil || (st.after != "" && st.afterF == nil) {
			r.Undecided(rule, "engine: "+st.fn+" / "+st.after+" / "+st.target, token.NoPos, "role not resolved")
			continue
		}
		r.Touch(core.QName(fn))
		targets := callsToSet(fn, map[*ssa.Function]bool{st.tgtF: true})
		if len(targets) == 0 {
			r.Undecided(rule, "engine: "+st.fn+": call of "+st.target, fn.Pos(), "call not found")
			continue
		}
		for _, tc := range targets {
			var ctxArg ssa.Value
			for _, a := range core.CallArgs(tc) {
				if isCtxType(a.Type()) {
					ctxArg = a
				}
			}
			key := fmt.Sprintf("engine: %s: language on the context of %s", st.fn, st.target)
			inj := langInjections(ctxArg, 0, map[ssa.Value]bool{})
			if len(inj) == 0 {
				r.Bad(rule, key, tc.Pos(), "the context handed on never receives the \"Language\" value: lookups of this request ignore the session's language")
				continue
			}
			// reached only through an injection or the Language == nil edge
			cut := core.NewCut()
			for _, ic := range inj {
				cut.AddInstr(ic)
			}
			for _, b := range fn.Blocks {
				for _, in := range b.Instrs {
					if bo, ok := in.(*ssa.BinOp); ok && (bo.Op == token.EQL || bo.Op == token.NEQ) && core.IsNilConst(bo.Y) {
						if _, f, ok := core.LoadedField(bo.X); ok && f == "Language" {
							cut.AddEdge(core.EdgesWhere(bo, bo.Op == token.EQL)...)
						}
					}
				}
			}
			// an injecting helper tests Language itself
			in, path := core.Reach(core.Entry(fn), core.IsInstr(tc.(ssa.Instruction)), cut)
			bad := ""
			if in != nil {
				bad = "reachable without the injection although a language may be selected: " + w.PathString(path)
			}
			// after the state is established
			if st.after != "" && bad == "" {
				est := callsToSet(fn, map[*ssa.Function]bool{st.afterF: true})
				if len(est) == 0 {
					bad = "cannot find the call of " + st.after + " that establishes the state"
				}
				for _, ic := range inj {
					domd := false
					for _, e := range est {
						if core.InstrDominates(e.(ssa.Instruction), ic) {
							domd = true
						}
					}
					if !domd {
						bad = fmt.Sprintf("the language is read for injection at %s before %s has established (loaded) the session state: a session resumed from a persister runs its first request without its language", w.Pos(ic.Pos()), st.after)
					}
				}
			}
			r.Check(bad == "", rule, key, tc.Pos(), fmt.Sprintf("injected at %d site(s), after the state is established", len(inj)), bad)
		}
	}
}
