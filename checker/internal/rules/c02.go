package rules

import (
	"fmt"
	"go/token"
	"go/types"
	"os"
	"strings"

	"golang.org/x/tools/go/ssa"

	"vischeck/internal/core"
)

func init() {
	register("C02", PropCheck{
		Title:      "Paginated sink content is complete, ordered and navigable",
		Explain:    "Structural necessary conditions of the pagination, decided on every path (the value-level partition relation itself is not decided, see not-decided): (R1) a page index at or past the end is an error, never a crash or other content: every index/slice in the methods of Sizer and Menu is proved in bounds, the cursor lookup's 'index beyond the cursors' edge only leads to error returns, the menu reports *BrowseError for idx >= pageCount and Vm.Render answers it by moving to the catch node (shared with C08 R3); (R2) lateral entries: Menu.Put keeps every entry it accepts (every success return passes the append); in the method that puts the browse selectors the 'next' entry is put only behind its availability flag, no path reaches the put on which the index may be the last page (idx against pageCount-1 in any equivalent form, tracked through repeated tests of the same value and through && / || lowered to phis) unless the flag was cleared on it and not raised again, the flag is cleared only on the last-page edge and nowhere else in the package, and it is raised before the test whenever the application configured the entry; the same for 'previous' against idx==0; (R3) row grouping as a typestate automaton over the grouping loop (abstract interpretation of the function that ranges over the rows and adds cursors, with its closures and builder helpers inlined; state: rows in the page under construction, page buffer empty/non-empty/unknown, separator pending, page emitted, cursor pending, row pending, page counter minus pages emitted): a separator is written between any two consecutive rows of a page and none before the first - for EVERY row content including the empty row; a page that holds rows is emitted before its buffer is reset and before a success return; the returned page count equals the number of pages emitted; every page separator written to the result is followed by exactly one cursor whose value is the result length after that separator; every row read is appended to a page exactly once (none skipped, none duplicated) and unmodified (the appended string is the row element itself, not a slice or derivative); (R4) plumbing: cursor 0 is added before the grouping runs, the menu's page count is the grouping's count itself (no arithmetic in between) and the sink value is the grouped string, the cursor (a byte length) slices the sink string itself (not a rune slice), the lookup cuts the page at the first page separator on the complete 'found' edge of the search (offset 0 included), page and in-page separators agree between the grouping and the lookup, and Vm.Render renders the page index that State.Where reports R4 also requires that the engine creates a Sizer only behind OutputSize > 0 (with a Sizer and no limit the sink is paginated against the length of the static text) and that Page.Reset resets its sizer on every path on which it has one (added after seeded changes C02-G and C02-H). R4 further requires that the BrowseError branch of Vm.Render builds nothing but MOVE _catch (a page index past the end is answered by the catch node, never by a lateral move back) and that package render contains no unchecked lossy narrowing (a 16-bit page cursor wraps at 64 kB of sink content); added after seeded changes C02-I and C02-J. R4 also requires that State.Down and State.Up store SizeIdx = 0 on every success path - a node entered by a descent or ascent opens on its first page (added after seeded change C02-L). (R5) = the load-once clause of C05 R1 under its pagination reading: a lateral move re-executes the node's bytecode, so the external-code invoker is reached only on the miss edge of Memory.Get(decoded symbol) (added after seeded change C02-N, which re-ran the loader on every page flip with the browse selector as input). (R6) = C07 R2: the renderer's request-state fields are re-initialised on every path through the resume block, so nothing measured for one render (a memo of browse-entry sizes) is used for the next (added after seeded change C02-M). (R7) = C07 R6: FLAG_DIRTY is raised only by Vm.Run - a failed render is not repeated on a renderer that was not reset (added after seeded change C02-O). (R8) = C08 R9: the code recorded after a run is the run's own result on its success edge - a lateral move is not applied twice after a failed run (added after C02-P).",
		NotDecided: "the partition relation as such (that the concatenation of all pages equals the row list) for all row lengths and output sizes, and everything that depends on the capacity arithmetic: where page breaks fall, that a page with both lateral entries fits (C01), that a row too long for a fresh page is refused. Movement of the page index by exactly one and its reset on node change are decided under C04 R1-R3. Unsigned wrap-around of idx/pageCount arithmetic is ignored (pageCount==0 is handled on a separate edge). The grouping analysis inlines closures and unexported helpers of package render to depth 3; builders handed anywhere else, deferred calls, and a separator search not written with strings.Index/IndexByte/IndexRune make it undecided.",
		Assume:     []string{"unsigned wrap-around of idx/pageCount arithmetic does not occur (pageCount==0 is handled on its own edge)", "strings.Builder behaves as documented (Len is the number of bytes written since Reset)"},
		Run:        runC02,
	})
}

func runC02(w *core.World, r *core.Report) {
	r.Rule("R1", "page index past the end: error, not a crash or other content (bounds in Sizer/Menu, BrowseError, catch handling)")
	r.Rule("R2", "lateral entries: Put keeps accepted entries; 'next' offered exactly off the last page, 'previous' exactly off the first (flag protocol of the browse method)")
	r.Rule("R3", "row grouping typestate: separator between rows, every page with rows emitted and counted, one cursor per page separator, every row appended exactly once")
	r.Rule("R5", "a lateral move re-executes the node's bytecode: LOAD of a symbol that is already loaded calls no external code (C05 R1)")
	r.Rule("R8", "the code recorded after a run is the run's own result, on its success edge only (C08 R9): a lateral move is not applied twice after a failed run")
	r.Rule("R7", "FLAG_DIRTY is raised only by Vm.Run (C07 R6): a page is not rendered a second time on a renderer that was not reset")
	r.Rule("R6", "the renderer carries nothing from one render to the next: request-state fields of Vm/Page/Menu/Sizer are re-initialised on every path through the resume block (C07 R2)")
	r.Rule("R4", "plumbing: cursor 0 first, page count (unmodified) / sink value from the grouping, byte cursor applied to the string, page cut at the first separator (offset 0 included), separators agree, rendered index = State.Where")

	// ---- R1 -----------------------------------------------------------------------------------
	checkBrowseBounds(w, r, "R1")
	checkCursorLookupRefusal(w, r, "R1")
	// ---- R2 -----------------------------------------------------------------------------------
	checkLateralEntries(w, r, "R2")
	// ---- R3 -----------------------------------------------------------------------------------
	unit := groupingUnitOf(w)
	if unit == nil {
		r.Undecided("R3", "row grouping function", token.NoPos, "no function of package render ranges over a []string parameter and adds page cursors")
	} else {
		for _, f := range unit.funcs {
			r.Touch(core.QName(f))
		}
		checkRowGrouping(w, r, unit, "R3")
		checkRowsUnmodified(w, r, "R3")
	}
	// ---- R4 -----------------------------------------------------------------------------------
	checkPagePlumbing(w, r, unit, "R4")
	checkLoadOnce(w, r, "R5", "the external function behind a sink (or any mapped symbol) runs again on every page flip, with the browse selector as its input: content can change between pages, a loader that validates its input fails and the offered next/previous leads to the catch node instead of the neighbouring page: ")
	checkResumeReset(w, r, "R6")
	checkDirtySetters(w, r, "R7")
	checkCodeRecordedFromRun(w, r, "R8")
}

// ---------------------------------------------------------------------------------------------
// R1: cursor lookup refusal

// cursorLookup returns the method of Sizer that indexes the cursor list.
func cursorLookup(w *core.World) *ssa.Function {
	for _, fn := range w.FuncsIn("render") {
		if fn.Signature.Recv() == nil || core.TypeName(fn.Signature.Recv().Type()) != "*render.Sizer" {
			continue
		}
		for _, b := range fn.Blocks {
			for _, in := range b.Instrs {
				if ia, ok := in.(*ssa.IndexAddr); ok {
					if _, f, ok := core.LoadedField(ia.X); ok && f == "crsrs" {
						return fn
					}
				}
			}
		}
	}
	return nil
}

func checkCursorLookupRefusal(w *core.World, r *core.Report, rule string) {
	fn := cursorLookup(w)
	if fn == nil {
		r.Undecided(rule, "page cursor lookup", token.NoPos, "no method of Sizer indexes the cursor list")
		return
	}
	r.Touch(core.QName(fn))
	// comparisons of the index parameter with len(crsrs): the 'beyond' edge only reaches error returns
	n := 0
	okAll := true
	for _, b := range fn.Blocks {
		for _, in := range b.Instrs {
			bo, ok := in.(*ssa.BinOp)
			if !ok {
				continue
			}
			isLenCrs := func(v ssa.Value) bool {
				for _, s := range core.Sources(v) {
					if c, ok := s.(*ssa.Call); ok && core.IsCallTo(c, "builtin.len") {
						if _, f, ok := core.LoadedField(c.Call.Args[0]); ok && f == "crsrs" {
							return true
						}
					}
				}
				return false
			}
			isIdx := func(v ssa.Value) bool {
				for _, s := range core.Sources(v) {
					if p, ok := s.(*ssa.Parameter); ok && p != fn.Params[0] {
						if bt, ok := p.Type().Underlying().(*types.Basic); ok && bt.Info()&types.IsInteger != 0 {
							return true
						}
					}
				}
				return false
			}
			var beyond []core.Edge
			switch {
			case isIdx(bo.X) && isLenCrs(bo.Y) && (bo.Op == token.GEQ || bo.Op == token.LSS):
				beyond = core.EdgesWhere(bo, bo.Op == token.GEQ)
			case isLenCrs(bo.X) && isIdx(bo.Y) && (bo.Op == token.LEQ || bo.Op == token.GTR):
				beyond = core.EdgesWhere(bo, bo.Op == token.LEQ)
			}
			for _, e := range beyond {
				n++
				if hit, _ := core.Reach(core.Point{B: e.To(), I: 0}, isSuccessReturnPred(fn), nil); hit != nil {
					okAll = false
				}
			}
		}
	}
	r.Check(n > 0 && okAll, rule, "page cursor lookup: index beyond the cursor list", fn.Pos(), "only error returns behind the 'beyond' edge",
		"a page index past the last cursor is answered with content (or no error) instead of an error")
}

// ---------------------------------------------------------------------------------------------
// R2: lateral entries

type affTerm struct {
	base string // "idx", "pc", "" (constant)
	off  int64
}

func affineOf(v ssa.Value, idx ssa.Value, depth int) (affTerm, bool) {
	if depth > 4 {
		return affTerm{}, false
	}
	v = core.Strip(v)
	if cv, ok := v.(*ssa.Convert); ok {
		return affineOf(cv.X, idx, depth+1)
	}
	if v == idx {
		return affTerm{"idx", 0}, true
	}
	if _, f, ok := core.LoadedField(v); ok && f == "pageCount" {
		return affTerm{"pc", 0}, true
	}
	if k, ok := core.ConstInt(v); ok {
		return affTerm{"", k}, true
	}
	if bo, ok := v.(*ssa.BinOp); ok && (bo.Op == token.ADD || bo.Op == token.SUB) {
		if k, ok := core.ConstInt(bo.Y); ok {
			if t, ok := affineOf(bo.X, idx, depth+1); ok {
				if bo.Op == token.ADD {
					t.off += k
				} else {
					t.off -= k
				}
				return t, true
			}
		}
		if k, ok := core.ConstInt(bo.X); ok && bo.Op == token.ADD {
			if t, ok := affineOf(bo.Y, idx, depth+1); ok {
				t.off += k
				return t, true
			}
		}
	}
	return affTerm{}, false
}

func flipOp(op token.Token) token.Token {
	switch op {
	case token.LSS:
		return token.GTR
	case token.GTR:
		return token.LSS
	case token.LEQ:
		return token.GEQ
	case token.GEQ:
		return token.LEQ
	}
	return op
}

// endPageEdges classifies the comparisons of fn that decide "idx is the last page" (last=true) or
// "idx is the first page" (last=false): end = edges on which it is, other = edges on which it is not.
type pageCmp struct {
	v       ssa.Value
	endWhen bool // the comparison is true on the end page (false: it is false on the end page)
}

func endPageEdges(fn *ssa.Function, idx ssa.Value, last bool) (end, other []core.Edge, cmps []pageCmp) {
	for _, b := range fn.Blocks {
		for _, in := range b.Instrs {
			bo, ok := in.(*ssa.BinOp)
			if !ok {
				continue
			}
			switch bo.Op {
			case token.EQL, token.NEQ, token.LSS, token.LEQ, token.GTR, token.GEQ:
			default:
				continue
			}
			tx, okx := affineOf(bo.X, idx, 0)
			ty, oky := affineOf(bo.Y, idx, 0)
			if !okx || !oky {
				continue
			}
			op := bo.Op
			var d int64
			if last {
				// D = idx - pageCount (D <= -1 behind the range guard); last page <=> D == -1
				switch {
				case tx.base == "idx" && ty.base == "pc":
					d = ty.off - tx.off
				case tx.base == "pc" && ty.base == "idx":
					d = tx.off - ty.off
					op = flipOp(op)
				default:
					continue
				}
				switch {
				case op == token.EQL && d == -1, op == token.GEQ && d == -1, op == token.GTR && d == -2:
					end = append(end, core.EdgesWhere(bo, true)...)
					other = append(other, core.EdgesWhere(bo, false)...)
					cmps = append(cmps, pageCmp{bo, true})
				case op == token.NEQ && d == -1, op == token.LSS && d == -1, op == token.LEQ && d == -2:
					end = append(end, core.EdgesWhere(bo, false)...)
					other = append(other, core.EdgesWhere(bo, true)...)
					cmps = append(cmps, pageCmp{bo, false})
				}
			} else {
				switch {
				case tx.base == "idx" && ty.base == "":
					d = ty.off - tx.off
				case tx.base == "" && ty.base == "idx":
					d = tx.off - ty.off
					op = flipOp(op)
				default:
					continue
				}
				switch {
				case op == token.EQL && d == 0, op == token.LEQ && d == 0, op == token.LSS && d == 1:
					end = append(end, core.EdgesWhere(bo, true)...)
					other = append(other, core.EdgesWhere(bo, false)...)
					cmps = append(cmps, pageCmp{bo, true})
				case op == token.NEQ && d == 0, op == token.GTR && d == 0, op == token.GEQ && d == 1:
					end = append(end, core.EdgesWhere(bo, false)...)
					other = append(other, core.EdgesWhere(bo, true)...)
					cmps = append(cmps, pageCmp{bo, false})
				}
			}
		}
	}
	return
}

func isConstBool(v ssa.Value, want bool) bool {
	c, ok := v.(*ssa.Const)
	if !ok || c.Value == nil {
		return false
	}
	return c.Value.String() == fmt.Sprint(want)
}

func checkLateralEntries(w *core.World, r *core.Report, rule string) {
	// role: the method of Menu that puts the browse selectors
	var ap *ssa.Function
	puts := map[string][]ssa.CallInstruction{}
	for _, fn := range w.FuncsIn("render") {
		if fn.Signature.Recv() == nil || !strings.Contains(core.TypeName(fn.Signature.Recv().Type()), "render.Menu") {
			continue
		}
		for _, c := range core.CallsTo(fn, "render.(*Menu).Put") {
			args := core.CallArgs(c)
			if len(args) < 2 {
				continue
			}
			if _, f, ok := core.LoadedField(args[1]); ok && (f == "NextSelector" || f == "PreviousSelector") {
				puts[f] = append(puts[f], c)
				ap = fn
			}
		}
	}
	if ap == nil || len(puts["NextSelector"]) == 0 || len(puts["PreviousSelector"]) == 0 {
		r.Undecided(rule, "browse entry method", token.NoPos, "no method of Menu puts both browse selectors")
		return
	}
	r.Touch(core.QName(ap))
	if os.Getenv("VISCHECK_DUMP") == "C02" {
		ap.WriteTo(os.Stderr)
	}
	var idx ssa.Value
	for _, p := range ap.Params[1:] {
		if bt, ok := p.Type().Underlying().(*types.Basic); ok && bt.Info()&types.IsInteger != 0 {
			idx = p
		}
	}
	if idx == nil {
		r.Undecided(rule, "browse entry method: page index parameter", ap.Pos(), "no integer parameter")
		return
	}
	// the put itself: an entry handed to Menu.Put is in the menu on every success path
	if put := w.Func("render", "(*Menu).Put"); put != nil {
		r.Touch(core.QName(put))
		cut := core.NewCut()
		for _, in := range allInstrs(put) {
			if st, ok := in.(*ssa.Store); ok {
				if _, f, ok := core.FieldOfAddr(st.Addr); ok && f == "menu" {
					for _, src := range core.Sources(st.Val) {
						if c, ok := src.(*ssa.Call); ok && core.IsCallTo(c, "builtin.append") {
							cut.AddInstr(st)
						}
					}
				}
			}
		}
		hit, path := core.Reach(core.Entry(put), isSuccessReturnPred(put), cut)
		r.Check(hit == nil && len(cut.Instrs) > 0, rule, "browse entries: Menu.Put keeps every entry it accepts", put.Pos(), "every success return passes the append to the menu",
			"Menu.Put can report success without adding the entry: a 'next'/'previous' entry that the browse method offers is silently missing from the page and the rows behind it cannot be reached: "+w.PathString(path))
	} else {
		r.Undecided(rule, "render.(*Menu).Put", token.NoPos, "anchor not found")
	}
	for _, side := range []struct {
		name, sel, avail, endName string
		last                      bool
	}{{"next", "NextSelector", "NextAvailable", "last", true}, {"previous", "PreviousSelector", "PreviousAvailable", "first", false}} {
		end, _, cmps := endPageEdges(ap, idx, side.last)
		isPut := func(in ssa.Instruction) bool {
			for _, c := range puts[side.sel] {
				if c.(ssa.Instruction) == in {
					return true
				}
			}
			return false
		}
		key := fmt.Sprintf("browse entries: '%s' not offered on the %s page", side.name, side.endName)
		key2 := fmt.Sprintf("browse entries: '%s' offered on every page but the %s", side.name, side.endName)
		if len(end) == 0 {
			r.Bad(rule, key, ap.Pos(), fmt.Sprintf("no comparison in the browse method decides whether the index is the %s page: the '%s' entry is offered on it (it leads to a page that does not render) or on none", side.endName, side.name))
			continue
		}
		// the availability flag: a bool field of Menu whose true edge guards the put
		flag := ""
		var flagLoads []ssa.Value
		for _, b := range ap.Blocks {
			for _, in := range b.Instrs {
				v, ok := in.(ssa.Value)
				if !ok {
					continue
				}
				tn, f, ok := core.LoadedField(v)
				if !ok || !strings.Contains(tn, "Menu") {
					continue
				}
				if bt, isB := v.Type().Underlying().(*types.Basic); !isB || bt.Kind() != types.Bool {
					continue
				}
				guards := true
				for _, c := range puts[side.sel] {
					if ok, _ := core.MustPass(c.(ssa.Instruction), core.NewCut().AddEdge(core.EdgesWhere(v, true)...)); !ok {
						guards = false
					}
				}
				if guards && (flag == "" || flag == f) {
					flag = f
					flagLoads = append(flagLoads, v)
				}
			}
		}
		var clears []*ssa.Store
		isRaise := func(in ssa.Instruction) bool { return false }
		if flag != "" {
			setters := map[*ssa.Function]bool{}
			for _, fn := range w.FuncsIn("render") {
				if fn != ap && storesConstTrue(fn, flag) {
					setters[fn] = true
				}
			}
			for _, b := range ap.Blocks {
				for _, in := range b.Instrs {
					if st, ok := in.(*ssa.Store); ok {
						if _, f, ok := core.FieldOfAddr(st.Addr); ok && f == flag && isConstBool(st.Val, false) {
							clears = append(clears, st)
						}
					}
				}
			}
			isRaise = func(in ssa.Instruction) bool {
				if st, ok := in.(*ssa.Store); ok {
					if _, f, ok := core.FieldOfAddr(st.Addr); ok && f == flag && !isConstBool(st.Val, false) {
						return true
					}
				}
				if c, ok := in.(ssa.CallInstruction); ok {
					if g := core.StaticCallee(c); g != nil && setters[g] {
						return true
					}
				}
				return false
			}
			// (b) offered on every other page: cleared only on the end-page edge, nowhere else in the
			// package, and raised before the test whenever the entry is configured
			bad := ""
			for _, st := range clears {
				if ok, path := core.MustPass(st, core.NewCut().AddEdge(end...)); !ok {
					bad = fmt.Sprintf("the flag %s is cleared at %s on a page that is not the %s: %s", flag, w.Pos(st.Pos()), side.endName, w.PathString(path))
				}
			}
			for _, fn := range w.FuncsIn("render") {
				if fn == ap {
					continue
				}
				for _, b := range fn.Blocks {
					for _, in := range b.Instrs {
						if st, ok := in.(*ssa.Store); ok {
							if _, f, ok := core.FieldOfAddr(st.Addr); ok && f == flag && isConstBool(st.Val, false) {
								bad = fmt.Sprintf("the flag %s is also cleared in %s", flag, core.QName(fn))
							}
						}
					}
				}
			}
			raised := false
			for _, ld := range flagLoads {
				ldi, _ := ld.(ssa.Instruction)
				cut := core.NewCut()
				for _, b := range ap.Blocks {
					for _, in := range b.Instrs {
						if isRaise(in) {
							cut.AddInstr(in)
						}
					}
				}
				// the edge on which the application did not configure the entry needs no raise
				for _, b := range ap.Blocks {
					for _, in := range b.Instrs {
						if v, ok := in.(ssa.Value); ok {
							if _, f, ok := core.LoadedField(v); ok && f == side.avail {
								cut.AddEdge(core.EdgesWhere(v, false)...)
							}
						}
					}
				}
				if ok, _ := core.MustPass(ldi, cut); ok && len(cut.Instrs) > 0 {
					raised = true
				}
			}
			if !raised && bad == "" {
				bad = fmt.Sprintf("the flag %s is not raised on every path before it is tested", flag)
			}
			for g := range setters {
				// in the setter: the configured edge always raises the flag
				for _, b := range g.Blocks {
					for _, in := range b.Instrs {
						v, ok := in.(ssa.Value)
						if !ok {
							continue
						}
						if _, f, ok := core.LoadedField(v); ok && f == side.avail {
							cut := core.NewCut()
							for _, bb := range g.Blocks {
								for _, x := range bb.Instrs {
									if st, ok := x.(*ssa.Store); ok {
										if _, ff, ok := core.FieldOfAddr(st.Addr); ok && ff == flag && isConstBool(st.Val, true) {
											cut.AddInstr(st)
										}
									}
								}
							}
							for _, e := range core.EdgesWhere(v, true) {
								if hit, _ := core.Reach(core.Point{B: e.To(), I: 0}, core.IsReturn, cut); hit != nil && bad == "" {
									bad = fmt.Sprintf("%s does not raise %s on every path on which the entry is configured", core.QName(g), flag)
								}
							}
						}
					}
				}
			}
			r.Check(bad == "", rule, key2, ap.Pos(), fmt.Sprintf("flag %s raised before the test, cleared only on the %s-page edge", flag, side.endName),
				fmt.Sprintf("the '%s' entry is missing on a page that has a neighbour (rows behind it cannot be reached): %s", side.name, bad))
		} else {
			r.Info(rule, key2, ap.Pos(), "no availability flag: the entry is guarded by the page comparison directly")
		}
		// (a) not offered on the end page: a path on which the page may be the end page reaches
		// the put only through a store that clears the flag
		bad := ""
		clearCut := core.NewCut()
		for _, st := range clears {
			clearCut.AddInstr(st)
		}
		var track []ssa.Value
		for _, c := range cmps {
			track = append(track, c.v)
		}
		knownEnd := false
		target := func(in ssa.Instruction, known core.Known) bool {
			if !isPut(in) {
				return false
			}
			for _, c := range cmps {
				if v, ok := known[c.v]; ok && v != c.endWhen {
					return false // the path established that this is not the end page
				}
			}
			knownEnd = false
			for _, c := range cmps {
				if v, ok := known[c.v]; ok && v == c.endWhen {
					knownEnd = true
				}
			}
			return true
		}
		if hit, path := core.ReachK(core.Entry(ap), target, clearCut, nil, track); hit != nil {
			if knownEnd {
				bad = fmt.Sprintf("on the %s page the entry is still put: %s", side.endName, w.PathString(path))
			} else {
				bad = fmt.Sprintf("the entry is put on a path that never compares the index with the %s page: %s", side.endName, w.PathString(path))
			}
		}
		for _, st := range clears {
			if hit, _ := core.Reach(core.After(st), isRaise, nil); hit != nil && bad == "" {
				bad = fmt.Sprintf("the flag is raised again at %s after it was cleared for the %s page", w.Pos(hit.Pos()), side.endName)
			}
		}
		r.Check(bad == "", rule, key, ap.Pos(), fmt.Sprintf("every path to the put passes the %s-page comparison; on its edge the entry is withheld", side.endName),
			fmt.Sprintf("the '%s' entry is offered on the %s page: selecting it leads to a page that does not exist: %s", side.name, side.endName, bad))
	}
}

// ---------------------------------------------------------------------------------------------
// R4: plumbing

// constBytesOf returns the constant byte string a value denotes: a string constant, a constant
// rune/byte, or a []byte composite literal of constants.
func constBytesOf(v ssa.Value) (string, bool) {
	v = core.Strip(v)
	if s, ok := core.ConstString(v); ok {
		return s, true
	}
	if k, ok := core.ConstInt(v); ok && k >= 0 && k < 256 {
		return string([]byte{byte(k)}), true
	}
	switch t := v.(type) {
	case *ssa.Convert:
		return constBytesOf(t.X)
	case *ssa.Slice:
		al, ok := t.X.(*ssa.Alloc)
		if !ok || al.Referrers() == nil {
			return "", false
		}
		bytesAt := map[int64]byte{}
		for _, u := range *al.Referrers() {
			ia, ok := u.(*ssa.IndexAddr)
			if !ok || ia.Referrers() == nil {
				continue
			}
			i, ok := core.ConstInt(ia.Index)
			if !ok {
				return "", false
			}
			for _, uu := range *ia.Referrers() {
				if st, ok := uu.(*ssa.Store); ok {
					k, ok := core.ConstInt(st.Val)
					if !ok {
						return "", false
					}
					bytesAt[i] = byte(k)
				}
			}
		}
		out := make([]byte, len(bytesAt))
		for i := range out {
			bv, ok := bytesAt[int64(i)]
			if !ok {
				return "", false
			}
			out[i] = bv
		}
		return string(out), len(out) > 0
	}
	return "", false
}

func checkPagePlumbing(w *core.World, r *core.Report, unit *groupingUnit, rule string) {
	var group *ssa.Function
	if unit != nil {
		group = unit.root
	}
	// (a)-(b): the caller of the grouping
	if group != nil {
		var caller *ssa.Function
		var gcalls []ssa.CallInstruction
		for _, fn := range w.FuncsIn("render") {
			if cs := callsToSet(fn, map[*ssa.Function]bool{group: true}); len(cs) > 0 {
				caller, gcalls = fn, cs
			}
		}
		if caller == nil {
			r.Undecided(rule, "caller of the row grouping", group.Pos(), "not found")
		} else {
			r.Touch(core.QName(caller))
			cut := core.NewCut()
			for _, c := range core.CallsTo(caller, "render.(*Sizer).AddCursor") {
				if k, ok := core.ConstInt(core.CallArgs(c)[1]); ok && k == 0 {
					cut.AddInstr(c.(ssa.Instruction))
				}
			}
			okFirst := len(cut.Instrs) > 0
			for _, gc := range gcalls {
				if ok, _ := core.MustPass(gc.(ssa.Instruction), cut); !ok {
					okFirst = false
				}
			}
			r.Check(okFirst, rule, "page 0 starts at offset 0: cursor 0 added before the rows are grouped", caller.Pos(), "AddCursor(0) on every path to the grouping",
				"the cursor of the first page is missing on some path: every page index shows the content of the following page and the last page is an error")
			// count -> menu, sink string -> values
			countIdx := 1
			okCount, nCount := true, 0
			for _, c := range core.CallsTo(caller, "render.(*Menu).WithPageCount") {
				nCount++
				// the very value: no arithmetic between the grouping's result and the menu
				var exact func(v ssa.Value, d int) bool
				exact = func(v ssa.Value, d int) bool {
					if d > 6 {
						return false
					}
					v = core.Strip(v)
					switch t := v.(type) {
					case *ssa.Convert:
						return exact(t.X, d+1)
					case *ssa.Phi:
						for _, e := range t.Edges {
							if !exact(e, d+1) {
								return false
							}
						}
						return len(t.Edges) > 0
					}
					cc, i, ok := core.ExtractOf(v)
					return ok && i == countIdx && core.StaticCallee(cc) == group
				}
				if !exact(core.CallArgs(c)[1], 0) {
					okCount = false
				}
			}
			r.Check(okCount && nCount > 0, rule, "menu page count is the grouping's page count", caller.Pos(), "WithPageCount(result of the grouping, unmodified)",
				"the number of pages the menu offers entries for is not (exactly) the number of pages the grouping produced: entries lead to pages that do not render, or pages are unreachable")
			okSink := false
			for _, b := range caller.Blocks {
				for _, in := range b.Instrs {
					if mu, ok := in.(*ssa.MapUpdate); ok {
						for _, s := range core.Sources(mu.Value) {
							if cc, i, ok := core.ExtractOf(s); ok && i == 0 && core.StaticCallee(cc) == group {
								okSink = true
							}
						}
					}
				}
			}
			r.Check(okSink, rule, "sink value is the grouped string", caller.Pos(), "values[sink] = result of the grouping",
				"the paged string produced by the grouping is not what the cursor lookup slices")
		}
	}
	// (c)-(d): the cursor lookup
	lk := cursorLookup(w)
	if lk == nil {
		return
	}
	pageSep, rowSep := "", ""
	if unit != nil {
		for _, c := range unit.calls() {
			m, _, ok := builderMethod(c)
			if !ok || (m != "WriteByte" && m != "WriteRune" && m != "WriteString") {
				continue
			}
			if cs, ok := constBytesOf(core.CallArgs(c)[1]); ok && len(cs) == 1 {
				if cs == "\n" {
					pageSep = cs
				} else {
					rowSep = cs
				}
			}
		}
	}
	// search of the page separator and cut
	var idxCall *ssa.Call
	for _, c := range core.Calls(lk) {
		if cc, ok := c.(*ssa.Call); ok && core.IsCallTo(cc, "strings.Index", "strings.IndexByte", "strings.IndexRune", "bytes.Index", "bytes.IndexByte") {
			idxCall = cc
		}
	}
	if idxCall == nil {
		r.Undecided(rule, "page cursor lookup: search of the page separator", lk.Pos(), "no strings.Index-style search found")
	} else {
		needle, okN := constBytesOf(idxCall.Call.Args[1])
		r.Check(okN && pageSep != "" && needle == pageSep, rule, "page separator agrees between grouping and lookup", idxCall.Pos(), fmt.Sprintf("%q", needle),
			fmt.Sprintf("the lookup searches %q but the grouping separates pages with %q: pages run together or are cut short", needle, pageSep))
		var complete, partial []core.Edge
		if refs := idxCall.Referrers(); refs != nil {
			for _, u := range *refs {
				bo, ok := u.(*ssa.BinOp)
				if !ok {
					continue
				}
				x, op, c, ok := core.CmpConst(bo)
				if !ok || x != ssa.Value(idxCall) {
					continue
				}
				switch {
				case op == token.GEQ && c == 0, op == token.GTR && c == -1, op == token.NEQ && c == -1:
					complete = append(complete, core.EdgesWhere(bo, true)...)
				case op == token.LSS && c == 0, op == token.LEQ && c == -1, op == token.EQL && c == -1:
					complete = append(complete, core.EdgesWhere(bo, false)...)
				case op == token.GTR && c >= 0, op == token.GEQ && c >= 1, op == token.NEQ && c == 0:
					partial = append(partial, core.EdgesWhere(bo, true)...)
				case op == token.LEQ && c >= 0, op == token.LSS && c >= 1, op == token.EQL && c == 0:
					partial = append(partial, core.EdgesWhere(bo, false)...)
				}
			}
		}
		var cutSlice *ssa.Slice
		for _, b := range lk.Blocks {
			for _, in := range b.Instrs {
				if sl, ok := in.(*ssa.Slice); ok && sl.High != nil {
					for _, s := range core.Sources(sl.High) {
						if s == ssa.Value(idxCall) {
							cutSlice = sl
						}
					}
				}
			}
		}
		switch {
		case cutSlice == nil:
			r.Bad(rule, "page cut at the first page separator", idxCall.Pos(), "the page is not cut at the position the search returns: a page shows the following pages too")
		case len(complete) > 0:
			ok, path := core.MustPass(cutSlice, core.NewCut().AddEdge(complete...))
			bad := ""
			if !ok {
				bad = "the cut is reachable without the 'found' edge: " + w.PathString(path)
			}
			for _, e := range complete {
				// on the found edge the cut happens before the value is used
				if hit, p2 := core.Reach(core.Point{B: e.To(), I: 0}, isSuccessReturnPred(lk), core.NewCut().AddInstr(cutSlice)); hit != nil && bad == "" {
					// a loop back to the range header is fine: only returns matter
					bad = "on the 'found' edge a return is reachable without the cut: " + w.PathString(p2)
				}
			}
			_ = bad
			r.Check(ok, rule, "page cut at the first page separator", cutSlice.Pos(), "behind the complete 'found' edge (offset 0 included)", bad)
		case len(partial) > 0:
			r.Bad(rule, "page cut at the first page separator", cutSlice.Pos(), "the search result is tested with a comparison that treats offset 0 as 'not found': a page that starts with the page separator (a page holding one empty row) is answered with all following pages")
		default:
			r.Bad(rule, "page cut at the first page separator", cutSlice.Pos(), "the cut is not guarded by a test of the search result (a missing separator would slice at -1)")
		}
	}
	// cursors are byte lengths of the result buffer: they must be applied as byte offsets
	{
		n, bad := 0, ""
		for _, in := range allInstrs(lk) {
			sl, ok := in.(*ssa.Slice)
			if !ok || sl.Low == nil {
				continue
			}
			fromCursor := false
			for _, src := range core.Sources(sl.Low) {
				if uo, ok := src.(*ssa.UnOp); ok && uo.Op == token.MUL {
					if ia, ok := uo.X.(*ssa.IndexAddr); ok {
						if _, f, ok := core.LoadedField(ia.X); ok && f == "crsrs" {
							fromCursor = true
						}
					}
				}
			}
			if !fromCursor {
				continue
			}
			n++
			ts := sl.X.Type().Underlying().String()
			if ts != "string" && ts != "[]byte" && ts != "[]uint8" {
				bad = fmt.Sprintf("the cursor (a byte length) slices a %s at %s", ts, w.Pos(sl.Pos()))
			}
		}
		r.Check(n > 0 && bad == "", rule, "page cursor applied as a byte offset", lk.Pos(), "the cursor slices the sink string itself",
			"cursor unit mismatch: cursors are byte lengths of the grouped string but are not applied as byte offsets (content with multi-byte characters ahead of a page break shifts every later page): "+bad)
	}
	// in-page separator replaced by LF
	okRep, found := false, false
	for _, c := range core.Calls(lk) {
		if !core.IsCallTo(c, "bytes.ReplaceAll", "strings.ReplaceAll", "bytes.Replace", "strings.Replace") {
			continue
		}
		found = true
		args := core.CallArgs(c)
		old, ok1 := constBytesOf(args[1])
		nw, ok2 := constBytesOf(args[2])
		if ok1 && ok2 && old == rowSep && rowSep != "" && nw == "\n" {
			okRep = true
		}
	}
	if found || rowSep != "" {
		r.Check(okRep, rule, "in-page row separator agrees between grouping and lookup", lk.Pos(), fmt.Sprintf("%q shown as LF", rowSep),
			fmt.Sprintf("the lookup does not turn the grouping's in-page separator %q into line feeds: rows of a page run together or show control bytes", rowSep))
	}
	// (f) no sizer without a limit, and a page always resets the sizer it has
	{
		n, bad := 0, ""
		var badPos token.Pos
		for _, fn := range w.FuncsIn("engine") {
			for _, c := range core.CallsTo(fn, "render.NewSizer") {
				n++
				cut := core.NewCut()
				for _, in := range allInstrs(fn) {
					bo, ok := in.(*ssa.BinOp)
					if !ok {
						continue
					}
					x, op, k, ok := core.CmpConst(bo)
					if !ok || k != 0 {
						continue
					}
					if _, f, ok := core.LoadedField(x); !ok || f != "OutputSize" {
						continue
					}
					switch op {
					case token.GTR, token.NEQ:
						cut.AddEdge(core.EdgesWhere(bo, true)...)
					case token.EQL, token.LEQ:
						cut.AddEdge(core.EdgesWhere(bo, false)...)
					}
				}
				if ok, _ := core.MustPass(c.(ssa.Instruction), cut); !ok || len(cut.Edges) == 0 {
					bad = fmt.Sprintf("%s creates a Sizer on a path where OutputSize may be 0", core.QName(fn))
					badPos = c.Pos()
				}
			}
		}
		r.Check(bad == "" && n > 0, rule, "engine: a Sizer exists only with a positive output size", badPos, fmt.Sprintf("%d NewSizer site(s) behind OutputSize > 0", n),
			"with unlimited output (OutputSize 0) the renderer still gets a Sizer: Check then reports the length of the static text as the space left and the sink is paginated against it (rows dropped or the page refused): "+bad)
	}
	if rs := w.Func("render", "(*Page).Reset"); rs != nil {
		r.Touch(core.QName(rs))
		cut := core.NewCut()
		ncall := 0
		for _, c := range core.CallsTo(rs, "render.(*Sizer).Reset") {
			cut.AddInstr(c.(ssa.Instruction))
			ncall++
		}
		for _, in := range allInstrs(rs) {
			if bo, ok := in.(*ssa.BinOp); ok && (bo.Op == token.EQL || bo.Op == token.NEQ) && core.IsNilConst(bo.Y) {
				if _, f, ok := core.LoadedField(bo.X); ok && f == "sizer" {
					cut.AddEdge(core.EdgesWhere(bo, bo.Op == token.EQL)...)
				}
			}
		}
		hit, path := core.Reach(core.Entry(rs), core.IsReturn, cut)
		r.Check(hit == nil && ncall > 0, rule, "render.(*Page).Reset: the sizer is reset whenever there is one", rs.Pos(), "every return passes Sizer.Reset or the sizer == nil edge",
			"page cursors of the previous node can survive a reset (for instance after a menu-sink node, which sets no sink symbol on the page): the next paged node is cut at the old offsets: "+w.PathString(path))
	}
	// (g) byte cursors are not narrowed (C08 R6 for the renderer): a cursor that wraps sends a later
	// page back to early rows
	{
		var rf []*ssa.Function
		seen, _ := w.Reachable([]*ssa.Function{w.Func("vm", "(*Vm).Run"), w.Func("vm", "(*Vm).Render")})
		for _, fn := range w.FuncsIn("render") {
			// the renderer as the VM uses it (leftover, unreferenced helpers are not part of any page)
			if len(fn.Blocks) > 0 && seen[fn] {
				rf = append(rf, fn)
			}
		}
		checkNarrowing(w, r, rule, rf, "a page cursor, page size or count wraps in the renderer: pages beyond the wrap show early rows again and the rows behind it are never shown")
	}
	// (h) a browse past the last page goes to the catch node, nowhere else
	if vr := w.Func("vm", "(*Vm).Render"); vr != nil {
		moveOp, _ := constOf(w, r, "vm", "MOVE")
		var region []*ssa.BasicBlock
		for _, in := range allInstrs(vr) {
			for _, e := range browseErrorEdgesOf(in) {
				region = append(region, dominatedRegion(e.To())...)
			}
		}
		// the recovery may have moved into a helper of the VM that is called in the branch
		for _, b := range append([]*ssa.BasicBlock{}, region...) {
			for _, in := range b.Instrs {
				if c, ok := in.(ssa.CallInstruction); ok {
					if g := core.StaticCallee(c); g != nil && core.PkgOf(g) == "vm" && g != vr && g.Signature.Recv() != nil && len(core.CallsTo(g, "vm.(*Vm).Run")) > 0 && g.Name() != "Run" && g.Name() != "Reset" {
						region = append(region, g.Blocks...)
					}
				}
			}
		}
		nline, bad := 0, ""
		var badPos token.Pos
		for _, b := range region {
			for _, in := range b.Instrs {
				c, ok := in.(ssa.CallInstruction)
				if !ok {
					continue
				}
				builds := core.IsCallTo(c, "vm.NewLine")
				if g := core.StaticCallee(c); !builds && g != nil && core.PkgOf(g) == "vm" && len(core.CallsTo(g, "vm.NewLine")) > 0 && g.Signature.Results().Len() == 1 && g.Signature.Recv() == nil {
					builds = true
				}
				if !builds {
					continue
				}
				nline++
				if !isCatchLineProducer(c, moveOp) {
					bad = "the instruction built at " + w.Pos(c.Pos()) + " is not MOVE _catch"
					badPos = c.Pos()
				}
			}
		}
		if len(region) > 0 {
			r.Check(bad == "" && nline > 0, rule, "vm.(*Vm).Render: a browse error leads to the catch node only", badPos, fmt.Sprintf("%d instruction(s) built in the BrowseError branch, all MOVE _catch", nline),
				"a page index beyond the last page is answered by something other than the catch node (for instance a lateral move back): content is repeated without an error instead of the past-the-end error the property requires: "+bad)
		}
	}
	// (i) a node entered by a descent or an ascent opens on its first page
	for _, nm := range []string{"(*State).Down", "(*State).Up"} {
		fn := w.Func("state", nm)
		if fn == nil {
			continue
		}
		cut := core.NewCut()
		for _, in := range allInstrs(fn) {
			if st, ok := in.(*ssa.Store); ok {
				if _, f, ok := core.FieldOfAddr(st.Addr); ok && f == "SizeIdx" {
					if k, isC := core.ConstInt(st.Val); isC && k == 0 {
						cut.AddInstr(st)
					}
				}
			}
		}
		hit, path := core.Reach(core.Entry(fn), isSuccessReturnPred(fn), cut)
		r.Check(hit == nil && len(cut.Instrs) > 0, rule, "state."+nm+": the page index is cleared", fn.Pos(), "SizeIdx = 0 on every success path",
			"a node entered from page k of another node opens on its own page k: its earlier rows are never shown (or the index is past its end): "+w.PathString(path))
	}
	// (e) Vm.Render renders the index State.Where reports
	if vr := anchor(w, r, "vm", "(*Vm).Render"); vr != nil {
		n, okAll := 0, true
		for _, c := range core.CallsTo(vr, "render.(*Page).Render") {
			n++
			args := core.CallArgs(c)
			if !fromResult(args[len(args)-1], 1, "state.(*State).Where") {
				okAll = false
			}
		}
		r.Check(n > 0 && okAll, rule, "vm.(*Vm).Render: rendered page index is State.Where's", vr.Pos(), "idx argument derives from State.Where",
			"the page rendered is not the page the session's index points to: next/previous do not show the neighbouring page")
	}
}
