package rules

import (
	"fmt"
	"go/token"
	"go/types"
	"sort"
	"strings"

	"golang.org/x/tools/go/ssa"

	"vischeck/internal/core"
)

// Clauses added after the round-6 seeded changes. Each is a structural necessary condition of the
// property named in its comment and was absent from the rule set when an independently written
// change broke it.

// checkCodeRecordedFromRun (C08 R9): in the engine's exec backend the code recorded after a run is
// the run's own result and is recorded only behind the run's success edge. Putting back the code
// that was pending before a failed run leaves the position of the new node with the routing table
// of the old one: the client's repeated selector then descends into the node that is already
// current (the self-move panic of State.Down, excluded by the property for well-formed programs
// only).
func checkCodeRecordedFromRun(w *core.World, r *core.Report, rule string) {
	roles := resolveEngineRoles(w)
	ex := roles.ExecBackend
	if ex == nil {
		r.Undecided(rule, "engine exec backend", token.NoPos, "role not resolved")
		return
	}
	var runs []*ssa.Call
	for _, c := range core.CallsTo(ex, "vm.(*Vm).Run") {
		if cc, ok := c.(*ssa.Call); ok {
			runs = append(runs, cc)
		}
	}
	if len(runs) == 0 {
		r.Undecided(rule, "engine exec backend: Vm.Run", ex.Pos(), "call not found")
		return
	}
	okEdges := core.NewCut()
	for _, rc := range runs {
		for _, ce := range core.NilTestEdges(callErr(rc)) {
			if ce.Val {
				okEdges.AddEdge(ce.E)
			}
		}
	}
	n, bad := 0, ""
	var badPos token.Pos
	setters := map[*ssa.Function]bool{}
	if roles.SetCode != nil {
		setters[roles.SetCode] = true
	}
	var sites []ssa.CallInstruction
	sites = append(sites, core.CallsTo(ex, "state.(*State).SetCode")...)
	sites = append(sites, callsToSet(ex, setters)...)
	for _, c := range sites {
		// only recordings that come after a run matter
		after := false
		for _, rc := range runs {
			if hit, _ := core.Reach(core.After(rc), core.IsInstr(c.(ssa.Instruction)), nil); hit != nil {
				after = true
			}
		}
		if !after {
			continue
		}
		n++
		args := core.CallArgs(c)
		fromRun := false
		for _, src := range core.Sources(args[len(args)-1]) {
			if cc, i, ok := core.ExtractOf(src); ok && i == 0 {
				for _, rc := range runs {
					if cc == rc {
						fromRun = true
					}
				}
			}
		}
		if !fromRun {
			bad = fmt.Sprintf("the code recorded at %s is not the result of the run", w.Pos(c.Pos()))
			badPos = c.Pos()
			continue
		}
		if hit, path := core.Reach(core.After(runs[0]), core.IsInstr(c.(ssa.Instruction)), okEdges); hit != nil {
			bad = "code is recorded although the run failed: " + w.PathString(path)
			badPos = c.Pos()
		}
	}
	r.Check(bad == "" && n > 0, rule, "engine exec backend: the code recorded after a run is the run's result, on its success edge only", badPos, fmt.Sprintf("%d recording(s) after Vm.Run", n),
		"after a failed run the engine records code that does not belong to the position the run left (a move may already have happened): the next input is routed by the wrong table and can descend into the current node (panic in State.Down): "+bad)
}

// checkSizesDeletedWithFrame (C09 R8): an entry of Cache.Sizes is deleted only together with its
// symbol: the key of every delete(Sizes, k) ranges over a frame map (a frame that is being
// dropped), never over Sizes itself or anything else. Deleting the limit of a symbol that stays
// alive makes the next Update treat it as unlimited.
func checkSizesDeletedWithFrame(w *core.World, r *core.Report, rule string) {
	n, bad := 0, ""
	var badPos token.Pos
	for _, fn := range w.FuncsIn("cache") {
		for _, c := range core.CallsTo(fn, "builtin.delete") {
			args := core.CallArgs(c)
			if _, f, ok := core.LoadedField(args[0]); !ok || f != "Sizes" {
				continue
			}
			n++
			overFrame := false
			for _, src := range core.Sources(args[1]) {
				ex, ok := src.(*ssa.Extract)
				if !ok {
					continue
				}
				nx, ok := ex.Tuple.(*ssa.Next)
				if !ok {
					continue
				}
				rg, ok := nx.Iter.(*ssa.Range)
				if !ok {
					continue
				}
				for _, s2 := range core.Sources(rg.X) {
					if u, ok := s2.(*ssa.UnOp); ok && u.Op == token.MUL {
						if ia, ok := u.X.(*ssa.IndexAddr); ok {
							if _, f2, ok := core.LoadedField(ia.X); ok && f2 == "Cache" {
								overFrame = true
							}
						}
					}
				}
			}
			if !overFrame {
				bad = fmt.Sprintf("%s deletes a Sizes entry whose key does not range over a frame being dropped", core.QName(fn))
				badPos = c.Pos()
			}
		}
	}
	r.Check(bad == "" && n > 0, rule, "cache: a size limit is deleted only together with its symbol's frame", badPos, fmt.Sprintf("%d delete(Sizes, k) site(s), k ranging over the dropped frame", n),
		"the recorded limit of a symbol can be deleted while the symbol stays in the cache: Update then reads limit 0 and accepts any length: "+bad)
}

// checkDecodeKeySessionCheck (C11 R10): DecodeKey strips and verifies the session prefix on every
// success path (listing relies on it to stop at the session boundary).
func checkDecodeKeySessionCheck(w *core.World, r *core.Report, rule string) {
	dk := w.Func("db", "(*DbBase).DecodeKey")
	if dk == nil {
		r.Undecided(rule, "db.(*DbBase).DecodeKey", token.NoPos, "anchor not found")
		return
	}
	r.Touch(core.QName(dk))
	cut := core.NewCut()
	for _, c := range core.CallsTo(dk, "db.(*DbBase).FromSessionKey") {
		cut.AddInstr(c.(ssa.Instruction))
	}
	hit, path := core.Reach(core.Entry(dk), isSuccessReturnPred(dk), cut)
	r.Check(hit == nil && len(cut.Instrs) > 0, rule, "db.(*DbBase).DecodeKey: session prefix verified on every success path", dk.Pos(), "every success return passes FromSessionKey",
		"a stored key can be decoded without checking that it belongs to the selected session: an open-ended listing runs on into other sessions' records: "+w.PathString(path))
}

// checkSerializeFresh (C11 R11): the bytes the persister hands to the store are freshly allocated
// for that call - the result of the CBOR encoder - not a view of a buffer the persister keeps. A
// store that keeps the caller's slice (the memory back end does) would otherwise see a later
// session's bytes under an earlier session's key.
func checkSerializeFresh(w *core.World, r *core.Report, rule string) {
	sz := w.Func("persist", "(*Persister).Serialize")
	if sz == nil {
		r.Undecided(rule, "persist.(*Persister).Serialize", token.NoPos, "anchor not found")
		return
	}
	r.Touch(core.QName(sz))
	n, bad := 0, ""
	var badPos token.Pos
	for _, in := range allInstrs(sz) {
		ret, ok := in.(*ssa.Return)
		if !ok || len(ret.Results) == 0 || core.IsNilConst(ret.Results[0]) {
			continue
		}
		n++
		for _, src := range core.Sources(ret.Results[0]) {
			okSrc := false
			if c, i, ok := core.ExtractOf(src); ok && i == 0 && strings.HasSuffix(core.CallName(c), "cbor/v2.Marshal") {
				okSrc = true
			}
			if c, ok := src.(*ssa.Call); ok && (strings.HasSuffix(core.CallName(c), ".Marshal") || core.IsCallTo(c, "builtin.append")) {
				okSrc = true
			}
			if cst, ok := src.(*ssa.Const); ok && cst.IsNil() {
				okSrc = true
			}
			if _, ok := src.(*ssa.MakeSlice); ok {
				okSrc = true
			}
			if !okSrc {
				bad = fmt.Sprintf("the returned bytes derive from %s, not from a fresh encoding", valueDesc(src))
				badPos = ret.Pos()
			}
		}
	}
	r.Check(bad == "" && n > 0, rule, "persist.(*Persister).Serialize: returns freshly encoded bytes", badPos, fmt.Sprintf("%d return(s) hand out the encoder's own result", n),
		"the snapshot bytes are a view of memory the persister reuses: a store that keeps the slice sees a later session's snapshot under an earlier session's key: "+bad)
}

func valueDesc(v ssa.Value) string {
	if c, ok := v.(*ssa.Call); ok {
		return "a call of " + core.CallName(c)
	}
	return fmt.Sprintf("%T", v)
}

// checkWriteErrorsGateRename (C12 R5): in the atomic writer the error of every write-side call on
// the temporary file (Write, Sync, Close) reaches a nil test whose nil edge dominates the rename. An
// error value that is overwritten before it is tested lets a short write be renamed over the
// intact record.
func checkWriteErrorsGateRename(w *core.World, r *core.Report, rule string) {
	var wr *ssa.Function
	var renames []ssa.CallInstruction
	for _, fn := range w.FuncsIn("db/fs") {
		if cs := core.CallsTo(fn, "os.Rename"); len(cs) > 0 {
			wr, renames = fn, cs
		}
	}
	if wr == nil {
		r.Undecided(rule, "atomic writer", token.NoPos, "no function of db/fs calls os.Rename")
		return
	}
	r.Touch(core.QName(wr))
	n := 0
	for _, c := range core.Calls(wr) {
		name := core.CallName(c)
		if name != "os.(*File).Write" && name != "os.(*File).Sync" && name != "os.(*File).Close" && name != "os.(*File).WriteString" {
			continue
		}
		if _, isDefer := c.(*ssa.Defer); isDefer {
			continue
		}
		ev := callErr(c)
		short := name[strings.LastIndex(name, ".")+1:]
		key := fmt.Sprintf("atomic writer: error of %s gates the rename", short)
		if ev == nil {
			n++
			r.Bad(rule, key, c.Pos(), "the error of "+short+" is discarded: a failed "+short+" does not stop the rename")
			continue
		}
		n++
		cut := core.NewCut()
		for v := range core.Forward(ev, nil) {
			for _, ce := range core.NilTestEdges(v) {
				if ce.Val {
					cut.AddEdge(ce.E)
				}
			}
		}
		ok := len(cut.Edges) > 0
		for _, rn := range renames {
			if pass, _ := core.MustPass(rn.(ssa.Instruction), cut); !pass {
				ok = false
			}
		}
		r.Check(ok, rule, key, c.Pos(), "its value (or a variable it is carried in) is tested for nil before the rename",
			"the error of "+short+" never reaches a test that keeps the rename from happening (overwritten or dropped): a short or failed write is renamed over the intact record and Put reports success")
	}
	r.Floor(rule, "write-side calls on the temporary file", n, 2)
}

// checkNoReopenAfterRollback (C13 R7): an operation of the Postgres back end opens at most one
// transaction: after a rollback (Abort or Rollback on the stored handle) no opener is reachable in
// the same call. Retrying on a fresh transaction inside an explicit transaction discards the
// acknowledged writes before it and reports success.
func checkNoReopenAfterRollback(w *core.World, r *core.Report, rule string, fns []*ssa.Function, openers map[*ssa.Function]bool, closers map[*ssa.Function]string) {
	n, bad := 0, ""
	var badPos token.Pos
	isOpen := func(in ssa.Instruction) bool {
		c, ok := in.(ssa.CallInstruction)
		if !ok {
			return false
		}
		if g := core.StaticCallee(c); g != nil && openers[g] {
			return true
		}
		return strings.HasSuffix(core.CallName(c), ".BeginTx")
	}
	for _, fn := range fns {
		if !token.IsExported(fn.Name()) {
			continue
		}
		for _, c := range core.Calls(fn) {
			g := core.StaticCallee(c)
			isRb := g != nil && closers[g] == "rollback"
			if strings.HasSuffix(core.CallName(c), ".Rollback") {
				isRb = true
			}
			if !isRb {
				continue
			}
			if _, isDefer := c.(*ssa.Defer); isDefer {
				continue
			}
			n++
			if hit, _ := core.Reach(core.After(c.(ssa.Instruction)), isOpen, nil); hit != nil {
				bad = fmt.Sprintf("%s begins a new transaction at %s after rolling back at %s", core.QName(fn), w.Pos(hit.Pos()), w.Pos(c.Pos()))
				badPos = hit.Pos()
			}
		}
	}
	r.Check(bad == "" && n > 0, rule, "postgres: no new transaction after a rollback in the same operation", badPos, fmt.Sprintf("%d rollback site(s) in operations", n),
		"an operation rolls back and carries on in a fresh transaction: inside Start..Stop the acknowledged writes before it are discarded and nothing reports it: "+bad)
}

// checkTxMethodsDeclaredTogether (C13 R8): db.DbBase provides do-nothing Start, Stop and Abort. A
// back end that declares one of them itself (a transactional back end) declares all three itself -
// a method that silently falls back to the embedded no-op leaves explicit transactions open.
func checkTxMethodsDeclaredTogether(w *core.World, r *core.Report, rule string) {
	n := 0
	for _, pk := range []string{"db/postgres", "db/fs", "db/mem"} {
		p := w.Pkgs[pk]
		if p == nil || p.Types == nil {
			continue
		}
		for _, name := range p.Types.Scope().Names() {
			tn, ok := p.Types.Scope().Lookup(name).(*types.TypeName)
			if !ok {
				continue
			}
			if _, isStruct := tn.Type().Underlying().(*types.Struct); !isStruct {
				continue
			}
			ms := types.NewMethodSet(types.NewPointer(tn.Type()))
			own := map[string]bool{}
			have := 0
			for _, m := range []string{"Start", "Stop", "Abort"} {
				sel := ms.Lookup(p.Types, m)
				if sel == nil {
					sel = ms.Lookup(nil, m)
				}
				if sel == nil {
					continue
				}
				have++
				if len(sel.Index()) == 1 {
					own[m] = true
				}
			}
			if have < 3 || len(own) == 0 {
				continue
			}
			n++
			missing := []string{}
			for _, m := range []string{"Start", "Stop", "Abort"} {
				if !own[m] {
					missing = append(missing, m)
				}
			}
			r.Check(len(missing) == 0, rule, pk+"."+name+": Start, Stop and Abort are all its own", tn.Pos(), "declares all three transaction methods",
				fmt.Sprintf("the back end declares some transaction methods itself but %v falls back to DbBase's do-nothing version: an explicit transaction is never rolled back (or never begun / ended)", missing))
		}
	}
	r.Floor(rule, "transactional back ends", n, 1)
}

// checkNewLineByteArgs (C14 R9): vm.NewLine writes the width byte of the integer operand whenever the
// operand slice is non-nil - the guard is a nil test, not a length test: an empty non-nil operand
// is the minimal encoding of 0 and the decoder accepts (and expects) its width byte.
func checkNewLineByteArgs(w *core.World, r *core.Report, rule string) {
	nl := w.Func("vm", "NewLine")
	if nl == nil {
		r.Undecided(rule, "vm.NewLine", token.NoPos, "anchor not found")
		return
	}
	var bytesParam *ssa.Parameter
	for _, p := range nl.Params {
		if p.Name() == "byteargs" || (p.Type().String() == "[]byte" && p != nl.Params[0]) {
			bytesParam = p
		}
	}
	if bytesParam == nil {
		r.Undecided(rule, "vm.NewLine: integer operand parameter", nl.Pos(), "not found")
		return
	}
	// the append that writes len(byteargs) as one byte
	var site ssa.Instruction
	for _, c := range core.CallsTo(nl, "builtin.append") {
		for _, src := range coreDeep(core.CallArgs(c)[1]) {
			if lc, ok := src.(*ssa.Call); ok && core.IsCallTo(lc, "builtin.len") && core.Strip(lc.Call.Args[0]) == ssa.Value(bytesParam) {
				site = c.(ssa.Instruction)
			}
		}
	}
	if site == nil {
		r.Bad(rule, "vm.NewLine: width byte of the integer operand", nl.Pos(), "no append of len(byteargs) found: the integer operand is written without its width byte")
		return
	}
	bad := ""
	for _, in := range allInstrs(nl) {
		bo, ok := in.(*ssa.BinOp)
		if !ok {
			continue
		}
		x, _, _, ok := core.CmpConst(bo)
		if !ok {
			continue
		}
		lc, isCall := core.Strip(x).(*ssa.Call)
		if !isCall || !core.IsCallTo(lc, "builtin.len") || core.Strip(lc.Call.Args[0]) != ssa.Value(bytesParam) {
			continue
		}
		for _, pol := range []bool{true, false} {
			if edges := core.EdgesWhere(bo, pol); len(edges) > 0 {
				if ok2, _ := core.MustPass(site, core.NewCut().AddEdge(edges...)); ok2 {
					bad = "the width byte is written only behind a comparison of len(byteargs) with a constant"
				}
			}
		}
	}
	r.Check(bad == "", rule, "vm.NewLine: width byte of the integer operand", site.Pos(), "guarded by the nil test only", "an empty non-nil integer operand (the minimal encoding of 0) is written without its width byte: the decoder then reads the next instruction's first byte as the width: "+bad)
}

func coreDeep(v ssa.Value) []ssa.Value {
	roots, _ := core.DeepSources(v, nil)
	return append(roots, core.Sources(v)...)
}

// checkDisasmFreshBuffer (C14 R10): the disassembler's ToString writes into a buffer allocated for
// the call; a buffer kept in the handler carries the lines of a failed listing into the next one.
func checkDisasmFreshBuffer(w *core.World, r *core.Report, rule string) {
	ts := w.Func("vm", "(*ParseHandler).ToString")
	if ts == nil {
		r.Undecided(rule, "vm.(*ParseHandler).ToString", token.NoPos, "anchor not found")
		return
	}
	r.Touch(core.QName(ts))
	n, bad := 0, ""
	var badPos token.Pos
	for _, ret := range successReturns(ts) {
		v := core.ReturnValue(ret, 0)
		for _, src := range core.Sources(v) {
			c, ok := src.(*ssa.Call)
			if !ok || !strings.HasSuffix(core.CallName(c), "Buffer).String") {
				continue
			}
			n++
			for _, s2 := range core.Sources(core.CallArgs(c)[0]) {
				fresh := false
				if cc, ok := s2.(*ssa.Call); ok && core.IsCallTo(cc, "bytes.NewBuffer", "bytes.NewBufferString") {
					fresh = true
				}
				if _, ok := s2.(*ssa.Alloc); ok {
					fresh = true
				}
				if !fresh {
					bad = fmt.Sprintf("the listing is read from a buffer that is %s, not allocated for the call", valueDesc(s2))
					badPos = ret.Pos()
				}
			}
		}
	}
	r.Check(bad == "" && n > 0, rule, "vm.(*ParseHandler).ToString: listing buffer allocated per call", badPos, fmt.Sprintf("%d return(s) read a buffer made in the call", n),
		"lines of an earlier (for instance failed) listing can appear in front of the next one: "+bad)
}

// checkParseAllEndsAtEmpty (C15 R10): ParseAll reports success only when nothing is left: every
// success return lies behind an edge on which len(remaining bytecode) == 0 is known exactly.
func checkParseAllEndsAtEmpty(w *core.World, r *core.Report, rule string) {
	pa := w.Func("vm", "(*ParseHandler).ParseAll")
	if pa == nil {
		r.Undecided(rule, "vm.(*ParseHandler).ParseAll", token.NoPos, "anchor not found")
		return
	}
	r.Touch(core.QName(pa))
	cut := core.NewCut()
	for _, in := range allInstrs(pa) {
		bo, ok := in.(*ssa.BinOp)
		if !ok {
			continue
		}
		x, op, c, ok := core.CmpConst(bo)
		if !ok {
			continue
		}
		lc, isCall := core.Strip(x).(*ssa.Call)
		if !isCall || !core.IsCallTo(lc, "builtin.len") || !core.ByteLike(lc.Call.Args[0].Type()) {
			continue
		}
		switch {
		case op == token.EQL && c == 0, op == token.LEQ && c == 0, op == token.LSS && c == 1:
			cut.AddEdge(core.EdgesWhere(bo, true)...)
		case op == token.NEQ && c == 0, op == token.GTR && c == 0, op == token.GEQ && c == 1:
			cut.AddEdge(core.EdgesWhere(bo, false)...)
		}
	}
	hit, path := core.Reach(core.Entry(pa), isSuccessReturnPred(pa), cut)
	r.Check(hit == nil && len(cut.Edges) > 0, rule, "vm.(*ParseHandler).ParseAll: success only when no byte is left", pa.Pos(), "every success return lies behind len(b) == 0",
		"ParseAll can report success with bytes left over (a stray byte, the first half of an opcode): truncated bytecode is accepted: "+w.PathString(path))
}

// checkTableCallsNilChecked (C15 R11): a call in package vm through a function value that was loaded
// from an indexed container (array, slice or map element) is dominated by a non-nil test of that
// value: a table with a hole (opcode 0) must not be called through.
func checkTableCallsNilChecked(w *core.World, r *core.Report, rule string) {
	n := 0
	for _, fn := range w.FuncsIn("vm") {
		for _, c := range core.Calls(fn) {
			if core.StaticCallee(c) != nil || c.Common().IsInvoke() {
				continue
			}
			fv := c.Common().Value
			fromTable := false
			for _, src := range core.Sources(fv) {
				switch t := src.(type) {
				case *ssa.UnOp:
					if t.Op == token.MUL {
						if _, ok := t.X.(*ssa.IndexAddr); ok {
							fromTable = true
						}
					}
				case *ssa.Lookup, *ssa.Index:
					fromTable = true
				}
			}
			if !fromTable {
				continue
			}
			n++
			cut := core.NewCut()
			for v := range core.Forward(fv, nil) {
				for _, ce := range core.NilTestEdges(v) {
					if !ce.Val {
						cut.AddEdge(ce.E)
					}
				}
			}
			for _, src := range core.Sources(fv) {
				for _, ce := range core.NilTestEdges(src) {
					if !ce.Val {
						cut.AddEdge(ce.E)
					}
				}
			}
			ok, _ := core.MustPass(c.(ssa.Instruction), cut)
			r.Check(ok && len(cut.Edges) > 0, rule, core.QName(fn)+": call through a table entry", c.Pos(), "behind a non-nil test of the entry",
				"a function value taken from a table is called without a nil test: an index that has no entry (opcode 0) panics instead of being refused")
		}
	}
	r.OK(rule, "calls through table entries in package vm", token.NoPos, fmt.Sprintf("%d site(s)", n))
}

// checkValidInputPure (C17 R7): the validator is a function of its argument alone - neither it nor
// the functions of package vm it calls store to package-level variables. A remembered "last
// accepted input" that aliases the caller's buffer accepts whatever is read into that buffer next.
func checkValidInputPure(w *core.World, r *core.Report, rule string) {
	vi := w.Func("vm", "ValidInput")
	if vi == nil {
		r.Undecided(rule, "vm.ValidInput", token.NoPos, "anchor not found")
		return
	}
	seen := map[*ssa.Function]bool{}
	bad := ""
	var badPos token.Pos
	var walk func(fn *ssa.Function, d int)
	walk = func(fn *ssa.Function, d int) {
		if fn == nil || seen[fn] || d > 3 || len(fn.Blocks) == 0 || core.PkgOf(fn) != "vm" {
			return
		}
		seen[fn] = true
		for _, in := range allInstrs(fn) {
			switch t := in.(type) {
			case *ssa.Store:
				if g := core.GlobalOf(t.Addr); g != nil {
					bad = fmt.Sprintf("%s stores to the package-level variable %s", core.QName(fn), g.Name())
					badPos = t.Pos()
				}
				if _, ok := t.Addr.(*ssa.Global); ok {
					bad = fmt.Sprintf("%s stores to a package-level variable", core.QName(fn))
					badPos = t.Pos()
				}
			case *ssa.MapUpdate:
				for _, src := range core.Sources(t.Map) {
					if core.GlobalOf(src) != nil {
						bad = fmt.Sprintf("%s writes a package-level map", core.QName(fn))
						badPos = t.Pos()
					}
				}
			case ssa.CallInstruction:
				walk(core.StaticCallee(t), d+1)
			}
		}
	}
	walk(vi, 0)
	r.Check(bad == "", rule, "vm.ValidInput: a function of its argument alone", badPos, fmt.Sprintf("no store to package-level state in %d function(s)", len(seen)),
		"the validator keeps state between calls: what it answers for an input depends on earlier inputs (or on a buffer the caller reuses), so a refused input can be reported valid: "+bad)
}

// checkConfigLanguageOnlyWhenNone (C18 R10): the configured default language is applied to the
// state only when the session has no language: every State.SetLanguage whose argument is the
// engine configuration's Language lies behind the edge 'state was just created' or
// 'State.Language == nil' - in the function itself or at every call site of the helper.
func checkConfigLanguageOnlyWhenNone(w *core.World, r *core.Report, rule string) {
	n := 0
	var guarded func(fn *ssa.Function, at ssa.Instruction, d int) bool
	guarded = func(fn *ssa.Function, at ssa.Instruction, d int) bool {
		if d > 2 {
			return false
		}
		cut := core.NewCut()
		for _, in := range allInstrs(fn) {
			bo, ok := in.(*ssa.BinOp)
			if !ok || (bo.Op != token.EQL && bo.Op != token.NEQ) || !core.IsNilConst(bo.Y) {
				continue
			}
			if _, f, ok := core.LoadedField(bo.X); ok && (f == "Language" || f == "st") {
				cut.AddEdge(core.EdgesWhere(bo, bo.Op == token.EQL)...)
			}
		}
		if len(cut.Edges) > 0 {
			if ok, _ := core.MustPass(at, cut); ok {
				return true
			}
		}
		// all callers
		m := 0
		for _, caller := range w.FuncsIn("engine") {
			for _, c := range callsToSet(caller, map[*ssa.Function]bool{fn: true}) {
				m++
				if !guarded(caller, c.(ssa.Instruction), d+1) {
					return false
				}
			}
		}
		return m > 0
	}
	for _, fn := range w.FuncsIn("engine") {
		for _, c := range core.CallsTo(fn, "state.(*State).SetLanguage") {
			args := core.CallArgs(c)
			fromCfg := false
			for _, src := range core.Sources(args[len(args)-1]) {
				if tn, f, ok := core.LoadedField(src); ok && f == "Language" && strings.Contains(tn, "Config") {
					fromCfg = true
				}
			}
			if !fromCfg {
				continue
			}
			n++
			r.Touch(core.QName(fn))
			key := "engine: configured language applied only when the session has none"
			if n > 1 {
				key = fmt.Sprintf("%s #%d", key, n)
			}
			r.Check(guarded(fn, c.(ssa.Instruction), 0), rule, key, c.Pos(), "behind 'no state yet' or State.Language == nil",
				"the configured default language can replace the language the session selected (for instance at every reset): lookups after that use the wrong language")
		}
	}
	r.Floor(rule, "applications of the configured language", n, 1)
}

// checkNoAppendToResultSlices (C19 R5): slices that external code returns in a resource.Result
// (FlagSet, FlagReset) belong to the application and may be shared between sessions: the library
// never appends to them (append writes into spare capacity in place).
func checkNoAppendToResultSlices(w *core.World, r *core.Report, rule string) {
	n, bad := 0, ""
	var badPos token.Pos
	for _, fn := range w.LibFuncs {
		for _, c := range core.CallsTo(fn, "builtin.append") {
			n++
			for _, src := range core.Sources(core.CallArgs(c)[0]) {
				if tn, f, ok := core.LoadedField(src); ok && tn == "resource.Result" {
					bad = fmt.Sprintf("%s appends to Result.%s at %s", core.QName(fn), f, w.Pos(c.Pos()))
					badPos = c.Pos()
				}
			}
		}
	}
	r.Check(bad == "", rule, "slices returned by external code in a Result are never appended to", badPos, fmt.Sprintf("%d append site(s) scanned", n),
		"append writes into the spare capacity of a slice the application owns and may share between sessions: two sessions in the same external function race and apply each other's flags: "+bad)
}

// checkThirdPartyGlobals (C19 R6): on the request path the library calls no package-level function
// of a third-party package that writes that package's own package-level variables (process-wide
// configuration inside a dependency, e.g. gotext.Configure) - it uses objects it owns instead.
func checkThirdPartyGlobals(w *core.World, r *core.Report, rule string, reach map[*ssa.Function]bool) {
	writesGlobal := func(g *ssa.Function) string {
		seen := map[*ssa.Function]bool{}
		var walk func(f *ssa.Function, d int) string
		walk = func(f *ssa.Function, d int) string {
			if f == nil || seen[f] || d > 2 || len(f.Blocks) == 0 || f.Pkg != g.Pkg {
				return ""
			}
			seen[f] = true
			for _, in := range allInstrs(f) {
				switch t := in.(type) {
				case *ssa.Store:
					if gl, ok := t.Addr.(*ssa.Global); ok && gl.Pkg == g.Pkg {
						return gl.Name()
					}
					if fa, ok := t.Addr.(*ssa.FieldAddr); ok {
						for _, src := range core.Sources(fa.X) {
							if gl := core.GlobalOf(src); gl != nil && gl.Pkg == g.Pkg {
								return gl.Name()
							}
						}
					}
				case ssa.CallInstruction:
					if s := walk(core.StaticCallee(t), d+1); s != "" {
						return s
					}
				}
			}
			return ""
		}
		return walk(g, 0)
	}
	n, bad := 0, ""
	var badPos token.Pos
	for _, fn := range w.LibFuncs {
		if !reach[fn] {
			continue
		}
		for _, c := range core.Calls(fn) {
			g := core.StaticCallee(c)
			if g == nil || g.Pkg == nil || g.Signature.Recv() != nil {
				continue
			}
			path := g.Pkg.Pkg.Path()
			if strings.HasPrefix(path, core.ModPath) || !strings.Contains(strings.SplitN(path, "/", 2)[0], ".") {
				continue // the module itself, or the standard library
			}
			n++
			if gl := writesGlobal(g); gl != "" {
				bad = fmt.Sprintf("%s calls %s, which writes that package's variable %s", core.QName(fn), core.CallName(c), gl)
				badPos = c.Pos()
			}
		}
	}
	r.Check(bad == "", rule, "no process-wide configuration of third-party packages on the request path", badPos, fmt.Sprintf("%d calls of third-party package-level functions scanned", n),
		"a dependency's package-level state is written on the request path: sessions served concurrently (or with different settings) overwrite each other's configuration inside the dependency: "+bad)
}

// checkExitValueNotConsumedEarlier (C20 R7): the value the final page of a graceful end is made
// of is handed out by a destructive read (Cache.Last returns the last loaded value and clears
// it). A second reader that runs before the engine takes the value - a debug hook, a log line -
// leaves the engine with an empty string: the session still ends, but the final output is lost.
// Rule: a call of the destructive read whose result does not become the engine's exit value must
// not be able to run before one whose result does - directly or through calls, on any path of
// any library function.
func checkExitValueNotConsumedEarlier(w *core.World, r *core.Report, rule string) {
	// the destructive readers: methods of *cache.Cache returning one string that load a receiver
	// field, store a constant to the same field and return the loaded value
	destr := map[string]bool{}
	for _, fn := range w.FuncsIn("cache") {
		if fn.Signature.Recv() == nil || fn.Signature.Results().Len() != 1 || fn.Signature.Params().Len() != 0 {
			continue
		}
		if core.TypeName(fn.Signature.Recv().Type()) != "*cache.Cache" {
			continue
		}
		cleared := map[string]bool{}
		for _, in := range allInstrs(fn) {
			if st, ok := in.(*ssa.Store); ok {
				if _, f, ok := core.FieldOfAddr(st.Addr); ok {
					if _, isc := st.Val.(*ssa.Const); isc {
						cleared[f] = true
					}
				}
			}
		}
		for _, in := range allInstrs(fn) {
			ret, ok := in.(*ssa.Return)
			if !ok || len(ret.Results) != 1 {
				continue
			}
			for _, src := range core.Sources(ret.Results[0]) {
				if _, f, ok := core.LoadedField(src); ok && cleared[f] {
					destr[fn.Name()] = true
				}
			}
		}
	}
	if len(destr) == 0 {
		r.Undecided(rule, "cache: destructive read of the last value", token.NoPos, "no method of Cache reads and clears a field")
		return
	}
	isDestr := func(c ssa.CallInstruction) bool {
		cc := c.Common()
		if cc.IsInvoke() {
			return destr[cc.Method.Name()] && core.TypeName(cc.Value.Type()) == "cache.Memory"
		}
		if f := core.StaticCallee(c); f != nil && f.Signature.Recv() != nil {
			return destr[f.Name()] && core.TypeName(f.Signature.Recv().Type()) == "*cache.Cache"
		}
		return false
	}
	keeps := func(c ssa.CallInstruction) bool {
		v := core.CallValue(c)
		if v == nil {
			return false
		}
		for x := range core.Forward(v, nil) {
			refs := x.Referrers()
			if refs == nil {
				continue
			}
			for _, ref := range *refs {
				if st, ok := ref.(*ssa.Store); ok && st.Val == x {
					if tn, _, ok := core.FieldOfAddr(st.Addr); ok && tn == "engine.DefaultEngine" {
						return true
					}
				}
			}
		}
		return false
	}
	discardIn := map[*ssa.Function][]ssa.Instruction{}
	keepIn := map[*ssa.Function][]ssa.Instruction{}
	nKeep, nDisc := 0, 0
	for _, fn := range w.LibFuncs {
		for _, c := range core.Calls(fn) {
			if !isDestr(c) || core.PkgOf(fn) == "cache" {
				continue
			}
			if keeps(c) {
				keepIn[fn] = append(keepIn[fn], c.(ssa.Instruction))
				nKeep++
			} else {
				discardIn[fn] = append(discardIn[fn], c.(ssa.Instruction))
				nDisc++
			}
		}
	}
	if nKeep == 0 {
		r.Bad(rule, "engine: exit value taken from the last loaded value", token.NoPos, "no destructive read of the last value is stored in the engine: a graceful end has no final output")
		return
	}
	bad := ""
	var badPos token.Pos
	if nDisc > 0 {
		reach := func(set map[*ssa.Function][]ssa.Instruction) map[*ssa.Function]bool {
			out := map[*ssa.Function]bool{}
			for _, fn := range w.LibFuncs {
				seen, _ := w.Reachable([]*ssa.Function{fn})
				for g := range seen {
					if len(set[g]) > 0 {
						out[fn] = true
						break
					}
				}
			}
			return out
		}
		rD, rK := reach(discardIn), reach(keepIn)
		for _, fn := range w.LibFuncs {
			var ds, ks []ssa.Instruction
			ds = append(ds, discardIn[fn]...)
			ks = append(ks, keepIn[fn]...)
			for _, c := range core.Calls(fn) {
				for _, g := range w.Callees(c) {
					if rD[g] {
						ds = append(ds, c.(ssa.Instruction))
					}
					if rK[g] {
						ks = append(ks, c.(ssa.Instruction))
					}
				}
			}
			for _, d := range ds {
				for _, k := range ks {
					if d == k {
						continue
					}
					if hit, _ := core.Reach(core.After(d), core.IsInstr(k), nil); hit != nil {
						bad = fmt.Sprintf("in %s the last value can be consumed at %s before the engine takes it at %s", core.QName(fn), w.Pos(d.Pos()), w.Pos(k.Pos()))
						badPos = d.Pos()
					}
				}
			}
		}
	}
	r.Check(bad == "", rule, "engine: nothing consumes the last value before the exit value is taken", badPos,
		fmt.Sprintf("%d destructive read(s) stored in the engine, %d other(s), none ordered before", nKeep, nDisc),
		"the final output of a graceful end is lost (the destructive read returns the value once): "+bad)
}

// checkPersisterKeepsMemory (C09 R9): the cache object a session runs on carries the configured
// capacity (set once by the engine with WithCacheSize). The persister may empty that object but
// not replace it: every store to Persister.Memory takes a caller's object (a parameter) or a cache
// that went through WithCacheSize. A fresh NewCache() put in its place has capacity 0 = unlimited.
func checkPersisterKeepsMemory(w *core.World, r *core.Report, rule string) {
	n, bad := 0, ""
	var badPos token.Pos
	for _, fn := range w.LibFuncs {
		for _, in := range allInstrs(fn) {
			st, ok := in.(*ssa.Store)
			if !ok {
				continue
			}
			tn, f, ok := core.FieldOfAddr(st.Addr)
			if !ok || tn != "persist.Persister" || f != "Memory" {
				continue
			}
			n++
			for _, src := range core.Sources(st.Val) {
				okSrc := false
				if _, isP := src.(*ssa.Parameter); isP {
					okSrc = true
				}
				if c, isC := src.(*ssa.Call); isC && core.IsCallTo(c, "cache.(*Cache).WithCacheSize") {
					okSrc = true
				}
				if c, isC := src.(*ssa.Const); isC && c.IsNil() {
					okSrc = true
				}
				if !okSrc {
					bad = fmt.Sprintf("%s replaces the persister's cache object with %s at %s", core.QName(fn), valueDesc(src), w.Pos(st.Pos()))
					badPos = st.Pos()
				}
			}
		}
	}
	r.Check(bad == "" && n > 0, rule, "persist: the session's cache object is emptied, never replaced", badPos, fmt.Sprintf("%d store(s) to Persister.Memory, all of a caller's object", n),
		"the cache that carries the configured capacity is swapped for another object: a cache made with NewCache() has capacity 0, which means unlimited: "+bad)
}

// checkLoopAlwaysFinishes (C17 R8): engine.Loop hands the session to Finish (which saves it) on
// every exit, also when a request of the loop was refused: a refused input must leave the session
// as it was after the accepted ones - stored, not dropped.
func checkLoopAlwaysFinishes(w *core.World, r *core.Report, rule string) {
	lp := w.Func("engine", "Loop")
	if lp == nil {
		r.Undecided(rule, "engine.Loop", token.NoPos, "anchor not found")
		return
	}
	r.Touch(core.QName(lp))
	n := 0
	cut := cutWithHelpers(w, lp, func(fn *ssa.Function, cut *core.Cut) {
		for _, c := range core.Calls(fn) {
			if c.Common().IsInvoke() && c.Common().Method.Name() == "Finish" && core.TypeName(c.Common().Value.Type()) == "engine.Engine" {
				if _, isGo := c.(*ssa.Go); isGo {
					continue
				}
				cut.AddInstr(c.(ssa.Instruction)) // a call, or a defer registered here (runs at every later return)
				n++
			}
		}
	}, 1)
	hit, path := core.Reach(core.Entry(lp), core.IsReturn, cut)
	r.Check(hit == nil && n > 0, rule, "engine.Loop: the engine is finished on every exit", lp.Pos(), "every return passes Finish or its deferred registration",
		"Loop can return without finishing the engine (for instance after a refused input): the progress of the accepted requests is not saved and the session resumes from an older state: "+w.PathString(path))
}

// checkOpenErrorsClassified (C12 R6): when the fs back end cannot open a record file, only "does
// not exist" may be treated as a miss; any other failure (permissions, too many links, I/O) is
// reported. The engine takes a miss for a new session and saves a fresh state over the record, so
// an unreadable record classified as a miss destroys the intact session it could not read.
// Rule: from the failure edge of every os.Open in package db/fs, every path to the next store read
// or to a return that does not hand back that error passes the true edge of a not-exist test of
// that error (errors.Is(err, fs.ErrNotExist) / os.IsNotExist(err)).
func checkOpenErrorsClassified(w *core.World, r *core.Report, rule string) {
	n := 0
	for _, fn := range w.FuncsIn("db/fs") {
		for _, c := range core.CallsTo(fn, "os.Open", "os.OpenFile", "os.ReadFile", "io/ioutil.ReadFile") {
			call, ok := c.(*ssa.Call)
			if !ok {
				continue
			}
			ev := callErr(call)
			if ev == nil {
				continue
			}
			// only read-side opens: the result is not written to
			if core.IsCallTo(c, "os.OpenFile") {
				continue
			}
			n++
			r.Touch(core.QName(fn))
			fw := core.Forward(ev, nil)
			cut := core.NewCut()
			for v := range fw {
				refs := v.Referrers()
				if refs == nil {
					continue
				}
				for _, u := range *refs {
					tc, ok := u.(*ssa.Call)
					if !ok {
						continue
					}
					name := core.CallName(tc)
					isTest := name == "os.IsNotExist"
					if name == "errors.Is" && len(tc.Call.Args) == 2 {
						for _, s := range core.Sources(tc.Call.Args[1]) {
							if u2, ok := s.(*ssa.UnOp); ok && u2.Op == token.MUL {
								if g, ok := u2.X.(*ssa.Global); ok && g.Name() == "ErrNotExist" {
									isTest = true
								}
							}
						}
					}
					if isTest {
						cut.AddEdge(core.EdgesWhere(tc, true)...)
					}
				}
			}
			target := func(in ssa.Instruction) bool {
				if in == ssa.Instruction(call) {
					return true // the scan goes on to the next candidate
				}
				if cc, ok := in.(ssa.CallInstruction); ok && isStoreReadCall(core.CallName(cc)) {
					return true
				}
				ret, ok := in.(*ssa.Return)
				if !ok {
					return false
				}
				rv := core.ReturnError(ret)
				if rv == nil {
					return true // no error result at all: the failure cannot be reported
				}
				for _, s := range core.Sources(rv) {
					if fw[s] || s == ev {
						return false
					}
				}
				return true
			}
			bad := ""
			nstart := 0
			for v := range fw {
				for _, ce := range core.NilTestEdges(v) {
					if ce.Val {
						continue
					}
					nstart++
					if hit, path := core.Reach(core.Point{B: ce.E.To(), I: 0}, target, cut); hit != nil {
						bad = w.PathString(path)
					}
				}
			}
			if nstart == 0 {
				bad = "the error is never tested"
			}
			r.Check(bad == "", rule, fmt.Sprintf("%s: a failed open is a miss only when the file does not exist", core.QName(fn)), c.Pos(), "other failures reach the caller",
				"an open failure other than 'does not exist' is skipped or reported as not-found: the engine takes the miss for a new session and saves a fresh state over the record it could not read: "+bad)
		}
	}
	r.Floor(rule, "read-side opens in db/fs", n, 1)
}

// checkResourceSelectsType (C11 R12): the db-backed resource shares its store handle with the
// persister and with application code, all of which select data types on it. Each lookup of the
// resource therefore selects its own data type first, unconditionally: every path from the entry of
// an exported DbResource method to its store lookup passes SetPrefix (directly, or through a helper
// that calls it on every path). A remembered "current type" skips the selection exactly when
// someone else changed it in between, and the lookup then reads session state or user data.
func checkResourceSelectsType(w *core.World, r *core.Report, rule string) {
	isGet := func(c ssa.CallInstruction) bool {
		return c.Common().IsInvoke() && c.Common().Method.Name() == "Get" && core.TypeName(c.Common().Value.Type()) == "db.Db"
	}
	var reaches func(g *ssa.Function, d int) bool
	reaches = func(g *ssa.Function, d int) bool {
		if g == nil || d > 2 || len(g.Blocks) == 0 {
			return false
		}
		for _, c := range core.Calls(g) {
			if isGet(c) {
				return true
			}
			if h := core.StaticCallee(c); h != nil && h != g && core.PkgOf(h) == "resource" && reaches(h, d+1) {
				return true
			}
		}
		return false
	}
	n := 0
	for _, fn := range w.FuncsIn("resource") {
		if fn.Signature.Recv() == nil || core.TypeName(fn.Signature.Recv().Type()) != "*resource.DbResource" || !token.IsExported(fn.Name()) {
			continue
		}
		cut := cutWithHelpers(w, fn, func(f *ssa.Function, cut *core.Cut) {
			for _, c := range core.Calls(f) {
				if c.Common().IsInvoke() && c.Common().Method.Name() == "SetPrefix" && core.TypeName(c.Common().Value.Type()) == "db.Db" {
					cut.AddInstr(c.(ssa.Instruction))
				}
			}
		}, 1)
		for _, c := range core.Calls(fn) {
			lookup := isGet(c)
			if h := core.StaticCallee(c); !lookup && h != nil && core.PkgOf(h) == "resource" && reaches(h, 0) {
				lookup = true
			}
			if !lookup {
				continue
			}
			n++
			r.Touch(core.QName(fn))
			ok, path := core.MustPass(c.(ssa.Instruction), cut)
			r.Check(ok && len(cut.Instrs) > 0, rule, core.QName(fn)+": selects its data type before the lookup", c.Pos(), "SetPrefix on every path to the lookup",
				"a lookup of the db-backed resource can run under whatever data type (and session) was last selected on the shared store handle: session state or user data is returned as a template, menu or bytecode: "+w.PathString(path))
		}
	}
	r.Floor(rule, "store lookups of DbResource", n, 3)
}

// checkDumpKeepsSelection (C10 R11): the data type, session and language selected on a store
// handle are sticky - they apply to the following reads and writes. A listing must leave them as it
// found them: no SetLanguage / SetPrefix / SetSession call in a back end's Dump (or the functions
// of the back end only it calls). The key a listing starts from is the default key, which does not
// depend on the language, so there is nothing to reset.
func checkDumpKeepsSelection(w *core.World, r *core.Report, rule string) {
	n := 0
	for _, pk := range []string{"db/fs", "db/postgres", "db/mem"} {
		for _, fn := range w.FuncsIn(pk) {
			if fn.Name() != "Dump" || fn.Signature.Recv() == nil {
				continue
			}
			n++
			r.Touch(core.QName(fn))
			bad := ""
			var badPos token.Pos
			scan := []*ssa.Function{fn}
			for _, c := range core.Calls(fn) {
				if g := core.StaticCallee(c); g != nil && core.PkgOf(g) == pk && g != fn && len(g.Blocks) > 0 {
					if sites, esc := staticCallSites(w, g); !esc && len(sites) == 1 {
						scan = append(scan, g)
					}
				}
			}
			for _, f := range scan {
				for _, c := range core.Calls(f) {
					switch core.CallName(c) {
					case "db.(*DbBase).SetLanguage", "db.(*DbBase).SetPrefix", "db.(*DbBase).SetSession":
						bad = fmt.Sprintf("%s calls %s at %s", core.QName(f), core.CallName(c), w.Pos(c.Pos()))
						badPos = c.Pos()
					}
					if c.Common().IsInvoke() {
						switch c.Common().Method.Name() {
						case "SetLanguage", "SetPrefix", "SetSession":
							if core.TypeName(c.Common().Value.Type()) == "db.Db" {
								bad = fmt.Sprintf("%s calls %s at %s", core.QName(f), core.CallName(c), w.Pos(c.Pos()))
								badPos = c.Pos()
							}
						}
					}
				}
			}
			r.Check(bad == "", rule, pk+" back end: a listing leaves the handle's selections alone", badPos, "no SetLanguage/SetPrefix/SetSession in Dump",
				"a listing changes the data type, session or language selected on the store handle and does not put it back: the following read returns (and the following write replaces) the entry of another language, type or session: "+bad)
		}
	}
	r.Floor(rule, "Dump methods of back ends", n, 2)
}

// checkFrameListGrowsByFreshMaps (C05 R9): a cache level begins empty. The list of level maps
// (Cache.Cache) grows only by appending a map made for the purpose; every other store to the field
// is a re-slice that cannot grow it (upper bound: a constant <= 1 or the field's own length minus a
// constant) or the constructor's literal. Re-slicing upwards ("reuse the map left in the backing
// array") brings a dropped level back with whatever it held.
func checkFrameListGrowsByFreshMaps(w *core.World, r *core.Report, rule string) {
	isSelf := func(v ssa.Value) bool {
		for _, s := range core.Sources(v) {
			if tn, f, ok := core.LoadedField(s); ok && tn == "cache.Cache" && f == "Cache" {
				return true
			}
		}
		return false
	}
	var shrinking func(v ssa.Value, d int) bool
	shrinking = func(v ssa.Value, d int) bool {
		v = core.Strip(v)
		if d > 4 {
			return false
		}
		if k, ok := core.ConstInt(v); ok {
			return k <= 1
		}
		if c, ok := v.(*ssa.Call); ok && core.IsCallTo(c, "builtin.len") {
			return isSelf(c.Call.Args[0])
		}
		if bo, ok := v.(*ssa.BinOp); ok && bo.Op == token.SUB {
			if k, ok := core.ConstInt(bo.Y); ok && k >= 0 {
				return shrinking(bo.X, d+1)
			}
		}
		return false
	}
	freshMap := func(v ssa.Value) bool {
		for _, s := range core.Sources(v) {
			if _, ok := s.(*ssa.MakeMap); ok {
				continue
			}
			if c, ok := s.(*ssa.Call); ok {
				if g := core.StaticCallee(c); g != nil && w.InLib(g) && len(g.Blocks) > 0 {
					all := true
					for _, in := range allInstrs(g) {
						if ret, ok := in.(*ssa.Return); ok && len(ret.Results) == 1 {
							for _, rs := range core.Sources(ret.Results[0]) {
								if _, ok := rs.(*ssa.MakeMap); !ok {
									all = false
								}
							}
						}
					}
					if all {
						continue
					}
				}
			}
			return false
		}
		return true
	}
	n, bad := 0, ""
	var badPos token.Pos
	for _, fn := range w.LibFuncs {
		for _, in := range allInstrs(fn) {
			st, ok := in.(*ssa.Store)
			if !ok {
				continue
			}
			tn, f, ok := core.FieldOfAddr(st.Addr)
			if !ok || tn != "cache.Cache" || f != "Cache" {
				continue
			}
			n++
			r.Touch(core.QName(fn))
			for _, src := range core.Sources(st.Val) {
				switch t := src.(type) {
				case *ssa.Call:
					if core.IsCallTo(t, "builtin.append") && isSelf(t.Call.Args[0]) {
						// every appended element is a fresh map
						okEl := len(t.Call.Args) == 2
						if okEl {
							els := variadicElements(t.Call.Args[1])
							if len(els) == 0 {
								okEl = false
							}
							for _, e := range els {
								if !freshMap(e) {
									okEl = false
								}
							}
						}
						if !okEl {
							bad = fmt.Sprintf("%s appends something other than a freshly made map at %s", core.QName(fn), w.Pos(st.Pos()))
							badPos = st.Pos()
						}
						continue
					}
					bad = fmt.Sprintf("%s sets the level list from %s at %s", core.QName(fn), valueDesc(src), w.Pos(st.Pos()))
					badPos = st.Pos()
				case *ssa.UnOp:
					// a re-slice of the field itself: Sources walks through the Slice to the load
					if sl, ok := core.Strip(st.Val).(*ssa.Slice); ok && isSelf(sl.X) {
						if sl.High == nil || !shrinking(sl.High, 0) {
							bad = fmt.Sprintf("%s re-slices the level list with an upper bound that may exceed its length at %s", core.QName(fn), w.Pos(st.Pos()))
							badPos = st.Pos()
						}
						continue
					}
					bad = fmt.Sprintf("%s sets the level list from another value at %s", core.QName(fn), w.Pos(st.Pos()))
					badPos = st.Pos()
				case *ssa.Alloc, *ssa.MakeSlice, *ssa.Const:
					// constructor literal / make / nil
				default:
					bad = fmt.Sprintf("%s sets the level list from %s at %s", core.QName(fn), valueDesc(src), w.Pos(st.Pos()))
					badPos = st.Pos()
				}
			}
		}
	}
	r.Check(bad == "" && n >= 2, rule, "cache: the level list grows only by appending a freshly made map", badPos, fmt.Sprintf("%d stores to Cache.Cache: append of a fresh map, non-growing re-slice, or constructor", n),
		"a cache level can begin with content: a map that is not fresh is appended, or the list is re-sliced upwards over a map left in its backing array - the symbols of a dropped level are visible again after the next descent: "+bad)
}

// variadicElements returns the values stored into the array behind a variadic argument slice
// (`append(x, a, b)` passes `slice t[:]` of a fresh [2]T holding a and b).
func variadicElements(v ssa.Value) []ssa.Value {
	sl, ok := v.(*ssa.Slice)
	if !ok {
		return nil
	}
	al, ok := sl.X.(*ssa.Alloc)
	if !ok {
		return nil
	}
	var out []ssa.Value
	if refs := al.Referrers(); refs != nil {
		for _, rr := range *refs {
			ia, ok := rr.(*ssa.IndexAddr)
			if !ok {
				continue
			}
			if ir := ia.Referrers(); ir != nil {
				for _, s := range *ir {
					if st, ok := s.(*ssa.Store); ok && st.Addr == ssa.Value(ia) {
						out = append(out, st.Val)
					}
				}
			}
		}
	}
	return out
}

// checkConfigLanguageBeforeLoad (C07 R8): the configured default language initialises a state
// before the stored session is loaded over it; it is never applied after the load. Applied after,
// a per-request engine re-applies it on every request to a session that deliberately has no
// language, while a long-lived engine (which loads once) keeps the session's choice.
func checkConfigLanguageBeforeLoad(w *core.World, r *core.Report, rule string) {
	applies := map[*ssa.Function]bool{}
	loads := map[*ssa.Function]bool{}
	for _, fn := range w.FuncsIn("engine") {
		for _, c := range core.CallsTo(fn, "state.(*State).SetLanguage") {
			args := core.CallArgs(c)
			for _, s := range core.Sources(args[len(args)-1]) {
				if tn, f, ok := core.LoadedField(s); ok && f == "Language" && strings.HasSuffix(tn, "Config") {
					applies[fn] = true
				}
			}
		}
		if len(core.CallsTo(fn, "persist.(*Persister).Load")) > 0 {
			loads[fn] = true
		}
	}
	if len(applies) == 0 || len(loads) == 0 {
		r.Undecided(rule, "engine: configured language / session load", token.NoPos, fmt.Sprintf("found %d function(s) applying Config.Language and %d loading the session", len(applies), len(loads)))
		return
	}
	closure := func(set map[*ssa.Function]bool) map[*ssa.Function]bool {
		out := map[*ssa.Function]bool{}
		for f := range set {
			out[f] = true
		}
		for round := 0; round < 3; round++ {
			for _, fn := range w.FuncsIn("engine") {
				if out[fn] {
					continue
				}
				for _, c := range core.Calls(fn) {
					if g := core.StaticCallee(c); g != nil && out[g] {
						out[fn] = true
					}
				}
			}
		}
		return out
	}
	aAll, lAll := closure(applies), closure(loads)
	bad := ""
	var badPos token.Pos
	n := 0
	for _, fn := range w.FuncsIn("engine") {
		var as, ls []ssa.Instruction
		for _, c := range core.Calls(fn) {
			g := core.StaticCallee(c)
			if g == nil {
				continue
			}
			if aAll[g] {
				as = append(as, c.(ssa.Instruction))
			}
			if lAll[g] {
				ls = append(ls, c.(ssa.Instruction))
			}
		}
		if applies[fn] {
			for _, c := range core.CallsTo(fn, "state.(*State).SetLanguage") {
				as = append(as, c.(ssa.Instruction))
			}
		}
		if loads[fn] {
			for _, c := range core.CallsTo(fn, "persist.(*Persister).Load") {
				ls = append(ls, c.(ssa.Instruction))
			}
		}
		for _, l := range ls {
			for _, a := range as {
				if a == l {
					continue
				}
				n++
				if hit, _ := core.Reach(core.After(l), core.IsInstr(a), nil); hit != nil {
					bad = fmt.Sprintf("in %s the configured language is applied at %s, after the session was loaded at %s", core.QName(fn), w.Pos(a.Pos()), w.Pos(l.Pos()))
					badPos = a.Pos()
				}
			}
		}
	}
	r.Check(bad == "" && n > 0, rule, "engine: the configured language is applied before the session is loaded, never after", badPos, fmt.Sprintf("%d (load, apply) pair(s), apply never reachable after load", n),
		"the configured default language is written into a state that was just loaded from the store: a per-request engine does that on every request, a long-lived engine only once, so a session that cleared its language on purpose is served differently by the two: "+bad)
}

// checkCodecNoUnsafe (C14 R11): the strings the decoder hands out are copies of the instruction
// bytes (string([]byte) conversions), so they keep the decoded value when the caller reuses its
// buffer. The structural condition checked: the codec packages do not import package unsafe, the
// only way to build a string that is a view of a byte slice.
func checkCodecNoUnsafe(w *core.World, r *core.Report, rule string) {
	n := 0
	for _, pk := range []string{"vm", "asm"} {
		p := w.Pkgs[pk]
		if p == nil || p.Types == nil {
			r.Undecided(rule, "package "+pk, token.NoPos, "not loaded")
			continue
		}
		n++
		uses := false
		for _, imp := range p.Types.Imports() {
			if imp.Path() == "unsafe" {
				uses = true
			}
		}
		r.Check(!uses, rule, "package "+pk+": decoded values are copies (no package unsafe)", token.NoPos, "does not import unsafe",
			"the codec package imports unsafe: a decoded symbol or selector built with unsafe.String is a view of the caller's bytecode buffer and changes when that buffer is reused - decode(encode(x)) is x only until then")
	}
	_ = n
}

// checkHookKeepsPosition (C07 R9): what an engine does when it is initialised happens once on a
// long-lived engine and on every request when engines are created per request, so it must leave
// the persisted position alone. The pre-VM hook (first function) must not move the state: a
// descent into a scratch node and the ascent back clear the page index (C04 R2: Down and Up store
// SizeIdx = 0), which a per-request engine then does before every input.
func checkHookKeepsPosition(w *core.World, r *core.Report, rule string) {
	roles := resolveEngineRoles(w)
	hook := roles.PreVmHook
	if hook == nil {
		r.Undecided(rule, "engine pre-VM hook", token.NoPos, "role not resolved")
		return
	}
	r.Touch(core.QName(hook))
	var movers []string
	var pos token.Pos
	for _, c := range core.Calls(hook) {
		switch core.CallName(c) {
		case stDown, stUp, stNext, stPrev, "state.(*State).Restart":
			movers = append(movers, core.CallName(c)[len("state.(*State)."):])
			if pos == token.NoPos {
				pos = c.Pos()
			}
		}
	}
	sort.Strings(movers)
	r.Check(len(movers) == 0, rule, "engine pre-VM hook: leaves the page index untouched", pos, "no State mover is called",
		fmt.Sprintf("the hook that runs at every engine initialisation calls %v, which clear the page index: a session served by one engine per request loses its page before each input (it cannot browse past page 1), a long-lived engine keeps it", movers))
}

// ---------------------------------------------------------------------------------------------
// round 8

// checkCapacityWiring (C09 R10): the engine sets a cache capacity only from a positive
// Config.CacheSize: every call of Cache.WithCacheSize in package engine lies behind the
// CacheSize > 0 edge. Applied unconditionally, a zero (unset) config value overwrites the capacity
// the application or the stored session gave the cache with 0 = unlimited.
func checkCapacityWiring(w *core.World, r *core.Report, rule string) {
	n := 0
	for _, fn := range w.FuncsIn("engine") {
		for _, c := range core.CallsTo(fn, "cache.(*Cache).WithCacheSize") {
			n++
			cut := core.NewCut()
			for _, in := range allInstrs(fn) {
				bo, ok := in.(*ssa.BinOp)
				if !ok {
					continue
				}
				x, op, k, ok := core.CmpConst(bo)
				if !ok || k != 0 {
					continue
				}
				if _, f, ok := core.LoadedField(x); !ok || f != "CacheSize" {
					continue
				}
				switch op {
				case token.GTR, token.NEQ:
					cut.AddEdge(core.EdgesWhere(bo, true)...)
				case token.EQL, token.LEQ:
					cut.AddEdge(core.EdgesWhere(bo, false)...)
				}
			}
			ok, path := core.MustPass(c.(ssa.Instruction), cut)
			r.Check(ok && len(cut.Edges) > 0, rule, core.QName(fn)+": capacity set only from a positive Config.CacheSize", c.Pos(), "behind CacheSize > 0",
				"the engine overwrites the cache's capacity although Config.CacheSize may be 0: the capacity the application or the stored session carried becomes 0 = unlimited: "+w.PathString(path))
		}
	}
	r.Floor(rule, "WithCacheSize calls in the engine", n, 1)
}

// checkSelectionWriters (C10 R12): the data type, session and language selected on a store handle
// change only through their setters: stores to baseDb.pfx / sid / lang occur only in methods named
// Set... (and constructors). A read path that remembers something there (ToKey caching the
// context's language) makes one lookup change the meaning of the next.
func checkSelectionWriters(w *core.World, r *core.Report, rule string) {
	n, bad := 0, ""
	var badPos token.Pos
	for _, fn := range w.LibFuncs {
		for _, in := range allInstrs(fn) {
			st, ok := in.(*ssa.Store)
			if !ok {
				continue
			}
			tn, f, ok := core.FieldOfAddr(st.Addr)
			if !ok || tn != "db.baseDb" || (f != "pfx" && f != "sid" && f != "lang") {
				continue
			}
			n++
			if strings.HasPrefix(fn.Name(), "Set") || strings.HasPrefix(fn.Name(), "New") {
				continue
			}
			bad = fmt.Sprintf("%s stores baseDb.%s at %s", core.QName(fn), f, w.Pos(st.Pos()))
			badPos = st.Pos()
		}
	}
	r.Check(bad == "" && n >= 3, rule, "db: the handle's selections are written by their setters only", badPos, fmt.Sprintf("%d stores to pfx/sid/lang, all in Set... methods or constructors", n),
		"something other than a setter changes the data type, session or language selected on the store handle (for instance a lookup that remembers the context's language): the next operation runs under a selection its caller did not make: "+bad)
}

// checkBase64Agreement (C10 R13): where the filesystem back end encodes binary keys for file names
// and decodes them again for listings, both directions use the same base64 alphabet.
func checkBase64Agreement(w *core.World, r *core.Report, rule string) {
	enc, dec := map[string]bool{}, map[string]bool{}
	for _, fn := range w.FuncsIn("db/fs") {
		for _, c := range core.Calls(fn) {
			name := core.CallName(c)
			var set map[string]bool
			switch {
			case strings.HasSuffix(name, "base64.(*Encoding).EncodeToString"), strings.HasSuffix(name, "base64.(*Encoding).Encode"):
				set = enc
			case strings.HasSuffix(name, "base64.(*Encoding).DecodeString"), strings.HasSuffix(name, "base64.(*Encoding).Decode"):
				set = dec
			default:
				continue
			}
			args := core.CallArgs(c)
			for _, s := range core.Sources(args[0]) {
				if u, ok := s.(*ssa.UnOp); ok && u.Op == token.MUL {
					if g, ok := u.X.(*ssa.Global); ok {
						set[g.Name()] = true
						continue
					}
				}
				set["?"] = true
			}
		}
	}
	if len(enc) == 0 && len(dec) == 0 {
		r.OK(rule, "db/fs: binary keys are encoded and decoded with the same alphabet", token.NoPos, "no base64 use in the back end")
		return
	}
	r.Check(setStr(enc) == setStr(dec) && len(enc) == 1 && !enc["?"], rule, "db/fs: binary keys are encoded and decoded with the same alphabet", token.NoPos, "encode and decode both use "+setStr(enc),
		fmt.Sprintf("file names are encoded with %s but decoded with %s: keys whose encoding contains the characters the alphabets differ in are stored but cannot be decoded - a listing skips them or stops there", setStr(enc), setStr(dec)))
}

// checkPersistKeyIsSessionId (C11 R13): the key under which the engine saves and loads a session
// is Config.SessionId itself. A substitute for some value (a placeholder for the empty id, say)
// is a name a client can choose as its session id.
func checkPersistKeyIsSessionId(w *core.World, r *core.Report, rule string) {
	n, bad := 0, ""
	var badPos token.Pos
	var fromId func(v ssa.Value, depth int) bool
	fromId = func(v ssa.Value, depth int) bool {
		for _, s := range core.Sources(v) {
			if _, f, ok := core.LoadedField(s); ok && f == "SessionId" {
				continue
			}
			return false
		}
		return true
	}
	for _, fn := range w.FuncsIn("engine") {
		for _, c := range core.CallsTo(fn, "persist.(*Persister).Save", "persist.(*Persister).Load") {
			args := core.CallArgs(c)
			n++
			if !fromId(args[len(args)-1], 0) {
				bad = fmt.Sprintf("%s passes a key that is not Config.SessionId itself at %s", core.QName(fn), w.Pos(c.Pos()))
				badPos = c.Pos()
			}
		}
	}
	r.Check(bad == "" && n >= 2, rule, "engine: sessions are stored under Config.SessionId itself", badPos, fmt.Sprintf("%d Save/Load call(s) keyed by the SessionId field", n),
		"the engine stores a session under a key other than its session id (a placeholder, a derived name): a client that chooses that name as its session id reads and overwrites the other session: "+bad)
}

// checkHandleClearedAfterCloser (C13 R9): the stored transaction handle is forgotten (tx = nil)
// only after the transaction was ended: every nil store to pgDb.tx is preceded on every path of
// its function by a Commit or Rollback on the stored handle. A failure path that drops the handle
// without ending the transaction leaves it open on the connection where nothing can reach it.
func checkHandleClearedAfterCloser(w *core.World, r *core.Report, rule string) {
	n := 0
	for _, fn := range w.FuncsIn("db/postgres") {
		for _, in := range allInstrs(fn) {
			st, ok := in.(*ssa.Store)
			if !ok || !core.IsNilConst(st.Val) {
				continue
			}
			if tn, f, ok := core.FieldOfAddr(st.Addr); !ok || tn != "db/postgres.pgDb" || f != "tx" {
				continue
			}
			n++
			cut := core.NewCut()
			for _, c := range core.Calls(fn) {
				nm := core.CallName(c)
				if (nm == pgTxIface+".Commit" || nm == pgTxIface+".Rollback") && isTxField(core.CallArgs(c)[0]) {
					if _, isDefer := c.(*ssa.Defer); !isDefer {
						cut.AddInstr(c.(ssa.Instruction))
					}
				}
			}
			hit, path := core.Reach(core.Entry(fn), core.IsInstr(st), cut)
			r.Check(hit == nil && len(cut.Instrs) > 0, rule, core.QName(fn)+": the handle is forgotten only after the transaction was ended", st.Pos(), "every path to tx = nil passes Commit or Rollback",
				"the stored transaction handle is dropped on a path that neither commits nor rolls back: the transaction stays open on the connection, out of reach of Abort and Stop: "+w.PathString(path))
		}
	}
	r.Floor(rule, "nil stores to pgDb.tx", n, 2)
}

// checkNoRuneWrites (C14 R13): length and size prefixes are bytes. Writing a number with WriteRune
// encodes values of 128 and above as two UTF-8 bytes, which the decoder reads as another length.
func checkNoRuneWrites(w *core.World, r *core.Report, rule string) {
	bad := ""
	var badPos token.Pos
	n := 0
	for _, pk := range []string{"asm", "vm"} {
		for _, fn := range w.FuncsIn(pk) {
			for _, c := range core.Calls(fn) {
				nm := core.CallName(c)
				if strings.HasSuffix(nm, ".Write") || strings.HasSuffix(nm, ".WriteByte") {
					n++
				}
				if !strings.HasSuffix(nm, ".WriteRune") {
					continue
				}
				args := core.CallArgs(c)
				if _, isC := core.ConstInt(core.Strip(args[len(args)-1])); isC {
					continue // a constant character (line break, separator)
				}
				bad = fmt.Sprintf("%s writes a computed value as a rune at %s", core.QName(fn), w.Pos(c.Pos()))
				badPos = c.Pos()
			}
		}
	}
	r.Check(bad == "", rule, "codec: numbers are written as bytes, never as runes", badPos, fmt.Sprintf("no WriteRune of a computed value in asm or vm (%d byte writes)", n),
		"a length or size is written with WriteRune: values of 128 and above become two UTF-8 bytes and the decoder reads a different length: "+bad)
}

// checkMenuAddReachesProcessor (C16 R10): every batch menu line the assembler accepts reaches the
// menu processor: every success return of Batcher.MenuAdd passes MenuProcessor.Add. A line that is
// skipped (a duplicate selector, say) disappears from the bytecode without an error.
func checkMenuAddReachesProcessor(w *core.World, r *core.Report, rule string) {
	ma := w.Func("asm", "(*Batcher).MenuAdd")
	if ma == nil {
		r.Undecided(rule, "asm.(*Batcher).MenuAdd", token.NoPos, "anchor not found")
		return
	}
	r.Touch(core.QName(ma))
	cut := cutWithHelpers(w, ma, func(fn *ssa.Function, cut *core.Cut) {
		for _, c := range core.CallsTo(fn, "asm.(*MenuProcessor).Add") {
			cut.AddInstr(c.(ssa.Instruction))
		}
	}, 1)
	hit, path := core.Reach(core.Entry(ma), isSuccessReturnPred(ma), cut)
	r.Check(hit == nil && len(cut.Instrs) > 0, rule, "asm.(*Batcher).MenuAdd: every accepted batch line reaches the menu processor", ma.Pos(), "every success return passes MenuProcessor.Add",
		"a batch menu line can be accepted without being handed to the menu processor: neither its display instruction nor its INCMP reaches the bytecode, and nothing reports it: "+w.PathString(path))
}

// checkDiagnosticsArePure (C07 R10): String / GoString / Error / Format methods of library types run
// wherever a value is logged or printed - on some builds and log levels only, and at points no
// caller controls. They must not change anything: no store to a field or through an index, no map
// update, and no call of a library function that does (a destructive getter such as Cache.Last or
// State.GetCode inside a String method makes behaviour depend on the log level).
func checkDiagnosticsArePure(w *core.World, r *core.Report, rule string) {
	memo := map[*ssa.Function]string{}
	var impure func(fn *ssa.Function, depth int) string
	impure = func(fn *ssa.Function, depth int) string {
		if v, ok := memo[fn]; ok {
			return v
		}
		memo[fn] = ""
		if depth > 3 || len(fn.Blocks) == 0 {
			return ""
		}
		for _, in := range allInstrs(fn) {
			switch t := in.(type) {
			case *ssa.Store:
				if _, f, ok := core.FieldOfAddr(t.Addr); ok {
					memo[fn] = fmt.Sprintf("%s stores field %s at %s", core.QName(fn), f, w.Pos(t.Pos()))
					return memo[fn]
				}
				if ia, ok := t.Addr.(*ssa.IndexAddr); ok {
					local := false
					for _, s := range core.Sources(ia.X) {
						if al, ok := s.(*ssa.Alloc); ok && al.Parent() == fn {
							local = true
						}
						if _, ok := s.(*ssa.MakeSlice); ok {
							local = true
						}
					}
					if !local {
						memo[fn] = fmt.Sprintf("%s writes an element of non-local memory at %s", core.QName(fn), w.Pos(t.Pos()))
						return memo[fn]
					}
				}
			case *ssa.MapUpdate:
				if _, ok := core.Strip(t.Map).(*ssa.MakeMap); !ok {
					local := false
					for _, s := range core.Sources(t.Map) {
						if _, ok := s.(*ssa.MakeMap); ok {
							local = true
						}
					}
					if !local {
						memo[fn] = fmt.Sprintf("%s updates a map at %s", core.QName(fn), w.Pos(t.Pos()))
						return memo[fn]
					}
				}
			case ssa.CallInstruction:
				if g := core.StaticCallee(t); g != nil && w.InLib(g) && g != fn {
					if why := impure(g, depth+1); why != "" {
						memo[fn] = why
						return why
					}
				}
			}
		}
		return ""
	}
	n := 0
	for _, fn := range w.LibFuncs {
		if fn.Signature.Recv() == nil || fn.Parent() != nil {
			continue
		}
		switch fn.Name() {
		case "String", "GoString", "Error", "Format":
		default:
			continue
		}
		if fn.Name() != "Format" && fn.Signature.Params().Len() != 0 {
			continue
		}
		n++
		why := impure(fn, 0)
		r.Check(why == "", rule, core.QName(fn)+": a diagnostic method changes nothing", fn.Pos(), "no store, map update or impure library call",
			"a method that runs whenever the value is logged or printed has an effect: what a session does then depends on the log level and build tags (a per-request engine logs at other points than a long-lived one): "+why)
	}
	r.Floor(rule, "String/Error methods of library types", n, 5)
}

// checkReattachAfterSave (C04 R10): where the engine saves a session that is new to the store it
// re-attaches its own state and cache to the persister afterwards (a flushing persister replaces
// its content on Save): every path from a Persister.Save in a function that also loads sessions to
// a return passes WithContent. Otherwise the engine moves one State while Finish stores another.
func checkReattachAfterSave(w *core.World, r *core.Report, rule string) {
	n := 0
	for _, fn := range w.FuncsIn("engine") {
		if len(core.CallsTo(fn, "persist.(*Persister).Load")) == 0 {
			continue
		}
		for _, c := range core.CallsTo(fn, "persist.(*Persister).Save") {
			n++
			r.Touch(core.QName(fn))
			cut := core.NewCut()
			for _, wc := range core.CallsTo(fn, "persist.(*Persister).WithContent") {
				cut.AddInstr(wc.(ssa.Instruction))
			}
			cut.AddEdge(errNonNilEdges(callErr(c))...)
			hit, path := core.Reach(core.After(c.(ssa.Instruction)), core.IsReturn, cut)
			r.Check(hit == nil && len(cut.Instrs) > 0, rule, core.QName(fn)+": state and cache re-attached after saving a new session", c.Pos(), "every return after a successful Save passes WithContent",
				"after saving a session that is new to the store the engine does not point the persister at its own state and cache again: a flushing persister has replaced its content, so the engine moves one State object while Finish stores another (the stored position stays empty): "+w.PathString(path))
		}
	}
	r.Floor(rule, "Save calls in the session attach path", n, 1)
}

// checkWhoMayCall is a who-may-call rule: calls of the named functions (static or through the
// named interface method) occur only in library functions accepted by allowed.
func checkWhoMayCall(w *core.World, r *core.Report, rule, construct string, isTarget func(ssa.CallInstruction) bool, allowed func(*ssa.Function) bool, okText, badText string, floor int) {
	n, bad := 0, ""
	var badPos token.Pos
	for _, fn := range w.LibFuncs {
		for _, c := range core.Calls(fn) {
			if !isTarget(c) {
				continue
			}
			n++
			if !allowed(fn) {
				bad = fmt.Sprintf("%s at %s", core.QName(fn), w.Pos(c.Pos()))
				badPos = c.Pos()
			}
		}
	}
	r.Check(bad == "" && n >= floor, rule, construct, badPos, fmt.Sprintf("%d call site(s), %s", n, okText), badText+": "+bad)
}

// checkMenuBuffersDistinct (C14 R14): the two halves of a batch menu expansion grow in separate
// memory: the initial values of the two accumulators of MenuProcessor.ToLines share no allocation.
func checkMenuBuffersDistinct(w *core.World, r *core.Report, rule string) {
	tl := w.Func("asm", "(*MenuProcessor).ToLines")
	if tl == nil {
		r.Undecided(rule, "asm.(*MenuProcessor).ToLines", token.NoPos, "anchor not found")
		return
	}
	var accs []*ssa.Phi
	seen := map[*ssa.Phi]bool{}
	for _, c := range core.CallsTo(tl, "vm.NewLine") {
		if phi, ok := core.CallArgs(c)[0].(*ssa.Phi); ok && !seen[phi] {
			seen[phi] = true
			accs = append(accs, phi)
		}
	}
	if len(accs) < 2 {
		return // C16 R2 reports the shape
	}
	allocs := func(phi *ssa.Phi) map[ssa.Value]bool {
		out := map[ssa.Value]bool{}
		for _, e := range phi.Edges {
			if c, ok := e.(*ssa.Call); ok && core.IsCallTo(c, "vm.NewLine") {
				continue // the loop-carried value
			}
			for _, s := range core.Sources(e) {
				switch s.(type) {
				case *ssa.Alloc, *ssa.MakeSlice:
					out[s] = true
				}
			}
		}
		return out
	}
	shared := false
	a0 := allocs(accs[0])
	for _, other := range accs[1:] {
		for a := range allocs(other) {
			if a0[a] {
				shared = true
			}
		}
	}
	r.Check(!shared, rule, "asm.(*MenuProcessor).ToLines: the two instruction buffers share no memory", tl.Pos(), "distinct allocations",
		"both halves of the menu expansion are carved from one allocation: when the first grows past its share, the in-place append of vm.NewLine overwrites instructions already stored in the second")
}

// checkReadLinePrefixUsed (C17 R9): where the engine's Loop reads input with bufio's ReadLine, the
// "line continues" result is used. Dropped, an over-long line is handed on in pieces, each of
// which passes the length check the whole line was meant to fail.
func checkReadLinePrefixUsed(w *core.World, r *core.Report, rule string) {
	for _, fn := range w.FuncsIn("engine") {
		for _, c := range core.CallsTo(fn, "bufio.(*Reader).ReadLine") {
			call, ok := c.(*ssa.Call)
			if !ok {
				continue
			}
			used := false
			if refs := call.Referrers(); refs != nil {
				for _, u := range *refs {
					if ex, ok := u.(*ssa.Extract); ok && ex.Index == 1 {
						if er := ex.Referrers(); er != nil && len(*er) > 0 {
							used = true
						}
					}
				}
			}
			r.Check(used, rule, core.QName(fn)+": ReadLine's continuation flag is used", c.Pos(), "isPrefix is read",
				"the input reader drops the 'line continues' result: a line longer than the buffer arrives as several inputs, each of which passes the length limit the whole line exceeds")
		}
	}
}

// checkValidatedBytesAreInput (C17 R10): ValidInput matches the bytes it was given, not a cleaned-up
// copy: the argument of every pattern match in it is the parameter itself. Validating a trimmed or
// normalised copy accepts bytes the engine then executes untrimmed.
func checkValidatedBytesAreInput(w *core.World, r *core.Report, rule string) {
	vi := w.Func("vm", "ValidInput")
	if vi == nil {
		r.Undecided(rule, "vm.ValidInput", token.NoPos, "anchor not found")
		return
	}
	scope := []*ssa.Function{vi}
	for _, c := range core.Calls(vi) {
		if g := core.StaticCallee(c); g != nil && core.PkgOf(g) == "vm" && len(g.Blocks) > 0 {
			scope = append(scope, g)
		}
	}
	n, bad := 0, ""
	var badPos token.Pos
	for _, fn := range scope {
		for _, c := range core.Calls(fn) {
			nm := core.CallName(c)
			if !strings.HasPrefix(nm, "regexp.(*Regexp).Match") && !strings.HasPrefix(nm, "regexp.Match") {
				continue
			}
			args := core.CallArgs(c)
			n++
			for _, s := range core.Sources(args[len(args)-1]) {
				if _, ok := s.(*ssa.Parameter); !ok {
					bad = fmt.Sprintf("%s matches %s at %s", core.QName(fn), valueDesc(s), w.Pos(c.Pos()))
					badPos = c.Pos()
				}
			}
		}
	}
	r.Check(bad == "" && n > 0, rule, "vm.ValidInput: the bytes validated are the bytes given", badPos, fmt.Sprintf("%d pattern match(es) on the parameter itself", n),
		"the validator examines a modified copy of the input (trimmed, normalised): input that fails the pattern as given is accepted, and the engine executes it as given: "+bad)
}

// checkNoMustOnRequestPath (C08 R12): helpers of the standard library that panic instead of
// returning an error (template.Must, regexp.MustCompile, ...) are not called with run-time data on
// the request path: a page error carries client bytes into the template text, so a Must-style
// parse turns an unparsable input into a crash.
func checkNoMustOnRequestPath(w *core.World, r *core.Report, rule string, reach map[*ssa.Function]bool) {
	bad := ""
	var badPos token.Pos
	n := 0
	for _, fn := range w.LibFuncs {
		if !reach[fn] {
			continue
		}
		n++
		for _, c := range core.Calls(fn) {
			g := core.StaticCallee(c)
			if g == nil || w.InLib(g) || g.Pkg == nil {
				continue
			}
			if !strings.HasPrefix(g.Name(), "Must") {
				continue
			}
			constant := true
			for _, a := range core.CallArgs(c) {
				for _, s := range core.Sources(a) {
					if _, ok := s.(*ssa.Const); !ok {
						constant = false
					}
				}
			}
			if !constant {
				bad = fmt.Sprintf("%s calls %s with run-time data at %s", core.QName(fn), core.CallName(c), w.Pos(c.Pos()))
				badPos = c.Pos()
			}
		}
	}
	r.Check(bad == "", rule, "request path: no panicking Must helper on run-time data", badPos, fmt.Sprintf("%d functions on the request path scanned", n),
		"a helper that panics instead of returning an error is applied to data that depends on the request: an input the helper cannot digest crashes the engine: "+bad)
}

// isFinishHelper: fn is an unexported helper of the engine whose only call sites are in Finish.
func isFinishHelper(w *core.World, fn *ssa.Function) bool {
	sites, escapes := staticCallSites(w, fn)
	if escapes || len(sites) == 0 {
		return false
	}
	for _, c := range sites {
		if c.Parent().Name() != "Finish" {
			return false
		}
	}
	return true
}

// checkLateralErrorsReturned (C03 R15): in the target dispatcher the error of State.Next and
// State.Previous reaches the caller. The INCMP handler treats a refused lateral move (IndexError)
// as "no match" and lets the input fall through to the catch node; a dispatcher that swallows the
// error (clamping at the first page, say) makes an input the menu does not offer count as a match.
func checkLateralErrorsReturned(w *core.World, r *core.Report, rule string) {
	n := 0
	for d := range navDispatchers(w) {
		scope := []*ssa.Function{d}
		for _, c := range core.Calls(d) {
			if g := core.StaticCallee(c); g != nil && core.PkgOf(g) == "vm" && len(g.Blocks) > 0 && g != d {
				scope = append(scope, g)
			}
		}
		for _, fn := range scope {
			for _, c := range core.CallsTo(fn, stNext, stPrev) {
				n++
				ev := callErr(c)
				ok := false
				if ev != nil {
					for v := range core.Forward(ev, nil) {
						if refs := v.Referrers(); refs != nil {
							for _, u := range *refs {
								if ret, isRet := u.(*ssa.Return); isRet && len(ret.Results) > 0 && ret.Results[len(ret.Results)-1] == v {
									ok = true
								}
								if stv, isSt := u.(*ssa.Store); isSt {
									if a, isA := stv.Addr.(*ssa.Alloc); isA && isNamedResult(fn, a.Comment) {
										ok = true
									}
								}
							}
						}
					}
					// and no success return behind its failure edge
					for _, e := range errNonNilEdges(ev) {
						if hit, _ := core.Reach(core.Point{B: e.To(), I: 0}, isSuccessReturnPred(fn), nil); hit != nil {
							ok = false
						}
					}
				}
				r.Check(ok, rule, core.QName(fn)+": the error of a lateral move reaches the caller", c.Pos(), "returned, no success return behind its failure edge",
					"a refused lateral move (no next / previous page) is swallowed by the dispatcher: INCMP counts the selector as matched although the menu does not offer it, instead of letting the input fall through to the catch node")
			}
		}
	}
	r.Floor(rule, "lateral moves in the dispatcher", n, 2)
}

// checkMatchClearsReadin (C20 R10): a matched INCMP - by selector or by wildcard - clears READIN
// before it moves: every path to the handler's move passes the constant ResetFlag(FLAG_READIN).
// With READIN left set, a node that later runs out of code is taken for unhandled input (catch
// node, continue) instead of a dead end (TERMINATE, stop).
func checkMatchClearsReadin(w *core.World, r *core.Report, rule string) {
	h := handlerByName(w, r, "INCMP")
	fRead, ok := constOf(w, r, "state", "FLAG_READIN")
	if h == nil || !ok {
		return
	}
	var moves []ssa.CallInstruction
	for d := range navDispatchers(w) {
		moves = append(moves, callsToSet(h, map[*ssa.Function]bool{d: true})...)
	}
	cut := core.NewCut()
	for _, c := range flagConstCalls(h, fRead, stResetFlag) {
		cut.AddInstr(c.(ssa.Instruction))
	}
	for _, m := range moves {
		ok, path := core.MustPass(m.(ssa.Instruction), cut)
		r.Check(ok && len(cut.Instrs) > 0, rule, "INCMP handler: READIN cleared before every move", m.Pos(), "every path to the move passes ResetFlag(FLAG_READIN)",
			"a match (the wildcard, say) moves with READIN still set: when the target node runs out of code the dead-code check takes it for unhandled input and goes to the catch node instead of terminating the session: "+w.PathString(path))
	}
	if len(moves) == 0 {
		r.Undecided(rule, "INCMP handler: move", h.Pos(), "no call of the target dispatcher found")
	}
}
