package rules

import (
	"fmt"
	"go/token"
	"strings"

	"golang.org/x/tools/go/ssa"

	"vischeck/internal/core"
)

func init() {
	register("C06", PropCheck{
		Title:      "Signal flags steer control flow and the reserved ones are tamper-proof",
		Explain:    "Structural clauses decided for all inputs/histories: (R1) every State.SetFlag/ResetFlag call in the library whose flag argument is not a compile-time constant is dominated by the true edge of state.IsWriteableFlag on that same value (lifted through parameters to the callers); (R2) the set accepted by IsWriteableFlag, computed by interval analysis of its body, is exactly {TERMINATE, LANG} plus all indices >= FLAG_USERSTART and equals the 'Writeable?' column of doc/texinfo/signals.texi; (R3) State.Flags is stored to only inside package state; (R4) in Vm.Run every opcode-handler call and every opSplit call is separated from the function entry and from every other handler call by the 'TERMINATE unset' edge of a test of FLAG_TERMINATE, and DefaultEngine.exec does not record new code after a run that left TERMINATE set; (R5) the constant resets of FLAG_TERMINATE in the library are only the no-op behind the test in Run and the engine's session-restart reset; (R6) the move in the CATCH handler and the purge in the CROAK handler are control dependent on the true edge of MatchFlag(sig, mode) applied to the decoded signal and mode, MatchFlag is GetFlag(sig)==mode, nothing else happens on the other edge, and CROAK returns fresh empty code on the match edge; (R8) the reserved flag byte is re-initialised as a whole (State.Restart) only by the engine's session restart, never from package vm (added after seeded change C06-F, where a matching CROAK restarted the state and wiped READIN); (R9) flag addressing loses no bits: package state contains no lossy integer narrowing and no arithmetic in a narrow type that its result can leave (a uint8 byte offset wraps at 256 flag bytes), and the integer decoder that yields the CATCH/CROAK signal decodes every accepted operand length from the operand bytes (shared with C14 R8; added after seeded changes C06-G and C06-H). (R10) = C17 R5 (Finish saves only an initialised engine; added after seeded change C06-L). (R11) the flags external code asks to reset are applied before the ones it asks to set: in no library function is a consuming read of Result.FlagReset reachable from a consuming read of Result.FlagSet (the clear-the-group, raise-one idiom of the repository's examples; added after seeded change C06-M). (R12) the engine's fetch of the pending code is a consuming read: at every call of State.GetCode, State.Code is stored again before the caller returns, on every path - by GetCode itself or by the caller (added after seeded change C06-N, a pure getter that let a croaked node's INCMP lines survive in the saved state). (R13) = C20 R15: in the function that applies Result.FlagSet every path from the external call (or the entry, where the result is a parameter) to a return passes the application or the call's own failure edge (added after seeded change C20-P). (R14) = C15 R12: the flag bytes are built only by the constructor (added after seeded change C06-P, a Resize that dropped the reserved byte).",
		NotDecided: "behaviour for flag indices beyond the configured count (bytecode-supplied ones: C15); what application EntryFuncs do with a *State they captured themselves; transcripts over histories.",
		Assume:     []string{"external code reaches the state only through resource.Result (documented contract of resource.EntryFunc)"},
		Run:        runC06,
	})
}

const (
	stSetFlag   = "state.(*State).SetFlag"
	stResetFlag = "state.(*State).ResetFlag"
	stMatchFlag = "state.(*State).MatchFlag"
	stGetFlag   = "state.(*State).GetFlag"
	stWriteable = "state.IsWriteableFlag"
)

// flagUnsetEdges returns, for every test of constant flag `flag` in fn (MatchFlag / GetFlag),
// the CFG edges on which the flag is known to be UNSET (want=false) or SET (want=true).
func flagTestEdges(fn *ssa.Function, flag int64, wantSet bool) ([]core.Edge, []ssa.CallInstruction) {
	var edges []core.Edge
	var tests []ssa.CallInstruction
	// predicate helpers: a module function without flag parameters whose single return is a
	// (possibly negated) test of the constant flag - `func (en *Engine) terminated() bool`
	for _, c := range core.Calls(fn) {
		g := core.StaticCallee(c)
		if g == nil || g == fn || g.Pkg == nil || !strings.HasPrefix(g.Pkg.Pkg.Path(), core.ModPath) || len(g.Blocks) != 1 {
			continue
		}
		if g.Signature.Results().Len() != 1 || g.Signature.Results().At(0).Type().String() != "bool" {
			continue
		}
		ret, ok := g.Blocks[0].Instrs[len(g.Blocks[0].Instrs)-1].(*ssa.Return)
		if !ok {
			continue
		}
		rv, neg := ret.Results[0], false
		for {
			u, isU := rv.(*ssa.UnOp)
			if !isU || u.Op != token.NOT {
				break
			}
			rv, neg = u.X, !neg
		}
		inner, isCall := rv.(*ssa.Call)
		if !isCall {
			continue
		}
		// which polarity does the helper report? evaluate the inner test with the helper as context
		innerSet, innerTests := flagTestEdgesOfValue(inner, flag)
		if len(innerTests) == 0 {
			continue
		}
		val := core.CallValue(c)
		if val == nil {
			continue
		}
		for _, ce := range core.BoolEdges(val) {
			// helper true <=> (inner true) xor neg ; inner true <=> flagSet == innerSet
			set := (ce.Val != neg) == innerSet
			if set == wantSet {
				edges = append(edges, ce.E)
			}
		}
		tests = append(tests, c)
	}
	for _, c := range core.CallsTo(fn, stMatchFlag, stGetFlag) {
		args := core.CallArgs(c)
		if len(args) < 2 {
			continue
		}
		if v, ok := core.ConstInt(args[1]); !ok || v != flag {
			continue
		}
		val := core.CallValue(c)
		if val == nil {
			continue
		}
		if core.IsCallTo(c, stMatchFlag) {
			if len(args) < 3 {
				continue
			}
			mc, ok := args[2].(*ssa.Const)
			if !ok || mc.Value == nil {
				continue
			}
			mode := mc.Value.String() == "true"
			// MatchFlag(flag, mode) true <=> flagSet == mode
			for _, ce := range core.BoolEdges(val) {
				set := ce.Val == mode
				if set == wantSet {
					edges = append(edges, ce.E)
				}
			}
		} else {
			for _, ce := range core.BoolEdges(val) {
				if ce.Val == wantSet {
					edges = append(edges, ce.E)
				}
			}
		}
		tests = append(tests, c)
	}
	return edges, tests
}

// guardedByWriteable checks that call site c (whose flag argument is arg) is dominated by the
// true edge of IsWriteableFlag(arg). Parameters are lifted to callers up to depth 3.
func guardedByWriteable(w *core.World, c ssa.CallInstruction, arg ssa.Value, depth int) (bool, string) {
	fn := c.Parent()
	arg = core.Strip(arg)
	if _, ok := core.ConstInt(arg); ok {
		return true, "constant"
	}
	cut := core.NewCut()
	n := 0
	for _, g := range core.CallsTo(fn, stWriteable) {
		ga := core.CallArgs(g)
		if len(ga) != 1 || core.Strip(ga[0]) != arg {
			continue
		}
		if v := core.CallValue(g); v != nil {
			cut.AddEdge(core.EdgesWhere(v, true)...)
			n++
		}
	}
	if n > 0 {
		ok, path := core.MustPass(c.(ssa.Instruction), cut)
		if ok {
			return true, "dominated by IsWriteableFlag(x) == true"
		}
		return false, "path avoiding the filter's true edge: " + w.PathString(path)
	}
	if pi := paramIndex(arg); pi >= 0 && depth < 3 {
		callers := libCallers(w, fn)
		if len(callers) == 0 {
			return false, "flag is a parameter of " + core.QName(fn) + " and no filter is applied"
		}
		for _, cs := range callers {
			a := core.CallArgs(cs)
			if pi >= len(a) {
				return false, "unresolvable caller"
			}
			ok, why := guardedByWriteable(w, cs, a[pi], depth+1)
			if !ok {
				return false, fmt.Sprintf("via caller %s at %s: %s", core.QName(cs.Parent()), w.Pos(cs.Pos()), why)
			}
		}
		return true, "guarded at every caller"
	}
	return false, "no IsWriteableFlag test on this value"
}

func runC06(w *core.World, r *core.Report) {
	r.Rule("R1", "every dynamic State.SetFlag/ResetFlag in the library is dominated by IsWriteableFlag(x)==true on the same value")
	r.Rule("R2", "IsWriteableFlag accepts exactly {TERMINATE, LANG} and indices >= FLAG_USERSTART; equals signals.texi 'Writeable?' column")
	r.Rule("R3", "State.Flags is stored to only inside package state")
	r.Rule("R4", "FLAG_TERMINATE test separates entry and every handler call from every handler call in Vm.Run; engine.exec stops before setCode when TERMINATE is set")
	r.Rule("R5", "who may clear FLAG_TERMINATE with a constant reset: the no-op behind Run's test and the engine's session restart")
	r.Rule("R6", "CATCH moves / CROAK purges exactly on the true edge of MatchFlag(decoded sig, decoded mode); MatchFlag is GetFlag(sig)==mode")
	r.Rule("R11", "flags requested by external code: the reset list is applied before the set list")
	r.Rule("R14", "the flag bytes are (re)built only by the constructor (C15 R12): no later resize or copy can drop the reserved byte that holds TERMINATE")
	r.Rule("R13", "the flags a successful external call asks for are applied on every path (C20 R15)")
	r.Rule("R12", "the pending code is consumed when the engine fetches it: State.Code is stored again on every path after State.GetCode")
	r.Rule("R10", "Finish saves only an initialised engine (C17 R5): the pre-VM hook's deferred TERMINATE reset on a blocked session is never stored")
	r.Rule("R9", "flag addressing loses no bits: no lossy narrowing in package state, and the integer decoder that yields CATCH/CROAK signals decodes every accepted operand length from the operand bytes")
	r.Rule("R8", "the reserved flag byte is re-initialised (State.Restart) only by the engine's session restart")
	r.Rule("R7", "the library sets TERMINATE with a constant only behind a READIN-unset test (out of code outside input handling); CROAK itself never does")

	fTerm, ok1 := constOf(w, r, "state", "FLAG_TERMINATE")
	fLang, ok2 := constOf(w, r, "state", "FLAG_LANG")
	fUser, ok3 := constOf(w, r, "state", "FLAG_USERSTART")
	if !ok1 || !ok2 || !ok3 {
		return
	}

	// ---- R1 ----------------------------------------------------------------------------------
	checkFlagWriteFilter(w, r, "R1")

	// ---- R2 ----------------------------------------------------------------------------------
	if fw := anchor(w, r, "state", "IsWriteableFlag"); fw != nil {
		set, ok := predicateTrueSet(fw)
		if !ok {
			r.Undecided("R2", "state.IsWriteableFlag", fw.Pos(), "body is not a pure comparison of the flag index with constants")
		} else {
			want := func(v int64) bool { return v == fTerm || v == fLang || v >= fUser }
			var bad []string
			// boundaries: all built-in indices 0..FLAG_USERSTART+1, the interval end points, and max
			probe := map[int64]bool{maxU32: true, maxU32 - 1: true}
			for v := int64(0); v <= fUser+8; v++ {
				probe[v] = true
			}
			for _, i := range set {
				for _, v := range []int64{i.lo - 1, i.lo, i.hi, i.hi + 1} {
					if v >= 0 && v <= maxU32 {
						probe[v] = true
					}
				}
			}
			for v := range probe {
				if inIvls(set, v) != want(v) {
					bad = append(bad, fmt.Sprint(v))
				}
			}
			// exactness beyond the probes: the accepted set must be a finite union whose complement
			// above FLAG_USERSTART is empty
			covered := false
			for _, i := range set {
				if i.lo <= fUser && i.hi == maxU32 {
					covered = true
				}
			}
			r.Check(len(bad) == 0 && covered, "R2", "state.IsWriteableFlag accepted set", fw.Pos(),
				fmt.Sprintf("accepted set %v = {TERMINATE(%d), LANG(%d)} U [%d, 2^32)", set, fTerm, fLang, fUser),
				fmt.Sprintf("accepted set %v differs from {TERMINATE, LANG} U [FLAG_USERSTART, 2^32) at indices %v", set, bad))
			// documented table
			doc, err := readDoc(w, "signals.texi")
			if err != nil {
				r.Undecided("R2", "doc/texinfo/signals.texi", token.NoPos, "cannot read documented flag table: "+err.Error())
			} else {
				rows := texMultitable(doc, "@anchor{builtin_flags}")
				n := 0
				for _, row := range rows {
					m := texCode.FindStringSubmatch(row[0])
					if m == nil || len(row) < 2 {
						continue
					}
					v, ok := constOf(w, r, "state", "FLAG_"+m[1])
					if !ok {
						continue
					}
					col := strings.ToLower(strings.TrimSpace(row[len(row)-1]))
					docW := col == "yes"
					if col != "yes" && col != "no" {
						r.Undecided("R2", "signals.texi row "+m[1], token.NoPos, "Writeable? column is neither yes nor no: "+col)
						continue
					}
					n++
					r.Check(inIvls(set, v) == docW, "R2", "signals.texi row "+m[1], fw.Pos(),
						fmt.Sprintf("documented writeable=%v, IsWriteableFlag(%d)=%v", docW, v, inIvls(set, v)),
						fmt.Sprintf("documented writeable=%v but IsWriteableFlag(%d)=%v", docW, v, inIvls(set, v)))
				}
				r.Floor("R2", "documented built-in flags", n, 7)
			}
		}
	}

	// ---- R3 ----------------------------------------------------------------------------------
	writers := 0
	for _, fn := range w.LibFuncs {
		for _, b := range fn.Blocks {
			for _, in := range b.Instrs {
				st, ok := in.(*ssa.Store)
				if !ok {
					continue
				}
				if !addrIsStateFlags(st.Addr) {
					continue
				}
				writers++
				r.Touch(core.QName(fn))
				r.Check(core.PkgOf(fn) == "state", "R3", core.QName(fn)+": store to State.Flags", st.Pos(),
					"inside package state", "the flag bit field is written outside package state (bypasses SetFlag/ResetFlag and the write filter)")
			}
		}
	}
	r.Floor("R3", "stores to State.Flags", writers, 3)

	// ---- R4 ----------------------------------------------------------------------------------
	hs, hcalls, run := opcodeHandlers(w, r)
	if run != nil {
		unset, tests := flagTestEdges(run, fTerm, false)
		if len(tests) == 0 {
			r.Bad("R4", "vm.(*Vm).Run: FLAG_TERMINATE test", run.Pos(), "Run never tests FLAG_TERMINATE")
		} else {
			cut := core.NewCut().AddEdge(unset...)
			targets := map[ssa.Instruction]string{}
			for op, c := range hcalls {
				targets[c] = "handler " + core.FuncName(hs[op])
			}
			if od := primitiveDecoder(w, "O"); od != nil {
				for _, c := range core.Calls(run) {
					if core.StaticCallee(c) == od {
						targets[c.(ssa.Instruction)] = "opcode decoder"
					}
				}
			}
			isT := func(in ssa.Instruction) bool { _, ok := targets[in]; return ok }
			// from entry
			in, path := core.Reach(core.Entry(run), isT, cut)
			r.Check(in == nil, "R4", "vm.(*Vm).Run: entry -> first instruction", run.Pos(),
				"every path from entry to decoding/dispatch passes the TERMINATE-unset edge",
				"an instruction can be decoded/dispatched without passing the TERMINATE test", pathW(w, in, targets, path))
			// from after each handler call
			var ops []int64
			for op := range hcalls {
				ops = append(ops, op)
			}
			sortInt64(ops)
			names := opcodeNames(w)
			for _, op := range ops {
				c := hcalls[op]
				in, path := core.Reach(core.After(c), isT, cut)
				r.Check(in == nil, "R4", "vm.(*Vm).Run: after handler of "+names[op], c.Pos(),
					"the next instruction is only reached through the TERMINATE-unset edge",
					"after this handler another instruction can run without a TERMINATE test", pathW(w, in, targets, path))
			}
			r.Floor("R4", "opcode handlers", len(hcalls), 11)
		}
	}
	roles := resolveEngineRoles(w)
	if roles.ExecBackend == nil {
		r.Undecided("R4", "engine exec backend", token.NoPos, "no unexported method of DefaultEngine called by Exec runs the VM")
	}
	if ex := roles.ExecBackend; ex != nil {
		r.Touch(core.QName(ex))
		runCalls := core.CallsTo(ex, "vm.(*Vm).Run")
		setCalls := core.CallsTo(ex, "state.(*State).SetCode")
		if roles.SetCode != nil {
			setCalls = append(setCalls, callsToSet(ex, map[*ssa.Function]bool{roles.SetCode: true})...)
		}
		unset, tests := flagTestEdges(ex, fTerm, false)
		if len(runCalls) == 0 || len(setCalls) == 0 {
			r.Undecided("R4", "engine exec backend: Run / code recorder", ex.Pos(), "cannot find the VM run or the code store in exec")
		} else if len(tests) == 0 {
			r.Bad("R4", "engine exec backend: TERMINATE test after run", ex.Pos(), "exec records the remaining code without testing FLAG_TERMINATE")
		} else {
			cut := core.NewCut().AddEdge(unset...)
			isSet := func(in ssa.Instruction) bool {
				for _, s := range setCalls {
					if s.(ssa.Instruction) == in {
						return true
					}
				}
				return false
			}
			in, path := core.Reach(core.After(runCalls[0].(ssa.Instruction)), isSet, cut)
			r.Check(in == nil, "R4", "engine exec backend: TERMINATE test after run", runCalls[0].Pos(),
				"code is recorded only on the TERMINATE-unset edge", "remaining code is recorded although TERMINATE may be set", w.PathString(path))
		}
	}

	checkDirtyBehindGate(w, r, "R4")

	// ---- R5 ----------------------------------------------------------------------------------
	labels := roleLabels(w, r)
	nreset := 0
	for _, fn := range w.LibFuncs {
		for _, c := range core.CallsTo(fn, stResetFlag) {
			args := core.CallArgs(c)
			if len(args) < 2 {
				continue
			}
			if v, ok := core.ConstInt(core.Strip(args[1])); !ok || v != fTerm {
				continue
			}
			nreset++
			r.Touch(core.QName(fn))
			key := label(labels, fn) + ": ResetFlag(FLAG_TERMINATE)"
			_, isDefer := c.(*ssa.Defer)
			// (a) no-op: dominated by a TERMINATE-unset edge in the same function
			unset, tests := flagTestEdges(fn, fTerm, false)
			if len(tests) > 0 && !isDefer {
				if ok, _ := core.MustPass(c.(ssa.Instruction), core.NewCut().AddEdge(unset...)); ok {
					r.OK("R5", key, c.Pos(), "no-op: only reached on the TERMINATE-unset edge")
					continue
				}
			}
			if !isDefer && behindFlagUnsetInCallers(w, fn, fTerm) {
				r.OK("R5", key, c.Pos(), "no-op: a helper whose every call site is only reached on the TERMINATE-unset edge")
				continue
			}
			// (b) session restart: same function performs State.Restart before it
			if rs := core.CallsTo(fn, "state.(*State).Restart"); len(rs) > 0 && !isDefer {
				r.OK("R5", key, c.Pos(), "session restart (State.Restart in the same function)")
				continue
			}
			how := "call"
			if isDefer {
				how = "deferred call"
			}
			r.Bad("R5", key, c.Pos(), "the library clears TERMINATE with a constant "+how+" outside the session-restart path: a blocked session becomes unblocked without client code")
		}
	}
	r.Floor("R5", "constant TERMINATE resets", nreset, 2)

	// ---- R7 ----------------------------------------------------------------------------------
	if fRead, okR := constOf(w, r, "state", "FLAG_READIN"); okR {
		nset := 0
		for _, fn := range w.LibFuncs {
			for _, c := range flagConstCalls(fn, fTerm, stSetFlag) {
				nset++
				unset, tests := flagTestEdges(fn, fRead, false)
				ok, path := core.MustPass(c.(ssa.Instruction), core.NewCut().AddEdge(unset...))
				r.Check(ok && len(tests) > 0, "R7", core.QName(fn)+": SetFlag(FLAG_TERMINATE)", c.Pos(), "only behind the READIN-unset edge",
					"the library terminates the session on a path where input may be being handled: a CROAK (or other end of code) while reading input must go to the catch node instead: "+w.PathString(path))
			}
		}
		r.Floor("R7", "constant TERMINATE sets", nset, 1)
	}
	// ---- R8 ----------------------------------------------------------------------------------
	checkRestartCallers(w, r, "R8")
	// ---- R9 ----------------------------------------------------------------------------------
	checkFlagAddressing(w, r, "R9")
	checkIntDecoderTotal(w, r, "R9")
	checkFinishSavesOnlyInitialised(w, r, "R10")
	checkResultFlagOrder(w, r, "R11")
	checkPendingCodeConsumed(w, r, "R12")
	checkResultFlagsAlwaysApplied(w, r, "R13")
	checkFlagSizeRelation(w, r, "R14")

	// ---- R6 ----------------------------------------------------------------------------------
	if mf := anchor(w, r, "state", "(*State).MatchFlag"); mf != nil {
		ok := false
		for _, b := range mf.Blocks {
			for _, in := range b.Instrs {
				ret, isRet := in.(*ssa.Return)
				if !isRet || len(ret.Results) != 1 {
					continue
				}
				if bo, isBo := ret.Results[0].(*ssa.BinOp); isBo && bo.Op == token.EQL {
					x, y := core.Strip(bo.X), core.Strip(bo.Y)
					isMode := func(v ssa.Value) bool { return paramIndex(v) == 2 }
					isGet := func(v ssa.Value) bool {
						c, _, ok := core.ExtractOf(v)
						if !ok || !core.IsCallTo(c, stGetFlag) {
							return false
						}
						a := core.CallArgs(c)
						return len(a) == 2 && paramIndex(core.Strip(a[1])) == 1
					}
					if (isMode(x) && isGet(y)) || (isMode(y) && isGet(x)) {
						ok = true
					}
				}
			}
		}
		if len(mf.Blocks) != 1 {
			ok = false
		}
		r.Check(ok, "R6", "state.(*State).MatchFlag", mf.Pos(), "returns GetFlag(sig) == matchSet", "MatchFlag is not `GetFlag(sig) == matchSet` (negated, swapped or different test)")
	}
	opn := opcodeNames(w)
	var catchOp, croakOp int64 = -1, -1
	for v, n := range opn {
		if n == "CATCH" {
			catchOp = v
		}
		if n == "CROAK" {
			croakOp = v
		}
	}
	dispatchers := navDispatchers(w)
	if h := hs[catchOp]; h != nil {
		checkSigHandler(w, r, h, "CATCH", "vm.ParseCatch", 1, 2, func(c ssa.CallInstruction) bool {
			f := core.StaticCallee(c)
			return f != nil && dispatchers[f]
		}, "move (navigation dispatcher)")
	} else if run != nil {
		r.Undecided("R6", "CATCH handler", run.Pos(), "no handler found for CATCH in Vm.Run")
	}
	if h := hs[croakOp]; h != nil {
		checkSigHandler(w, r, h, "CROAK", "vm.ParseCroak", 0, 1, func(c ssa.CallInstruction) bool {
			return core.IsCallTo(c, "cache.Memory.Reset", "cache.(*Cache).Reset")
		}, "cache purge")
		checkCroakFresh(w, r, h)
	} else if run != nil {
		r.Undecided("R6", "CROAK handler", run.Pos(), "no handler found for CROAK in Vm.Run")
	}
}

func pathW(w *core.World, in ssa.Instruction, names map[ssa.Instruction]string, path []*ssa.BasicBlock) string {
	if in == nil {
		return ""
	}
	return fmt.Sprintf("reaches %s at %s via %s", names[in], w.Pos(in.Pos()), w.PathString(path))
}

func sortInt64(a []int64) {
	for i := 1; i < len(a); i++ {
		for j := i; j > 0 && a[j] < a[j-1]; j-- {
			a[j], a[j-1] = a[j-1], a[j]
		}
	}
}

func addrIsStateFlags(addr ssa.Value) bool {
	// &st.Flags  or  &(st.Flags)[i]
	if t, f, ok := core.FieldOfAddr(addr); ok && t == "state.State" && f == "Flags" {
		return true
	}
	if ia, ok := addr.(*ssa.IndexAddr); ok {
		for _, s := range core.Sources(ia.X) {
			if t, f, ok := core.LoadedField(s); ok && t == "state.State" && f == "Flags" {
				return true
			}
		}
	}
	return false
}

// navDispatchers: functions in vm that call State.Down (directly) - the navigation dispatcher role -
// plus functions in vm that call one of those and themselves take a *state.State (wrappers).
func navDispatchers(w *core.World) map[*ssa.Function]bool {
	out := map[*ssa.Function]bool{}
	for _, fn := range w.FuncsIn("vm") {
		if len(core.CallsTo(fn, "state.(*State).Down")) > 0 {
			out[fn] = true
		}
	}
	return out
}

// checkSigHandler checks that in handler h every call matching isEffect is only reached through the
// true edge of MatchFlag(sig, mode) with sig/mode = results sigIdx/modeIdx of the parser call, and
// that on the other edge nothing but logging happens.
func checkSigHandler(w *core.World, r *core.Report, h *ssa.Function, opname, parser string, sigIdx, modeIdx int, isEffect func(ssa.CallInstruction) bool, what string) {
	key := fmt.Sprintf("%s handler %s", opname, core.QName(h))
	var match ssa.Value
	var matchPos token.Pos
	var args []ssa.Value
	for _, c := range core.CallsTo(h, stMatchFlag) {
		if cc, ok := c.(*ssa.Call); ok {
			match, matchPos, args = cc, cc.Pos(), core.CallArgs(cc)
		}
	}
	if match == nil {
		// the test may sit in a predicate helper of package vm shared by CATCH and CROAK: a function
		// whose boolean result is MatchFlag(param i, param j) or false and that, apart from the range
		// test and logging, does nothing
		for _, c := range core.Calls(h) {
			cc, ok := c.(*ssa.Call)
			g := core.StaticCallee(c)
			if !ok || g == nil || core.PkgOf(g) != "vm" || len(g.Blocks) == 0 {
				continue
			}
			si, mi, effect, okp := sigPredicateHelper(g)
			if !okp {
				continue
			}
			ha := core.CallArgs(cc)
			if si >= len(ha) || mi >= len(ha) {
				continue
			}
			if effect != "" {
				r.Bad("R6", key+": no effect when the flag does not match", cc.Pos(), "the signal test helper "+core.QName(g)+" does something before the flag is known to match: "+effect)
			}
			args = []ssa.Value{ha[0], ha[si], ha[mi]}
			matchPos = cc.Pos()
			match = cc
			if cc.Type().String() != "bool" {
				match = nil
				if refs := cc.Referrers(); refs != nil {
					for _, u := range *refs {
						if ex, ok := u.(*ssa.Extract); ok && ex.Index == 0 {
							match = ex
						}
					}
				}
			}
		}
	}
	if match == nil {
		r.Bad("R6", key+": condition", h.Pos(), "handler does not evaluate MatchFlag(sig, mode)")
		return
	}
	sc, si, ok1 := core.ExtractOf(core.Strip(args[1]))
	mc, mi, ok2 := core.ExtractOf(core.Strip(args[2]))
	okArgs := ok1 && ok2 && core.IsCallTo(sc, parser) && core.IsCallTo(mc, parser) && si == sigIdx && mi == modeIdx && sc == mc
	r.Check(okArgs, "R6", key+": MatchFlag operands", matchPos,
		fmt.Sprintf("MatchFlag(result %d, result %d of %s)", sigIdx, modeIdx, parser),
		"MatchFlag is not applied to the decoded signal and mode (swapped, constant or foreign operands)")
	trueEdges := core.EdgesWhere(match, true)
	falseEdges := core.EdgesWhere(match, false)
	if len(trueEdges) == 0 {
		r.Bad("R6", key+": condition", matchPos, "the result of MatchFlag does not steer a branch")
		return
	}
	cut := core.NewCut().AddEdge(trueEdges...)
	n := 0
	for _, c := range core.Calls(h) {
		if !isEffect(c) {
			continue
		}
		n++
		ok, path := core.MustPass(c.(ssa.Instruction), cut)
		r.Check(ok, "R6", fmt.Sprintf("%s: %s only on match", key, what), c.Pos(),
			"reached only through the MatchFlag==true edge",
			"the "+what+" can be reached without the flag matching (condition inverted, dropped or bypassed)", w.PathString(path))
	}
	if n == 0 {
		r.Bad("R6", fmt.Sprintf("%s: %s only on match", key, what), h.Pos(), "handler has no "+what+" at all")
	}
	// the other edge does nothing: no call except logging/formatting between the false edge and return
	for _, e := range falseEdges {
		in, _ := core.Reach(core.Point{B: e.To(), I: 0}, func(in ssa.Instruction) bool {
			c, ok := in.(ssa.CallInstruction)
			if !ok {
				return false
			}
			return !isLoggingCall(c)
		}, cut)
		detail := ""
		if in != nil {
			detail = "calls " + core.CallName(in.(ssa.CallInstruction)) + " at " + w.Pos(in.Pos())
		}
		r.Check(in == nil, "R6", key+": no effect when the flag does not match", matchPos, "only logging on the no-match edge", "something happens although the flag does not match: "+detail)
	}
}

func isLoggingCall(c ssa.CallInstruction) bool {
	n := core.CallName(c)
	return strings.HasPrefix(n, "logging.") || strings.HasPrefix(n, "fmt.Sprint") || strings.HasPrefix(n, "builtin.")
}

// checkCroakFresh: on the match edge the CROAK handler returns a fresh empty code slice.
func checkCroakFresh(w *core.World, r *core.Report, h *ssa.Function) {
	key := "CROAK handler " + core.QName(h) + ": code abandoned on match"
	var match *ssa.Call
	for _, c := range core.CallsTo(h, stMatchFlag) {
		if cc, ok := c.(*ssa.Call); ok {
			match = cc
		}
	}
	if match == nil {
		return
	}
	trueEdges := core.EdgesWhere(match, true)
	okAll, seen := true, 0
	why := ""
	for _, e := range trueEdges {
		// all returns reachable from the true edge
		visited := map[*ssa.BasicBlock]bool{}
		var stack = []*ssa.BasicBlock{e.To()}
		// track the predecessor through which a return block was entered to resolve phis
		type ent struct{ b, from *ssa.BasicBlock }
		work := []ent{{e.To(), e.From}}
		_ = stack
		for len(work) > 0 {
			it := work[len(work)-1]
			work = work[:len(work)-1]
			if visited[it.b] {
				continue
			}
			visited[it.b] = true
			if ret, ok := it.b.Instrs[len(it.b.Instrs)-1].(*ssa.Return); ok && len(ret.Results) > 0 {
				seen++
				v := ret.Results[0]
				if phi, ok := v.(*ssa.Phi); ok && phi.Block() == it.b {
					for i, p := range it.b.Preds {
						if p == it.from {
							v = phi.Edges[i]
						}
					}
				}
				if !isFreshEmptySlice(v) {
					okAll = false
					why = "returns " + v.String() + " at " + w.Pos(ret.Pos())
				}
			}
			for _, s := range it.b.Succs {
				work = append(work, ent{s, it.b})
			}
		}
	}
	if seen == 0 {
		r.Undecided("R6", key, h.Pos(), "no return reachable from the match edge")
		return
	}
	r.Check(okAll, "R6", key, match.Pos(), "returns a fresh empty slice on the match edge", "pending bytecode survives a matching CROAK: "+why)
}

func isFreshEmptySlice(v ssa.Value) bool {
	switch t := v.(type) {
	case *ssa.Const:
		return t.Value == nil // nil slice
	case *ssa.Slice:
		if a, ok := t.X.(*ssa.Alloc); ok {
			if pt, ok := a.Type().Underlying().(interface {
				Elem() interface{ String() string }
			}); ok {
				_ = pt
			}
			return strings.HasPrefix(a.Type().String(), "*[0]")
		}
	case *ssa.MakeSlice:
		if n, ok := core.ConstInt(t.Len); ok && n == 0 {
			return true
		}
	}
	return false
}

// flagTestEdgesOfValue: for a call `MatchFlag(flag, mode)` / `GetFlag(flag)` on the constant flag,
// reports whether "call result true" means the flag is set.
func flagTestEdgesOfValue(c *ssa.Call, flag int64) (trueMeansSet bool, tests []ssa.CallInstruction) {
	if !core.IsCallTo(c, stMatchFlag, stGetFlag) {
		return false, nil
	}
	args := core.CallArgs(c)
	if len(args) < 2 {
		return false, nil
	}
	if v, ok := core.ConstInt(args[1]); !ok || v != flag {
		return false, nil
	}
	if core.IsCallTo(c, stGetFlag) {
		return true, []ssa.CallInstruction{c}
	}
	if len(args) < 3 {
		return false, nil
	}
	mc, ok := args[2].(*ssa.Const)
	if !ok || mc.Value == nil {
		return false, nil
	}
	return mc.Value.String() == "true", []ssa.CallInstruction{c}
}

// checkFlagWriteFilter (C06 R1, C03 R11): every State.SetFlag / ResetFlag in the library whose index
// is not a constant is dominated by IsWriteableFlag(x)==true on the same value.
func checkFlagWriteFilter(w *core.World, r *core.Report, rule string) {
	dyn := 0
	for _, fn := range w.LibFuncs {
		for _, c := range core.CallsTo(fn, stSetFlag, stResetFlag) {
			r.CallSites++
			args := core.CallArgs(c)
			if len(args) < 2 {
				continue
			}
			if _, ok := core.ConstInt(core.Strip(args[1])); ok {
				continue
			}
			dyn++
			name := strings.TrimPrefix(core.CallName(c), "state.(*State).")
			ok, why := guardedByWriteable(w, c, args[1], 0)
			r.Touch(core.QName(fn))
			r.Check(ok, rule, fmt.Sprintf("%s: dynamic %s", core.QName(fn), name), c.Pos(), why, "flag write with a run-time index is not behind the write filter: "+why)
		}
	}
	// flag writes through a function value: a parameter of a local closure (or unexported helper)
	// that receives the bound methods State.SetFlag / State.ResetFlag at every call site
	for _, fn := range w.LibFuncs {
		for _, c := range core.Calls(fn) {
			cc := c.Common()
			if cc.IsInvoke() || core.StaticCallee(c) != nil {
				continue
			}
			p, ok := cc.Value.(*ssa.Parameter)
			if !ok || len(cc.Args) != 1 {
				continue
			}
			sites, escapes := staticCallSites(w, fn)
			pi := paramIndex(p)
			if escapes || len(sites) == 0 || pi < 0 {
				continue
			}
			all := true
			name := ""
			for _, sc := range sites {
				a := core.CallArgs(sc)
				// for a closure the explicit arguments start at 0 (bindings are separate)
				if pi >= len(a) {
					all = false
					continue
				}
				mc, ok := core.Strip(a[pi]).(*ssa.MakeClosure)
				if !ok {
					all = false
					continue
				}
				bf, ok := mc.Fn.(*ssa.Function)
				if !ok || !(bf.Name() == "SetFlag$bound" || bf.Name() == "ResetFlag$bound") || !strings.Contains(bf.String(), "state.State") {
					all = false
					continue
				}
				name = "SetFlag/ResetFlag (bound method value)"
			}
			if !all || name == "" {
				continue
			}
			dyn++
			r.CallSites++
			ok2, why := guardedByWriteable(w, c, cc.Args[0], 0)
			r.Touch(core.QName(fn))
			r.Check(ok2, rule, fmt.Sprintf("%s: dynamic %s", core.QName(fn), name), c.Pos(), why, "flag write with a run-time index is not behind the write filter: "+why)
		}
	}
	r.Floor(rule, "dynamic flag writes", dyn, 1)
}

// checkFlagAddressing: no lossy narrowing and no narrow arithmetic in the functions of package
// state that address the flag bytes (and the functions of the package they call).
func checkFlagAddressing(w *core.World, r *core.Report, rule string) {
	inSet := map[*ssa.Function]bool{}
	for _, fn := range w.FuncsIn("state") {
		if fn.Name() == "FlagByteSize" || fn.Name() == "GetIndex" || fn.Name() == "String" {
			continue // reporting helpers outside the request path
		}
		for _, in := range allInstrs(fn) {
			if v, ok := in.(ssa.Value); ok {
				if _, f, ok := core.LoadedField(v); ok && f == "Flags" {
					inSet[fn] = true
				}
			}
		}
	}
	for round := 0; round < 3; round++ {
		for fn := range inSet {
			for _, c := range core.Calls(fn) {
				if g := core.StaticCallee(c); g != nil && core.PkgOf(g) == "state" && len(g.Blocks) > 0 {
					inSet[g] = true
				}
			}
		}
	}
	var sfns []*ssa.Function
	for _, fn := range w.FuncsIn("state") {
		if inSet[fn] {
			sfns = append(sfns, fn)
		}
	}
	checkNarrowing(w, r, rule, sfns, "a flag index or byte offset wraps: a write to a client flag lands on a reserved flag (or another client flag) although the write filter saw a legal index")
	checkNarrowArithmetic(w, r, rule, sfns, "a flag byte offset or mask is computed in a type it can leave")
}

// sigPredicateHelper recognises a predicate helper around the signal test: its boolean (first)
// result is, on every return, the result of State.MatchFlag applied to two of its parameters, or the
// constant false. Returns the parameter indices of signal and mode, and a description of anything
// the helper does besides the range test, the flag test, error construction and logging.
func sigPredicateHelper(g *ssa.Function) (sigIdx, modeIdx int, effect string, ok bool) {
	var m *ssa.Call
	for _, c := range core.CallsTo(g, stMatchFlag) {
		if cc, isCall := c.(*ssa.Call); isCall {
			if m != nil {
				return 0, 0, "", false
			}
			m = cc
		}
	}
	if m == nil || g.Signature.Results().Len() == 0 || g.Signature.Results().At(0).Type().String() != "bool" {
		return 0, 0, "", false
	}
	a := core.CallArgs(m)
	if len(a) < 3 {
		return 0, 0, "", false
	}
	sigIdx, modeIdx = paramIndex(core.Strip(a[1])), paramIndex(core.Strip(a[2]))
	if sigIdx < 0 || modeIdx < 0 {
		return 0, 0, "", false
	}
	for _, in := range allInstrs(g) {
		if ret, isRet := in.(*ssa.Return); isRet {
			v := core.ReturnValue(ret, 0)
			for _, src := range core.Sources(v) {
				if src == ssa.Value(m) {
					continue
				}
				if c, isC := src.(*ssa.Const); isC && c.Value != nil && c.Value.String() == "false" {
					continue
				}
				return 0, 0, "", false
			}
		}
		if c, isCall := in.(ssa.CallInstruction); isCall && in != ssa.Instruction(m) {
			name := core.CallName(c)
			if isLoggingCall(c) || strings.HasPrefix(name, "fmt.") || strings.HasPrefix(name, "errors.") || strings.HasSuffix(name, ").FlagBitSize") || strings.Contains(name, "logging") {
				continue
			}
			effect = "calls " + name
		}
	}
	return sigIdx, modeIdx, effect, true
}
