package rules

import (
	"fmt"
	"go/token"
	"go/types"
	"reflect"
	"sort"
	"strings"

	"golang.org/x/tools/go/ssa"

	"vischeck/internal/core"
)

func init() {
	register("C07", PropCheck{
		Title:      "A persisted session resumes exactly where an uninterrupted one would be",
		Explain:    "Equivalence of the two serving modes needs that nothing outside the persisted snapshot carries information across a request boundary; that is decided as an effect question: (R1) every field of state.State and cache.Cache that is read by a function reachable (CHA) from Exec/Flush/Finish/Reset is exported and not excluded from the CBOR snapshot (nested struct types included), except for a frozen table of fields each with a checked side condition (input: overwritten by Exec before the VM runs; invalid markers: only consulted by the persister); (R2) the unpersisted renderer objects hanging off the VM (vm.Vm, render.Page, render.Menu, render.Sizer): every field is classified automatically as configuration (no writer reachable from Vm.Run/Vm.Render), configuration-carried (every stored value derives from configuration), link (pointer to another renderer object) or request state, and every request-state field that some function reachable from Run/Render reads is must-written with a constant / zero / freshly made / configuration-derived value on every path through the resume block of Vm.Run (the region behind the 'WAIT was set' edge), by a forward must-analysis with callee summaries, fresh-object and nil-guard rules; (R4) Serialize/Deserialize use the same codec on the same object and Save/Load the same data type and key; (R6) what the unpersisted engine object sees does not depend on its age: the language is injected into the VM/renderer context only after the (possibly persisted) state has been established (C18 R2, shared), and the output-pending mark FLAG_DIRTY is raised with a constant only by Vm.Run (added after seeded changes C07-E and C07-F) R1 also requires that no live field is tagged omitempty (a zero value must overwrite what a reused object holds; added after seeded change C04-F); (R7) a refused State.Restart changes nothing - none of its writes (direct or through State methods) can be followed by one of its error returns (added after seeded change C07-G, which cleared the reserved flag byte before the refusal test). (R8) the configured default language is applied before the stored session is loaded and is not reachable after Persister.Load in any engine function (added after seeded change C07-J). (R9) the pre-VM hook calls no State mover: it runs once on a long-lived engine and on every request on per-request engines, and Down/Up clear the page index (one open finding: the pinned hook does exactly that). (R10) String/GoString/Error/Format methods of library types contain no field store, no element store into non-local memory, no map update and call no library function that does (they run wherever a value is logged, which differs between builds, log levels and serving modes; added after seeded change C07-L). (R11) = C20 R6: Finish saves whenever the engine was initialised and has a persister - no 'nothing moved' shortcut (added after seeded change C07-N). (R12) = C10 R10: the filesystem store hands back the bytes read from the file, untrimmed (added after seeded change C07-M, which stripped a trailing line feed from every stored value, snapshots included). (R13) = C12 R6: a failed open is a miss only when the file does not exist (added after seeded change C07-P). (R14) in the engine's once-per-engine initialisation no branch condition derives from the input parameter (added after seeded change C07-O, which moved 'empty input restarts the session' there). (R15) = C11 R15: Persister.Load decodes the bytes db.Db.Get returned in that call.",
		NotDecided: "equality of outputs for all programs (needs R1, R2 and determinism of external code); fidelity of the cbor library; back-end specific behaviour (C10); DefaultEngine's own scratch flags (execd/exit/exiting are reset by prepare(); the implicit flush there is not analysed).",
		Assume:     []string{"methods named String produce diagnostics only (their reads do not count as live reads)", "one Page, Menu and Sizer per VM (field-based abstraction)"},
		Run:        runC07,
	})
}

var rendererTypes = map[string][2]string{
	"vm.Vm":        {"vm", "Vm"},
	"render.Page":  {"render", "Page"},
	"render.Menu":  {"render", "Menu"},
	"render.Sizer": {"render", "Sizer"},
}

func runC07(w *core.World, r *core.Report) {
	r.Rule("R1", "live fields of State/Cache are in the CBOR snapshot (exported, not tagged out), or in the checked exception table")
	r.Rule("R2", "request-state fields of Vm/Page/Menu/Sizer read on the run/render path are re-initialised on every path through the resume block")
	r.Rule("R4", "Serialize/Deserialize and Save/Load are symmetric")
	r.Rule("R10", "String/Error/Format methods of library types change nothing (they run wherever a value is logged)")
	r.Rule("R9", "the pre-VM hook, which runs at every engine initialisation, does not move the state (Down/Up clear the page index)")
	r.Rule("R15", "Persister.Load decodes the bytes db.Db.Get returned in that call (C11 R15)")
	r.Rule("R14", "the once-per-engine initialisation makes no decision on the request input (a long-lived engine runs it once, a per-request engine at every request)")
	r.Rule("R13", "fs: a failed open is a miss only when the file does not exist (C12 R6): a fault is not taken for a new session and saved over the stored one")
	r.Rule("R11", "Finish saves whenever the engine was initialised and has a persister (C20 R6): no request's progress is left unsaved")
	r.Rule("R12", "the filesystem store hands back the snapshot bytes as read from the file (no trimming or rewriting on the way)")
	r.Rule("R8", "the configured default language is applied before the stored session is loaded, never after")
	r.Rule("R7", "a refused State.Restart changes nothing: no store of Restart can be followed by one of its error returns")
	r.Rule("R6", "per-request and long-lived engines agree on what the unpersisted engine sees: language injected after the state is loaded (C18 R2); the output-pending mark DIRTY is raised only by Vm.Run")
	r.Rule("R5", "constructing the VM and renderer (once per engine, i.e. per request in persisted operation) has no effect on persisted State/Cache")

	eng := []*ssa.Function{}
	for _, n := range []string{"(*DefaultEngine).Exec", "(*DefaultEngine).Flush", "(*DefaultEngine).Finish", "(*DefaultEngine).Reset"} {
		if f := anchor(w, r, "engine", n); f != nil {
			eng = append(eng, f)
		}
	}
	if len(eng) != 4 {
		return
	}
	reachReq, _ := reachable(w, eng)

	// ---- R1 -----------------------------------------------------------------------------------
	persisted := map[string]bool{"state.State": true, "cache.Cache": true}
	reads, _ := fieldUses(w, persisted)
	liveReaders := func(k string) []fieldUse {
		var out []fieldUse
		for _, u := range reads[k] {
			if u.fn.Name() == "String" {
				continue
			}
			if reachReq[u.fn] {
				out = append(out, u)
			}
		}
		return out
	}
	nf := 0
	for _, tp := range [][2]string{{"state", "State"}, {"cache", "Cache"}} {
		tn := tp[0] + "." + tp[1]
		for _, f := range structFields(w, tp[0], tp[1]) {
			nf++
			k := fieldKey(tn, f.Name())
			key := "field " + k
			rd := liveReaders(k)
			tag := reflect.StructTag(structTag(w, tp[0], tp[1], f.Name()))
			cborTag := tag.Get("cbor")
			excluded := !f.Exported() || cborTag == "-" || strings.HasPrefix(cborTag, "-,")
			if !excluded {
				// written unconditionally: an omitted zero value does not overwrite what the object
				// being decoded into already holds (Load decodes into the persister's existing objects)
				if omitEmptyTag(cborTag) && len(rd) > 0 {
					r.Bad("R1", key, f.Pos(), "persisted field is tagged omitempty: a zero value (page index 0, empty stack, no language) is left out of the snapshot and a Load into an object that was used before keeps the stale value")
					continue
				}
				// nested struct types must be fully exported as well
				if bad := unexportedNested(f.Type(), 0); bad != "" && len(rd) > 0 {
					r.Bad("R1", key, f.Pos(), "persisted field has a nested unexported component ("+bad+") that the snapshot drops")
				} else {
					r.OK("R1", key, f.Pos(), fmt.Sprintf("in the snapshot (%d live readers)", len(rd)))
				}
				continue
			}
			if len(rd) == 0 {
				r.OK("R1", key, f.Pos(), "not in the snapshot and never read on the request path")
				continue
			}
			why, ok := c07Exception(w, k, rd)
			first := rd[0]
			r.Check(ok, "R1", key, f.Pos(), "not in the snapshot; exception: "+why,
				fmt.Sprintf("field is not part of the persisted snapshot (unexported or cbor:\"-\") but is read on the request path, e.g. by %s at %s: a long-lived engine and a per-request engine diverge. %s", core.QName(first.fn), w.Pos(first.pos), why))
		}
	}
	r.Floor("R1", "State+Cache fields", nf, 15)

	// ---- R2 -----------------------------------------------------------------------------------
	checkResumeReset(w, r, "R2")

	// ---- R5 -----------------------------------------------------------------------------------
	if nv := anchor(w, r, "vm", "NewVm"); nv != nil {
		fam := map[*ssa.Function]bool{nv: true}
		for changed := true; changed; {
			changed = false
			for f := range fam {
				for _, c := range core.Calls(f) {
					if g := core.StaticCallee(c); g != nil && (core.PkgOf(g) == "vm" || core.PkgOf(g) == "render") && !fam[g] && len(g.Blocks) > 0 {
						fam[g] = true
						changed = true
					}
				}
			}
		}
		bad := ""
		for f := range fam {
			for _, b := range f.Blocks {
				for _, in := range b.Instrs {
					switch t := in.(type) {
					case *ssa.Store:
						if tn, fld, ok := core.FieldOfAddr(t.Addr); ok && persisted[tn] {
							bad = fmt.Sprintf("%s stores to %s.%s at %s", core.QName(f), tn, fld, w.Pos(t.Pos()))
						}
					case ssa.CallInstruction:
						n := core.CallName(t)
						if strings.HasPrefix(n, "state.(*State).") || strings.HasPrefix(n, "cache.Memory.") || strings.HasPrefix(n, "cache.(*Cache).") {
							m := n[strings.LastIndex(n, ".")+1:]
							switch m {
							case "Where", "GetFlag", "MatchFlag", "GetInput", "Depth", "Top", "Sides", "String", "FlagBitSize", "FlagByteSize", "Get", "ReservedSize", "Levels", "Keys", "Invalid", "Lateral", "Back":
							default:
								bad = fmt.Sprintf("%s calls %s at %s", core.QName(f), n, w.Pos(t.Pos()))
							}
						}
					}
				}
			}
		}
		r.Check(bad == "", "R5", "vm.NewVm and the constructors it reaches", nv.Pos(), fmt.Sprintf("%d functions, no effect on State/Cache", len(fam)),
			"constructing the VM changes persisted session state: a per-request engine applies the change before every request, a long-lived engine only once - the two modes diverge: "+bad)
	}

	// ---- R4 -----------------------------------------------------------------------------------
	ser, des := anchor(w, r, "persist", "(*Persister).Serialize"), anchor(w, r, "persist", "(*Persister).Deserialize")
	if ser != nil && des != nil {
		m := core.CallsTo(ser, "github.com/fxamacker/cbor/v2.Marshal")
		u := core.CallsTo(des, "github.com/fxamacker/cbor/v2.Unmarshal")
		ok := len(m) == 1 && len(u) == 1
		if ok {
			ma := core.Sources(m[0].Common().Args[0])
			ua := core.Sources(u[0].Common().Args[1])
			ok = len(ma) == 1 && len(ua) == 1 && paramIndex(ma[0]) == 0 && paramIndex(ua[0]) == 0
		}
		r.Check(ok, "R4", "persist.(*Persister).Serialize/Deserialize", ser.Pos(), "cbor.Marshal(p) / cbor.Unmarshal(b, p)", "the snapshot is not written and read with the same codec on the same object")
	}
	sv, ld := anchor(w, r, "persist", "(*Persister).Save"), anchor(w, r, "persist", "(*Persister).Load")
	if sv != nil && ld != nil {
		pfx := func(fn *ssa.Function) (int64, bool) {
			for _, c := range core.CallsTo(fn, "db.Db.SetPrefix") {
				a := core.CallArgs(c)
				if v, ok := core.ConstInt(a[1]); ok {
					return v, true
				}
			}
			return 0, false
		}
		ps, ok1 := pfx(sv)
		pl, ok2 := pfx(ld)
		keyOK := func(fn *ssa.Function, name string, idx int) bool {
			for _, c := range core.CallsTo(fn, name) {
				a := core.CallArgs(c)
				for _, s := range core.Sources(a[idx]) {
					if paramIndex(s) == 1 {
						return true
					}
				}
			}
			return false
		}
		ok := ok1 && ok2 && ps == pl && keyOK(sv, "db.Db.Put", 2) && keyOK(ld, "db.Db.Get", 2)
		r.Check(ok, "R4", "persist.(*Persister).Save/Load", sv.Pos(), fmt.Sprintf("same data type %d and the caller's key", ps), "Save and Load do not use the same data type prefix and key")
	}
	// ---- R6 -----------------------------------------------------------------------------------
	checkLanguageInjection(w, r, "R6")
	checkDirtySetters(w, r, "R6")
	// ---- R7 -----------------------------------------------------------------------------------
	if rs := anchor(w, r, "state", "(*State).Restart"); rs != nil {
		bad := ""
		var badPos token.Pos
		isErrRet := func(in ssa.Instruction) bool {
			ret, ok := in.(*ssa.Return)
			return ok && isErrorReturn(ret)
		}
		check := func(fn *ssa.Function, from ssa.Instruction) {}
		_ = check
		for _, in := range allInstrs(rs) {
			eff := false
			switch t := in.(type) {
			case *ssa.Store:
				if _, _, ok := core.FieldOfAddr(t.Addr); ok {
					eff = true
				}
				if ia, ok := t.Addr.(*ssa.IndexAddr); ok {
					if _, _, ok := core.LoadedField(ia.X); ok {
						eff = true
					}
				}
			case ssa.CallInstruction:
				if g := core.StaticCallee(t); g != nil && core.PkgOf(g) == "state" && g.Signature.Recv() != nil {
					// a method of State that stores to its fields
					for _, x := range allInstrs(g) {
						if st, ok := x.(*ssa.Store); ok {
							if _, _, ok := core.FieldOfAddr(st.Addr); ok {
								eff = true
							}
							if ia, ok := st.Addr.(*ssa.IndexAddr); ok {
								if _, _, ok := core.LoadedField(ia.X); ok {
									eff = true
								}
							}
						}
					}
				}
			}
			if !eff {
				continue
			}
			if hit, _ := core.Reach(core.After(in), isErrRet, nil); hit != nil {
				bad = fmt.Sprintf("the write at %s can be followed by the error return at %s", w.Pos(in.Pos()), w.Pos(hit.Pos()))
				badPos = in.Pos()
			}
		}
		r.Check(bad == "", "R7", "state.(*State).Restart: a refusal leaves the state untouched", badPos, "every write lies behind the refusal test",
			"Restart changes the state (reserved flags, input, page index) although it then refuses: the engine's reset ignores the refusal, WAIT is gone and a long-lived engine skips the resume block that a per-request engine does not need: "+bad)
	}
	checkConfigLanguageBeforeLoad(w, r, "R8")
	checkHookKeepsPosition(w, r, "R9")
	checkFinishAlwaysSaves(w, r, "R11", "a request that changed the pending code or the flags but made no move is not stored; the next per-request engine reloads the older snapshot and replays the same segment while an uninterrupted engine has advanced: ")
	checkOpenErrorsClassified(w, r, "R13")
	checkLoadReadsTheStore(w, r, "R15", "a resumed session is decoded from bytes the persister remembered instead of from the store - what another engine or request saved in between is ignored: ")
	checkInitIgnoresRequestInput(w, r, "R14")
	checkFsGetReturnsFileBytes(w, r, "R12", "the snapshot a session resumes from is not the bytes that were saved - a trailing line break trimmed, a cached copy - so the decode fails or yields another state than the uninterrupted session has: ")
	checkDiagnosticsArePure(w, r, "R10")
}

func unexportedNested(t types.Type, depth int) string {
	if depth > 3 {
		return ""
	}
	switch u := t.Underlying().(type) {
	case *types.Pointer:
		return unexportedNested(u.Elem(), depth+1)
	case *types.Slice:
		return unexportedNested(u.Elem(), depth+1)
	case *types.Map:
		return unexportedNested(u.Elem(), depth+1)
	case *types.Struct:
		for i := 0; i < u.NumFields(); i++ {
			if !u.Field(i).Exported() {
				return core.TypeName(t) + "." + u.Field(i).Name()
			}
			if s := unexportedNested(u.Field(i).Type(), depth+1); s != "" {
				return s
			}
		}
	}
	return ""
}

// c07Exception is the frozen exception table of R1, each entry with a side condition checked on
// the current tree.
func c07Exception(w *core.World, k string, rd []fieldUse) (string, bool) {
	switch k {
	case "state.State.input":
		// every path of Exec to the VM run passes SetInput(input parameter)
		ex := w.Func("engine", "(*DefaultEngine).Exec")
		if ex == nil {
			return "Exec not found", false
		}
		var runs []ssa.CallInstruction
		for _, c := range core.Calls(ex) {
			if f := core.StaticCallee(c); f != nil && core.PkgOf(f) == "engine" && len(core.CallsTo(f, "vm.(*Vm).Run")) > 0 {
				runs = append(runs, c)
			}
		}
		runs = append(runs, core.CallsTo(ex, "vm.(*Vm).Run")...)
		if len(runs) == 0 {
			return "cannot find the VM run in Exec", false
		}
		cut := core.NewCut()
		for _, c := range core.CallsTo(ex, "state.(*State).SetInput") {
			if paramIndex(core.Strip(core.CallArgs(c)[1])) >= 0 {
				cut.AddInstr(c.(ssa.Instruction))
			}
		}
		for _, rc := range runs {
			if ok, _ := core.MustPass(rc.(ssa.Instruction), cut); !ok {
				return "Exec can run the VM without recording this request's input first", false
			}
		}
		return "the last input is overwritten by Exec (SetInput of its parameter) before the VM runs in every request", true
	case "state.State.invalid", "cache.Cache.invalid":
		for _, u := range rd {
			if u.fn.Name() != "Invalid" {
				return "read outside the Invalid() accessor by " + core.QName(u.fn), false
			}
		}
		// Invalid() is consulted by package persist only
		for _, fn := range w.LibFuncs {
			for _, c := range core.CallsTo(fn, "state.(*State).Invalid", "cache.Memory.Invalid", "cache.(*Cache).Invalid") {
				_ = c
				if core.PkgOf(fn) != "persist" {
					return "Invalid() consulted outside package persist by " + core.QName(fn), false
				}
			}
		}
		return "failure marker consulted only by the persister (refuses to save); never steers routing or rendering", true
	}
	return "no exception is defined for this field", false
}

// ---------------------------------------------------------------------------------------------
// R2: must-write analysis

type mwSpec struct{ params map[int]bool }
type mwSet map[string]mwSpec

func (s mwSet) clone() mwSet {
	o := mwSet{}
	for k, v := range s {
		o[k] = v
	}
	return o
}

func mwIntersect(a, b mwSet) mwSet {
	o := mwSet{}
	for k, va := range a {
		if vb, ok := b[k]; ok {
			p := map[int]bool{}
			for i := range va.params {
				p[i] = true
			}
			for i := range vb.params {
				p[i] = true
			}
			o[k] = mwSpec{p}
		}
	}
	return o
}

type mwAnalysis struct {
	w        *core.World
	class    map[string]string // field key -> config | carried | link | state
	fieldsOf map[string][]string
	memo     map[*ssa.Function]mwSet
	busy     map[*ssa.Function]bool
}

// valueClass: "ok", "param" (with indices) or "bad".
func (a *mwAnalysis) valueClass(v ssa.Value, depth int) (string, map[int]bool) {
	if depth > 8 {
		return "bad", nil
	}
	switch t := v.(type) {
	case *ssa.Const, *ssa.MakeMap, *ssa.MakeSlice, *ssa.MakeChan, *ssa.Alloc:
		return "ok", nil
	case *ssa.Parameter:
		return "param", map[int]bool{paramIndex(t): true}
	case *ssa.Slice:
		return a.valueClass(t.X, depth+1)
	case *ssa.ChangeType:
		return a.valueClass(t.X, depth+1)
	case *ssa.Convert:
		return a.valueClass(t.X, depth+1)
	case *ssa.MakeInterface:
		return a.valueClass(t.X, depth+1)
	case *ssa.ChangeInterface:
		return a.valueClass(t.X, depth+1)
	case *ssa.Phi:
		ps := map[int]bool{}
		for _, e := range t.Edges {
			c, p := a.valueClass(e, depth+1)
			if c == "bad" {
				return "bad", nil
			}
			for i := range p {
				ps[i] = true
			}
		}
		if len(ps) > 0 {
			return "param", ps
		}
		return "ok", nil
	case *ssa.UnOp:
		if t.Op == token.MUL {
			if al, ok := t.X.(*ssa.Alloc); ok {
				// local: zero value or all stores ok
				ps := map[int]bool{}
				if refs := al.Referrers(); refs != nil {
					for _, rr := range *refs {
						if st, ok := rr.(*ssa.Store); ok && st.Addr == ssa.Value(al) {
							c, p := a.valueClass(st.Val, depth+1)
							if c == "bad" {
								return "bad", nil
							}
							for i := range p {
								ps[i] = true
							}
						}
						// a field of the local being written makes it non-constant
						if fa, ok := rr.(*ssa.FieldAddr); ok {
							if fr := fa.Referrers(); fr != nil {
								for _, x := range *fr {
									if st, ok := x.(*ssa.Store); ok && st.Addr == ssa.Value(fa) {
										c, p := a.valueClass(st.Val, depth+1)
										if c == "bad" {
											return "bad", nil
										}
										for i := range p {
											ps[i] = true
										}
									}
								}
							}
						}
					}
				}
				if len(ps) > 0 {
					return "param", ps
				}
				return "ok", nil
			}
			if tn, f, ok := core.FieldOfAddr(t.X); ok {
				switch a.class[fieldKey(tn, f)] {
				case "config", "carried", "link":
					return "ok", nil
				}
				if _, isR := rendererTypes[tn]; !isR {
					// a field of a non-renderer object (engine config, state...) - configuration-like only
					// when it is the engine's Config
					if tn == "engine.Config" {
						return "ok", nil
					}
				}
			}
		}
	case *ssa.Call:
		f := core.StaticCallee(t)
		if f != nil && strings.HasPrefix(f.Name(), "New") && core.PkgOf(f) == "render" {
			return "ok", nil
		}
		// a helper of the library whose every return is a constant / fresh value (or one of its
		// parameters, classified at this call)
		if f != nil && a.w.InLib(f) && len(f.Blocks) > 0 && f.Signature.Results().Len() == 1 && depth < 6 {
			ps := map[int]bool{}
			args := core.CallArgs(t)
			nret := 0
			for _, in := range allInstrs(f) {
				ret, ok := in.(*ssa.Return)
				if !ok {
					continue
				}
				nret++
				c, p := a.valueClass(ret.Results[0], depth+2)
				if c == "bad" {
					return "bad", nil
				}
				for i := range p {
					if i >= len(args) {
						return "bad", nil
					}
					ac, ap := a.valueClass(args[i], depth+2)
					if ac == "bad" {
						return "bad", nil
					}
					for j := range ap {
						ps[j] = true
					}
				}
			}
			if nret > 0 {
				if len(ps) > 0 {
					return "param", ps
				}
				return "ok", nil
			}
		}
	}
	return "bad", nil
}

func (a *mwAnalysis) linkTarget(k string) string {
	// type name the link field points to
	parts := strings.SplitN(k, ".", 3)
	if len(parts) != 3 {
		return ""
	}
	tp := rendererTypes[parts[0]+"."+parts[1]]
	for _, f := range structFields(a.w, tp[0], tp[1]) {
		if f.Name() == parts[2] {
			if p, ok := f.Type().Underlying().(*types.Pointer); ok {
				return core.TypeName(p.Elem())
			}
		}
	}
	return ""
}

// transfer applies one instruction to the must-set.
func (a *mwAnalysis) transfer(set mwSet, in ssa.Instruction, depth int) {
	switch t := in.(type) {
	case *ssa.Store:
		tn, f, ok := core.FieldOfAddr(t.Addr)
		if !ok {
			return
		}
		if _, isR := rendererTypes[tn]; !isR {
			return
		}
		k := fieldKey(tn, f)
		if a.class[k] == "link" {
			// fresh object => all its fields are in constructor state
			fresh := false
			switch x := t.Val.(type) {
			case *ssa.Alloc:
				fresh = true
			case *ssa.Call:
				if fn := core.StaticCallee(x); fn != nil && strings.HasPrefix(fn.Name(), "New") {
					fresh = true
				}
			}
			if fresh {
				for _, fk := range a.fieldsOf[a.linkTarget(k)] {
					set[fk] = mwSpec{}
				}
			}
			return
		}
		c, ps := a.valueClass(t.Val, 0)
		switch c {
		case "ok":
			set[k] = mwSpec{}
		case "param":
			set[k] = mwSpec{ps}
		default:
			delete(set, k)
		}
	case *ssa.MapUpdate:
		// adding to a map field un-resets it
		for _, s := range core.Sources(t.Map) {
			if tn, f, ok := core.LoadedField(s); ok {
				delete(set, fieldKey(tn, f))
			}
		}
	case *ssa.Call:
		fn := core.StaticCallee(t)
		if fn == nil || !a.w.InLib(fn) {
			return
		}
		sum := a.summary(fn, depth+1)
		args := core.CallArgs(t)
		for k, sp := range sum {
			ps := map[int]bool{}
			bad := false
			for i := range sp.params {
				if i >= len(args) {
					bad = true
					break
				}
				c, p := a.valueClass(args[i], 0)
				if c == "bad" {
					bad = true
					break
				}
				for j := range p {
					ps[j] = true
				}
			}
			if bad {
				delete(set, k)
			} else {
				set[k] = mwSpec{ps}
			}
		}
	}
}

// edgeGen: on the nil edge of a test of a link field, the linked object does not exist - all of
// its fields are vacuously reset.
func (a *mwAnalysis) edgeGen(b *ssa.BasicBlock, succ int) []string {
	ifi, ok := b.Instrs[len(b.Instrs)-1].(*ssa.If)
	if !ok {
		return nil
	}
	bo, ok := ifi.Cond.(*ssa.BinOp)
	if !ok || (bo.Op != token.EQL && bo.Op != token.NEQ) || !core.IsNilConst(bo.Y) {
		return nil
	}
	tn, f, ok := core.LoadedField(bo.X)
	if !ok {
		return nil
	}
	k := fieldKey(tn, f)
	if a.class[k] != "link" && a.class[k] != "config" {
		return nil
	}
	tgt := a.linkTarget(k)
	if tgt == "" {
		return nil
	}
	nilOnTrue := bo.Op == token.EQL
	if (succ == 0) == nilOnTrue {
		return a.fieldsOf[tgt]
	}
	return nil
}

// flow runs the forward must-analysis over fn starting with `start` at block `entry`, restricted
// to the blocks in region (nil: whole function). It returns OUT per block.
func (a *mwAnalysis) flow(fn *ssa.Function, entry *ssa.BasicBlock, region map[*ssa.BasicBlock]bool, depth int) map[*ssa.BasicBlock]mwSet {
	in := map[*ssa.BasicBlock]mwSet{}
	out := map[*ssa.BasicBlock]mwSet{}
	computed := map[*ssa.BasicBlock]bool{}
	inRegion := func(b *ssa.BasicBlock) bool { return region == nil || region[b] }
	for iter := 0; iter < 20; iter++ {
		changed := false
		for _, b := range fn.Blocks {
			if !inRegion(b) {
				continue
			}
			var cur mwSet
			if b == entry {
				cur = mwSet{}
			} else {
				first := true
				for _, p := range b.Preds {
					if !inRegion(p) || !computed[p] {
						continue
					}
					for si, s := range p.Succs {
						if s != b {
							continue
						}
						ps := out[p].clone()
						for _, k := range a.edgeGen(p, si) {
							ps[k] = mwSpec{}
						}
						if first {
							cur = ps
							first = false
						} else {
							cur = mwIntersect(cur, ps)
						}
					}
				}
				if first {
					continue // no computed predecessor yet
				}
			}
			in[b] = cur
			o := cur.clone()
			for _, instr := range b.Instrs {
				a.transfer(o, instr, depth)
			}
			if !computed[b] || !sameKeys(out[b], o) {
				changed = true
			}
			out[b] = o
			computed[b] = true
		}
		if !changed {
			break
		}
	}
	return out
}

func sameKeys(a, b mwSet) bool {
	if len(a) != len(b) {
		return false
	}
	for k := range a {
		if _, ok := b[k]; !ok {
			return false
		}
	}
	return true
}

// summary: fields must-written on every path from entry to a normal return of fn.
func (a *mwAnalysis) summary(fn *ssa.Function, depth int) mwSet {
	if s, ok := a.memo[fn]; ok {
		return s
	}
	if a.busy[fn] || depth > 5 || len(fn.Blocks) == 0 {
		return mwSet{}
	}
	a.busy[fn] = true
	out := a.flow(fn, fn.Blocks[0], nil, depth)
	var res mwSet
	first := true
	for _, b := range fn.Blocks {
		if _, ok := b.Instrs[len(b.Instrs)-1].(*ssa.Return); !ok {
			continue
		}
		o, ok := out[b]
		if !ok {
			continue
		}
		if first {
			res = o.clone()
			first = false
		} else {
			res = mwIntersect(res, o)
		}
	}
	if res == nil {
		res = mwSet{}
	}
	a.busy[fn] = false
	a.memo[fn] = res
	return res
}

func checkResumeReset(w *core.World, r *core.Report, rule string) {
	run := anchor(w, r, "vm", "(*Vm).Run")
	render := anchor(w, r, "vm", "(*Vm).Render")
	if run == nil || render == nil {
		return
	}
	tnames := map[string]bool{}
	for k := range rendererTypes {
		tnames[k] = true
	}
	reads, writes := fieldUses(w, tnames)
	reachRun, _ := reachable(w, []*ssa.Function{run, render})

	a := &mwAnalysis{w: w, class: map[string]string{}, fieldsOf: map[string][]string{}, memo: map[*ssa.Function]mwSet{}, busy: map[*ssa.Function]bool{}}
	var allFields []string
	for tn, tp := range rendererTypes {
		for _, f := range structFields(w, tp[0], tp[1]) {
			k := fieldKey(tn, f.Name())
			a.fieldsOf[tn] = append(a.fieldsOf[tn], k)
			allFields = append(allFields, k)
			// link?
			if p, ok := f.Type().Underlying().(*types.Pointer); ok {
				if _, isR := rendererTypes[core.TypeName(p.Elem())]; isR {
					a.class[k] = "link"
					continue
				}
			}
			cfg := true
			for _, u := range writes[k] {
				if reachRun[u.fn] {
					cfg = false
				}
			}
			if cfg {
				a.class[k] = "config"
			} else {
				a.class[k] = "carried" // candidate; refuted below
			}
		}
	}
	sort.Strings(allFields)
	if len(allFields) < 20 {
		r.Undecided(rule, "renderer types", token.NoPos, fmt.Sprintf("only %d fields found in Vm/Page/Menu/Sizer", len(allFields)))
		return
	}
	// refute 'carried' candidates until stable
	// derives reports whether v derives only from configuration, and whether a configuration field
	// (not just constants) is involved: a constant stored outside a constructor encodes which path
	// was taken, i.e. state.
	var derives func(v ssa.Value, fn *ssa.Function, depth int) (bool, bool)
	derives = func(v ssa.Value, fn *ssa.Function, depth int) (bool, bool) {
		if depth > 4 {
			return false, false
		}
		uses := false
		for _, s := range core.Sources(v) {
			switch t := s.(type) {
			case *ssa.Const:
			case *ssa.Parameter:
				pi := paramIndex(t)
				callers := libCallers(w, fn)
				if len(callers) == 0 {
					return false, false
				}
				for _, cs := range callers {
					args := core.CallArgs(cs)
					if pi >= len(args) {
						return false, false
					}
					ok, u := derives(args[pi], cs.Parent(), depth+1)
					if !ok {
						return false, false
					}
					// a constant argument at one call site still selects among histories
					if !u {
						if _, isConst := core.Strip(args[pi]).(*ssa.Const); isConst && !strings.HasPrefix(cs.Parent().Name(), "New") {
							return false, false
						}
					}
					uses = uses || u
				}
			default:
				tn, f, ok := core.LoadedField(s)
				if !ok {
					return false, false
				}
				c := a.class[fieldKey(tn, f)]
				if c != "config" && c != "carried" {
					if tn != "engine.Config" {
						return false, false
					}
				}
				uses = true
			}
		}
		return true, uses
	}
	for changed := true; changed; {
		changed = false
		for _, k := range allFields {
			if a.class[k] != "carried" {
				continue
			}
			for _, u := range writes[k] {
				ok, uses := derives(u.st.Val, u.fn, 0)
				inCtor := strings.HasPrefix(u.fn.Name(), "New")
				if !ok || (!uses && !inCtor) {
					a.class[k] = "state"
					changed = true
					break
				}
			}
		}
	}

	// the resume block: region dominated by the target of the true edge of ResetFlag(FLAG_WAIT)
	fWait, ok := constOf(w, r, "state", "FLAG_WAIT")
	if !ok {
		return
	}
	var resumeEdges []core.Edge
	if step := vmStepFn(w); step != nil {
		run = step // the resume block may live in a helper that only Run calls
	}
	for _, c := range flagConstCalls(run, fWait, stResetFlag) {
		if v := core.CallValue(c); v != nil {
			resumeEdges = append(resumeEdges, core.EdgesWhere(v, true)...)
		}
	}
	if len(resumeEdges) != 1 {
		r.Undecided(rule, "vm.(*Vm).Run: resume block", run.Pos(), fmt.Sprintf("expected one 'WAIT was set' edge in Run, found %d", len(resumeEdges)))
		return
	}
	head := resumeEdges[0].To()
	region := map[*ssa.BasicBlock]bool{}
	for _, b := range dominatedRegion(head) {
		region[b] = true
	}
	if len(head.Preds) != 1 {
		r.Undecided(rule, "vm.(*Vm).Run: resume block", run.Pos(), "the resume edge does not lead to a block of its own")
		return
	}
	out := a.flow(run, head, region, 0)
	// must-set at the exits of the region
	var exit mwSet
	first := true
	for b := range region {
		for si, s := range b.Succs {
			if region[s] {
				continue
			}
			o := out[b].clone()
			for _, k := range a.edgeGen(b, si) {
				o[k] = mwSpec{}
			}
			if first {
				exit = o
				first = false
			} else {
				exit = mwIntersect(exit, o)
			}
		}
	}
	if exit == nil {
		exit = mwSet{}
	}
	nstate := 0
	for _, k := range allFields {
		cls := a.class[k]
		key := "field " + k
		var rd []fieldUse
		for _, u := range reads[k] {
			if u.fn.Name() != "String" && reachRun[u.fn] {
				rd = append(rd, u)
			}
		}
		switch cls {
		case "config":
			r.OK(rule, key, token.NoPos, "configuration: no writer reachable from Run/Render")
		case "carried":
			r.OK(rule, key, token.NoPos, "configuration-carried: every stored value derives from configuration")
		case "link":
			r.OK(rule, key, token.NoPos, "link to another renderer object")
		default:
			nstate++
			if len(rd) == 0 {
				r.OK(rule, key, token.NoPos, "request state, never read on the run/render path")
				continue
			}
			_, reset := exit[k]
			r.Check(reset, rule, key, rd[0].pos, "request state, re-initialised on every path through the resume block",
				fmt.Sprintf("request state that survives a HALT on a long-lived engine: it is read on the run/render path (e.g. by %s at %s) but not re-initialised with a constant/fresh/configuration value on every path through the resume block of Vm.Run, whereas a per-request engine starts with it fresh", core.QName(rd[0].fn), w.Pos(rd[0].pos)))
		}
	}
	r.Floor(rule, "request-state fields", nstate, 10)
}

// checkDirtySetters: the output-pending mark FLAG_DIRTY is raised (with a constant index) only by
// Vm.Run, the function that executes instructions. The engine field that remembers "something was
// executed and not yet flushed" is not persisted, so a DIRTY raised anywhere else (for instance by
// a failed render) makes a long-lived engine re-render before the next request while a per-request
// engine carries on.
func checkDirtySetters(w *core.World, r *core.Report, rule string) {
	fDirty, ok := constOf(w, r, "state", "FLAG_DIRTY")
	if !ok {
		return
	}
	run := w.Func("vm", "(*Vm).Run")
	step := vmStepFn(w)
	n, bad := 0, ""
	var badPos token.Pos
	for _, fn := range w.LibFuncs {
		for _, c := range flagConstCalls(fn, fDirty, stSetFlag) {
			n++
			if fn != run && (fn != step || step == nil) {
				bad = fmt.Sprintf("%s sets FLAG_DIRTY at %s", core.QName(fn), w.Pos(c.Pos()))
				badPos = c.Pos()
			}
		}
	}
	r.Check(bad == "" && n > 0 && run != nil, rule, "FLAG_DIRTY is raised only by Vm.Run", badPos, fmt.Sprintf("%d constant set(s), all in Vm.Run", n),
		"the output-pending mark is raised outside instruction execution: a long-lived engine (which remembers unflushed execution in an unpersisted field) and a per-request engine then behave differently: "+bad)
}

// omitEmptyTag: the cbor struct tag asks for zero values to be left out.
func omitEmptyTag(tag string) bool {
	for i, p := range strings.Split(tag, ",") {
		if i > 0 && (p == "omitempty" || p == "omitzero") {
			return true
		}
	}
	return false
}
