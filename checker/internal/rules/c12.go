package rules

import (
	"fmt"
	"go/token"
	"strings"

	"golang.org/x/tools/go/ssa"

	"vischeck/internal/core"
)

func init() {
	register("C12", PropCheck{
		Title:      "Saving session state to the filesystem store is crash-atomic",
		Explain:    "The shape of the write protocol, which holds at every crash point because it is a property of every path: (R1) the functions reachable from fsDb.Put use only the file operations of the atomic-replace protocol - os.CreateTemp in the directory of the record, Write/Close (Sync/Chmod) on that temporary file, os.Rename of the temporary file's own name onto the record path, os.Remove of the temporary file - so the record path is never opened for writing; Write and Close precede the Rename on every path; every success path of Put passes the Rename; and nothing else in the filesystem back end renames onto or writes record names; (R2) in the engine's persister set-up the fallback Save after a failed Load is only reached on the true edge of db.IsNotFound(that error), and Persister.Load hands the store's error through unchanged; (R3) no directory-wide operation happens under Put (other sessions' records untouched); (R5) in the atomic writer the error of every write-side call on the temporary file (Write, Sync, Close) flows, possibly through a variable it is carried in, into a nil test whose nil edge dominates the rename - an error that is overwritten before it is tested lets a short write be renamed over the intact record (added after seeded change C12-H). (R6) from the failure edge of every read-side open in package db/fs, every path to the next store read or to a return that does not hand back that error passes the true edge of a not-exist test of that error: only 'does not exist' is a miss (added after seeded change C12-J). (R7) one snapshot per request: Persister.Save is called only by Finish (or a helper only Finish calls) and by the function that loads sessions (added after seeded change C12-K).",
		NotDecided: "durability under power loss (no fsync is required by the property); that the file system's rename is atomic (trusted: POSIX); crash points inside the temporary-file write are harmless by R1 and are not enumerated.",
		Assume:     []string{"POSIX rename(2) atomically replaces the target within one directory"},
		Run:        runC12,
	})
}

func runC12(w *core.World, r *core.Report) {
	r.Rule("R1", "fs Put path: only CreateTemp(dir of record) / Write / Close / Rename(temp name, record) / Remove(temp); order Write,Close < Rename; success passes Rename; no other renamer/writer in db/fs")
	r.Rule("R2", "engine: fallback Save only behind db.IsNotFound(load error); Load returns the store's error unchanged")
	r.Rule("R3", "no directory-wide file operation under Put")
	r.Rule("R7", "one snapshot per request: Persister.Save is called only by Finish and by the session attach path")
	r.Rule("R6", "a failed open of a record is a miss only when the file does not exist; every other open failure reaches the caller")
	r.Rule("R5", "atomic writer: the error of every Write, Sync and Close on the temporary file reaches a nil test that gates the rename")
	r.Rule("R4", "the session snapshot is one record: Persister.Save performs exactly one Put, Load exactly one Get (no multi-step save)")

	put := anchor(w, r, "db/fs", "(*fsDb).Put")
	if put == nil {
		return
	}
	// functions of db/fs reachable from Put through static calls
	putFns := map[*ssa.Function]bool{put: true}
	for changed := true; changed; {
		changed = false
		for f := range putFns {
			for _, c := range core.Calls(f) {
				if g := core.StaticCallee(c); g != nil && core.PkgOf(g) == "db/fs" && !putFns[g] && len(g.Blocks) > 0 {
					putFns[g] = true
					changed = true
				}
			}
		}
	}
	allowed := map[string]string{
		"os.CreateTemp": "temp", "os.Rename": "rename", "os.Remove": "remove",
		"os.(*File).Write": "write", "os.(*File).WriteString": "write", "os.(*File).Close": "close", "os.(*File).Name": "name",
		"os.(*File).Sync": "sync", "os.(*File).Chmod": "chmod",
		"os.Stat": "read-only", "os.Lstat": "read-only", "os.Open": "read-only", "os.ReadFile": "read-only", "io/ioutil.ReadFile": "read-only", "io/ioutil.ReadAll": "read-only", "os.MkdirAll": "directory creation",
	}
	var writers []*ssa.Function
	nops := 0
	for f := range putFns {
		r.Touch(core.QName(f))
		for _, c := range core.Calls(f) {
			n := core.CallName(c)
			if !(strings.HasPrefix(n, "os.") || strings.HasPrefix(n, "io/ioutil.") || strings.HasPrefix(n, "io.Write")) {
				continue
			}
			nops++
			kind, ok := allowed[n]
			key := fmt.Sprintf("%s: %s", core.QName(f), n)
			if !ok {
				dirwide := n == "os.RemoveAll" || n == "os.ReadDir" || n == "io/ioutil.ReadDir" || n == "os.Truncate"
				rule := "R1"
				msg := "the Put path uses " + n + ", which is outside the atomic-replace protocol: the record (or a name derived from it) can be observed empty, truncated or partially written after a crash"
				if dirwide {
					rule = "R3"
					msg = "a directory-wide operation (" + n + ") runs under Put: other sessions' records can be touched"
				}
				r.Bad(rule, key, c.Pos(), msg)
				continue
			}
			switch kind {
			case "temp":
				args := core.CallArgs(c)
				okDir := false
				for _, s := range core.Sources(args[0]) {
					if dc, _, isC := core.ExtractOf(s); isC && core.IsCallTo(dc, "path.Dir", "path/filepath.Dir") {
						okDir = true
					}
				}
				r.Check(okDir, "R1", key, c.Pos(), "temporary file in the record's directory", "the temporary file is not created in the directory of the record (rename is only atomic within one file system / directory)")
			case "rename":
				writers = append(writers, f)
				args := core.CallArgs(c)
				// source: the temporary file's own name; destination: a parameter (record path)
				srcOK, dstOK := false, false
				for _, s := range core.Sources(args[0]) {
					if nc, _, isC := core.ExtractOf(s); isC && core.IsCallTo(nc, "os.(*File).Name") {
						for _, fs := range core.Sources(nc.Call.Args[0]) {
							if tc, i, isT := core.ExtractOf(fs); isT && i == 0 && core.IsCallTo(tc, "os.CreateTemp") {
								srcOK = true
							}
						}
					}
				}
				for _, s := range core.Sources(args[1]) {
					if paramIndex(s) >= 0 {
						dstOK = true
					}
				}
				r.Check(srcOK && dstOK, "R1", key, c.Pos(), "Rename(name of the CreateTemp file, record path)", "the rename does not move the freshly created temporary file onto the record path")
				// Write and Close precede
				for _, need := range []string{"os.(*File).Write", "os.(*File).Close"} {
					cut := core.NewCut()
					for _, x := range core.CallsTo(f, need, "os.(*File).WriteString") {
						if need == "os.(*File).Close" && !core.IsCallTo(x, "os.(*File).Close") {
							continue
						}
						if need == "os.(*File).Write" && core.IsCallTo(x, "os.(*File).Close") {
							continue
						}
						if _, isDefer := x.(*ssa.Defer); isDefer {
							continue // a deferred Close runs after the rename
						}
						cut.AddInstr(x.(ssa.Instruction))
					}
					ok, path := core.MustPass(c.(ssa.Instruction), cut)
					r.Check(ok, "R1", fmt.Sprintf("%s: %s before Rename", core.QName(f), strings.TrimPrefix(need, "os.(*File).")), c.Pos(), "on every path",
						"the temporary file can be renamed into place before it is completely written and closed: "+w.PathString(path))
				}
				// and no write after the rename
				in, _ := core.Reach(core.After(c.(ssa.Instruction)), func(x ssa.Instruction) bool {
					cc, ok := x.(ssa.CallInstruction)
					return ok && core.IsCallTo(cc, "os.(*File).Write", "os.(*File).WriteString")
				}, nil)
				r.Check(in == nil, "R1", core.QName(f)+": no write after Rename", c.Pos(), "none", "the file is written after it has been renamed into place")
			case "remove":
				args := core.CallArgs(c)
				okTmp := false
				for _, s := range sourcesThroughClosure(args[0]) {
					if nc, _, isC := core.ExtractOf(s); isC && core.IsCallTo(nc, "os.(*File).Name") {
						okTmp = true
					}
					if nc, isC := s.(*ssa.Call); isC && core.IsCallTo(nc, "os.(*File).Name") {
						okTmp = true
					}
				}
				r.Check(okTmp, "R1", key, c.Pos(), "removes the temporary file", "the Put path removes something other than its own temporary file (for instance the record itself before the rename): a crash in between leaves no record, and the engine silently starts a new session")
			default:
				r.OK("R1", key, c.Pos(), "protocol step: "+kind)
			}
		}
	}
	r.Floor("R1", "file operations on the Put path", nops, 4)
	if len(writers) == 0 {
		r.Bad("R1", "db/fs.(*fsDb).Put: atomic replace", put.Pos(), "the Put path never renames a temporary file onto the record: the record is written in place (truncate, then write), so a crash leaves it empty or partial")
	}
	// every success path of each function on the chain passes the rename (or the call that does)
	passes := map[*ssa.Function]bool{}
	for _, wf := range writers {
		cut := core.NewCut()
		for _, c := range core.CallsTo(wf, "os.Rename") {
			cut.AddInstr(c.(ssa.Instruction))
		}
		addErrorEdgesOfReturns(wf, cut)
		in, path := core.Reach(core.Entry(wf), isSuccessReturnPred(wf), cut)
		r.Check(in == nil, "R1", core.QName(wf)+": success passes Rename", wf.Pos(), "every success path renames", "the writer can report success without renaming the temporary file into place: "+w.PathString(path))
		if in == nil {
			passes[wf] = true
		}
	}
	if len(writers) > 0 {
		for changed := true; changed; {
			changed = false
			for f := range putFns {
				if passes[f] {
					continue
				}
				cut := core.NewCut()
				n := 0
				for _, c := range core.Calls(f) {
					if g := core.StaticCallee(c); g != nil && passes[g] {
						cut.AddInstr(c.(ssa.Instruction))
						n++
					}
				}
				if n == 0 {
					continue
				}
				addErrorEdgesOfReturns(f, cut)
				if in, _ := core.Reach(core.Entry(f), isSuccessReturnPred(f), cut); in == nil {
					passes[f] = true
					changed = true
				}
			}
		}
		r.Check(passes[put], "R1", "db/fs.(*fsDb).Put: success passes the atomic writer", put.Pos(), "every success path goes through temp-file + rename", "Put can succeed on a path that does not go through the temporary-file-and-rename writer")
	}
	// who else renames / writes files in the back end
	for _, f := range w.FuncsIn("db/fs") {
		if putFns[f] {
			continue
		}
		for _, c := range core.Calls(f) {
			n := core.CallName(c)
			switch n {
			case "os.Rename", "os.WriteFile", "io/ioutil.WriteFile", "os.Create", "os.OpenFile", "os.Truncate", "os.Remove", "os.RemoveAll":
				r.Bad("R1", fmt.Sprintf("%s: %s outside the Put path", core.QName(f), n), c.Pos(),
					"record names are written / renamed / removed outside the atomic Put protocol (for instance a recovery step that moves leftover temporary files over intact records)")
			}
		}
	}

	// ---- R4 -----------------------------------------------------------------------------------
	for _, pc := range []struct{ fn, call, what string }{{"(*Persister).Save", "db.Db.Put", "Put"}, {"(*Persister).Load", "db.Db.Get", "Get"}} {
		fn := anchor(w, r, "persist", pc.fn)
		if fn == nil {
			continue
		}
		// count call sites in the function and the persist helpers it calls
		fam := map[*ssa.Function]bool{fn: true}
		for changed := true; changed; {
			changed = false
			for f := range fam {
				for _, c := range core.Calls(f) {
					if g := core.StaticCallee(c); g != nil && core.PkgOf(g) == "persist" && !fam[g] && len(g.Blocks) > 0 {
						fam[g] = true
						changed = true
					}
				}
			}
		}
		n := 0
		inLoop := false
		for f := range fam {
			for _, c := range core.CallsTo(f, pc.call) {
				n++
				if loopHeader(c.Block()) != nil {
					inLoop = true
				}
			}
		}
		r.Check(n == 1 && !inLoop, "R4", "persist."+pc.fn+": one "+pc.what+" per snapshot", fn.Pos(), "exactly one "+pc.what,
			fmt.Sprintf("the snapshot is stored/read in %d steps (or in a loop): a crash between the steps leaves a mixed record (new state with old cache) that loads without error", n))
	}

	// ---- R2 -----------------------------------------------------------------------------------
	n2 := 0
	for _, f := range w.FuncsIn("engine") {
		loads := core.CallsTo(f, "persist.(*Persister).Load")
		saves := core.CallsTo(f, "persist.(*Persister).Save")
		if len(loads) == 0 || len(saves) == 0 {
			continue
		}
		n2++
		r.Touch(core.QName(f))
		ld := loads[0]
		ev := callErr(ld)
		cut := core.NewCut()
		if ev != nil {
			for v := range core.Forward(ev, nil) {
				if refs := v.Referrers(); refs != nil {
					for _, u := range *refs {
						if c, ok := u.(*ssa.Call); ok && core.IsCallTo(c, "db.IsNotFound") {
							cut.AddEdge(core.EdgesWhere(c, true)...)
						}
					}
				}
			}
		}
		for _, sv := range saves {
			// only saves that follow the first load are fallbacks
			if in, _ := core.Reach(core.After(ld.(ssa.Instruction)), core.IsInstr(sv.(ssa.Instruction)), nil); in == nil {
				continue
			}
			in, path := core.Reach(core.After(ld.(ssa.Instruction)), core.IsInstr(sv.(ssa.Instruction)), cut)
			r.Check(in == nil && len(cut.Edges) > 0, "R2", core.QName(f)+": fallback Save only when not found", sv.Pos(), "behind db.IsNotFound(load error)",
				"any load error (I/O error, truncated or undecodable record) is answered by overwriting the stored session with a fresh state: the client's session silently restarts: "+w.PathString(path))
		}
	}
	r.Floor("R2", "engine functions with Load+Save", n2, 1)
	if ld := anchor(w, r, "persist", "(*Persister).Load"); ld != nil {
		ok := false
		for _, c := range core.CallsTo(ld, "db.Db.Get") {
			ev := callErr(c)
			if ev == nil {
				continue
			}
			for v := range core.Forward(ev, nil) {
				if refs := v.Referrers(); refs != nil {
					for _, u := range *refs {
						if ret, isRet := u.(*ssa.Return); isRet && ret.Results[len(ret.Results)-1] == v {
							ok = true
						}
					}
				}
			}
		}
		r.Check(ok, "R2", "persist.(*Persister).Load: store error handed through", ld.Pos(), "db.Get's error is returned as is", "Load wraps or replaces the store's error, so a not-found can no longer be told from a damaged record")
	}
	// ---- R5 -----------------------------------------------------------------------------------
	checkWriteErrorsGateRename(w, r, "R5")
	checkOpenErrorsClassified(w, r, "R6")
	checkWhoMayCall(w, r, "R7", "Persister.Save is called only when a request ends (Finish) and when a new session is attached",
		func(c ssa.CallInstruction) bool { return core.CallName(c) == "persist.(*Persister).Save" },
		func(fn *ssa.Function) bool {
			return fn.Name() == "Finish" || len(core.CallsTo(fn, "persist.(*Persister).Load")) > 0 || (fn.Parent() == nil && len(core.CallsTo(fn, "persist.(*Persister).Save")) > 0 && isFinishHelper(w, fn))
		},
		"in Finish (or its helper) and the session attach path",
		"the session is also saved in the middle of a request: a crash after that save leaves a record that is neither the state before the request nor the state after it (atomic writes do not help: the bytes written are an intermediate state)", 2)
}

// addErrorEdgesOfReturns adds, for returns whose error operand is a phi, the incoming CFG edges on
// which the incoming value is known non-nil (so that `err = step(); if err == nil { next }` chains
// are read path-sensitively: the path that skips `next` carries a non-nil error).
func addErrorEdgesOfReturns(fn *ssa.Function, cut *core.Cut) {
	for _, b := range fn.Blocks {
		ret, ok := b.Instrs[len(b.Instrs)-1].(*ssa.Return)
		if !ok {
			continue
		}
		ev := core.ReturnError(ret)
		seen := map[*ssa.Phi]bool{}
		var walk func(v ssa.Value)
		walk = func(v ssa.Value) {
			phi, ok := v.(*ssa.Phi)
			if !ok || seen[phi] {
				return
			}
			seen[phi] = true
			for i, e := range phi.Edges {
				pred := phi.Block().Preds[i]
				for _, ne := range errNonNilEdges(e) {
					if ne.From == pred && ne.To() == phi.Block() {
						cut.AddEdge(ne)
					}
				}
				walk(e)
			}
		}
		if ev != nil {
			walk(ev)
		}
	}
	_ = token.NoPos
}
