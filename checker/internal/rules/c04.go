package rules

import (
	"fmt"
	"go/token"
	"reflect"
	"regexp"
	"sort"
	"strings"

	"golang.org/x/tools/go/ssa"

	"vischeck/internal/core"
)

func init() {
	register("C04", PropCheck{
		Title:      "Navigation stack and page index follow the documented move table",
		Explain:    "Each navigation step applies exactly the tabulated update, decided structurally: (R1) the target dispatcher's string switch maps '_'->{Up,Pop}, '>'->{Next}, '<'->{Previous}, '^'->{Rewind}, '.'->{Same}, any other name->{Down(name),Push}, and its token set equals the special-node table of doc/texinfo/navigation.texi; (R2) the effect signatures of the State movers on the success path (Down: ExecPath=append(ExecPath,param), SizeIdx=0; Up: ExecPath one shorter, SizeIdx=0; Next: SizeIdx+1 only; Previous: SizeIdx-1 only, refused with IndexError at 0; Same: neither); (R3) ExecPath and SizeIdx are stored to only inside package state and every such store has one of the tabulated value classes (constant 0, self +/- 1, append of a parameter, re-slice to a shorter prefix); (R4) inside package vm the movers are called only from the dispatcher and Rewind; (R5) every return of Rewind after an Up passes the Top()==true edge or an error edge, and Rewind pairs Up with Pop; (R6) the Up of the '_' case is only reached behind the Top()==false edge. With R1-R6 the position after any history equals the table's by induction on the history; (R7) the depth limit applies to descents only: in the dispatcher Up, Next, Previous, Same and Rewind are reachable without passing any comparison with state.MaxLevel (added after seeded change C04-E, which hoisted the guard to the top of the function); (R8) ExecPath and SizeIdx are written to the snapshot unconditionally (no omitempty; shared with C07 R1, added after C04-F) R4 also covers Rewind itself: only the dispatcher family calls it (added after seeded change C04-H, a matching CROAK that rewinds). (R9) no library function stores through an index into State.ExecPath or a re-slice of it - frames change only by push and pop (added after seeded change C04-J). R6 follows the ascent into a helper of package vm. (R10) in the engine function that loads sessions, every return after a successful Persister.Save passes WithContent: a flushing persister replaces its content on Save, so the engine re-attaches its own state and cache (added after seeded change C04-L).",
		NotDecided: "that Top()'s notion of 'entry node' matches the application's configuration; failing external calls between moves; equality is argued by induction, not enumerated.",
		Run:        runC04,
	})
}

const (
	stDown  = "state.(*State).Down"
	stUp    = "state.(*State).Up"
	stNext  = "state.(*State).Next"
	stPrev  = "state.(*State).Previous"
	stSame  = "state.(*State).Same"
	stTop   = "state.(*State).Top"
	memPush = "cache.Memory.Push"
	memPop  = "cache.Memory.Pop"
)

var moverShort = map[string]string{stDown: "Down", stUp: "Up", stNext: "Next", stPrev: "Previous", stSame: "Same",
	memPush: "Push", memPop: "Pop", "cache.(*Cache).Push": "Push", "cache.(*Cache).Pop": "Pop", "vm.Rewind": "Rewind"}

// dominatedRegion returns the blocks dominated by b (including b).
func dominatedRegion(b *ssa.BasicBlock) []*ssa.BasicBlock {
	var out []*ssa.BasicBlock
	for _, x := range b.Parent().Blocks {
		if x == b || b.Dominates(x) {
			out = append(out, x)
		}
	}
	return out
}

func moverSet(blocks []*ssa.BasicBlock) (map[string]bool, map[string]ssa.CallInstruction) {
	set := map[string]bool{}
	calls := map[string]ssa.CallInstruction{}
	for _, b := range blocks {
		for _, in := range b.Instrs {
			if c, ok := in.(ssa.CallInstruction); ok {
				if s, ok := moverShort[core.CallName(c)]; ok {
					set[s] = true
					calls[s] = c
					continue
				}
				// helper of package vm: its movers count for the calling case (depth 2)
				if g := core.StaticCallee(c); g != nil && core.PkgOf(g) == "vm" && g != b.Parent() {
					sub, _ := moverSetOfFunc(g, 0)
					for k := range sub {
						set[k] = true
						if _, have := calls[k]; !have {
							calls[k] = c
						}
					}
				}
			}
		}
	}
	return set, calls
}

func moverSetOfFunc(g *ssa.Function, depth int) (map[string]bool, map[string]ssa.CallInstruction) {
	set := map[string]bool{}
	calls := map[string]ssa.CallInstruction{}
	if depth > 2 {
		return set, calls
	}
	for _, c := range core.Calls(g) {
		if s, ok := moverShort[core.CallName(c)]; ok {
			set[s] = true
			calls[s] = c
		} else if h := core.StaticCallee(c); h != nil && core.PkgOf(h) == "vm" && h != g {
			sub, _ := moverSetOfFunc(h, depth+1)
			for k := range sub {
				set[k] = true
			}
		}
	}
	return set, calls
}

func setStr(m map[string]bool) string {
	var ks []string
	for k := range m {
		ks = append(ks, k)
	}
	sort.Strings(ks)
	return "{" + strings.Join(ks, ",") + "}"
}

func runC04(w *core.World, r *core.Report) {
	r.Rule("R1", "dispatcher switch: '_'->{Up,Pop} '>'->{Next} '<'->{Previous} '^'->{Rewind} '.'->{Same} default->{Down(target),Push}; tokens = navigation.texi")
	r.Rule("R2", "effect signatures of State.Down/Up/Next/Previous/Same on ExecPath and SizeIdx")
	r.Rule("R3", "ExecPath/SizeIdx stored only in package state, each store of a tabulated value class")
	r.Rule("R4", "in package vm the State movers are called only by the dispatcher and Rewind")
	r.Rule("R5", "Rewind: after an Up every return passes Top()==true or an error edge")
	r.Rule("R6", "the Up of the '_' case is behind Top()==false")
	r.Rule("R7", "the depth limit applies to descents only: Up, Next, Previous, Rewind and Same are reachable in the dispatcher without passing a comparison with state.MaxLevel")
	r.Rule("R10", "after saving a session that is new to the store the engine re-attaches its own state and cache to the persister")
	r.Rule("R9", "entries of the navigation stack are never written in place: the only writes are whole-field stores in package state (append / re-slice)")
	r.Rule("R8", "the position (ExecPath, SizeIdx) is always written to the snapshot: no omitempty on these fields")

	checkExecPathElementsImmutable(w, r, "R9")
	checkReattachAfterSave(w, r, "R10")
	disp := navDispatchers(w)
	if len(disp) != 1 {
		r.Undecided("R1", "navigation dispatcher", token.NoPos, fmt.Sprintf("expected exactly one function in package vm that calls State.Down (the target dispatcher), found %d", len(disp)))
	}
	want := map[string]string{"_": "{Pop,Up}", ">": "{Next}", "<": "{Previous}", "^": "{Rewind}", ".": "{Same}"}
	for d := range disp {
		r.Touch(core.QName(d))
		cases := map[string]*ssa.BinOp{}
		var lastCmp *ssa.BinOp
		for _, b := range d.Blocks {
			for _, in := range b.Instrs {
				bo, ok := in.(*ssa.BinOp)
				if !ok || bo.Op != token.EQL {
					continue
				}
				k, isStr := core.ConstString(bo.Y)
				if !isStr {
					continue
				}
				// left side must be the target parameter converted to string
				src := core.Sources(bo.X)
				fromParam := false
				for _, s := range src {
					if paramIndex(s) == 0 {
						fromParam = true
					}
				}
				if !fromParam {
					continue
				}
				cases[k] = bo
				lastCmp = bo
			}
		}
		var toks []string
		for k := range cases {
			toks = append(toks, k)
		}
		sort.Strings(toks)
		for _, k := range toks {
			bo := cases[k]
			var region []*ssa.BasicBlock
			for _, e := range core.EdgesWhere(bo, true) {
				region = append(region, dominatedRegion(e.To())...)
			}
			got, gotCalls := moverSet(region)
			exp, known := want[k]
			if !known {
				r.Bad("R1", fmt.Sprintf("%s: case %q", core.QName(d), k), bo.Pos(), "navigation token not in the documented table")
				continue
			}
			r.Check(setStr(got) == exp, "R1", fmt.Sprintf("%s: case %q", core.QName(d), k), bo.Pos(), "moves "+setStr(got), fmt.Sprintf("case %q performs %s, the table says %s", k, setStr(got), exp))
			for _, e := range core.EdgesWhere(bo, true) {
				casePassesMovers(w, r, d, fmt.Sprintf("case %q", k), e.To(), gotCalls, bo.Pos())
			}
		}
		for k := range want {
			if cases[k] == nil {
				r.Bad("R1", fmt.Sprintf("%s: case %q", core.QName(d), k), d.Pos(), "documented navigation token has no case in the dispatcher")
			}
		}
		if lastCmp != nil {
			// default region: dominated by the false edge of the comparison that is last in the chain
			var region []*ssa.BasicBlock
			// the last in the chain is the one whose false target contains no further token comparison
			for _, bo := range cases {
				for _, e := range core.EdgesWhere(bo, false) {
					hasCmp := false
					for _, in := range e.To().Instrs {
						for _, other := range cases {
							if in == ssa.Instruction(other) {
								hasCmp = true
							}
						}
					}
					if !hasCmp {
						region = append(region, dominatedRegion(e.To())...)
					}
				}
			}
			got, calls := moverSet(region)
			okSet := setStr(got) == "{Down,Push}"
			r.Check(okSet, "R1", core.QName(d)+": default case", lastCmp.Pos(), "moves "+setStr(got), "a named target performs "+setStr(got)+", the table says {Down,Push}")
			for _, bo := range cases {
				for _, e := range core.EdgesWhere(bo, false) {
					hasCmp := false
					for _, in := range e.To().Instrs {
						for _, other := range cases {
							if in == ssa.Instruction(other) {
								hasCmp = true
							}
						}
					}
					if !hasCmp {
						casePassesMovers(w, r, d, "default case", e.To(), calls, lastCmp.Pos())
					}
				}
			}
			if dc := calls["Down"]; dc != nil {
				args := core.CallArgs(dc)
				fromParam := false
				if len(args) == 2 {
					for _, s := range core.Sources(args[1]) {
						if paramIndex(s) == 0 {
							fromParam = true
						}
					}
				}
				r.Check(fromParam, "R1", core.QName(d)+": pushed name", dc.Pos(), "Down(string(target))", "the node pushed on the stack is not the target name")
			}
		}
		// tokens = documentation
		doc, err := readDoc(w, "navigation.texi")
		if err != nil {
			r.Undecided("R1", "doc/texinfo/navigation.texi", token.NoPos, "cannot read: "+err.Error())
		} else {
			docToks := map[string]bool{}
			sec := doc
			if i := strings.Index(doc, "Special node names"); i >= 0 {
				sec = doc[i:]
			}
			if j := strings.Index(sec, "@end table"); j >= 0 {
				sec = sec[:j]
			}
			re := regexp.MustCompile(`(?m)^@item\s+(\S)\s+\(0x[0-9A-Fa-f]+\)`)
			for _, m := range re.FindAllStringSubmatch(sec, -1) {
				docToks[m[1]] = true
			}
			codeToks := map[string]bool{}
			for k := range cases {
				codeToks[k] = true
			}
			r.Check(setStr(docToks) == setStr(codeToks) && len(docToks) >= 5, "R1", "special node names = navigation.texi", d.Pos(),
				"documented "+setStr(docToks), "dispatcher handles "+setStr(codeToks)+" but navigation.texi documents "+setStr(docToks))
		}
		r.Floor("R1", "dispatcher cases", len(cases), 5)

		// ---- R6 ----
		if bo := cases["_"]; bo != nil {
			var region []*ssa.BasicBlock
			for _, e := range core.EdgesWhere(bo, true) {
				region = append(region, dominatedRegion(e.To())...)
			}
			_, calls := moverSet(region)
			up := calls["Up"]
			entry := core.Entry(d)
			scope := d
			// the case body moved into a helper of package vm: look at the ascent there, unless the
			// at-top test stayed in the dispatcher (then the call of the helper is the guarded site)
			topHere := false
			for _, b := range region {
				for _, in := range b.Instrs {
					if c, ok := in.(*ssa.Call); ok && core.IsCallTo(c, stTop) {
						topHere = true
					}
				}
			}
			if up != nil && !topHere && !core.IsCallTo(up, stUp) {
				if g := core.StaticCallee(up); g != nil && len(g.Blocks) > 0 {
					if ups := core.CallsTo(g, stUp); len(ups) == 1 {
						up, entry, scope = ups[0], core.Entry(g), g
						region = g.Blocks
					}
				}
			}
			var topCall *ssa.Call
			for _, b := range region {
				for _, in := range b.Instrs {
					if c, ok := in.(*ssa.Call); ok && core.IsCallTo(c, stTop) {
						topCall = c
					}
				}
			}
			if up != nil {
				if topCall == nil {
					r.Bad("R6", core.QName(d)+": '_' at the entry node", up.Pos(), "the ascent is not guarded by an at-top test: '_' at the entry node empties the navigation stack instead of failing")
				} else {
					tv := core.ResultOf(topCall, 0)
					cut := core.NewCut()
					if tv != nil {
						cut.AddEdge(core.EdgesWhere(tv, false)...)
					}
					in, path := core.Reach(entry, core.IsInstr(up.(ssa.Instruction)), cut)
					r.Check(in == nil && tv != nil, "R6", core.QName(d)+": '_' at the entry node", up.Pos(), "Up only behind Top()==false", "Up can be reached without the Top()==false edge in "+core.QName(scope)+": "+w.PathString(path))
				}
			}
		}
	}

	// ---- R2 / R3 ----------------------------------------------------------------------------
	type fieldStore struct {
		fn    *ssa.Function
		st    *ssa.Store
		field string
		class string
	}
	var stores []fieldStore
	for _, fn := range w.LibFuncs {
		for _, b := range fn.Blocks {
			for _, in := range b.Instrs {
				st, ok := in.(*ssa.Store)
				if !ok {
					continue
				}
				t, f, ok := core.FieldOfAddr(st.Addr)
				if !ok || t != "state.State" || (f != "ExecPath" && f != "SizeIdx") {
					continue
				}
				stores = append(stores, fieldStore{fn, st, f, classifyStore(st, f)})
			}
		}
	}
	allowed := map[string]map[string]bool{
		"SizeIdx":  {"const 0": true, "self+1": true, "self-1": true},
		"ExecPath": {"append(self, param)": true, "self[:len-1]": true, "self[:1]": true},
	}
	for _, s := range stores {
		r.Touch(core.QName(s.fn))
		key := fmt.Sprintf("%s: store State.%s", core.QName(s.fn), s.field)
		if core.PkgOf(s.fn) != "state" {
			r.Bad("R3", key, s.st.Pos(), "navigation state is written outside package state")
			continue
		}
		r.Check(allowed[s.field][s.class], "R3", key, s.st.Pos(), "value class: "+s.class, "value class '"+s.class+"' is not one of the tabulated updates (constant 0, self +/- 1, append of the parameter, shorter prefix)")
	}
	r.Floor("R3", "stores to ExecPath/SizeIdx", len(stores), 8)

	type sigT struct{ exec, idx string } // required class on success; "" = must not be stored
	sigs := map[string]sigT{
		"(*State).Down":     {"append(self, param)", "const 0"},
		"(*State).Up":       {"self[:len-1]", "const 0"},
		"(*State).Next":     {"", "self+1"},
		"(*State).Previous": {"", "self-1"},
		"(*State).Same":     {"", ""},
	}
	var names []string
	for n := range sigs {
		names = append(names, n)
	}
	sort.Strings(names)
	for _, n := range names {
		fn := anchor(w, r, "state", n)
		if fn == nil {
			continue
		}
		sg := sigs[n]
		for _, fld := range []struct{ f, want string }{{"ExecPath", sg.exec}, {"SizeIdx", sg.idx}} {
			key := fmt.Sprintf("state.%s: effect on %s", n, fld.f)
			var mine []fieldStore
			for _, s := range stores {
				if s.fn == fn && s.field == fld.f {
					mine = append(mine, s)
				}
			}
			if fld.want == "" {
				r.Check(len(mine) == 0, "R2", key, fn.Pos(), "not written", fld.f+" is written by a move that must leave it untouched")
				continue
			}
			cut := core.NewCut()
			okClass := true
			for _, s := range mine {
				if s.class == fld.want {
					cut.AddInstr(s.st)
				} else {
					okClass = false
				}
			}
			if !okClass || len(mine) == 0 {
				got := "no store"
				if len(mine) > 0 {
					got = mine[0].class
				}
				r.Bad("R2", key, fn.Pos(), fmt.Sprintf("expected %s on success, found %s", fld.want, got))
				continue
			}
			// every nil-error return passes the store
			bad := ""
			for _, b := range fn.Blocks {
				ret, ok := b.Instrs[len(b.Instrs)-1].(*ssa.Return)
				if !ok {
					continue
				}
				last := ret.Results[len(ret.Results)-1]
				if last.Type().String() == "error" && !core.IsNilConst(last) {
					continue
				}
				if in, path := core.Reach(core.Entry(fn), core.IsInstr(ret), cut); in != nil {
					bad = "success return at " + w.Pos(ret.Pos()) + " reachable without the update: " + w.PathString(path)
				}
			}
			r.Check(bad == "", "R2", key, fn.Pos(), fld.want+" on every success path", bad)
		}
	}
	// Previous refuses at index 0 with IndexError
	if pv := w.Func("state", "(*State).Previous"); pv != nil {
		ok := false
		for _, b := range pv.Blocks {
			for _, in := range b.Instrs {
				bo, isBo := in.(*ssa.BinOp)
				if !isBo || bo.Op != token.EQL {
					continue
				}
				c, isC := core.ConstInt(bo.Y)
				_, f, isF := core.LoadedField(bo.X)
				if !isC || c != 0 || !isF || f != "SizeIdx" {
					continue
				}
				for _, e := range core.EdgesWhere(bo, true) {
					if ret, isRet := e.To().Instrs[len(e.To().Instrs)-1].(*ssa.Return); isRet {
						for _, s := range core.Sources(ret.Results[len(ret.Results)-1]) {
							if g := core.GlobalOf(s); g != nil && g.Name() == "IndexError" {
								ok = true
							}
						}
					}
				}
			}
		}
		r.Check(ok, "R2", "state.(*State).Previous: refused at index 0", pv.Pos(), "SizeIdx==0 returns IndexError before any write", "'<' at page index 0 is not refused with IndexError")
	}

	// ---- R4 -----------------------------------------------------------------------------------
	rew := w.Func("vm", "Rewind")
	n4 := 0
	// the dispatcher family: the dispatcher, Rewind, and helpers of package vm all of whose library
	// callers belong to the family
	family := map[*ssa.Function]bool{rew: true}
	for d := range disp {
		family[d] = true
	}
	for changed := true; changed; {
		changed = false
		for _, fn := range w.FuncsIn("vm") {
			if family[fn] {
				continue
			}
			cs := libCallers(w, fn)
			if len(cs) == 0 {
				continue
			}
			all := true
			for _, c := range cs {
				if !family[c.Parent()] {
					all = false
				}
			}
			if all {
				family[fn] = true
				changed = true
			}
		}
	}
	for _, fn := range w.FuncsIn("vm") {
		for _, c := range core.CallsTo(fn, stDown, stUp, stNext, stPrev) {
			n4++
			ok := family[fn]
			r.Check(ok, "R4", fmt.Sprintf("%s: calls %s", core.QName(fn), moverShort[core.CallName(c)]), c.Pos(), "dispatcher/Rewind", "a State mover is called outside the target dispatcher: the move bypasses the documented table (validation, cache push/pop pairing)")
		}
	}
	r.Floor("R4", "mover call sites in vm", n4, 4)
	// Rewind itself is a move ('^'): only the dispatcher family calls it
	for _, fn := range w.LibFuncs {
		if fn == rew {
			continue
		}
		for _, c := range callsToSet(fn, map[*ssa.Function]bool{rew: true}) {
			r.Check(family[fn], "R4", fmt.Sprintf("%s: calls Rewind", label(roleLabels(w, r), fn)), c.Pos(), "dispatcher", "the stack is unwound to the entry node outside the target dispatcher: an instruction that is not a move (the table has no entry for it) changes the position")
		}
	}
	// the three moving handlers go through the dispatcher
	hs, _, _ := opcodeHandlers(w, r)
	opn := opcodeNames(w)
	nm := 0
	for op, h := range hs {
		name := opn[op]
		if name != "MOVE" && name != "INCMP" && name != "CATCH" {
			continue
		}
		found := false
		for _, c := range core.Calls(h) {
			if f := core.StaticCallee(c); f != nil && disp[f] {
				found = true
			}
		}
		nm++
		r.Check(found, "R4", name+" handler uses the dispatcher", h.Pos(), "calls the target dispatcher", "handler does not route its target through the dispatcher")
	}
	r.Floor("R4", "moving handlers", nm, 3)

	// ---- R5 -----------------------------------------------------------------------------------
	if rew == nil {
		r.Undecided("R5", "vm.Rewind", token.NoPos, "unresolved anchor")
	} else {
		r.Touch("vm.Rewind")
		ups := core.CallsTo(rew, stUp)
		tops := core.CallsTo(rew, stTop)
		if len(ups) == 0 {
			r.Bad("R5", "vm.Rewind: loop", rew.Pos(), "Rewind never calls State.Up")
		} else {
			cut := core.NewCut()
			for _, t := range tops {
				if tc, ok := t.(*ssa.Call); ok {
					if tv := core.ResultOf(tc, 0); tv != nil {
						cut.AddEdge(core.EdgesWhere(tv, true)...)
					}
				}
			}
			for _, c := range core.Calls(rew) {
				cc, ok := c.(*ssa.Call)
				if !ok {
					continue
				}
				res := cc.Common().Signature().Results()
				for i := 0; i < res.Len(); i++ {
					if res.At(i).Type().String() == "error" {
						if ev := core.ResultOf(cc, i); ev != nil {
							for _, ce := range core.NilTestEdges(ev) {
								if !ce.Val {
									cut.AddEdge(ce.E)
								}
							}
						}
					}
				}
			}
			for _, u := range ups {
				in, path := core.Reach(core.After(u.(ssa.Instruction)), core.IsReturn, cut)
				r.Check(in == nil && len(tops) > 0, "R5", "vm.Rewind: exits only at the top", u.Pos(), "after an Up every return passes Top()==true or an error edge",
					"the rewind can stop although the stack is not at the entry node (exit not controlled by Top()): "+w.PathString(path))
			}
		}
	}

	// ---- R7 -----------------------------------------------------------------------------------
	for d := range navDispatchers(w) {
		cut := core.NewCut()
		for _, in := range allInstrs(d) {
			bo, ok := in.(*ssa.BinOp)
			if !ok {
				continue
			}
			isMax := false
			for _, v := range []ssa.Value{bo.X, bo.Y} {
				for _, src := range core.Sources(v) {
					if g := core.GlobalOf(src); g != nil && g.Name() == "MaxLevel" {
						isMax = true
					}
				}
			}
			if isMax {
				cut.AddEdge(core.EdgesWhere(bo, true)...)
				cut.AddEdge(core.EdgesWhere(bo, false)...)
			}
		}
		for _, mv := range []struct{ name, callee string }{{"Up", "state.(*State).Up"}, {"Next", "state.(*State).Next"}, {"Previous", "state.(*State).Previous"}, {"Same", "state.(*State).Same"}, {"Rewind", "vm.Rewind"}} {
			calls := core.CallsTo(d, mv.callee)
			if len(calls) == 0 {
				continue // reached through a helper of the family: R1 decides the case table
			}
			okAny := false
			for _, c := range calls {
				if hit, _ := core.Reach(core.Entry(d), core.IsInstr(c.(ssa.Instruction)), cut); hit != nil {
					okAny = true
				}
			}
			r.Check(okAny, "R7", "navigation dispatcher: "+mv.name+" is not subject to the depth limit", calls[0].Pos(), "reachable without a MaxLevel comparison",
				"every path to the "+mv.name+" move passes a comparison with state.MaxLevel: at the deepest level the session cannot go back, sideways or home any more (the move table has no depth condition for it)")
		}
	}
	// ---- R8 -----------------------------------------------------------------------------------
	for _, fld := range []string{"ExecPath", "SizeIdx"} {
		tag := reflect.StructTag(structTag(w, "state", "State", fld)).Get("cbor")
		r.Check(!omitEmptyTag(tag), "R8", "state.State."+fld+": always in the snapshot", token.NoPos, "no omitempty", "a zero "+fld+" is left out of the snapshot: a Load into a State object that was used before keeps the old position")
	}
}

// classifyStore names the value class of a store to State.ExecPath / State.SizeIdx.
func classifyStore(st *ssa.Store, field string) string {
	v := st.Val
	isSelfLoad := func(x ssa.Value) bool {
		for _, s := range core.Sources(x) {
			if _, f, ok := core.LoadedField(s); ok && f == field {
				return true
			}
		}
		return false
	}
	if c, ok := core.ConstInt(v); ok {
		return fmt.Sprintf("const %d", c)
	}
	switch t := v.(type) {
	case *ssa.BinOp:
		if c, ok := core.ConstInt(t.Y); ok && c == 1 && isSelfLoad(t.X) {
			if t.Op == token.ADD {
				return "self+1"
			}
			if t.Op == token.SUB {
				return "self-1"
			}
		}
	case *ssa.Call:
		if core.IsCallTo(t, "builtin.append") && len(t.Call.Args) == 2 && isSelfLoad(t.Call.Args[0]) {
			// appended slice holds exactly one element derived from a parameter
			if sl, ok := t.Call.Args[1].(*ssa.Slice); ok {
				if a, ok := sl.X.(*ssa.Alloc); ok && strings.HasPrefix(a.Type().String(), "*[1]") {
					if refs := a.Referrers(); refs != nil {
						for _, rr := range *refs {
							if ia, ok := rr.(*ssa.IndexAddr); ok {
								if ir := ia.Referrers(); ir != nil {
									for _, s := range *ir {
										if sst, ok := s.(*ssa.Store); ok {
											for _, src := range core.Sources(sst.Val) {
												if paramIndex(src) >= 1 {
													return "append(self, param)"
												}
											}
										}
									}
								}
							}
						}
					}
				}
			}
			return "append(self, other)"
		}
	case *ssa.Slice:
		if isSelfLoad(t.X) && t.Low == nil && t.High != nil {
			if c, ok := core.ConstInt(t.High); ok {
				return fmt.Sprintf("self[:%d]", c)
			}
			if bo, ok := t.High.(*ssa.BinOp); ok && bo.Op == token.SUB {
				if c, ok := core.ConstInt(bo.Y); ok && c == 1 {
					// len(self) - 1
					for _, s := range core.Sources(bo.X) {
						if lc, ok := s.(*ssa.Call); ok && core.IsCallTo(lc, "builtin.len") && isSelfLoad(lc.Call.Args[0]) {
							return "self[:len-1]"
						}
					}
				}
			}
		}
	}
	return "other (" + v.String() + ")"
}

// casePassesMovers: every path from the entry block of a dispatcher case to a success return
// passes each of the case's movers (a case that sometimes skips its move - or is diverted to
// another case - does not apply the tabulated update).
func casePassesMovers(w *core.World, r *core.Report, d *ssa.Function, label string, entry *ssa.BasicBlock, calls map[string]ssa.CallInstruction, pos token.Pos) {
	isSucc := isSuccessReturnPred(d)
	var names []string
	for n := range calls {
		names = append(names, n)
	}
	sort.Strings(names)
	for _, n := range names {
		c := calls[n]
		if c.Parent() != d {
			continue // mover inside a helper: the helper call is the site
		}
		cut := core.NewCut().AddInstr(c.(ssa.Instruction))
		// error edges of earlier movers of the same case lead to error returns, which isSucc excludes
		in, path := core.Reach(core.Point{B: entry, I: 0}, isSucc, cut)
		r.Check(in == nil, "R1", fmt.Sprintf("%s: %s always performs %s", core.QName(d), label, n), pos, "every success path passes it",
			fmt.Sprintf("%s can succeed without %s (the move is skipped or diverted on some path): the position differs from the documented table: %s", label, n, w.PathString(path)))
	}
}

// checkExecPathElementsImmutable (C04 R9): a frame of the navigation stack changes only by being
// pushed or popped. No library function stores through an index into State.ExecPath or into a
// slice of it - a "shortened copy" made by re-slicing shares the stack's memory, and writing a
// placeholder into it renames an ancestor frame.
func checkExecPathElementsImmutable(w *core.World, r *core.Report, rule string) {
	bad := ""
	var badPos token.Pos
	nf := 0
	for _, fn := range w.LibFuncs {
		uses := false
		for _, in := range allInstrs(fn) {
			if v, ok := in.(ssa.Value); ok {
				if tn, f, ok := core.LoadedField(v); ok && tn == "state.State" && f == "ExecPath" {
					uses = true
				}
			}
		}
		if !uses {
			continue
		}
		nf++
		for _, in := range allInstrs(fn) {
			st, ok := in.(*ssa.Store)
			if !ok {
				continue
			}
			ia, ok := st.Addr.(*ssa.IndexAddr)
			if !ok {
				continue
			}
			for _, s := range core.Sources(ia.X) {
				if tn, f, ok := core.LoadedField(s); ok && tn == "state.State" && f == "ExecPath" {
					bad = fmt.Sprintf("%s writes an element of the navigation stack in place at %s", core.QName(fn), w.Pos(st.Pos()))
					badPos = st.Pos()
				}
			}
		}
	}
	r.Check(bad == "" && nf > 0, rule, "state: frames of the navigation stack are not written in place", badPos, fmt.Sprintf("%d functions read State.ExecPath, none stores through an index into it", nf),
		"a frame of the navigation stack is overwritten (through the field or a re-slice that shares its memory): the stack no longer names the nodes that were entered, and the ascents that reach the frame look up a node that does not exist: "+bad)
}
