package rules

import (
	"go/token"
	"go/types"

	"golang.org/x/tools/go/ssa"

	"vischeck/internal/core"
)

// fieldKey is "pkg.Type.field".
func fieldKey(typ, field string) string { return typ + "." + field }

type fieldUse struct {
	fn  *ssa.Function
	pos token.Pos
	st  *ssa.Store // for writes
}

// fieldUses scans the library for reads and writes of struct fields of the named types.
func fieldUses(w *core.World, typeNames map[string]bool) (reads, writes map[string][]fieldUse) {
	reads, writes = map[string][]fieldUse{}, map[string][]fieldUse{}
	for _, fn := range w.LibFuncs {
		for _, b := range fn.Blocks {
			for _, in := range b.Instrs {
				switch t := in.(type) {
				case *ssa.FieldAddr:
					tn, f, ok := core.FieldOfAddr(t)
					if !ok || !typeNames[tn] {
						continue
					}
					k := fieldKey(tn, f)
					refs := t.Referrers()
					if refs == nil {
						continue
					}
					for _, u := range *refs {
						switch uu := u.(type) {
						case *ssa.Store:
							if uu.Addr == ssa.Value(t) {
								writes[k] = append(writes[k], fieldUse{fn, uu.Pos(), uu})
							} else {
								reads[k] = append(reads[k], fieldUse{fn, u.Pos(), nil}) // address stored somewhere
							}
						case *ssa.DebugRef:
						case *ssa.FieldAddr, *ssa.IndexAddr:
							// nested access: &x.f.g - counts as a read of f (conservative)
							reads[k] = append(reads[k], fieldUse{fn, u.Pos(), nil})
						default:
							reads[k] = append(reads[k], fieldUse{fn, u.Pos(), nil})
						}
					}
				case *ssa.Field:
					if st, ok := t.X.Type().Underlying().(*types.Struct); ok {
						tn := core.TypeName(t.X.Type())
						if typeNames[tn] {
							k := fieldKey(tn, st.Field(t.Field).Name())
							reads[k] = append(reads[k], fieldUse{fn, t.Pos(), nil})
						}
					}
				}
			}
		}
	}
	return
}

// structFields lists the fields of a named struct type of a library package.
func structFields(w *core.World, pkg, name string) []*types.Var {
	tn := w.Type(pkg, name)
	if tn == nil {
		return nil
	}
	st, ok := tn.Type().Underlying().(*types.Struct)
	if !ok {
		return nil
	}
	var out []*types.Var
	for i := 0; i < st.NumFields(); i++ {
		out = append(out, st.Field(i))
	}
	return out
}

// structTag returns the tag of field i.
func structTag(w *core.World, pkg, name, field string) string {
	tn := w.Type(pkg, name)
	if tn == nil {
		return ""
	}
	st, ok := tn.Type().Underlying().(*types.Struct)
	if !ok {
		return ""
	}
	for i := 0; i < st.NumFields(); i++ {
		if st.Field(i).Name() == field {
			return st.Tag(i)
		}
	}
	return ""
}
