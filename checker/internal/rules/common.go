package rules

import (
	"fmt"
	"go/constant"
	"go/token"
	"go/types"
	"os"
	"path/filepath"
	"regexp"
	"sort"
	"strings"

	"golang.org/x/tools/go/ssa"

	"vischeck/internal/core"
)

// anchor resolves a library function or records an unresolved-anchor obligation (undecided => exit 2).
func anchor(w *core.World, r *core.Report, pkg, name string) *ssa.Function {
	fn := w.Func(pkg, name)
	if fn == nil {
		r.Undecided("anchor", pkg+"."+name, token.NoPos, "unresolved anchor: function not found in /repo")
		return nil
	}
	r.Touch(pkg + "." + name)
	return fn
}

// constOf returns the integer value of a package-level constant.
func constOf(w *core.World, r *core.Report, pkg, name string) (int64, bool) {
	o := w.Object(pkg, name)
	c, ok := o.(*types.Const)
	if !ok {
		r.Undecided("anchor", pkg+"."+name, token.NoPos, "unresolved anchor: constant not found")
		return 0, false
	}
	v, ok := constant.Int64Val(constant.ToInt(c.Val()))
	return v, ok
}

// opcodeHandlers maps opcode constants to the handler invoked for them in (*Vm).Run's dispatch:
// the first static callee in the block entered on the true edge of `op == CONST`.
func opcodeHandlers(w *core.World, r *core.Report) (map[int64]*ssa.Function, map[int64]*ssa.Call, *ssa.Function) {
	var run *ssa.Function
	if r != nil {
		run = anchor(w, r, "vm", "(*Vm).Run")
	} else {
		run = w.Func("vm", "(*Vm).Run")
	}
	if run == nil {
		return nil, nil, nil
	}
	hs := map[int64]*ssa.Function{}
	calls := map[int64]*ssa.Call{}
	for _, b := range run.Blocks {
		for _, in := range b.Instrs {
			bo, ok := in.(*ssa.BinOp)
			if !ok || bo.Op != token.EQL {
				continue
			}
			if core.TypeName(bo.X.Type()) != "vm.Opcode" {
				continue
			}
			c, ok := core.ConstInt(bo.Y)
			if !ok {
				continue
			}
			for _, e := range core.EdgesWhere(bo, true) {
				tb := e.To()
				for _, x := range tb.Instrs {
					if call, ok := x.(*ssa.Call); ok {
						if f := core.StaticCallee(call); f != nil && w.InLib(f) && core.PkgOf(f) == "vm" {
							hs[c] = f
							calls[c] = call
							if r != nil {
								r.Touch(core.QName(f))
							}
							break
						}
					}
				}
			}
		}
	}
	return hs, calls, run
}

// opcodeNames returns value -> name for the vm opcode constants (NOOP.._MAX excluded).
func opcodeNames(w *core.World) map[int64]string {
	out := map[int64]string{}
	p := w.Pkgs["vm"]
	if p == nil {
		return out
	}
	for _, n := range p.Types.Scope().Names() {
		c, ok := p.Types.Scope().Lookup(n).(*types.Const)
		if !ok || n == "_MAX" || n == "VERSION" {
			continue
		}
		if n != strings.ToUpper(n) {
			continue
		}
		if v, ok := constant.Int64Val(constant.ToInt(c.Val())); ok && c.Val().Kind() == constant.Int {
			if _, dup := out[v]; !dup {
				out[v] = n
			}
		}
	}
	return out
}

// reachable computes the set of functions reachable in the class-hierarchy call graph of P_L from
// roots, recording one predecessor edge per function so that a path can be printed.
func reachable(w *core.World, roots []*ssa.Function) (map[*ssa.Function]bool, map[*ssa.Function]*core.CGEdge) {
	return w.Reachable(roots)
}

// callPath renders the call path from a root to f found by reachable.
func callPath(w *core.World, pred map[*ssa.Function]*core.CGEdge, f *ssa.Function) string {
	var parts []string
	for i := 0; f != nil && i < 40; i++ {
		e := pred[f]
		if e == nil {
			parts = append(parts, core.FuncQName(f))
			break
		}
		pos := token.NoPos
		if e.Site != nil {
			pos = e.Site.Pos()
		}
		parts = append(parts, fmt.Sprintf("%s (called at %s)", core.FuncQName(f), w.Pos(pos)))
		f = e.Caller
	}
	for i, j := 0, len(parts)-1; i < j; i, j = i+1, j-1 {
		parts[i], parts[j] = parts[j], parts[i]
	}
	return strings.Join(parts, " -> ")
}

// libCallers returns the call sites in library functions that (statically) call fn.
func libCallers(w *core.World, fn *ssa.Function) []ssa.CallInstruction {
	var out []ssa.CallInstruction
	for _, f := range w.LibFuncs {
		for _, c := range core.Calls(f) {
			if core.StaticCallee(c) == fn {
				out = append(out, c)
			}
		}
	}
	return out
}

// paramIndex returns the index of v among fn's parameters, or -1.
func paramIndex(v ssa.Value) int {
	p, ok := v.(*ssa.Parameter)
	if !ok {
		return -1
	}
	for i, q := range p.Parent().Params {
		if q == p {
			return i
		}
	}
	return -1
}

// sortedKeys returns the sorted keys of a string-keyed map.
func sortedKeys[V any](m map[string]V) []string {
	var ks []string
	for k := range m {
		ks = append(ks, k)
	}
	sort.Strings(ks)
	return ks
}

// readDoc reads a texinfo file of the repository.
func readDoc(w *core.World, name string) (string, error) {
	b, err := os.ReadFile(filepath.Join(w.Repo, "doc", "texinfo", name))
	return string(b), err
}

var texCode = regexp.MustCompile(`@code\{([^}]*)\}`)

// texMultitable extracts the rows of the first @multitable following marker: each row is the
// list of cell texts (first cell from @item, the rest from @tab).
func texMultitable(doc, marker string) [][]string {
	i := strings.Index(doc, marker)
	if i < 0 {
		return nil
	}
	doc = doc[i:]
	j := strings.Index(doc, "@multitable")
	if j < 0 {
		return nil
	}
	doc = doc[j:]
	if k := strings.Index(doc, "@end multitable"); k >= 0 {
		doc = doc[:k]
	}
	var rows [][]string
	var cur []string
	for _, ln := range strings.Split(doc, "\n") {
		ln = strings.TrimSpace(ln)
		switch {
		case strings.HasPrefix(ln, "@headitem"):
			cur = nil
		case strings.HasPrefix(ln, "@item"):
			if cur != nil {
				rows = append(rows, cur)
			}
			cur = []string{strings.TrimSpace(strings.TrimPrefix(ln, "@item"))}
		case strings.HasPrefix(ln, "@tab"):
			if cur != nil {
				cur = append(cur, strings.TrimSpace(strings.TrimPrefix(ln, "@tab")))
			}
		}
	}
	if cur != nil {
		rows = append(rows, cur)
	}
	return rows
}

// interval arithmetic over uint32-valued parameters for tiny predicate functions ---------------

type ivl struct{ lo, hi int64 } // inclusive, within [0, 2^32-1]

const maxU32 = int64(1<<32 - 1)

// predicateTrueSet computes, for a function `func(x uintN) bool` whose body only compares x with
// constants, the set of x for which it returns true, as a sorted list of disjoint intervals.
// ok is false when the body has any other shape.
func predicateTrueSet(fn *ssa.Function) ([]ivl, bool) {
	if len(fn.Params) != 1 || fn.Signature.Results().Len() != 1 {
		return nil, false
	}
	x := fn.Params[0]
	var out []ivl
	okAll := true
	var walk func(b *ssa.BasicBlock, cur ivl, depth int)
	walk = func(b *ssa.BasicBlock, cur ivl, depth int) {
		if depth > 64 || cur.lo > cur.hi {
			return
		}
		last := b.Instrs[len(b.Instrs)-1]
		switch t := last.(type) {
		case *ssa.Return:
			c, ok := t.Results[0].(*ssa.Const)
			if !ok || c.Value == nil || c.Value.Kind() != constant.Bool {
				// return of a comparison: `return x > C`
				if bo, ok := t.Results[0].(*ssa.BinOp); ok {
					if tr, _, ok := splitCmp(bo, x, cur); ok {
						out = append(out, tr...)
						return
					}
				}
				okAll = false
				return
			}
			if constant.BoolVal(c.Value) {
				out = append(out, cur)
			}
		case *ssa.Jump:
			walk(b.Succs[0], cur, depth+1)
		case *ssa.If:
			bo, ok := t.Cond.(*ssa.BinOp)
			if !ok {
				okAll = false
				return
			}
			tr, fa, ok := splitCmp(bo, x, cur)
			if !ok {
				okAll = false
				return
			}
			for _, i := range tr {
				walk(b.Succs[0], i, depth+1)
			}
			for _, i := range fa {
				walk(b.Succs[1], i, depth+1)
			}
		default:
			okAll = false
		}
	}
	// only comparisons, returns, jumps, ifs and debug refs allowed
	for _, b := range fn.Blocks {
		for _, in := range b.Instrs {
			switch in.(type) {
			case *ssa.BinOp, *ssa.If, *ssa.Jump, *ssa.Return, *ssa.DebugRef:
			default:
				return nil, false
			}
		}
	}
	walk(fn.Blocks[0], ivl{0, maxU32}, 0)
	if !okAll {
		return nil, false
	}
	sort.Slice(out, func(i, j int) bool { return out[i].lo < out[j].lo })
	// merge adjacent
	var m []ivl
	for _, i := range out {
		if len(m) > 0 && i.lo <= m[len(m)-1].hi+1 {
			if i.hi > m[len(m)-1].hi {
				m[len(m)-1].hi = i.hi
			}
			continue
		}
		m = append(m, i)
	}
	return m, true
}

// splitCmp splits interval cur by the comparison bo (x op const or const op x) into the parts
// where it is true and false.
func splitCmp(bo *ssa.BinOp, x ssa.Value, cur ivl) (tr, fa []ivl, ok bool) {
	op := bo.Op
	var c int64
	if bo.X == x {
		c, ok = core.ConstInt(bo.Y)
	} else if bo.Y == x {
		c, ok = core.ConstInt(bo.X)
		// flip
		switch op {
		case token.LSS:
			op = token.GTR
		case token.GTR:
			op = token.LSS
		case token.LEQ:
			op = token.GEQ
		case token.GEQ:
			op = token.LEQ
		}
	}
	if !ok {
		return nil, nil, false
	}
	clip := func(lo, hi int64) []ivl {
		if lo < cur.lo {
			lo = cur.lo
		}
		if hi > cur.hi {
			hi = cur.hi
		}
		if lo > hi {
			return nil
		}
		return []ivl{{lo, hi}}
	}
	switch op {
	case token.GTR:
		return clip(c+1, maxU32), clip(0, c), true
	case token.GEQ:
		return clip(c, maxU32), clip(0, c-1), true
	case token.LSS:
		return clip(0, c-1), clip(c, maxU32), true
	case token.LEQ:
		return clip(0, c), clip(c+1, maxU32), true
	case token.EQL:
		return clip(c, c), append(clip(0, c-1), clip(c+1, maxU32)...), true
	case token.NEQ:
		return append(clip(0, c-1), clip(c+1, maxU32)...), clip(c, c), true
	}
	return nil, nil, false
}

func inIvls(s []ivl, v int64) bool {
	for _, i := range s {
		if i.lo <= v && v <= i.hi {
			return true
		}
	}
	return false
}

// errNonNilEdges returns the edges on which error value ev is known to be non-nil: `ev != nil`
// tests and true edges of errors.Is(ev, X) / errors.As(ev, X).
func errNonNilEdges(ev ssa.Value) []core.Edge {
	var out []core.Edge
	if ev == nil {
		return nil
	}
	// a variable captured by a closure lives in memory: `*errp = ev; t = *errp; if t != nil`
	for _, al := range storedAndReloaded(ev) {
		out = append(out, errNonNilEdges(al)...)
	}
	for _, ce := range core.NilTestEdges(ev) {
		if !ce.Val {
			out = append(out, ce.E)
		}
	}
	if refs := ev.Referrers(); refs != nil {
		for _, u := range *refs {
			if c, ok := u.(*ssa.Call); ok && core.IsCallTo(c, "errors.Is", "errors.As") && len(c.Call.Args) > 0 && c.Call.Args[0] == ev {
				out = append(out, core.EdgesWhere(c, true)...)
			}
			// type assertion `_, ok := err.(*T)`: ok true => non-nil
			if ta, ok := u.(*ssa.TypeAssert); ok && ta.CommaOk {
				if tr := ta.Referrers(); tr != nil {
					for _, x := range *tr {
						if ex, ok := x.(*ssa.Extract); ok && ex.Index == 1 {
							out = append(out, core.EdgesWhere(ex, true)...)
						}
					}
				}
			}
		}
	}
	return out
}

// callErr returns the error result value of a call (nil if none or unused).
func callErr(c ssa.CallInstruction) ssa.Value {
	call, ok := c.(*ssa.Call)
	if !ok {
		return nil
	}
	res := call.Common().Signature().Results()
	for i := res.Len() - 1; i >= 0; i-- {
		if res.At(i).Type().String() == "error" {
			return core.ResultOf(call, i)
		}
	}
	return nil
}

// isErrorReturn: the return can only yield a non-nil error (fresh error, or behind an edge on
// which the returned error value is known non-nil).
func isErrorReturn(ret *ssa.Return) bool {
	last := core.ReturnError(ret)
	if last == nil {
		return false
	}
	if core.IsNilConst(last) {
		return false
	}
	if isFreshError(last) {
		return true
	}
	// `return discard(err)`: a helper or closure that hands its error argument back
	for i := 0; i < 2; i++ {
		if a := passedThroughArg(last); a != nil {
			last = a
			if isFreshError(last) {
				return true
			}
		}
	}
	edges := errNonNilEdges(last)
	if len(edges) == 0 {
		return false
	}
	ok, _ := core.MustPass(ret, core.NewCut().AddEdge(edges...))
	return ok
}

// successReturns lists the returns of fn that may report success.
func successReturns(fn *ssa.Function) []*ssa.Return {
	var out []*ssa.Return
	for _, b := range fn.Blocks {
		if b == fn.Recover {
			continue
		}
		if ret, ok := b.Instrs[len(b.Instrs)-1].(*ssa.Return); ok && !isErrorReturn(ret) {
			out = append(out, ret)
		}
	}
	return out
}

func isSuccessReturnPred(fn *ssa.Function) func(ssa.Instruction) bool {
	set := map[ssa.Instruction]bool{}
	for _, r := range successReturns(fn) {
		set[r] = true
	}
	return func(in ssa.Instruction) bool { return set[in] }
}

// externalInvokers: functions of package vm that call a value of type resource.EntryFunc (the
// external-code invoker role; `refresh` today).
func externalInvokers(w *core.World) map[*ssa.Function]bool {
	out := map[*ssa.Function]bool{}
	for _, fn := range w.FuncsIn("vm") {
		for _, c := range core.Calls(fn) {
			if core.CallName(c) == "dynamic:resource.EntryFunc" {
				out[fn] = true
			}
		}
	}
	return out
}

// callsToSet returns the calls in fn whose static callee is in set.
func callsToSet(fn *ssa.Function, set map[*ssa.Function]bool) []ssa.CallInstruction {
	var out []ssa.CallInstruction
	for _, c := range core.Calls(fn) {
		if f := core.StaticCallee(c); f != nil && set[f] {
			out = append(out, c)
		}
	}
	return out
}

// fromResult reports whether v derives (Sources) from result idx of a call to one of names.
func fromResult(v ssa.Value, idx int, names ...string) bool {
	for _, s := range core.Sources(v) {
		if c, i, ok := core.ExtractOf(s); ok && i == idx && core.IsCallTo(c, names...) {
			return true
		}
	}
	return false
}

// handlerByName returns the opcode handler for the named opcode.
func handlerByName(w *core.World, r *core.Report, name string) *ssa.Function {
	hs, _, _ := opcodeHandlers(w, r)
	for v, n := range opcodeNames(w) {
		if n == name {
			return hs[v]
		}
	}
	return nil
}

// storedAndReloaded returns the loads `t = *a` that must yield v: v is stored to the local
// allocation a, and the load follows that store in the same block with no other store to a between.
func storedAndReloaded(v ssa.Value) []ssa.Value {
	var out []ssa.Value
	refs := v.Referrers()
	if refs == nil {
		return nil
	}
	for _, u := range *refs {
		st, ok := u.(*ssa.Store)
		if !ok || st.Val != v {
			continue
		}
		a, ok := st.Addr.(*ssa.Alloc)
		if !ok {
			continue
		}
		b := st.Block()
		after := false
		for _, in := range b.Instrs {
			if in == ssa.Instruction(st) {
				after = true
				continue
			}
			if !after {
				continue
			}
			if s2, ok := in.(*ssa.Store); ok && s2.Addr == ssa.Value(a) {
				break
			}
			if _, isCall := in.(ssa.CallInstruction); isCall {
				// a call may run a closure that assigns the captured variable
				if a.Heap {
					break
				}
			}
			if ld, ok := in.(*ssa.UnOp); ok && ld.Op == token.MUL && ld.X == ssa.Value(a) {
				out = append(out, ld)
			}
		}
	}
	return out
}

// cutWithHelpers builds for fn the cut that mk yields, plus every (non-deferred) call of a static
// library helper in which every path to a return passes the helper's own such cut (bounded
// depth): a step that was moved into a helper still counts as passed at the call.
func cutWithHelpers(w *core.World, fn *ssa.Function, mk func(*ssa.Function, *core.Cut), depth int) *core.Cut {
	cut := core.NewCut()
	mk(fn, cut)
	if depth <= 0 {
		return cut
	}
	for _, c := range core.Calls(fn) {
		if _, ok := c.(*ssa.Call); !ok {
			continue
		}
		g := core.StaticCallee(c)
		if g == nil || g == fn || !w.InLib(g) || len(g.Blocks) == 0 {
			continue
		}
		gc := cutWithHelpers(w, g, mk, depth-1)
		if len(gc.Instrs)+len(gc.Edges) == 0 {
			continue
		}
		if hit, _ := core.Reach(core.Entry(g), core.IsReturn, gc); hit == nil {
			cut.AddInstr(c.(ssa.Instruction))
		}
	}
	return cut
}

// passedThroughArg: v is the (error) result of a call of a library function or local closure whose
// every return hands back one and the same parameter as that result; returns the argument.
func passedThroughArg(v ssa.Value) ssa.Value {
	var call *ssa.Call
	ridx := 0
	switch t := v.(type) {
	case *ssa.Call:
		call = t
	case *ssa.Extract:
		c, ok := t.Tuple.(*ssa.Call)
		if !ok {
			return nil
		}
		call, ridx = c, t.Index
	default:
		return nil
	}
	g := core.StaticCallee(call)
	if g == nil || len(g.Blocks) == 0 {
		return nil
	}
	pi := -1
	for _, in := range allInstrs(g) {
		ret, ok := in.(*ssa.Return)
		if !ok {
			continue
		}
		if ridx >= len(ret.Results) {
			return nil
		}
		for _, src := range core.Sources(ret.Results[ridx]) {
			p, ok := src.(*ssa.Parameter)
			if !ok {
				return nil
			}
			i := paramIndex(p)
			if pi >= 0 && pi != i {
				return nil
			}
			pi = i
		}
	}
	args := core.CallArgs(call)
	if pi < 0 || pi >= len(args) {
		return nil
	}
	return args[pi]
}

// sourcesThroughClosure is core.Sources extended through captured variables: a load of a free
// variable of a closure is replaced by the sources of every value stored to the captured cell in
// the enclosing function.
func sourcesThroughClosure(v ssa.Value) []ssa.Value {
	var out []ssa.Value
	for _, s := range core.Sources(v) {
		u, ok := s.(*ssa.UnOp)
		if !ok || u.Op != token.MUL {
			out = append(out, s)
			continue
		}
		fv, ok := u.X.(*ssa.FreeVar)
		if !ok {
			out = append(out, s)
			continue
		}
		clo := fv.Parent()
		parent := clo.Parent()
		idx := -1
		for i, f := range clo.FreeVars {
			if f == fv {
				idx = i
			}
		}
		found := false
		if parent != nil && idx >= 0 {
			for _, in := range allInstrs(parent) {
				mc, ok := in.(*ssa.MakeClosure)
				if !ok || mc.Fn != ssa.Value(clo) || idx >= len(mc.Bindings) {
					continue
				}
				cell := mc.Bindings[idx]
				if refs := cell.Referrers(); refs != nil {
					for _, r := range *refs {
						if st, ok := r.(*ssa.Store); ok && st.Addr == cell {
							out = append(out, core.Sources(st.Val)...)
							found = true
						}
					}
				}
			}
		}
		if !found {
			out = append(out, s)
		}
	}
	return out
}

// sourcesViaParams is core.Sources extended one level up through parameters: a source that is a
// parameter of fn - an unexported function all of whose call sites are known - is replaced by the
// sources of the corresponding argument at every call site (the arguments themselves are returned
// as well, for rules that look at a conversion made at the call site).
func sourcesViaParams(w *core.World, fn *ssa.Function, v ssa.Value) (srcs []ssa.Value, args []ssa.Value) {
	for _, s := range core.Sources(v) {
		p, ok := s.(*ssa.Parameter)
		if !ok || p.Parent() != fn {
			srcs = append(srcs, s)
			continue
		}
		sites, escapes := staticCallSites(w, fn)
		pi := paramIndex(p)
		if escapes || len(sites) == 0 || pi < 0 {
			srcs = append(srcs, s)
			continue
		}
		for _, c := range sites {
			a := core.CallArgs(c)
			if pi >= len(a) {
				srcs = append(srcs, s)
				continue
			}
			args = append(args, a[pi])
			srcs = append(srcs, core.Sources(a[pi])...)
		}
	}
	return srcs, args
}

// fromResultVia is fromResult that also looks through one level of parameters (sourcesViaParams).
func fromResultVia(w *core.World, fn *ssa.Function, v ssa.Value, idx int, names ...string) bool {
	srcs, _ := sourcesViaParams(w, fn, v)
	for _, s := range srcs {
		if c, i, ok := core.ExtractOf(s); ok && i == idx && core.IsCallTo(c, names...) {
			return true
		}
	}
	return false
}
