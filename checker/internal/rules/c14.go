package rules

import (
	"fmt"
	"go/ast"
	"go/constant"
	"go/token"
	"go/types"
	"sort"
	"strings"

	"golang.org/x/tools/go/packages"
	"golang.org/x/tools/go/ssa"

	"vischeck/internal/core"
)

func init() {
	register("C14", PropCheck{
		Title:      "Bytecode encoding and decoding are exact inverses",
		Explain:    "Format agreement between the separate codecs, decided on finite tables: (R1) OpcodeString and OpcodeIndex are mutually inverse over all opcode constants, _MAX equals the largest opcode, and Vm.Run's switch, ParseAll's switch and WithDefaultHandlers cover the same twelve instructions; (R2) for each opcode the decoder's argument signature (sequence of length-prefixed symbols S, length-prefixed integers I and raw bytes B decoded on every success path of its Parse* function) equals the arity and kinds at every vm.NewLine call site with a constant opcode anywhere in the repository (library, assembler batch expansion, engine, examples, testdata) and the parameter list of the matching ParseHandler callback; (R3) primitive framing: the symbol and integer decoders' bounds arithmetic cannot wrap (every length the encoders can emit, including a 255-byte symbol, is decodable), the symbol encoder refuses more than 255 bytes, the integer encoder refuses more than 4 bytes and the integer decoder refuses a length byte above 4; the one-byte length written by the exported line builder vm.NewLine is reported where it is not proved to fit (NewLine cannot refuse: two known findings), and the assembler's batch (menu) processor, which expands through NewLine, compares every string argument it stores with 255 before keeping it; (R4) the assembler's integer encoder emits a suffix of the 4-byte big-endian buffer and never right-trims it (low-order zero bytes are significant); (R7) the primitive decoders and encoders compute no +, -, * or << in an integer type narrower than 32 bits whose result can leave the type (the zone engine bounds the operands), and narrow no value without proof - `uint32(x16<<8)` loses a byte before it is widened; (R8) the integer decoder is total over the lengths it accepts: on every success path the returned value is decoded from the operand bytes, and the length byte itself reaches the result only behind the 'length is 0' edge (added after seeded change C06-H, a decode-by-width switch without a 3-byte case); (R9) vm.NewLine writes the width byte of its integer operand whenever the operand is non-nil - behind a nil test, never behind a comparison of its length (an empty non-nil operand is the minimal encoding of 0; added after seeded change C14-G); (R10) ParseHandler.ToString returns the contents of a buffer allocated in the call, so lines of a failed listing cannot appear in the next one (added after C14-H). (R11) the codec packages vm and asm do not import package unsafe - decoded strings are copies of the instruction bytes; (R12) = C16 R6, the assembler's per-line buffer (added after seeded changes C14-I and C14-J). (R13) no WriteRune of a computed value in asm or vm - lengths and sizes are bytes; (R14) the initial values of the two accumulators of MenuProcessor.ToLines share no allocation (added after seeded changes C14-K and C14-L). (R15) the primitive symbol and integer decoders call nothing but builtins, error constructors, encoding/binary, logging and helpers of that same kind: they refuse for framing, never for content (added after seeded change C14-M, a UTF-8 test on decoded symbols). (R16) = C16 R8: numbers the assembler parses from the source are not narrowed or range-limited below 32 bits (added after seeded change C14-N).",
		NotDecided: "equality of values after a round trip for all uint32 and all strings, the log2-based width computation for every value, 'consumes exactly its own bytes' beyond the signature agreement - these are value-level; no run-time enumeration is substituted.",
		Run:        runC14,
	})
}

// mapLiteral evaluates a package-level map composite literal `var name = map[K]V{...}` of pkg into
// string(key) -> string(value), using the type checker's constant values.
func mapLiteral(p *packages.Package, name string) (map[string]string, token.Pos) {
	for _, f := range p.Syntax {
		for _, d := range f.Decls {
			gd, ok := d.(*ast.GenDecl)
			if !ok || gd.Tok != token.VAR {
				continue
			}
			for _, sp := range gd.Specs {
				vs := sp.(*ast.ValueSpec)
				for i, n := range vs.Names {
					if n.Name != name || i >= len(vs.Values) {
						continue
					}
					cl, ok := vs.Values[i].(*ast.CompositeLit)
					if !ok {
						return nil, n.Pos()
					}
					out := map[string]string{}
					for _, e := range cl.Elts {
						kv, ok := e.(*ast.KeyValueExpr)
						if !ok {
							return nil, n.Pos()
						}
						k, v := p.TypesInfo.Types[kv.Key].Value, p.TypesInfo.Types[kv.Value].Value
						if k == nil || v == nil {
							return nil, n.Pos()
						}
						out[constStr(k)] = constStr(v)
					}
					return out, n.Pos()
				}
			}
		}
	}
	return nil, token.NoPos
}

func constStr(v constant.Value) string {
	if v.Kind() == constant.String {
		return constant.StringVal(v)
	}
	return v.ExactString()
}

// newLineSite is one call of vm.NewLine with a constant opcode.
type newLineSite struct {
	pos  token.Pos
	op   int64
	sig  string // S.. I? B..  ("?" when an argument is not a literal)
	file string
}

func newLineSites(w *core.World) []newLineSite {
	var out []newLineSite
	vmPkg := w.Pkgs["vm"]
	if vmPkg == nil {
		return nil
	}
	nl := vmPkg.Types.Scope().Lookup("NewLine")
	for _, p := range w.All {
		if p.TypesInfo == nil || len(p.Errors) > 0 {
			continue
		}
		for _, f := range p.Syntax {
			ast.Inspect(f, func(n ast.Node) bool {
				ce, ok := n.(*ast.CallExpr)
				if !ok || len(ce.Args) != 5 {
					return true
				}
				var id *ast.Ident
				switch fn := ce.Fun.(type) {
				case *ast.Ident:
					id = fn
				case *ast.SelectorExpr:
					id = fn.Sel
				}
				if id == nil || p.TypesInfo.Uses[id] != nl {
					return true
				}
				tv := p.TypesInfo.Types[ce.Args[1]]
				if tv.Value == nil {
					return true
				}
				op, _ := constant.Int64Val(constant.ToInt(tv.Value))
				sig := ""
				count := func(e ast.Expr) (int, bool) {
					if id, ok := e.(*ast.Ident); ok && id.Name == "nil" {
						return 0, true
					}
					if cl, ok := e.(*ast.CompositeLit); ok {
						return len(cl.Elts), true
					}
					return 0, false
				}
				ns, ok1 := count(ce.Args[2])
				nb, ok2 := count(ce.Args[3])
				nn, ok3 := count(ce.Args[4])
				if !ok1 || !ok2 || !ok3 {
					sig = "?"
				} else {
					sig = strings.Repeat("S", ns)
					if id, isNil := ce.Args[3].(*ast.Ident); !(isNil && id.Name == "nil") {
						_ = nb
						sig += "I"
					}
					sig += strings.Repeat("B", nn)
				}
				out = append(out, newLineSite{ce.Pos(), op, sig, p.PkgPath})
				return true
			})
		}
	}
	return out
}

func runC14(w *core.World, r *core.Report) {
	r.Rule("R1", "opcode tables mutually inverse; _MAX is the largest; Run, ParseAll and WithDefaultHandlers cover the same instructions")
	r.Rule("R2", "per-opcode argument signature: decoder = every NewLine call site = ParseHandler callback")
	r.Rule("R3", "primitive framing: no wrap in decoder bounds arithmetic, encoder/decoder length limits agree")
	r.Rule("R4", "the assembler's integer encoder never right-trims the big-endian buffer")
	r.Rule("R5", "Parse* functions hand out the primitive decoders' values unmodified (no constant or arithmetic on a success path)")
	r.Rule("R6", "disassembler lines are built with constant format strings whose verb count equals the argument count")
	r.Rule("R16", "the assembler's encoder keeps the whole 32-bit range: numbers parsed from the source are not narrowed or range-limited below it without a check (C16 R8)")
	r.Rule("R14", "the two instruction buffers of the batch menu expansion share no memory")
	r.Rule("R13", "length and size prefixes are written as bytes: no WriteRune of a computed value in asm or vm")
	r.Rule("R12", "the assembler encodes each source line in a buffer allocated for it (C16 R6): encodings of concurrent or nested Parse calls cannot interleave")
	r.Rule("R15", "the primitive decoders refuse an operand for its framing only, never for its content (they call no predicate over the operand bytes)")
	r.Rule("R11", "decoded strings are copies of the instruction bytes: the codec packages do not import unsafe")
	r.Rule("R10", "the disassembler's listing is written into a buffer allocated for the call")
	r.Rule("R9", "vm.NewLine writes the width byte of the integer operand behind a nil test, not a length test")
	r.Rule("R8", "the integer decoder decodes every accepted operand length from the operand bytes (the length byte reaches the result only behind length==0)")
	r.Rule("R7", "the primitive decoders and encoders compute nothing in an integer type narrower than 32 bits that the result can leave, and narrow nothing without proof")

	vmPkg := w.Pkgs["vm"]
	if vmPkg == nil {
		return
	}
	names := opcodeNames(w) // value -> name
	// ---- R1 -----------------------------------------------------------------------------------
	os, pos1 := mapLiteral(vmPkg, "OpcodeString")
	oi, pos2 := mapLiteral(vmPkg, "OpcodeIndex")
	if os == nil || oi == nil {
		r.Undecided("R1", "vm.OpcodeString / vm.OpcodeIndex", pos1, "not constant map literals")
	} else {
		bad := ""
		for k, v := range os { // value -> name
			if oi[v] != k {
				bad += fmt.Sprintf(" OpcodeString[%s]=%q but OpcodeIndex[%q]=%q;", k, v, v, oi[v])
			}
		}
		for k, v := range oi {
			if os[v] != k {
				bad += fmt.Sprintf(" OpcodeIndex[%q]=%s but OpcodeString[%s]=%q;", k, v, v, os[v])
			}
		}
		for v, n := range names {
			if os[fmt.Sprint(v)] != n {
				bad += fmt.Sprintf(" constant %s=%d is named %q in OpcodeString;", n, v, os[fmt.Sprint(v)])
			}
		}
		r.Check(bad == "" && len(os) >= 13, "R1", "vm.OpcodeString <-> vm.OpcodeIndex", pos2, fmt.Sprintf("%d entries, mutually inverse, equal to the constants", len(os)), "the mnemonic tables disagree:"+bad)
	}
	if mx, ok := constOf(w, r, "vm", "_MAX"); ok {
		var largest int64
		for v := range names {
			if v > largest {
				largest = v
			}
		}
		r.Check(mx == largest, "R1", "vm._MAX", token.NoPos, fmt.Sprintf("_MAX = %d = largest opcode", mx), fmt.Sprintf("_MAX is %d but the largest opcode constant is %d", mx, largest))
	}
	hs, _, run := opcodeHandlers(w, r)
	runSet := map[string]bool{}
	for op := range hs {
		runSet[names[op]] = true
	}
	if pa := anchor(w, r, "vm", "(*ParseHandler).ParseAll"); pa != nil && run != nil {
		paSet := map[string]bool{}
		for _, bo := range opcodeSwitch(pa) {
			c, _ := core.ConstInt(bo.Y)
			paSet[names[c]] = true
		}
		r.Check(setStr(paSet) == setStr(runSet) && len(runSet) == 12, "R1", "instruction sets of Vm.Run and ParseAll", pa.Pos(), fmt.Sprintf("%d instructions each", len(runSet)),
			"the VM executes "+setStr(runSet)+" but the disassembler handles "+setStr(paSet))
		// WithDefaultHandlers sets one callback per instruction
		if wd := anchor(w, r, "vm", "(*ParseHandler).WithDefaultHandlers"); wd != nil {
			set := map[string]bool{}
			for _, b := range wd.Blocks {
				for _, in := range b.Instrs {
					if st, ok := in.(*ssa.Store); ok {
						if tn, f, ok := core.FieldOfAddr(st.Addr); ok && tn == "vm.ParseHandler" {
							set[strings.ToUpper(f)] = true
						}
					}
				}
			}
			r.Check(setStr(set) == setStr(runSet), "R1", "default disassembler callbacks", wd.Pos(), "one per instruction", "default callbacks "+setStr(set)+" do not match the instruction set "+setStr(runSet))
		}
	}

	// ---- R2 -----------------------------------------------------------------------------------
	decSig := map[int64]string{}
	var ops []int64
	for v := range names {
		ops = append(ops, v)
	}
	sortInt64(ops)
	for _, v := range ops {
		n := names[v]
		if n == "NOOP" {
			continue
		}
		var pf *ssa.Function
		for _, fn := range w.FuncsIn("vm") {
			if strings.EqualFold(fn.Name(), "Parse"+n) && isDecoderLike(fn) {
				pf = fn
			}
		}
		if pf == nil {
			r.Bad("R2", "decoder of "+n, token.NoPos, "no Parse"+n+" function")
			continue
		}
		sigs := successSignatures(pf, 0)
		keys := sortedKeys(sigs)
		if len(keys) != 1 || keys[0] == "?" {
			r.Bad("R2", "decoder signature of "+n, pf.Pos(), "the decoder does not decode one fixed argument sequence on all success paths: "+fmt.Sprint(keys))
			continue
		}
		decSig[v] = keys[0]
		r.OK("R2", "decoder signature of "+n, pf.Pos(), "["+keys[0]+"]")
	}
	sites := newLineSites(w)
	nsite := 0
	sort.Slice(sites, func(i, j int) bool { return sites[i].pos < sites[j].pos })
	perOp := map[int64]int{}
	for _, s := range sites {
		want, ok := decSig[s.op]
		if !ok {
			if names[s.op] == "" {
				r.Bad("R2", fmt.Sprintf("NewLine call with unknown opcode %d", s.op), s.pos, "an instruction is encoded with an opcode that has no decoder")
			}
			continue
		}
		if s.sig == "?" {
			continue
		}
		nsite++
		perOp[s.op]++
		if s.sig != want {
			r.Bad("R2", fmt.Sprintf("NewLine(%s) call site in %s", names[s.op], core.Rel(s.file)), s.pos,
				fmt.Sprintf("encodes arguments [%s] but the decoder of %s reads [%s]: the instruction cannot be decoded back to what was encoded", s.sig, names[s.op], want))
		}
	}
	r.OK("R2", "vm.NewLine call sites with constant opcode", token.NoPos, fmt.Sprintf("%d sites over %d opcodes agree with the decoder signatures", nsite, len(perOp)))
	r.Floor("R2", "NewLine call sites with constant opcode and literal arguments", nsite, 5)
	// callbacks
	if tn := w.Type("vm", "ParseHandler"); tn != nil {
		st := tn.Type().Underlying().(*types.Struct)
		ncb := 0
		for i := 0; i < st.NumFields(); i++ {
			f := st.Field(i)
			sig, ok := f.Type().Underlying().(*types.Signature)
			if !ok {
				continue
			}
			var op int64 = -1
			for v, n := range names {
				if strings.EqualFold(n, f.Name()) {
					op = v
				}
			}
			if op < 0 {
				continue
			}
			ncb++
			got := ""
			for j := 0; j < sig.Params().Len(); j++ {
				switch bt := sig.Params().At(j).Type().Underlying().(type) {
				case *types.Basic:
					switch {
					case bt.Info()&types.IsString != 0:
						got += "S"
					case bt.Info()&types.IsInteger != 0:
						got += "I"
					case bt.Kind() == types.Bool:
						got += "B"
					}
				}
			}
			r.Check(got == decSig[op], "R2", "ParseHandler."+f.Name()+" callback", f.Pos(), "["+got+"]", fmt.Sprintf("callback takes [%s] but the decoder of %s yields [%s]", got, names[op], decSig[op]))
		}
		r.Floor("R2", "ParseHandler callbacks", ncb, 12)
	}

	// ---- R3 -----------------------------------------------------------------------------------
	nprim := 0
	for _, fn := range w.FuncsIn("vm") {
		k := primitiveKind(fn)
		if k != "S" && k != "I" {
			continue
		}
		nprim++
		bd := core.NewBounds(fn, intBits(w))
		bad := ""
		for _, s := range bd.Sites(core.ByteLike) {
			if !s.OK {
				bad = s.Expr + ": " + s.Missing
			}
		}
		r.Check(bad == "", "R3", core.QName(fn)+": decodes every length the encoder can emit", fn.Pos(), "bounds arithmetic cannot wrap or overrun", "the primitive decoder cannot decode some encodable length (for instance a 255-byte symbol): "+bad)
	}
	r.Floor("R3", "primitive decoders", nprim, 2)
	limitCheck := func(fn *ssa.Function, roleName string, limit int64, what string) {
		if fn == nil {
			r.Undecided("R3", roleName+": "+what, token.NoPos, "role not resolved")
			return
		}
		r.Touch(core.QName(fn))
		ok := false
		for _, b := range fn.Blocks {
			for _, in := range b.Instrs {
				bo, isBo := in.(*ssa.BinOp)
				if !isBo {
					continue
				}
				_, op, c, isC := core.CmpConst(bo)
				if !isC {
					continue
				}
				exceedTrue := (op == token.GTR && c == limit) || (op == token.GEQ && c == limit+1)
				exceedFalse := (op == token.LEQ && c == limit) || (op == token.LSS && c == limit+1)
				if exceedTrue || exceedFalse {
					for _, e := range core.EdgesWhere(bo, exceedTrue) {
						if in2, _ := core.Reach(core.Point{B: e.To(), I: 0}, func(x ssa.Instruction) bool {
							ret, isRet := x.(*ssa.Return)
							return isRet && !isErrorReturn(ret)
						}, nil); in2 == nil {
							ok = true
						}
					}
				}
			}
		}
		r.Check(ok, "R3", roleName+": "+what, fn.Pos(), fmt.Sprintf("refuses more than %d", limit), fmt.Sprintf("the %s limit of %d is not enforced", what, limit))
	}
	limitCheck(asmWriter(w, "string"), "assembler symbol writer", 255, "symbol length")
	limitCheck(asmWriter(w, "uint32"), "assembler integer writer", 4, "integer width")
	limitCheck(primitiveDecoder(w, "I"), "integer decoder", 4, "integer length byte")
	// the instruction line builder writes one length byte per string argument
	if nl := anchor(w, r, "vm", "NewLine"); nl != nil {
		checkNarrowing(w, r, "R3", []*ssa.Function{nl}, "the length byte no longer describes the string behind it: the line cannot be decoded (NewLine has no way to refuse; callers must)")
	}
	checkBatchArgLimits(w, r, "R3")

	// ---- R7 -----------------------------------------------------------------------------------
	// the primitive codec computes nothing in a type that the result can leave
	{
		fns := []*ssa.Function{primitiveDecoder(w, "S"), primitiveDecoder(w, "I"), primitiveDecoder(w, "O"), asmWriter(w, "string"), asmWriter(w, "uint32"), asmWriter(w, "vm.Opcode"), w.Func("vm", "NewLine")}
		n7 := checkNarrowArithmetic(w, r, "R7", fns, "an operand is decoded or encoded with some of its bits lost")
		n7 += checkNarrowing(w, r, "R7", []*ssa.Function{primitiveDecoder(w, "S"), primitiveDecoder(w, "I"), primitiveDecoder(w, "O")}, "a decoded operand is silently replaced by its low-order bits")
		r.Floor("R7", "integer operations and conversions examined in the primitive codec", n7, 3)
	}
	// ---- R8 -----------------------------------------------------------------------------------
	checkIntDecoderTotal(w, r, "R8")
	// ---- R9 / R10 -----------------------------------------------------------------------------
	checkNewLineByteArgs(w, r, "R9")
	checkDisasmFreshBuffer(w, r, "R10")
	checkCodecNoUnsafe(w, r, "R11")
	checkNoRuneWrites(w, r, "R13")
	checkMenuBuffersDistinct(w, r, "R14")
	checkFreshLineBuffer(w, r, "R12")
	checkPrimitiveDecodersJudgeFramingOnly(w, r, "R15")
	checkAsmNumbersNotNarrowed(w, r, "R16")

	// ---- R4 -----------------------------------------------------------------------------------
	checkNoRightTrim(w, r, "R4")

	// ---- R5 -----------------------------------------------------------------------------------
	n5 := 0
	for _, fn := range w.FuncsIn("vm") {
		if !isDecoder(fn) || primitiveKind(fn) != "" {
			continue
		}
		n5++
		bad := ""
		for _, b := range fn.Blocks {
			ret, ok := b.Instrs[len(b.Instrs)-1].(*ssa.Return)
			if !ok || b == fn.Recover {
				continue
			}
			last := core.ReturnError(ret)
			if last == nil || !core.IsNilConst(last) {
				// tail calls return the callee's tuple as is; error returns are not constrained
				continue
			}
			for i, rv := range ret.Results[:len(ret.Results)-1] {
				bt, isBasic := rv.Type().Underlying().(*types.Basic)
				if !isBasic || (bt.Info()&types.IsString == 0 && bt.Info()&types.IsInteger == 0) {
					continue
				}
				for _, src := range core.Sources(rv) {
					c, _, isX := core.ExtractOf(src)
					if isX && isDecoder(core.StaticCallee(c)) {
						continue
					}
					bad = fmt.Sprintf("result %d of the success return at %s derives from %s, not from a primitive decoder", i, w.Pos(ret.Pos()), describeSource(src))
				}
			}
		}
		r.Check(bad == "", "R5", core.QName(fn)+": decoded values handed out unmodified", fn.Pos(), "success results are the primitive decoders' results", "the decoder alters a decoded argument (caps, substitutes or recomputes it): decode(encode(x)) differs from x for some x: "+bad)
	}
	r.Floor("R5", "non-primitive decoders", n5, 5)

	// ---- R6 -----------------------------------------------------------------------------------
	n6 := 0
	for _, fn := range w.FuncsIn("vm") {
		for _, c := range core.CallsTo(fn, "fmt.Sprintf") {
			call, ok := c.(*ssa.Call)
			if !ok {
				continue
			}
			// does the result reach ParseHandler.cur ?
			toCur := false
			for v := range core.Forward(call, func(cc *ssa.Call, i int) bool { return core.PkgOf(core.StaticCallee(cc)) == "vm" }) {
				if refs := v.Referrers(); refs != nil {
					for _, u := range *refs {
						if st, ok := u.(*ssa.Store); ok {
							if tn, f, ok := core.FieldOfAddr(st.Addr); ok && tn == "vm.ParseHandler" && f == "cur" {
								toCur = true
							}
						}
						if ret, ok := u.(*ssa.Return); ok && len(ret.Results) > 0 && ret.Results[0] == v && fn.Signature.Recv() != nil && core.TypeName(fn.Signature.Recv().Type()) == "*vm.ParseHandler" {
							toCur = true
						}
					}
				}
			}
			if !toCur {
				continue
			}
			n6++
			format, isConst := core.ConstString(call.Call.Args[0])
			if !isConst {
				r.Bad("R6", core.QName(fn)+": disassembler format string", call.Pos(), "the format string of a disassembler line is built from data (a symbol containing '%' is read as a formatting verb): the listing differs from the instruction")
				continue
			}
			verbs := strings.Count(strings.ReplaceAll(format, "%%", ""), "%")
			nargs := 0
			if sl, ok := call.Call.Args[1].(*ssa.Slice); ok {
				if al, ok := sl.X.(*ssa.Alloc); ok {
					if arr, ok := al.Type().Underlying().(*types.Pointer).Elem().Underlying().(*types.Array); ok {
						nargs = int(arr.Len())
					}
				}
			}
			r.Check(verbs == nargs, "R6", core.QName(fn)+": disassembler format string", call.Pos(), fmt.Sprintf("%q with %d arguments", format, nargs), fmt.Sprintf("format %q has %d verbs but %d arguments", format, verbs, nargs))
		}
	}
	r.Floor("R6", "disassembler Sprintf sites", n6, 4)
}

func isDecoderLike(f *ssa.Function) bool {
	return isDecoder(f) || (core.PkgOf(f) == "vm" && f.Signature.Recv() == nil && f.Signature.Results().Len() == 2 && len(f.Params) == 1)
}

// checkNoRightTrim: in package asm, no trimming function that can remove trailing bytes is applied
// to a buffer filled by binary.BigEndian.PutUintN, and what is written is a suffix of that buffer.
func checkNoRightTrim(w *core.World, r *core.Report, rule string) {
	n := 0
	for _, fn := range w.FuncsIn("asm") {
		bufs := map[*ssa.Alloc]bool{}
		container := func(v ssa.Value) *ssa.Alloc {
			for d := 0; d < 5 && v != nil; d++ {
				switch t := v.(type) {
				case *ssa.Alloc:
					return t
				case *ssa.Slice:
					v = t.X
				default:
					return nil
				}
			}
			return nil
		}
		for _, c := range core.Calls(fn) {
			if strings.Contains(core.CallName(c), "bigEndian).PutUint") {
				if a := container(c.Common().Args[1]); a != nil {
					bufs[a] = true
				}
			}
		}
		if len(bufs) == 0 {
			continue
		}
		for _, c := range core.Calls(fn) {
			nm := core.CallName(c)
			args := core.CallArgs(c)
			for _, a := range args {
				al := container(a)
				if al == nil || !bufs[al] {
					continue
				}
				n++
				switch {
				case strings.Contains(nm, "PutUint"), nm == "bytes.(*Buffer).Write", nm == "io.Writer.Write", nm == "bytes.TrimLeft", nm == "bytes.TrimPrefix", nm == "builtin.len", nm == "builtin.copy", nm == "builtin.append":
					r.OK(rule, fmt.Sprintf("%s: %s(integer buffer)", core.QName(fn), nm), c.Pos(), "keeps the low-order bytes")
				default:
					r.Bad(rule, fmt.Sprintf("%s: %s(integer buffer)", core.QName(fn), nm), c.Pos(),
						"the big-endian integer buffer is passed through "+nm+": a function that can drop trailing (low-order) zero bytes makes every multiple of 256 encode as a smaller number")
				}
			}
		}
		// the written slice is a suffix: Slice with no High
		for _, c := range core.CallsTo(fn, "bytes.(*Buffer).Write", "io.Writer.Write") {
			a := core.CallArgs(c)[1]
			if sl, ok := a.(*ssa.Slice); ok && bufs[container(sl)] {
				n++
				r.Check(sl.High == nil, rule, core.QName(fn)+": written slice is a suffix of the integer buffer", c.Pos(), "buf[c:]", "the bytes written are not a suffix of the big-endian buffer (low-order bytes cut off)")
			}
		}
	}
	// width helpers must not trim either
	for _, fn := range w.FuncsIn("asm") {
		for _, c := range core.Calls(fn) {
			nm := core.CallName(c)
			if nm == "bytes.Trim" || nm == "bytes.TrimRight" || nm == "bytes.TrimSuffix" || nm == "bytes.TrimSpace" || nm == "bytes.TrimFunc" || nm == "bytes.TrimRightFunc" {
				n++
				r.Bad(rule, fmt.Sprintf("%s: %s in the assembler", core.QName(fn), nm), c.Pos(), "a function that removes trailing bytes is used in the encoder: low-order zero bytes of integers are significant")
			}
		}
	}
	r.Floor(rule, "uses of the integer encoding buffer in package asm", n, 2)
}

// checkBatchArgLimits (C14 R3): the assembler's batch (menu) expansion builds its lines with
// vm.NewLine, which cannot refuse a string longer than 255 bytes. Every string that the batch
// processor stores for later expansion is therefore length-checked where it enters: in the function
// that appends to the item list, every path to the append passes the 'within 255' edge of a
// comparison of len(x) with the limit, where x ranges over the string parameters that are stored.
func checkBatchArgLimits(w *core.World, r *core.Report, rule string) {
	var adder *ssa.Function
	var store *ssa.Store
	for _, fn := range w.FuncsIn("asm") {
		for _, in := range allInstrs(fn) {
			if st, ok := in.(*ssa.Store); ok {
				if tn, f, ok := core.FieldOfAddr(st.Addr); ok && f == "items" && strings.Contains(tn, "MenuProcessor") {
					if core.IsNilConst(st.Val) {
						continue // emptying the collection after an expansion is not the adder
					}
					adder, store = fn, st
				}
			}
		}
	}
	if adder == nil {
		r.Undecided(rule, "assembler batch processor: item store", token.NoPos, "no function of package asm stores to MenuProcessor.items")
		return
	}
	r.Touch(core.QName(adder))
	// string parameters that reach the stored item
	var strParams []*ssa.Parameter
	for _, p := range adder.Params {
		if p.Type().String() == "string" {
			strParams = append(strParams, p)
		}
	}
	covered := map[ssa.Value]bool{}
	cut := core.NewCut()
	var cmpBlocks []*ssa.BasicBlock
	for _, in := range allInstrs(adder) {
		bo, ok := in.(*ssa.BinOp)
		if !ok {
			continue
		}
		x, op, c, ok := core.CmpConst(bo)
		if !ok {
			continue
		}
		var within []core.Edge
		switch {
		case op == token.GTR && c == 255, op == token.GEQ && c == 256:
			within = core.EdgesWhere(bo, false)
		case op == token.LEQ && c == 255, op == token.LSS && c == 256:
			within = core.EdgesWhere(bo, true)
		default:
			continue
		}
		lc, isCall := core.Strip(x).(*ssa.Call)
		if !isCall || !core.IsCallTo(lc, "builtin.len") {
			continue
		}
		roots, _ := core.DeepSources(lc.Call.Args[0], nil)
		for _, rt := range roots {
			covered[rt] = true
		}
		cut.AddEdge(within...)
		cmpBlocks = append(cmpBlocks, bo.Block())
	}
	bad := ""
	for _, p := range strParams {
		// only parameters that are stored matter: the batch keyword is looked up, not stored
		stored := false
		roots, _ := core.DeepSources(store.Val, nil)
		for _, rt := range roots {
			if rt == ssa.Value(p) {
				stored = true
			}
		}
		if stored && !covered[p] {
			bad = fmt.Sprintf("parameter %s is stored for expansion without a length test against 255", p.Name())
		}
	}
	if bad == "" {
		if len(cut.Edges) == 0 {
			bad = "no comparison with the limit"
		} else if ok, path := core.MustPass(store, cut); !ok {
			// a loop over the literal list of arguments: the header dominates the store and no
			// iteration gets back to the header without passing a 'within' edge
			okLoop := false
			for _, cb := range cmpBlocks {
				for h := cb; h != nil; h = h.Idom() {
					if h == cb || !h.Dominates(store.Block()) || !blockReaches(cb, h) {
						continue
					}
					loopOK := true
					for _, sc := range h.Succs {
						if !blockReaches(sc, h) {
							continue // exit edge
						}
						if hit, _ := core.Reach(core.Point{B: sc, I: 0}, func(in ssa.Instruction) bool { return in == h.Instrs[0] }, cut); hit != nil {
							loopOK = false
						}
					}
					if loopOK {
						okLoop = true
					}
					break
				}
			}
			if !okLoop {
				bad = "the item is stored on a path that never passes a 'within 255 bytes' edge: " + w.PathString(path)
			}
		}
	}
	r.Check(bad == "", rule, "assembler batch processor: arguments within the one-byte length limit", adder.Pos(), "every stored string argument is compared with 255 before it is kept",
		"a menu title, selector or target longer than 255 bytes is expanded with vm.NewLine into a line whose length byte wraps: the emitted bytecode does not decode to what was written: "+bad)
}

// blockReaches: b can reach t along CFG edges (b != t counts only through at least one edge).
func blockReaches(b, t *ssa.BasicBlock) bool {
	seen := map[*ssa.BasicBlock]bool{}
	stack := append([]*ssa.BasicBlock{}, b.Succs...)
	for len(stack) > 0 {
		x := stack[len(stack)-1]
		stack = stack[:len(stack)-1]
		if x == t {
			return true
		}
		if seen[x] {
			continue
		}
		seen[x] = true
		stack = append(stack, x.Succs...)
	}
	return false
}
