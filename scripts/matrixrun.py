"""Shared helper: apply a patch to a scratch copy of /repo (removed afterwards) and run vischeck -matrix on it."""
import os,subprocess,tempfile,shutil
def run_matrix(patch, binary='/verif/bin/vischeck'):
    S=tempfile.mkdtemp(prefix='variant.',dir='/tmp')
    try:
        os.makedirs(S+'/verif')
        subprocess.check_call(['rsync','-a','--exclude','.git','/repo/',S+'/repo/'])
        shutil.copy('/verif/known_findings.json',S+'/verif/'); open(S+'/verif/MANIFEST.json','w').write('{}')
        if patch and subprocess.run(['patch','-p1','-s','-i',patch],cwd=S+'/repo',capture_output=True).returncode!=0:
            return None,None,None
        r=subprocess.run([binary,'-matrix','-repo',S+'/repo','-verif',S+'/verif'],capture_output=True,text=True)
        res={};rules={};lines={};cur=None
        for l in r.stdout.splitlines():
            if l.startswith('##PROP '): cur=l.split()[1]; rules[cur]=set(); lines[cur]=[]
            elif l.startswith('##EXIT '): _,p,c=l.split(); res[p]=int(c)
            elif cur:
                if l.startswith('VIOLATED'): rules[cur].add(l.split()[1])
                if l.startswith(('VIOLATED','UNDECIDED','VACUOUS','ERROR')): lines[cur].append(l[:400].replace(S+'/',''))
        return res,{p:sorted(v) for p,v in rules.items()},lines
    finally:
        shutil.rmtree(S,ignore_errors=True)
