#!/bin/bash
# Runs the repository's pinned suite (guard tag OFF - no guard tag exists) and compares the set of
# passing tests with /root/.vp/BASELINE.json's stable_pass list. Exit 0 iff every baseline test passes.
# usage: baseline.sh [repo-dir]
export GOFLAGS=-mod=mod GOPROXY=off GOSUMDB=off GOTOOLCHAIN=local
unset GOWORK
REPO=${1:-/repo}
OUT=$(mktemp)
trap 'rm -f "$OUT"' EXIT
(cd "$REPO" && go test -mod=mod -json -vet=off -count=1 -timeout 25m ./... > "$OUT" 2>/dev/null)
python3 - "$OUT" <<'PY'
import json,sys
base=set(json.load(open('/root/.vp/BASELINE.json'))['stable_pass'])
passed=set(); failed=set()
for l in open(sys.argv[1]):
    try: e=json.loads(l)
    except Exception: continue
    if e.get('Test') and e.get('Action') in ('pass','fail'):
        k=e['Package']+'::'+e['Test']
        (passed if e['Action']=='pass' else failed).add(k)
missing=sorted(base-passed)
print("baseline=%d passed=%d failed=%d missing_from_pass=%d"%(len(base),len(passed),len(failed),len(missing)))
for m in missing: print("  NOT PASSING:",m)
for f in sorted(failed): print("  FAILED:",f)
sys.exit(0 if not missing and not failed else 1)
PY
