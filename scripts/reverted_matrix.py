#!/usr/bin/env python3
"""Applies the reverse of each fix: commit (selftest/reverted/*.diff) to a scratch copy of /repo and runs all
quick checks: every repaired defect must be reported again. Writes selftest/reverted/EXPECT.json."""
import os,json,subprocess,tempfile,shutil,glob,concurrent.futures
man=json.load(open('/verif/MANIFEST.json')); props=[c['property_id'] for c in man['checks']]
def run(pf):
    sid=os.path.basename(pf)[:-5]
    S=tempfile.mkdtemp(prefix='variant.',dir='/tmp')
    try:
        os.makedirs(S+'/verif'); subprocess.check_call(['rsync','-a','--exclude','.git','/repo/',S+'/repo/'])
        shutil.copy('/verif/known_findings.json',S+'/verif/'); open(S+'/verif/MANIFEST.json','w').write('{}')
        if subprocess.run(['patch','-p1','-s','-i',pf],cwd=S+'/repo',capture_output=True).returncode!=0: return sid,None
        res={}
        r=subprocess.run(['/verif/bin/vischeck','-matrix','-repo',S+'/repo','-verif',S+'/verif'],capture_output=True,text=True)
        cur=None;viol={};codes={}
        for l in r.stdout.splitlines():
            if l.startswith('##PROP '): cur=l.split()[1]; viol[cur]=set()
            elif l.startswith('##EXIT '): _,pp,c=l.split(); codes[pp]=int(c)
            elif cur and l.startswith('VIOLATED'): viol[cur].add(l.split()[1]+' '+' '.join(l.split()[2:]).split(' [')[0])
        for p in props:
            if codes.get(p,2)!=0: res[p]=sorted(viol.get(p,()))[:6] or ['exit %d'%codes.get(p,2)]
        return sid,res
    finally: shutil.rmtree(S,ignore_errors=True)
out={}
with concurrent.futures.ThreadPoolExecutor(max_workers=6) as ex:
    for sid,res in ex.map(run,sorted(glob.glob('/verif/selftest/reverted/*.diff'))):
        out[sid]=res
        print(sid, 'PATCH-FAILED' if res is None else ('NOT DETECTED' if not res else 'detected by '+', '.join(res)))
json.dump(out,open('/verif/selftest/reverted/EXPECT.json','w'),indent=1)
