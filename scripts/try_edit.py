#!/usr/bin/env python3
"""usage: try_edit.py <props,comma-separated> <file> <old> <new> [<file> <old> <new> ...]
Copies /repo to a scratch dir (outside /repo and /verif), applies exact-text substitutions, checks that
the library still builds, runs the quick checks of the properties against the copy, removes the copy."""
import sys,os,subprocess,tempfile,shutil
props=sys.argv[1].split(',')
edits=sys.argv[2:]
S=tempfile.mkdtemp(prefix='variant.',dir='/tmp')
try:
    os.makedirs(S+'/verif')
    subprocess.check_call(['rsync','-a','--exclude','.git','/repo/',S+'/repo/'])
    shutil.copy('/verif/known_findings.json',S+'/verif/')
    open(S+'/verif/MANIFEST.json','w').write('{}')
    for i in range(0,len(edits),3):
        f,old,new=edits[i:i+3]
        p=S+'/repo/'+f
        s=open(p).read()
        if old not in s:
            print('EDIT ANCHOR NOT FOUND in',f,':',old[:60]); sys.exit(3)
        open(p,'w').write(s.replace(old,new,1))
    env=dict(os.environ,GOFLAGS='-mod=mod',GOPROXY='off',GOSUMDB='off',GOTOOLCHAIN='local')
    env.pop('GOWORK',None)
    b=subprocess.run('go build ./asm ./cache ./db ./db/fs ./db/mem ./db/postgres ./engine ./lang ./logging ./persist ./render ./resource ./state ./vm',shell=True,cwd=S+'/repo',env=env,capture_output=True,text=True)
    if b.returncode!=0:
        print('VARIANT DOES NOT BUILD:\n',b.stderr[:2000]); sys.exit(4)
    rc=0
    for prop in props:
        r=subprocess.run(['/verif/bin/vischeck','-p',prop,'-repo',S+'/repo','-verif',S+'/verif'],capture_output=True,text=True)
        for l in r.stdout.splitlines():
            if l.startswith(('==','VIOLATED','VIOLATION','KNOWN','UNDECIDED','VACUOUS','ERROR','      ')):
                print(l.replace(S+'/repo/','').replace(S+'/verif','SCRATCH'))
        print('  ->',prop,'exit',r.returncode, r.stderr[:500])
        rc=max(rc,r.returncode)
    sys.exit(rc)
finally:
    shutil.rmtree(S,ignore_errors=True)
