#!/usr/bin/env python3
"""Regenerates the generated parts of /verif/DESIGN.md from the checker and the catalogues:
section 7 (vischeck -doc + open known findings + seeded changes reported, per property) and the table
of section 10 (seeded changes: change, needs, reported by)."""
import json,subprocess,re,glob,os
D='/verif/DESIGN.md'
doc=subprocess.run(['/verif/bin/vischeck','-doc'],capture_output=True,text=True).stdout
kf=json.load(open('/verif/known_findings.json'))['findings']
mx=json.load(open('/verif/seeded/MATRIX.json'))
secs=re.split(r'(?m)^(?=### C\d\d )',doc)
out=[]
for sec in secs:
    m=re.match(r'### (C\d\d) ',sec)
    if not m:
        if sec.strip(): out.append(sec)
        continue
    pid=m.group(1)
    sec=sec.rstrip()+'\n'
    opens=[f for f in kf if f['property']==pid and f['status']=='open']
    if opens:
        sec+='\n*Known findings on the current tree (reported as KNOWN-FINDING, exit 0).*\n\n'
        for f in opens:
            sec+='- `%s | %s`: %s\n'%(f['rule'],f['construct'],f['what_fails'])
    seeds=[]
    for sid in sorted(mx):
        cb=mx[sid].get('caught_by',{})
        if pid in cb: seeds.append('%s (%s)'%(sid,', '.join(cb[pid])))
    if seeds:
        sec+='\n*Seeded changes this check reports (rule ids in brackets):* '+'; '.join(seeds)+'.\n'
    out.append(sec+'\n')
s=open(D).read()
a=s.index('### C01 ',s.index('## 7. Per-property rules as built'))
b=s.index('---------------------------------------------------------------------------------------------',a)
s=s[:a]+''.join(out)+s[b:]
# section 10 table
rows=['| id | change | needs to manifest | reported by |','|---|---|---|---|']
for sid in sorted(mx):
    mp='/verif/seeded/%s/meta.json'%sid
    meta=json.load(open(mp)) if os.path.exists(mp) else {}
    cb=mx[sid].get('caught_by',{})
    rep=', '.join('%s %s'%(p,'/'.join(r)) for p,r in sorted(cb.items())) or '**not reported**'
    rows.append('| %s | %s | %s | %s |'%(sid,meta.get('change','').replace('|','\\|'),meta.get('needs_to_manifest','').replace('|','\\|'),rep))
a=s.index('| id | change | needs to manifest | reported by |')
b=s.index('\n\n',a)
s=s[:a]+'\n'.join(rows)+s[b:]
open(D,'w').write(s)
print('section 7: %d properties; section 10: %d seeds'%(len([x for x in out if x.startswith('### C')]),len(mx)))
